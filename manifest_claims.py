# one claim(...) per property that has a working check
MC = "bounded exhaustive exploration of the real implementation (hand-written explorer) against an independent reference model"

claim("C11", "model_checking", "exhaustive choice-tree enumeration of encoder inputs and call sequences; byte-equality with an independent canonical CBOR encoder",
      "Every encoder input in the stated alphabet (all head-size boundary windows, all string length classes, every permutation of every <=4-key subset of a mixed key pool, every duplicate, every call sequence up to depth 3/4) is executed on the real cbor.Encoder and compared byte-for-byte with refcbor; complete within the alphabet, small-scope beyond it.",
      "Trusted: Go toolchain/stdlib, refcbor (independent encoder/decoder written from RFC 8949). Values outside the enumerated windows are assumed to behave like in-window values of the same head-size class.",
      "DESIGN.md section 6/C11")

claim("C12", "model_checking", "exhaustive choice-tree enumeration of decoder inputs (initial byte x argument class x truncation x content x method x reader chunking) in watchdog-supervised workers; differential against an independent RFC 8949 head parser",
      "Every decode call on every input of the stated alphabet is executed on the real cbor.Decoder and must agree with refcbor on accept/reject, value and bytes consumed; complete within alphabet and chunking-deviation bound 1.",
      "Trusted: Go toolchain/stdlib, refcbor. Small-scope: argument values between the enumerated boundaries are represented by their width class.",
      "DESIGN.md section 6/C12")
