//go:build verif

// Package verifhook provides scheduling points for the verification harness
// kept under /verif. It is only active when built with the "verif" build tag.
package verifhook

// Hook, when set, is called at every Point with the name of the site.
var Hook func(site string)

// Point marks a place where a serializer touches state that could be shared.
func Point(site string) {
	if h := Hook; h != nil {
		h(site)
	}
}
