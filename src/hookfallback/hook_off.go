//go:build !verif

// Package verifhook provides scheduling points for the verification harness
// kept under /verif. Without the "verif" build tag every Point is a no-op.
package verifhook

// Point does nothing in normal builds.
func Point(string) {}
