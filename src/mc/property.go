package mc

import (
	"bufio"
	"crypto/sha256"
	"encoding/hex"
	"encoding/json"
	"fmt"
	"os"
	"path/filepath"
	"regexp"
	"strings"
	"time"
)

// Property groups the harnesses that together decide one property.
type Property struct {
	ID          string
	Level       string // "model_checking" or "fault_enumeration"
	Rule        string // how cases are enumerated and what makes one non-trivial
	Assumptions []string
	Harnesses   []*Harness
	// Guard is the vacuity guard; it may only depend on generator/reference-side
	// counters (never on what the code under test did).  A failing guard means the
	// check itself is broken (exit 2), not that the property is violated.
	Guard func(stats map[string]*Stats) error
}

// Finding is one line of known_findings.jsonl.
type Finding struct {
	Status    string `json:"status"` // "open" | "fixed"
	Property  string `json:"property"`
	Key       string `json:"key,omitempty"`
	KeyPrefix string `json:"key_prefix,omitempty"`
	Commit    string `json:"commit,omitempty"`
	What      string `json:"what"`
}

func VerifDir() string {
	if d := os.Getenv("VERIF_DIR"); d != "" {
		return d
	}
	return "/verif"
}

func loadFindings() []Finding {
	f, err := os.Open(filepath.Join(VerifDir(), "known_findings.jsonl"))
	if err != nil {
		return nil
	}
	defer f.Close()
	var out []Finding
	sc := bufio.NewScanner(f)
	sc.Buffer(make([]byte, 1<<20), 1<<24)
	for sc.Scan() {
		line := strings.TrimSpace(sc.Text())
		if line == "" || strings.HasPrefix(line, "#") {
			continue
		}
		var fd Finding
		if err := json.Unmarshal([]byte(line), &fd); err == nil {
			out = append(out, fd)
		}
	}
	return out
}

func matchOpen(fs []Finding, prop string, v *Violation) *Finding {
	for i := range fs {
		f := &fs[i]
		if f.Status != "open" || f.Property != prop {
			continue
		}
		if f.Key != "" && f.Key == v.Key {
			return f
		}
		if f.KeyPrefix != "" && strings.HasPrefix(v.Key, f.KeyPrefix) {
			return f
		}
	}
	return nil
}

type Options struct {
	Tier    string
	Seed    int64
	Self    string
	Only    string // run only the harness with this name (debugging)
	Workers int
	Verbose bool
}

// RunProperty explores every harness of p, confirms and classifies violations,
// writes the evidence file and returns the process exit code.
func RunProperty(p *Property, o Options) int {
	t0 := time.Now()
	vd := VerifDir()
	workDir := filepath.Join(vd, ".work")
	os.MkdirAll(workDir, 0755)
	evDir := filepath.Join(vd, "evidence")
	rpDir := filepath.Join(vd, "replay")
	if d := os.Getenv("VERIF_EVIDENCE_DIR"); d != "" { // selftest: keep mutant runs away from the real evidence
		evDir = d
	}
	if d := os.Getenv("VERIF_REPLAY_DIR"); d != "" {
		rpDir = d
	}
	os.MkdirAll(evDir, 0755)
	os.MkdirAll(rpDir, 0755)
	all := map[string]*Stats{}
	var order []*Stats
	for _, h := range p.Harnesses {
		if o.Only != "" && h.Name != o.Only {
			continue
		}
		th := time.Now()
		var st *Stats
		if h.Isolated {
			st = (&IsolatedExplorer{H: h, Tier: o.Tier, Seed: o.Seed, Self: o.Self, WorkDir: workDir, Workers: o.Workers}).Explore()
		} else {
			st = (&Explorer{H: h, Tier: o.Tier, Seed: o.Seed, Workers: o.Workers, Verbose: o.Verbose}).Explore()
		}
		all[h.Name] = st
		order = append(order, st)
		fmt.Printf("[%s] %-28s bound=%d execs=%d states=%d edges=%d evals=%d nontrivial=%d outcomes=%d violations=%d exhaustive=%v %.1fs\n",
			p.ID, h.Name, st.Bound, st.Executions, st.States, st.ChoiceEdges+st.Transitions, st.Evals, st.Nontrivial, len(st.Outcomes), st.NViolations, st.Exhaustive, time.Since(th).Seconds())
		if o.Verbose {
			for k, v := range st.Outcomes {
				fmt.Printf("      outcome %-40s %d\n", k, v)
			}
		}
	}
	var guardErr error
	if p.Guard != nil && o.Only == "" {
		guardErr = p.Guard(all)
	}
	findings := loadFindings()
	hmap := map[string]*Harness{}
	for _, h := range p.Harnesses {
		hmap[h.Name] = h
	}
	nviol, nknown, unstable := 0, 0, 0
	knownPrinted := map[string]bool{}
	var violLines []string
	classes := map[string]int{}
	classEx := map[string]string{}
	for _, st := range order {
		h := hmap[st.Harness]
		for vi, v := range st.Violations {
			v.Property = p.ID
			// confirm: the same vector must fail the same way every time (4 more
			// executions; for subprocess-isolated harnesses the first 12 per harness)
			stable := true
			confirmN := 4
			if h.NoConfirm || (h.Isolated && (vi >= 12 || v.Confirmed)) {
				confirmN = 0
			}
			for i := 0; i < confirmN && stable; i++ {
				var again []*Violation
				if h.Isolated {
					r := RunOne(o.Self, h, o.Tier, o.Seed, v.Vector, 4<<20, 60*time.Second)
					again = r.Viol
					if r.Crashed || r.TimedOut {
						again = []*Violation{{Key: v.Key, Observed: v.Observed}}
					}
				} else {
					_, again = RunVector(h, o.Tier, o.Seed, v.Vector, false)
				}
				found := false
				for _, a := range again {
					if a.Key == v.Key {
						found = true
					}
				}
				if !found {
					stable = false
				}
			}
			if !stable {
				// The failure was observed on the real code but did not recur when the same
				// vector was re-executed: the code under test keeps hidden state between
				// executions (a pool, a cache, a package-level buffer) or depends on map
				// iteration / timing.  That is reported as a violation (the observation is
				// real), flagged as not reproduced.
				unstable++
				v.What += " [observed once; did not recur on re-execution of the same vector: hidden state or nondeterminism in the code under test]"
				fmt.Fprintf(os.Stderr, "note property=%s harness=%s: violation %q did not reproduce on re-execution of the same vector %v\n", p.ID, st.Harness, v.Key, v.Vector)
			}
			if f := matchOpen(findings, p.ID, v); f != nil {
				nknown++
				id := f.Key + f.KeyPrefix
				if !knownPrinted[id] {
					knownPrinted[id] = true
					fmt.Printf("KNOWN-FINDING: property=%s %s\n", p.ID, f.What)
				}
				continue
			}
			nviol++
			cl := st.Harness + " | " + digitsRe.ReplaceAllString(v.What, "#")
			classes[cl]++
			if classEx[cl] == "" {
				classEx[cl] = v.Key
			}
			sum := sha256.Sum256([]byte(v.Harness + "\x00" + v.Key))
			path := filepath.Join(rpDir, fmt.Sprintf("%s-%s.json", p.ID, hex.EncodeToString(sum[:6])))
			rf := map[string]interface{}{"property": p.ID, "harness": v.Harness, "tier": o.Tier, "seed": o.Seed, "violation": v}
			b, _ := json.MarshalIndent(rf, "", " ")
			os.WriteFile(path, b, 0644)
			if len(violLines) < 25 {
				violLines = append(violLines, fmt.Sprintf("VIOLATION property=%s replay=%s", p.ID, path))
			}
			if classes[cl] <= 2 {
				fmt.Printf("  violation: %s | %s\n    input:    %s\n    expected: %s\n    observed: %s\n", v.Key, v.What, clipN(v.Input, 300), clipN(v.Expected, 300), clipN(v.Observed, 300))
			}
		}
	}
	// evidence
	var states, trans, traces, evals, nontriv, execs int64
	exhaustive := true
	outcomes := map[string]int64{}
	var samples []interface{}
	bounds := map[string]int{}
	var totalViol int64
	for _, st := range order {
		states += st.States
		trans += st.ChoiceEdges + st.Transitions
		if st.Traces == 0 {
			st.Traces = st.Executions
		}
		traces += st.Traces
		if st.Evals == 0 {
			st.Evals = st.Executions
		}
		evals += st.Evals
		execs += st.Executions
		nontriv += st.Nontrivial
		totalViol += st.NViolations
		if !st.Exhaustive {
			exhaustive = false
		}
		for k, v := range st.Outcomes {
			outcomes[st.Harness+": "+k] = v
		}
		for i, s := range st.Samples {
			if i < 3 {
				samples = append(samples, map[string]interface{}{"harness": st.Harness, "case": s})
			}
		}
		bounds[st.Harness] = st.Bound
	}
	if len(samples) == 0 {
		samples = append(samples, "no samples recorded")
	}
	ev := map[string]interface{}{
		"property_id": p.ID,
		"tier":        o.Tier,
		"seed":        o.Seed,
		"level":       p.Level,
		"coverage": map[string]interface{}{
			"states":                        states,
			"transitions":                   trans,
			"traces_validated_against_impl": traces,
			"executions":                    execs,
			"evaluations":                   evals,
			"distinct_nontrivial":           nontriv,
			"rule":                          p.Rule,
			"samples":                       samples,
			"exhaustive":                    exhaustive,
			"deviation_bound_completed":     bounds,
			"outcome_histogram":             outcomes,
			"harnesses":                     order,
			"explanation":                   "every count is measured by the explorer on this run; every execution is a run of the real implementation compared with the reference model (no separate model whose traces need replaying)",
		},
		"assumptions":          p.Assumptions,
		"wall_s":               time.Since(t0).Seconds(),
		"violations":           nviol,
		"violating_executions": totalViol,
		"known_findings_hit":   nknown,
	}
	if o.Only == "" {
		b, _ := json.MarshalIndent(ev, "", " ")
		if err := os.WriteFile(filepath.Join(evDir, p.ID+".json"), b, 0644); err != nil {
			fmt.Fprintln(os.Stderr, "cannot write evidence:", err)
			return 2
		}
	}
	for cl, n := range classes {
		fmt.Printf("  violation class: %d distinct failing cases (of those kept) | %s | e.g. %s\n", n, cl, clipN(classEx[cl], 200))
	}
	for _, l := range violLines {
		fmt.Println(l)
	}
	fmt.Printf("[%s] tier=%s states=%d transitions=%d traces=%d nontrivial=%d exhaustive=%v violations=%d known=%d wall=%.1fs\n",
		p.ID, o.Tier, states, trans, traces, nontriv, exhaustive, nviol, nknown, time.Since(t0).Seconds())
	if nviol > 0 {
		return 1
	}
	for _, st := range order {
		name := st.Harness
		if n := st.Caps[CapDiverged]; n > 0 {
			// nothing violated, but some executions did not replay their prefix: nondeterminism that is not captured
			fmt.Fprintf(os.Stderr, "CHECK-BROKEN property=%s nondeterminism: %d executions of %s diverged from their prefix\n", p.ID, n, name)
			return 2
		}
	}
	if guardErr != nil {
		// nothing violated, but the exploration was too thin to mean anything
		fmt.Fprintf(os.Stderr, "CHECK-BROKEN property=%s vacuity guard: %v\n", p.ID, guardErr)
		return 2
	}
	return 0
}

var digitsRe = regexp.MustCompile(`[0-9]+`)

// ClassOf normalises a violation description into its class (digits masked).
func ClassOf(what string) string { return digitsRe.ReplaceAllString(what, "#") }

func clipN(s string, n int) string {
	if len(s) > n {
		return s[:n] + "..."
	}
	return s
}

// Replay re-executes the single case recorded in a replay file, without the
// explorer, and reports whether the violation reproduces.
func Replay(props map[string]*Property, self, path string) int {
	b, err := os.ReadFile(path)
	if err != nil {
		fmt.Fprintln(os.Stderr, err)
		return 2
	}
	var rf struct {
		Property  string
		Harness   string
		Tier      string
		Seed      int64
		Violation Violation
	}
	if err := json.Unmarshal(b, &rf); err != nil {
		fmt.Fprintln(os.Stderr, err)
		return 2
	}
	p := props[rf.Property]
	if p == nil {
		fmt.Fprintln(os.Stderr, "unknown property", rf.Property)
		return 2
	}
	for _, h := range p.Harnesses {
		if h.Name != rf.Harness {
			continue
		}
		var viol []*Violation
		if h.Isolated {
			r := RunOne(self, h, rf.Tier, rf.Seed, rf.Violation.Vector, 4<<20, 60*time.Second)
			viol = r.Viol
			if r.Crashed || r.TimedOut {
				fmt.Printf("replay: case crashed=%v timedout=%v\n%s\n", r.Crashed, r.TimedOut, tailLines(r.Stderr, 10))
				fmt.Printf("VIOLATION property=%s replay=%s\n", rf.Property, path)
				return 1
			}
		} else {
			_, viol = RunVector(h, rf.Tier, rf.Seed, rf.Violation.Vector, true)
		}
		for _, v := range viol {
			fmt.Printf("replay: %s | %s\n  input:    %s\n  expected: %s\n  observed: %s\n", v.Key, v.What, clipN(v.Input, 600), clipN(v.Expected, 600), clipN(v.Observed, 600))
		}
		if len(viol) > 0 {
			fmt.Printf("VIOLATION property=%s replay=%s\n", rf.Property, path)
			return 1
		}
		fmt.Println("replay: the recorded case no longer violates the property")
		return 0
	}
	fmt.Fprintln(os.Stderr, "unknown harness", rf.Harness)
	return 2
}
