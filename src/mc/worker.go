package mc

// Isolated exploration: the choice tree of harness.Gen is enumerated by N worker
// subprocesses (each enumerates the whole, cheap, generator tree deterministically
// and executes the cases of its shard).  Before executing a case the worker stores
// its sequence number and choice vector in a shared memory-mapped heartbeat file, so
// a crash (fatal error, out of memory under ulimit -v, stack overflow) or a hang is
// attributed to exactly that case by the parent, which then restarts the worker
// after the last checkpoint with the culprit skipped.

import (
	"bufio"
	"encoding/binary"
	"encoding/json"
	"fmt"
	"os"
	"os/exec"
	"path/filepath"
	"runtime"
	"runtime/debug"
	"sort"
	"strconv"
	"strings"
	"sync"
	"syscall"
	"time"
)

const hbSize = 4096

type heartbeat struct {
	f   *os.File
	mem []byte
}

func openHeartbeat(path string, create bool) (*heartbeat, error) {
	flag := os.O_RDWR
	if create {
		flag |= os.O_CREATE | os.O_TRUNC
	}
	f, err := os.OpenFile(path, flag, 0644)
	if err != nil {
		return nil, err
	}
	if create {
		if err := f.Truncate(hbSize); err != nil {
			return nil, err
		}
	}
	mem, err := syscall.Mmap(int(f.Fd()), 0, hbSize, syscall.PROT_READ|syscall.PROT_WRITE, syscall.MAP_SHARED)
	if err != nil {
		return nil, err
	}
	return &heartbeat{f: f, mem: mem}, nil
}

func (h *heartbeat) set(seq int64, vec []Point, phase byte) {
	n := len(vec)
	if n > 900 {
		n = 900
	}
	binary.LittleEndian.PutUint32(h.mem[20:], uint32(n))
	for i := 0; i < n; i++ {
		binary.LittleEndian.PutUint32(h.mem[24+4*i:], uint32(vec[i].Pick))
	}
	binary.LittleEndian.PutUint64(h.mem[8:], uint64(time.Now().UnixNano()))
	h.mem[16] = phase
	binary.LittleEndian.PutUint64(h.mem[0:], uint64(seq))
}

func (h *heartbeat) setVec(seq int64, vec []int, phase byte) {
	pts := make([]Point, len(vec))
	for i, v := range vec {
		pts[i].Pick = v
	}
	h.set(seq, pts, phase)
}

func (h *heartbeat) get() (seq int64, start int64, phase byte, vec []int) {
	seq = int64(binary.LittleEndian.Uint64(h.mem[0:]))
	start = int64(binary.LittleEndian.Uint64(h.mem[8:]))
	phase = h.mem[16]
	n := int(binary.LittleEndian.Uint32(h.mem[20:]))
	if n > 900 {
		n = 900
	}
	for i := 0; i < n; i++ {
		vec = append(vec, int(binary.LittleEndian.Uint32(h.mem[24+4*i:])))
	}
	return
}

func (h *heartbeat) close() {
	syscall.Munmap(h.mem)
	h.f.Close()
}

type workerMsg struct {
	Kind      string     `json:"kind"` // "viol" | "ckpt" | "done"
	Violation *Violation `json:"violation,omitempty"`
	Seq       int64      `json:"seq,omitempty"`
	Stats     *wireStats `json:"stats,omitempty"`
}

type wireStats struct {
	Execs, Edges, Evals, Transitions, Traces, StatesCounted, NontrivCounted int64
	States, Nontriv                                                         []uint64
	Outcomes, Caps                                                          map[string]int64
	Samples                                                                 []interface{}
	MaxDepth, MaxDevs                                                       int
	Generated                                                               int64
}

// toWire drains the statistics accumulated since the previous message (every message carries a
// delta; the parent merges each one as it arrives, so nothing is sent twice).
func toWire(l *localStats, generated int64) *wireStats {
	w := &wireStats{Execs: l.execs, Edges: l.edges, Evals: l.evals, Transitions: l.transitions, Traces: l.traces,
		StatesCounted: l.statesCounted, NontrivCounted: l.nontrivCounted, Outcomes: l.outcomes, Caps: l.caps,
		Samples: l.samples, MaxDepth: l.maxDepth, MaxDevs: l.maxDevs, Generated: generated}
	for k := range l.states {
		w.States = append(w.States, k)
	}
	for k := range l.nontriv {
		w.Nontriv = append(w.Nontriv, k)
	}
	// reset: the next message starts from zero
	l.execs, l.edges, l.evals, l.transitions, l.traces, l.statesCounted, l.nontrivCounted = 0, 0, 0, 0, 0, 0, 0
	l.states, l.nontriv = map[uint64]struct{}{}, map[uint64]struct{}{}
	l.outcomes, l.caps = map[string]int64{}, map[string]int64{}
	l.samples = nil
	return w
}

// WorkerMain is the entry point of a worker subprocess.
//
//	worker <harness> <tier> <seed> <shard> <nshards> <resumeAfter> <hbfile> <skipcsv>
func WorkerMain(h *Harness, args []string) {
	tier := args[0]
	seed, _ := strconv.ParseInt(args[1], 10, 64)
	shard, _ := strconv.Atoi(args[2])
	nshards, _ := strconv.Atoi(args[3])
	resumeAfter, _ := strconv.ParseInt(args[4], 10, 64)
	hb, err := openHeartbeat(args[5], false)
	if err != nil {
		fmt.Fprintln(os.Stderr, "worker: heartbeat:", err)
		os.Exit(3)
	}
	skip := map[int64]bool{}
	if len(args) > 6 && args[6] != "" {
		for _, s := range strings.Split(args[6], ",") {
			v, _ := strconv.ParseInt(s, 10, 64)
			skip[v] = true
		}
	}
	debug.SetMaxStack(256 << 20)
	runtime.GOMAXPROCS(2)
	out := bufio.NewWriterSize(os.Stdout, 1<<16)
	enc := json.NewEncoder(out)
	bound := 0
	if h.Bound != nil {
		bound = h.Bound(tier)
	}
	ls := newLocalStats()
	stack := [][]int{{}}
	var seq int64 // counts the cases owned by this shard, in deterministic DFS order
	sinceCkpt := 0
	violSeen := map[string]bool{}
	violClass := map[string]int{}
	var suppressed int64
	_ = suppressed
	discard := newLocalStats()
	discardN := 0
	// Ownership: a node whose prefix has at least shardDepth choices belongs to the
	// shard selected by a hash of its first shardDepth choices, and so does its
	// whole subtree (other workers do not even generate it).  Shallower nodes are
	// generated by every worker (to discover their children) and executed by
	// shard 0 only.
	const shardDepth = 3
	owner := func(prefix []int) (int, bool) {
		if len(prefix) < shardDepth {
			return 0, false
		}
		hsh := uint64(1469598103934665603)
		for _, v := range prefix[:shardDepth] {
			hsh = (hsh ^ uint64(v)) * 1099511628211
		}
		return int(hsh % uint64(nshards)), true
	}
	for len(stack) > 0 {
		prefix := stack[len(stack)-1]
		stack = stack[:len(stack)-1]
		own, deep := owner(prefix)
		if deep && own != shard {
			continue // another worker owns this whole subtree
		}
		mine := own == shard
		c := &Ctx{Tier: tier, Seed: seed, prefix: prefix, st: ls, h: h}
		live := mine && seq > resumeAfter && !skip[seq]
		if !live {
			// discard generator-side statistics of cases not executed here
			if discardN++; discardN%100000 == 0 {
				discard = newLocalStats()
			}
			c.st = discard
		}
		var cs interface{}
		if h.Gen != nil {
			cs = h.Gen(c)
		} else {
			// Run-form harness (choices are made while the code under test runs, e.g.
			// schedules): the whole execution happens here, also for nodes this worker
			// only needs the trace of.
			if live {
				hb.setVec(seq, prefix, 1)
			}
			h.Run(c)
			if live {
				hb.set(seq, c.trace, 0)
			}
		}
		if len(c.trace) < len(prefix) && len(c.viol) == 0 {
			fmt.Fprintf(os.Stderr, "mc: FATAL nondeterminism in generator (harness %s)\n", h.Name)
			os.Exit(2)
		}
		if live {
			if cs != nil {
				hb.set(seq, c.trace, 1)
				h.Exec(c, cs)
				hb.set(seq, c.trace, 0)
			}
			ls.execs++
			nb := len(prefix) - 1
			if nb < 0 {
				nb = 0
			}
			ls.edges += int64(len(c.trace) - nb)
			if len(c.trace) > ls.maxDepth {
				ls.maxDepth = len(c.trace)
			}
			if d := c.Devs(); d > ls.maxDevs {
				ls.maxDevs = d
			}
			for _, v := range c.viol {
				if violSeen[v.Key] || violClass[ClassOf(v.What)] >= 25 {
					if !violSeen[v.Key] {
						suppressed++
					}
					continue
				}
				violSeen[v.Key] = true
				violClass[ClassOf(v.What)]++
				v.Vector = c.Vector()
				v.Labels = c.labels()
				v.Harness = h.Name
				v.Seq = seq
				enc.Encode(&workerMsg{Kind: "viol", Violation: v})
				out.Flush()
			}
			sinceCkpt++
			if sinceCkpt >= 50000 || len(ls.states)+len(ls.nontriv) > 400000 {
				sinceCkpt = 0
				enc.Encode(&workerMsg{Kind: "ckpt", Seq: seq, Stats: toWire(ls, seq)})
				out.Flush()
			}
			if ls.restart {
				// checkpoint and hand over to a fresh process (requested by the harness)
				enc.Encode(&workerMsg{Kind: "restart", Seq: seq, Stats: toWire(ls, seq)})
				out.Flush()
				hb.close()
				os.Exit(0)
			}
		}
		stack = append(stack, children(prefix, c.trace, bound)...)
		if mine {
			seq++
		}
	}
	enc.Encode(&workerMsg{Kind: "done", Seq: seq, Stats: toWire(ls, seq)})
	out.Flush()
	hb.close()
}

// OneMain runs a single vector in a worker subprocess and prints its violations.
//
//	one <harness> <tier> <seed> <vector-json>
func OneMain(h *Harness, args []string) {
	tier := args[0]
	seed, _ := strconv.ParseInt(args[1], 10, 64)
	var vec []int
	if err := json.Unmarshal([]byte(args[2]), &vec); err != nil {
		fmt.Fprintln(os.Stderr, "one: bad vector:", err)
		os.Exit(3)
	}
	debug.SetMaxStack(256 << 20)
	c, viol := RunVector(h, tier, seed, vec, true)
	_ = c
	enc := json.NewEncoder(os.Stdout)
	for _, v := range viol {
		enc.Encode(&workerMsg{Kind: "viol", Violation: v})
	}
	enc.Encode(&workerMsg{Kind: "done"})
}

// IsolatedExplorer is the parent side.
type IsolatedExplorer struct {
	H        *Harness
	Tier     string
	Seed     int64
	Workers  int
	Self     string // path of the harness binary
	WorkDir  string
	MemKB    int64         // ulimit -v for workers, in KiB
	CaseTime time.Duration // a case that runs longer is a suspected hang
}

type oneResult struct {
	Viol     []*Violation
	Crashed  bool
	TimedOut bool
	Stderr   string
}

// RunOne executes one vector in a fresh subprocess with a deadline.
func RunOne(self string, h *Harness, tier string, seed int64, vec []int, memKB int64, deadline time.Duration) *oneResult {
	vj, _ := json.Marshal(vec)
	cmd := exec.Command("sh", "-c", fmt.Sprintf("ulimit -v %d; exec \"$0\" \"$@\"", memKB), self, "one", h.Name, tier, strconv.FormatInt(seed, 10), string(vj))
	var outb, errb strings.Builder
	cmd.Stdout = &outb
	cmd.Stderr = &errb
	res := &oneResult{}
	if err := cmd.Start(); err != nil {
		res.Crashed = true
		res.Stderr = err.Error()
		return res
	}
	done := make(chan error, 1)
	go func() { done <- cmd.Wait() }()
	select {
	case err := <-done:
		if err != nil {
			res.Crashed = true
		}
	case <-time.After(deadline):
		cmd.Process.Kill()
		<-done
		res.TimedOut = true
	}
	res.Stderr = errb.String()
	sc := bufio.NewScanner(strings.NewReader(outb.String()))
	sc.Buffer(make([]byte, 1<<20), 1<<26)
	for sc.Scan() {
		var m workerMsg
		if json.Unmarshal(sc.Bytes(), &m) == nil && m.Kind == "viol" {
			res.Viol = append(res.Viol, m.Violation)
		}
	}
	return res
}

func tailLines(s string, n int) string {
	lines := strings.Split(strings.TrimRight(s, "\n"), "\n")
	if len(lines) > n {
		lines = lines[:n]
	}
	return strings.Join(lines, "\n")
}

func (e *IsolatedExplorer) Explore() *Stats {
	h := e.H
	nw := e.Workers
	if nw <= 0 {
		nw = runtime.NumCPU()
	}
	if h.Serial {
		nw = 1
	}
	if e.MemKB == 0 {
		e.MemKB = 4 << 20
	}
	if e.CaseTime == 0 {
		e.CaseTime = 10 * time.Second
	}
	bound := 0
	if h.Bound != nil {
		bound = h.Bound(e.Tier)
	}
	st := &Stats{Harness: h.Name, Tier: e.Tier, Mode: "choice-tree DFS over the generator, cases executed in watchdog-supervised worker subprocesses", Bound: bound,
		Outcomes: map[string]int64{}, Caps: map[string]int64{}, Exhaustive: true}
	states := map[uint64]struct{}{}
	nontriv := map[uint64]struct{}{}
	var mu sync.Mutex
	violSeen := map[string]bool{}
	violClass := map[string]int{}
	addViol := func(v *Violation) {
		mu.Lock()
		defer mu.Unlock()
		st.NViolations++
		if !violSeen[v.Key] && len(st.Violations) < 400 && violClass[ClassOf(v.What)] < 25 {
			violSeen[v.Key] = true
			violClass[ClassOf(v.What)]++
			st.Violations = append(st.Violations, v)
		}
	}
	crashBudget := 40
	var wg sync.WaitGroup
	for sh := 0; sh < nw; sh++ {
		wg.Add(1)
		go func(shard int) {
			defer wg.Done()
			hbPath := filepath.Join(e.WorkDir, fmt.Sprintf("hb-%s-%d-%d", strings.ReplaceAll(h.Name, "/", "_"), os.Getpid(), shard))
			hb, err := openHeartbeat(hbPath, true)
			if err != nil {
				fmt.Fprintln(os.Stderr, "mc: heartbeat:", err)
				os.Exit(2)
			}
			defer os.Remove(hbPath)
			defer hb.close()
			resumeAfter := int64(-1)
			var skips []string
			for {
				hb.set(-1, nil, 0)
				cmd := exec.Command("sh", "-c", fmt.Sprintf("ulimit -v %d; exec \"$0\" \"$@\"", e.MemKB), e.Self, "worker", h.Name, e.Tier,
					strconv.FormatInt(e.Seed, 10), strconv.Itoa(shard), strconv.Itoa(nw), strconv.FormatInt(resumeAfter, 10), hbPath, strings.Join(skips, ","))
				stdout, _ := cmd.StdoutPipe()
				var errb strings.Builder
				cmd.Stderr = &errb
				if err := cmd.Start(); err != nil {
					fmt.Fprintln(os.Stderr, "mc: cannot start worker:", err)
					os.Exit(2)
				}
				var lastSeq int64 = resumeAfter
				finished := false
				restartReq := false
				readDone := make(chan struct{})
				go func() {
					defer close(readDone)
					sc := bufio.NewScanner(stdout)
					sc.Buffer(make([]byte, 1<<20), 1<<28)
					for sc.Scan() {
						var m workerMsg
						if err := json.Unmarshal(sc.Bytes(), &m); err != nil {
							continue
						}
						switch m.Kind {
						case "viol":
							addViol(m.Violation)
						case "ckpt", "done", "restart":
							// every message carries the delta since the previous one: merge it now; a
							// restart resumes after lastSeq, so nothing is counted twice
							mu.Lock()
							mergeWire(st, m.Stats, states, nontriv)
							mu.Unlock()
							lastSeq = m.Seq
							if m.Kind == "done" {
								finished = true
							}
							if m.Kind == "restart" {
								restartReq = true
							}
						}
					}
				}()
				// watchdog
				killed := false
				waitDone := make(chan struct{})
				go func() {
					tick := time.NewTicker(250 * time.Millisecond)
					defer tick.Stop()
					for {
						select {
						case <-waitDone:
							return
						case <-tick.C:
							_, start, phase, _ := hb.get()
							if phase == 1 && time.Since(time.Unix(0, start)) > e.CaseTime {
								killed = true
								cmd.Process.Kill()
								return
							}
						}
					}
				}()
				<-readDone
				werr := cmd.Wait()
				close(waitDone)
				if finished && werr == nil {
					return
				}
				if restartReq && werr == nil {
					resumeAfter = lastSeq
					continue
				}
				if werr != nil && strings.Contains(errb.String(), "FATAL nondeterminism") {
					fmt.Fprint(os.Stderr, errb.String())
					os.Exit(2)
				}
				// crash or hang: attribute to the case in the heartbeat
				seq, _, phase, vec := hb.get()
				if phase != 1 || seq < 0 {
					fmt.Fprintf(os.Stderr, "mc: worker for %s died outside a case (exit %v):\n%s\n", h.Name, werr, tailLines(errb.String(), 30))
					os.Exit(2)
				}
				what := "worker crashed (fatal error / out of memory / stack overflow)"
				if killed {
					what = fmt.Sprintf("no result within %v: suspected non-termination", e.CaseTime)
				}
				// confirm by re-running the single case alone with a long deadline
				r := RunOne(e.Self, h, e.Tier, e.Seed, vec, e.MemKB, 3*e.CaseTime)
				if r.Crashed || r.TimedOut {
					obs := "crash: " + tailLines(r.Stderr, 6)
					if r.TimedOut {
						obs = fmt.Sprintf("did not return within %v", 3*e.CaseTime)
					}
					key := fmt.Sprintf("%s:vec=%v", h.Name, vec)
					v := &Violation{Harness: h.Name, Key: key, What: what, Vector: vec, Observed: obs, Seq: seq, Confirmed: true}
					// let the harness describe the case
					if h.Gen != nil {
						// generators are written for one goroutine per process (workers); several shards
						// may report crashes at the same moment, so the parent runs them one at a time
						describeMu.Lock()
						c := &Ctx{Tier: e.Tier, Seed: e.Seed, prefix: vec, st: newLocalStats(), h: h}
						cs := h.Gen(c)
						v.Labels = c.labels()
						if h.Describe != nil && cs != nil {
							v.Input = clip(h.Describe(cs))
							if k := caseKey(cs); k != "" {
								v.Key = k
							}
						}
						describeMu.Unlock()
					}
					addViol(v)
				} else {
					mu.Lock()
					st.Notes = append(st.Notes, fmt.Sprintf("case seq=%d crashed or stalled in the batch worker but ran fine alone (%s); treated as transient", seq, what))
					mu.Unlock()
				}
				mu.Lock()
				crashBudget--
				exhausted := crashBudget < 0
				mu.Unlock()
				if exhausted {
					mu.Lock()
					st.Caps["crash_budget_exhausted"]++
					mu.Unlock()
					return
				}
				skips = append(skips, strconv.FormatInt(seq, 10))
				resumeAfter = lastSeq // restart after the last checkpoint
			}
		}(sh)
	}
	wg.Wait()
	st.States += int64(len(states))
	st.Nontrivial += int64(len(nontriv))
	if len(st.Caps) > 0 {
		st.Exhaustive = false
	}
	sort.Slice(st.Violations, func(i, j int) bool { return st.Violations[i].Key < st.Violations[j].Key })
	return st
}

// describeMu serializes parent-side calls of a harness's generator (see Explore).
var describeMu sync.Mutex

// Keyed lets a generated case provide the stable key used for violations raised
// by the parent (crash / hang), so that they match known-findings entries.
type Keyed interface{ CaseKey() string }

func caseKey(cs interface{}) string {
	if k, ok := cs.(Keyed); ok {
		return k.CaseKey()
	}
	return ""
}

func mergeWire(st *Stats, w *wireStats, states, nontriv map[uint64]struct{}) {
	if w == nil {
		return
	}
	st.Executions += w.Execs
	st.ChoiceEdges += w.Edges
	st.Evals += w.Evals
	st.Transitions += w.Transitions
	st.Traces += w.Traces
	st.States += w.StatesCounted
	st.Nontrivial += w.NontrivCounted
	for _, k := range w.States {
		states[k] = struct{}{}
	}
	for _, k := range w.Nontriv {
		nontriv[k] = struct{}{}
	}
	for k, v := range w.Outcomes {
		st.Outcomes[k] += v
	}
	for k, v := range w.Caps {
		st.Caps[k] += v
	}
	for _, x := range w.Samples {
		if len(st.Samples) < 8 {
			st.Samples = append(st.Samples, x)
		}
	}
	if w.MaxDepth > st.MaxDepth {
		st.MaxDepth = w.MaxDepth
	}
	if w.MaxDevs > st.MaxDevs {
		st.MaxDevs = w.MaxDevs
	}
}
