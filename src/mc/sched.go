package mc

// Mode 3: a cooperative scheduler.  Logical threads are goroutines handed a baton
// so that exactly one runs at a time; a thread yields at every hooked operation
// (verifhook.Point in the code under test, every Write/Read of harness-owned
// writers/readers, thread start).  At each scheduling point the enabled set is in
// canonical order (the running thread first if it is still enabled, then ascending
// ids); switching away from a still-enabled thread costs one preemption (a
// deviation of the enclosing choice-tree exploration), so the engine's deviation
// bound is the preemption bound.  There is no blocking in the code under test,
// hence no deadlock analysis: every execution runs until all threads finished.

import (
	"fmt"
	"runtime/debug"
)

type schedThread struct {
	id     int
	resume chan struct{}
	done   bool
	panic  string
	steps  int
}

// Sched runs one interleaving.
type Sched struct {
	c       *Ctx
	threads []*schedThread
	running int
	ev      chan int
	Trace   []string // "thread@site" of every scheduling decision (for replay files)
	active  bool
}

// Yield is called (through the hook and the harness-owned writers) by the thread
// that currently holds the baton.
func (s *Sched) Yield(site string) {
	if s == nil || !s.active {
		return
	}
	t := s.threads[s.running]
	t.steps++
	s.ev <- t.id
	<-t.resume
}

// RunThreads executes bodies as logical threads under the scheduler and returns
// the panic message of each thread ("" = none).
func RunThreads(c *Ctx, s *Sched, bodies []func()) []string {
	s.c = c
	s.ev = make(chan int)
	s.threads = nil
	for i := range bodies {
		s.threads = append(s.threads, &schedThread{id: i, resume: make(chan struct{})})
	}
	for i := range bodies {
		t := s.threads[i]
		body := bodies[i]
		go func() {
			<-t.resume
			defer func() {
				if p := recover(); p != nil {
					t.panic = fmt.Sprintf("%v\n%s", p, debug.Stack())
				}
				t.done = true
				s.ev <- t.id
			}()
			body()
		}()
	}
	s.active = true
	s.running = -1
	for {
		var enabled []int
		if s.running >= 0 && !s.threads[s.running].done {
			enabled = append(enabled, s.running)
		}
		for _, t := range s.threads {
			if !t.done && t.id != s.running {
				enabled = append(enabled, t.id)
			}
		}
		if len(enabled) == 0 {
			break
		}
		pick := 0
		if len(enabled) > 1 {
			if s.running >= 0 && !s.threads[s.running].done {
				pick = c.Dev(len(enabled), "sched") // leaving a runnable thread = preemption
			} else {
				pick = c.Free(len(enabled), "sched")
			}
		}
		s.running = enabled[pick]
		t := s.threads[s.running]
		t.resume <- struct{}{}
		<-s.ev
	}
	s.active = false
	out := make([]string, len(bodies))
	for i, t := range s.threads {
		out[i] = t.panic
	}
	return out
}
