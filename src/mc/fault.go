package mc

// Environment models: the only fault seam the code under test has is
// io.Writer / io.Reader, which a harness owns without any source rewriting.
//
//   FaultWriter  accepts exactly K bytes, then fails (four delivery modes, with or
//                without io.ReaderFrom); records every accepted byte.
//   ChunkReader  answers each Read with a chosen amount (all requested, 1 byte,
//                (n, io.EOF) together at the end, early EOF, injected error).
//
// Neither type is safe for concurrent use: one instance belongs to one execution.

import (
	"errors"
	"io"
)

// ErrInjected is the default error returned by FaultWriter / ChunkReader faults.
var ErrInjected = errors.New("mc: injected I/O fault")

// FaultWriter is an io.Writer that accepts exactly K bytes in total and fails the
// call that would take it beyond K.
//
//	Short == false  the offending call is refused as a whole: (0, Err)
//	Short == true   the offending call accepts the part up to K: (n < len(p), Err)
//	Transient == false (sticky)  every call after the offending one fails too: (0, Err)
//	Transient == true            only the offending call fails, later calls are
//	                             accepted without limit.  Needed because with a sticky
//	                             fault a dropped error check is masked by the next,
//	                             checked, write failing as well.
//
// A call fails iff it would make the accepted total exceed K, so zero-length
// writes never trip the fault (K = len(output) is therefore a genuine no-fault
// control even for serializers that end with an empty Write); once a sticky fault
// has tripped, zero-length writes fail like any other call.
//
// Writers returning n < len(p) with a nil error violate the io.Writer contract and
// are deliberately not modelled.
//
// *FaultWriter does NOT implement io.ReaderFrom; wrap it with WithReaderFrom (or
// use Writer(true)) to get a destination that does, honouring the same fault
// position.
type FaultWriter struct {
	K         int
	Short     bool
	Transient bool
	Err       error // error to return; ErrInjected when nil
	// RFChunk is the buffer size the ReaderFrom variant reads with (default 64).
	RFChunk int

	acc       []byte
	calls     int // Write and ReadFrom calls received
	rfCalls   int // of which ReadFrom
	failed    int // calls that returned an error
	tripped   bool
	firstFail int // len(acc) when the first failing call returned (valid when failed > 0)
}

// NewFaultWriter returns a destination that accepts exactly k bytes.
func NewFaultWriter(k int, short, transient bool) *FaultWriter {
	return &FaultWriter{K: k, Short: short, Transient: transient}
}

func (f *FaultWriter) err() error {
	if f.Err != nil {
		return f.Err
	}
	return ErrInjected
}

func (f *FaultWriter) fail() {
	f.failed++
	if f.failed == 1 {
		f.firstFail = len(f.acc)
	}
}

// write applies the fault model to one chunk; it does not count a call.
func (f *FaultWriter) write(p []byte) (int, error) {
	if f.tripped && !f.Transient {
		return 0, f.err()
	}
	if !f.tripped && len(f.acc)+len(p) > f.K {
		f.tripped = true
		n := 0
		if f.Short {
			n = f.K - len(f.acc)
			f.acc = append(f.acc, p[:n]...)
		}
		return n, f.err()
	}
	f.acc = append(f.acc, p...)
	return len(p), nil
}

// Write implements io.Writer.
func (f *FaultWriter) Write(p []byte) (int, error) {
	f.calls++
	n, err := f.write(p)
	if err != nil {
		f.fail()
	}
	return n, err
}

// Accepted returns every byte the destination accepted, in order (in transient
// mode this includes bytes accepted after the failed call).
func (f *FaultWriter) Accepted() []byte { return f.acc }

// AcceptedAtFirstFailure returns the bytes accepted up to and including the partial
// part of the first failing call, or everything accepted when no call failed.
func (f *FaultWriter) AcceptedAtFirstFailure() []byte {
	if f.failed == 0 || f.firstFail > len(f.acc) {
		return f.acc
	}
	return f.acc[:f.firstFail]
}

// Calls is the number of Write / ReadFrom calls received.
func (f *FaultWriter) Calls() int { return f.calls }

// ReadFromCalls is the number of ReadFrom calls received (always 0 on the plain view).
func (f *FaultWriter) ReadFromCalls() int { return f.rfCalls }

// Failures is the number of calls that returned an error.
func (f *FaultWriter) Failures() int { return f.failed }

// Tripped reports whether the fault position was crossed.
func (f *FaultWriter) Tripped() bool { return f.tripped }

// FaultWriterRF is a FaultWriter that additionally implements io.ReaderFrom (like
// *bytes.Buffer or *os.File do), honouring the same fault position.
type FaultWriterRF struct{ *FaultWriter }

// WithReaderFrom returns the io.ReaderFrom-capable view of f (same state).
func (f *FaultWriter) WithReaderFrom() FaultWriterRF { return FaultWriterRF{f} }

// Writer returns the value to hand to the code under test: f itself (no
// io.ReaderFrom) or its ReaderFrom-capable view.
func (f *FaultWriter) Writer(readerFrom bool) io.Writer {
	if readerFrom {
		return FaultWriterRF{f}
	}
	return f
}

// ReadFrom implements io.ReaderFrom: it reads r in chunks of RFChunk bytes and
// applies the fault model to every chunk (refuse mode refuses the chunk that
// crosses K, short mode accepts its part up to K).  It returns the number of bytes
// accepted and nil at EOF; a failed chunk or a read error ends the call.  The
// whole ReadFrom counts as one call.
func (f FaultWriterRF) ReadFrom(r io.Reader) (int64, error) {
	w := f.FaultWriter
	w.calls++
	w.rfCalls++
	if w.tripped && !w.Transient {
		w.fail()
		return 0, w.err()
	}
	sz := w.RFChunk
	if sz <= 0 {
		sz = 64
	}
	buf := make([]byte, sz)
	var total int64
	empty := 0
	for {
		nr, rerr := r.Read(buf)
		if nr > 0 {
			empty = 0
			nw, werr := w.write(buf[:nr])
			total += int64(nw)
			if werr != nil {
				w.fail()
				return total, werr
			}
		}
		if rerr == io.EOF {
			return total, nil
		}
		if rerr != nil {
			return total, rerr
		}
		if nr == 0 {
			if empty++; empty > 100 {
				return total, io.ErrNoProgress
			}
		}
	}
}

// ReadStyle selects how a ChunkReader sizes its answers.
type ReadStyle int

const (
	// ReadFull: as many bytes as requested (or left); EOF on a separate call (0, io.EOF).
	ReadFull ReadStyle = iota
	// ReadOneByte: one byte per call; EOF on a separate call.
	ReadOneByte
	// ReadEOFWithData: as ReadFull, but the call that delivers the last byte
	// returns (n > 0, io.EOF) together, which io.Reader explicitly allows.
	ReadEOFWithData
	// ReadOneByteEOFWithData: one byte per call, the last one with io.EOF.
	ReadOneByteEOFWithData
)

func (s ReadStyle) String() string {
	switch s {
	case ReadFull:
		return "full"
	case ReadOneByte:
		return "onebyte"
	case ReadEOFWithData:
		return "eofwithdata"
	case ReadOneByteEOFWithData:
		return "onebyte-eofwithdata"
	}
	return "?"
}

// ChunkReader is an io.Reader over Data whose every answer is chosen by the
// harness.  It implements neither io.WriterTo nor io.ByteReader, so io.Copy and
// friends must go through Read.
//
//	Style       sizes of the answers and whether EOF arrives with the last data
//	Choose      optional per-call override of the size (call index from 0, bytes
//	            requested, bytes left) -> bytes to return, clamped to [0, min(want,left)];
//	            a zero answer with bytes left yields (0, nil)
//	TruncateAt  >= 0: the stream ends (io.EOF) after this many bytes - early EOF / truncation
//	FailAt      >= 0: after this many bytes every Read returns (0, Err) - injected error
type ChunkReader struct {
	Data       []byte
	Style      ReadStyle
	Choose     func(call, want, left int) int
	TruncateAt int
	FailAt     int
	Err        error

	pos   int
	calls int
}

// NewChunkReader returns a reader over data with no truncation and no injected error.
func NewChunkReader(data []byte, style ReadStyle) *ChunkReader {
	return &ChunkReader{Data: data, Style: style, TruncateAt: -1, FailAt: -1}
}

// Calls is the number of Read calls received; Delivered the bytes handed out.
func (r *ChunkReader) Calls() int     { return r.calls }
func (r *ChunkReader) Delivered() int { return r.pos }

func (r *ChunkReader) Read(p []byte) (int, error) {
	call := r.calls
	r.calls++
	end := len(r.Data)
	if r.TruncateAt >= 0 && r.TruncateAt < end {
		end = r.TruncateAt
	}
	failing := r.FailAt >= 0 && r.FailAt < end
	if failing {
		end = r.FailAt
	}
	left := end - r.pos
	if left <= 0 {
		if failing {
			if r.Err != nil {
				return 0, r.Err
			}
			return 0, ErrInjected
		}
		return 0, io.EOF
	}
	if len(p) == 0 {
		return 0, nil
	}
	n := len(p)
	if n > left {
		n = left
	}
	if r.Style == ReadOneByte || r.Style == ReadOneByteEOFWithData {
		n = 1
	}
	if r.Choose != nil {
		c := r.Choose(call, len(p), left)
		if c < 0 {
			c = 0
		}
		if c > len(p) {
			c = len(p)
		}
		if c > left {
			c = left
		}
		n = c
	}
	copy(p, r.Data[r.pos:r.pos+n])
	r.pos += n
	if r.pos == end && !failing && n > 0 && (r.Style == ReadEOFWithData || r.Style == ReadOneByteEOFWithData) {
		return n, io.EOF
	}
	return n, nil
}
