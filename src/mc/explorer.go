// Package mc is the hand-written bounded-exhaustive explorer used by every check.
//
// Mode 1 (choice tree): a harness is a deterministic function of a vector of small
// integer choices.  Explore enumerates every vector depth-first; a choice point is
// either Free (cost 0: swept completely) or a Deviation (a non-default answer costs
// 1) and the number of deviations per execution is bounded.  Every vector is
// executed exactly once (the vector followed by default answers).
package mc

import (
	"crypto/sha256"
	"encoding/binary"
	"fmt"
	"os"
	"runtime"
	"sort"
	"strings"
	"sync"
	"sync/atomic"
)

// Point is one choice point met during an execution.
type Point struct {
	N     int
	Pick  int
	Dev   bool // non-default answers cost one deviation
	Label string
}

// Violation describes one failing execution.
type Violation struct {
	Property string `json:"property"`
	Harness  string `json:"harness"`
	// Key is the stable identity of the failing input / call site / history; it is
	// what known_findings.jsonl entries are matched against.
	Key      string      `json:"key"`
	What     string      `json:"what"`
	Vector   []int       `json:"vector"`
	Labels   []string    `json:"labels,omitempty"`
	Input    string      `json:"input,omitempty"`
	Expected string      `json:"expected,omitempty"`
	Observed string      `json:"observed,omitempty"`
	Extra    interface{} `json:"extra,omitempty"`
	Seq      int64       `json:"seq,omitempty"`
	// Confirmed is set for crash / hang violations the parent already re-ran alone.
	Confirmed bool `json:"confirmed,omitempty"`
}

// Ctx is handed to a harness for one execution.
type Ctx struct {
	Tier    string
	Seed    int64
	prefix  []int
	trace   []Point
	st      *localStats
	viol    []*Violation
	replay  bool
	soft    bool // a prefix divergence gives the subtree up instead of ending the process (in-process exploration)
	Verbose bool
	h       *Harness
}

// divergence is the panic value of a soft prefix divergence (see choose).
type divergence string

// CapDiverged is the cap recorded for executions given up because of nondeterminism.
const CapDiverged = "executions given up: nondeterminism (prefix divergence)"

func (c *Ctx) Quick() bool { return c.Tier != "thorough" }

// Pick returns quick when the tier is quick, thorough otherwise.
func (c *Ctx) Pick(quick, thorough int) int {
	if c.Quick() {
		return quick
	}
	return thorough
}

func (c *Ctx) choose(n int, dev bool, label string) int {
	if n <= 0 {
		panic(fmt.Sprintf("mc: choice point %q with %d alternatives", label, n))
	}
	i := len(c.trace)
	v := 0
	if i < len(c.prefix) {
		v = c.prefix[i]
		if v < 0 || v >= n {
			// The same prefix met a different choice point than when it was
			// recorded: some nondeterminism is not captured.  Hard error.
			msg := fmt.Sprintf("prefix choice %d out of range %d at point %d (%s) harness %s", v, n, i, label, c.h.Name)
			if c.soft {
				// in-process exploration: the subtree is given up and the run goes on, so that the harnesses which can
				// judge hidden shared state in the code under test still get to report it; a run with a divergence and
				// no violation ends as CHECK-BROKEN (exit 2) all the same
				panic(divergence(msg))
			}
			fmt.Fprintf(os.Stderr, "mc: FATAL nondeterminism: %s\n", msg)
			os.Exit(2)
		}
	}
	c.trace = append(c.trace, Point{N: n, Pick: v, Dev: dev, Label: label})
	return v
}

// Free is a zero-cost choice point: all n alternatives are always explored.
func (c *Ctx) Free(n int, label string) int { return c.choose(n, false, label) }

// Dev is a deviation point: alternative 0 is the default, any other costs 1.
func (c *Ctx) Dev(n int, label string) int { return c.choose(n, true, label) }

// Devs returns how many deviations the execution has taken so far.
func (c *Ctx) Devs() int {
	d := 0
	for _, p := range c.trace {
		if p.Dev && p.Pick != 0 {
			d++
		}
	}
	return d
}

// Vector is the choice vector of this execution so far.
func (c *Ctx) Vector() []int {
	v := make([]int, len(c.trace))
	for i, p := range c.trace {
		v[i] = p.Pick
	}
	return v
}

func (c *Ctx) labels() []string {
	v := make([]string, len(c.trace))
	for i, p := range c.trace {
		v[i] = fmt.Sprintf("%s=%d/%d", p.Label, p.Pick, p.N)
	}
	return v
}

// Outcome records the outcome class of this execution (histogram in the evidence).
func (c *Ctx) Outcome(class string) { c.st.outcomes[class]++ }

// State records a canonical state (distinct states are counted through a hash set).
func (c *Ctx) State(parts ...[]byte) {
	h := sha256.New()
	for _, p := range parts {
		var l [8]byte
		binary.BigEndian.PutUint64(l[:], uint64(len(p)))
		h.Write(l[:])
		h.Write(p)
	}
	var sum [32]byte
	h.Sum(sum[:0])
	c.st.states[binary.BigEndian.Uint64(sum[:8])] = struct{}{}
}

// StateU64 records a canonical state that is already a small integer key.
func (c *Ctx) StateU64(k uint64) { c.st.states[k] = struct{}{} }

// StatesByConstruction adds n states that are distinct by construction of the
// enumeration (used where a hash set of every input would not fit in memory).
func (c *Ctx) StatesByConstruction(n int64) { c.st.statesCounted += n }

// Transitions adds implementation operations executed (beyond choice edges).
func (c *Ctx) Transitions(n int64) { c.st.transitions += n }

// Traces adds implementation runs compared with the reference.
func (c *Ctx) Traces(n int64) { c.st.traces += n }

// Eval counts one evaluation of the oracle.
func (c *Ctx) Eval() { c.st.evals++ }

// Nontrivial counts a distinct non-trivial case (by key hash).
func (c *Ctx) Nontrivial(key ...[]byte) {
	h := sha256.New()
	for _, p := range key {
		h.Write(p)
		h.Write([]byte{0xff, 0x00})
	}
	var sum [32]byte
	h.Sum(sum[:0])
	c.st.nontriv[binary.BigEndian.Uint64(sum[:8])] = struct{}{}
}

// NontrivialByConstruction counts n non-trivial cases distinct by construction.
func (c *Ctx) NontrivialByConstruction(n int64) { c.st.nontrivCounted += n }

// Sample offers a case for the samples list (a few are kept).
func (c *Ctx) Sample(v interface{}) {
	c.st.sampleSeen++
	n := c.st.sampleSeen
	// keep the 1st, 10th, 100th, ... offered per worker
	if n == 1 || n == 10 || n == 100 || n == 1000 || n == 100000 {
		if len(c.st.samples) < 6 {
			c.st.samples = append(c.st.samples, v)
		}
	}
}

// RestartWorker asks an isolated worker subprocess to checkpoint and exit after this case so
// that the parent starts a fresh process for the rest (used after a case made the code under
// test reserve a lot of address space, which ulimit -v would otherwise hold against later,
// innocent cases).  No effect for in-process harnesses.
func (c *Ctx) RestartWorker() { c.st.restart = true }

// Cap records that a budget/cap was hit: the run is then not exhaustive.
func (c *Ctx) Cap(what string) { c.st.caps[what]++ }

// Fail reports a violation for this execution.
func (c *Ctx) Fail(key, what, input, expected, observed string) {
	c.viol = append(c.viol, &Violation{Key: key, What: what, Input: clip(input), Expected: clip(expected), Observed: clip(observed)})
}

func clip(s string) string {
	if len(s) > 4000 {
		return s[:4000] + fmt.Sprintf("...(%d bytes)", len(s))
	}
	return s
}

type localStats struct {
	execs          int64
	edges          int64
	evals          int64
	transitions    int64
	traces         int64
	statesCounted  int64
	nontrivCounted int64
	states         map[uint64]struct{}
	nontriv        map[uint64]struct{}
	outcomes       map[string]int64
	caps           map[string]int64
	samples        []interface{}
	sampleSeen     int64
	maxDepth       int
	maxDevs        int
	restart        bool
}

func newLocalStats() *localStats {
	return &localStats{states: map[uint64]struct{}{}, nontriv: map[uint64]struct{}{}, outcomes: map[string]int64{}, caps: map[string]int64{}}
}

// Stats is the merged result of exploring one harness.
type Stats struct {
	Harness     string           `json:"harness"`
	Tier        string           `json:"tier,omitempty"`
	Mode        string           `json:"mode"`
	Bound       int              `json:"deviation_bound"`
	Executions  int64            `json:"executions"`
	ChoiceEdges int64            `json:"choice_edges"`
	Evals       int64            `json:"evaluations"`
	Transitions int64            `json:"transitions"`
	Traces      int64            `json:"traces"`
	States      int64            `json:"states"`
	Nontrivial  int64            `json:"distinct_nontrivial"`
	Outcomes    map[string]int64 `json:"outcomes"`
	Caps        map[string]int64 `json:"caps,omitempty"`
	MaxDepth    int              `json:"max_choice_depth"`
	MaxDevs     int              `json:"max_deviations_taken"`
	Samples     []interface{}    `json:"-"`
	Exhaustive  bool             `json:"exhaustive"`
	Violations  []*Violation     `json:"-"`
	NViolations int64            `json:"violations"`
	Notes       []string         `json:"notes,omitempty"`
}

func (s *Stats) merge(l *localStats, states, nontriv map[uint64]struct{}) {
	s.Executions += l.execs
	s.ChoiceEdges += l.edges
	s.Evals += l.evals
	s.Transitions += l.transitions
	s.Traces += l.traces
	s.States += l.statesCounted
	s.Nontrivial += l.nontrivCounted
	for k := range l.states {
		states[k] = struct{}{}
	}
	for k := range l.nontriv {
		nontriv[k] = struct{}{}
	}
	for k, v := range l.outcomes {
		s.Outcomes[k] += v
	}
	for k, v := range l.caps {
		s.Caps[k] += v
	}
	for _, x := range l.samples {
		if len(s.Samples) < 8 {
			s.Samples = append(s.Samples, x)
		}
	}
	if l.maxDepth > s.MaxDepth {
		s.MaxDepth = l.maxDepth
	}
	if l.maxDevs > s.MaxDevs {
		s.MaxDevs = l.maxDevs
	}
}

// Harness is one explorable scenario of a property.
type Harness struct {
	Name string
	// Bound returns the deviation bound for a tier.
	Bound func(tier string) int
	// Run performs one execution: it makes choices through c, drives the real
	// code, checks the oracle and reports through c.
	Run func(c *Ctx)
	// Gen/Exec split (needed for Isolated harnesses): Gen makes every choice and
	// returns the case; Exec runs the code under test on it.  When Gen is set, Run
	// is ignored.
	Gen  func(c *Ctx) interface{}
	Exec func(c *Ctx, cs interface{})
	// Describe renders a generated case for replay files (optional).
	Describe func(cs interface{}) string
	// Isolated harnesses execute in worker subprocesses under ulimit -v with a
	// watchdog (the code under test may hang, blow the stack or exhaust memory
	// when the property is violated).
	Isolated bool
	// NoConfirm: a violation of this harness is conclusive when observed once
	// (purity checks: a differing output of the real code cannot be "unobserved",
	// and map-iteration or timing dependent failures need not recur on replay).
	NoConfirm bool
	// Serial harnesses are explored by a single goroutine.
	Serial bool
	// MaxExecs caps the number of executions (0 = none); hitting it is recorded
	// as a cap and makes the run non-exhaustive.
	MaxExecs func(tier string) int64
	Mode     string
}

func (h *Harness) runOnce(c *Ctx) {
	if h.Gen != nil {
		cs := h.Gen(c)
		if cs != nil {
			h.Exec(c, cs)
		}
		return
	}
	h.Run(c)
}

// Explorer runs the bounded DFS for one harness in-process.
type Explorer struct {
	H       *Harness
	Tier    string
	Seed    int64
	Workers int
	Verbose bool
}

type workStack struct {
	mu      sync.Mutex
	cond    *sync.Cond
	items   [][]int
	active  int   // workers currently holding local work
	waiting int32 // workers blocked in get (read without the lock as a hint)
}

func (w *workStack) push(items [][]int) {
	if len(items) == 0 {
		return
	}
	w.mu.Lock()
	w.items = append(w.items, items...)
	w.mu.Unlock()
	w.cond.Broadcast()
}

// get hands out a batch of work; wasActive says the caller held work before.
// It returns false when every worker is idle and nothing is left.
func (w *workStack) get(wasActive bool) ([][]int, bool) {
	w.mu.Lock()
	defer w.mu.Unlock()
	if wasActive {
		w.active--
	}
	for {
		if n := len(w.items); n > 0 {
			k := n / 4
			if k < 1 {
				k = 1
			}
			if k > 64 {
				k = 64
			}
			batch := make([][]int, k)
			copy(batch, w.items[n-k:])
			w.items = w.items[:n-k]
			w.active++
			return batch, true
		}
		if w.active == 0 {
			w.cond.Broadcast()
			return nil, false
		}
		atomic.AddInt32(&w.waiting, 1)
		w.cond.Wait()
		atomic.AddInt32(&w.waiting, -1)
	}
}

// children computes the alternative prefixes to explore after one execution.
func children(prefix []int, trace []Point, bound int) [][]int {
	var out [][]int
	devs := 0
	for i, p := range trace {
		if i >= len(prefix) {
			for alt := p.N - 1; alt >= 1; alt-- { // pushed in reverse: stack pops ascending
				cost := devs
				if p.Dev {
					cost++
				}
				if cost > bound {
					continue
				}
				np := make([]int, i+1)
				for j := 0; j < i; j++ {
					np[j] = trace[j].Pick
				}
				np[i] = alt
				out = append(out, np)
			}
		}
		if p.Dev && p.Pick != 0 {
			devs++
		}
	}
	// reverse so that deeper points are popped first? keep generation order:
	// the stack pops the last pushed, i.e. the deepest point's smallest alt.
	return out
}

// Explore enumerates the whole choice tree of the harness within its bound.
func (e *Explorer) Explore() *Stats {
	h := e.H
	bound := 0
	if h.Bound != nil {
		bound = h.Bound(e.Tier)
	}
	var maxExecs int64
	if h.MaxExecs != nil {
		maxExecs = h.MaxExecs(e.Tier)
	}
	nw := e.Workers
	if nw <= 0 {
		nw = runtime.NumCPU()
	}
	if h.Serial {
		nw = 1
	}
	ws := &workStack{}
	ws.cond = sync.NewCond(&ws.mu)
	ws.items = [][]int{{}}
	st := &Stats{Harness: h.Name, Tier: e.Tier, Mode: h.Mode, Bound: bound, Outcomes: map[string]int64{}, Caps: map[string]int64{}, Exhaustive: true}
	if st.Mode == "" {
		st.Mode = "choice-tree DFS"
	}
	var total int64
	var capped int32
	var diverged int64 // executions that met another choice point than the one their prefix was recorded at
	locals := make([]*localStats, nw)
	var violMu sync.Mutex
	violSeen := map[string]bool{}
	violClass := map[string]int{}
	var wg sync.WaitGroup
	for w := 0; w < nw; w++ {
		wg.Add(1)
		ls := newLocalStats()
		locals[w] = ls
		go func(ls *localStats) {
			defer wg.Done()
			var local [][]int
			held := false
			for {
				if len(local) == 0 {
					batch, ok := ws.get(held)
					if !ok {
						return
					}
					held = true
					local = batch
				}
				prefix := local[len(local)-1]
				local = local[:len(local)-1]
				if maxExecs > 0 && atomic.AddInt64(&total, 1) > maxExecs {
					atomic.StoreInt32(&capped, 1)
					continue
				}
				c := &Ctx{Tier: e.Tier, Seed: e.Seed, prefix: prefix, st: ls, h: h, Verbose: e.Verbose, soft: true}
				div := false
				func() {
					// A panic of an in-process execution - in the code under test, or in harness set-up that
					// drives it (building and signing the artifacts through the library) - is a finding of
					// this execution, not a reason to lose the whole run.  (On the unchanged tree nothing
					// panics; isolated harnesses get the same through their watchdog.)
					defer func() {
						if r := recover(); r != nil {
							if d, ok := r.(divergence); ok {
								div = true
								if atomic.AddInt64(&diverged, 1) == 1 {
									fmt.Fprintf(os.Stderr, "mc: nondeterminism: %s (subtree given up)\n", string(d))
								}
								return
							}
							msg := fmt.Sprint(r)
							if i := strings.IndexByte(msg, '\n'); i >= 0 {
								msg = msg[:i]
							}
							c.Fail(h.Name+":panic:"+ClassOf(msg), "the execution panicked (code under test, or harness set-up driving it)", fmt.Sprintf("choice vector %v", c.trace), "no panic", msg)
						}
					}()
					h.runOnce(c)
				}()
				if div {
					continue
				}
				if len(c.trace) < len(prefix) && len(c.viol) == 0 {
					if atomic.AddInt64(&diverged, 1) == 1 {
						fmt.Fprintf(os.Stderr, "mc: nondeterminism: execution ended after %d choice points, prefix has %d (harness %s; subtree given up)\n", len(c.trace), len(prefix), h.Name)
					}
					continue
				}
				if false {
					// (an execution that reported a violation may stop early: code under
					// test with hidden global state legitimately diverges from the
					// execution that recorded the prefix - that is what it is reported for)
					fmt.Fprintf(os.Stderr, "mc: FATAL nondeterminism: execution ended after %d choice points, prefix has %d (harness %s)\n", len(c.trace), len(prefix), h.Name)
					os.Exit(2)
				}
				ls.execs++
				nb := len(prefix) - 1
				if nb < 0 {
					nb = 0
				}
				ls.edges += int64(len(c.trace) - nb)
				if len(c.trace) > ls.maxDepth {
					ls.maxDepth = len(c.trace)
				}
				if d := c.Devs(); d > ls.maxDevs {
					ls.maxDevs = d
				}
				if len(c.viol) > 0 {
					violMu.Lock()
					for _, v := range c.viol {
						st.NViolations++
						if !violSeen[v.Key] && len(st.Violations) < 400 && violClass[ClassOf(v.What)] < 25 {
							violSeen[v.Key] = true
							violClass[ClassOf(v.What)]++
							v.Vector = c.Vector()
							v.Labels = c.labels()
							v.Harness = h.Name
							st.Violations = append(st.Violations, v)
						}
					}
					violMu.Unlock()
				}
				local = append(local, children(prefix, c.trace, bound)...)
				// share the oldest (shallowest) half when others are idle or the
				// local stack grows large
				if n := len(local); n >= 8 && atomic.LoadInt32(&ws.waiting) > 0 {
					half := n / 2
					give := make([][]int, half)
					copy(give, local[:half])
					local = append(local[:0], local[half:]...)
					ws.push(give)
				}
			}
		}(ls)
	}
	wg.Wait()
	states := map[uint64]struct{}{}
	nontriv := map[uint64]struct{}{}
	for _, l := range locals {
		st.merge(l, states, nontriv)
	}
	st.States += int64(len(states))
	st.Nontrivial += int64(len(nontriv))
	if capped != 0 {
		st.Caps["max_executions"] = maxExecs
	}
	if diverged != 0 {
		st.Caps[CapDiverged] = diverged
	}
	if len(st.Caps) > 0 {
		st.Exhaustive = false
	}
	sort.Slice(st.Violations, func(i, j int) bool { return st.Violations[i].Key < st.Violations[j].Key })
	return st
}

// RunVector executes a single recorded vector (replay, confirmation).
func RunVector(h *Harness, tier string, seed int64, vec []int, verbose bool) (*Ctx, []*Violation) {
	c := &Ctx{Tier: tier, Seed: seed, prefix: vec, st: newLocalStats(), h: h, replay: true, Verbose: verbose, soft: true}
	func() {
		// a re-execution that does not meet the recorded choice points (the code under test behaved differently this
		// time) simply does not reproduce the violation; the caller reports "did not recur"
		defer func() {
			if r := recover(); r != nil {
				if d, ok := r.(divergence); ok {
					fmt.Fprintf(os.Stderr, "mc: re-execution diverged from the recorded vector: %s\n", string(d))
					c.viol = nil
					return
				}
				panic(r)
			}
		}()
		h.runOnce(c)
	}()
	for _, v := range c.viol {
		v.Vector = c.Vector()
		v.Labels = c.labels()
		v.Harness = h.Name
	}
	return c, c.viol
}
