// Package refbundle is an independent reference model of the Web Bundle wire
// format in its two implemented versions: b1 (draft-yasskin-wpack-bundled-exchanges)
// and b2 (draft-ietf-wpack-bundled-responses) plus the "primary", "manifest" and
// "signatures" sections.  It imports nothing from the repository (stdlib and
// refcbor only) and has three parts:
//
//	Logical / Content      the logical description of a bundle and what an index
//	                       must contain for it (header folding, URL grouping, the
//	                       row-major order of b1 variant sets)
//	Serialize              a reference serializer: the bytes the format fixes once the
//	                       section order (index, [primary|manifest], [signatures],
//	                       responses) and the response order (= exchange order) are given
//	Validate               a STRICT parser/validator meant for writer output
//
// Wire format (CDDL as quoted in the drafts):
//
//	b2: webbundle = [ magic: h'F0 9F 8C 90 F0 9F 93 A6', version: bytes .size 4,
//	                  section-lengths: bytes .cbor [* (section-name: tstr, length: uint)],
//	                  sections: [* any], length: bytes .size 8 ]
//	b1: the same with `primary-url: whatwg-url` inserted after the version.
//	index (b2)  = {* whatwg-url => [ offset: uint, length: uint ] }
//	index (b1)  = {* whatwg-url => [ variants-value: bstr, +(offset: uint, length: uint) ] }
//	responses   = [* [ headers: bstr .cbor {* bstr => bstr}, payload: bstr ] ]
//	signatures  = [ authorities: [* augmented-certificate ],
//	                vouched-subsets: [* { authority: uint, sig: bstr, signed: bstr } ] ]
//
// Offsets in the index are relative to the first byte of the responses section
// item (its array head included).
package refbundle

import (
	"bytes"
	"encoding/binary"
	"errors"
	"fmt"
	"sort"
	"strconv"
	"strings"

	"github.com/WICG/webpackage/go/signedexchange/zverif/refcbor"
)

// Magic is the content of the first element of every bundle.
var Magic = []byte{0xf0, 0x9f, 0x8c, 0x90, 0xf0, 0x9f, 0x93, 0xa6}

// ---------------------------------------------------------------------------
// logical description
// ---------------------------------------------------------------------------

// LHeader is one header field as a caller supplies it: any letter case, any
// number of values.
type LHeader struct {
	Name   string
	Values []string
}

// LExchange is one (URL, response) pair of a bundle, in bundle order.
type LExchange struct {
	URL     string
	Status  int
	Headers []LHeader
	Body    []byte
}

// LAuthority is one augmented certificate; nil OCSP / SCT mean "key absent".
type LAuthority struct {
	Cert, OCSP, SCT []byte
}

type LVouched struct {
	Authority   uint64
	Sig, Signed []byte
}

type LSignatures struct {
	Authorities []LAuthority
	Vouched     []LVouched
}

// Logical is the logical content of a bundle.
type Logical struct {
	Version     string  // "b1" or "b2"
	PrimaryURL  *string // b1: header field (required); b2: "primary" section (optional)
	ManifestURL *string // b1 only: "manifest" section
	Signatures  *LSignatures
	Exchanges   []LExchange
}

// Field is one entry of a serialized header map other than ":status": lower-case
// name, comma-joined value.
type Field struct{ Name, Value string }

// Response is one response as found in / expected from a bundle.
type Response struct {
	Status int
	Fields []Field // in the order of the serialized map (canonical order)
	Body   []byte
	// location inside the responses section (filled by Validate and Serialize)
	Offset, Length uint64
	// Exchange is the position in Logical.Exchanges this response comes from (Content only)
	Exchange int
}

// IndexEntry is one key of the index with everything it points at.
type IndexEntry struct {
	URL           string
	VariantsValue string // b1 only; empty when the URL has a single representation
	Responses     []Response
}

// RefusalError says that a logical bundle cannot be written.
type RefusalError struct {
	Kind string // dup-url | no-variants | inconsistent-variants | bad-variants | bad-variant-key | uncovered | overlap | incomplete | dup-header | no-primary-b1 | manifest-b2 | status
	Msg  string
}

func (e *RefusalError) Error() string { return "refbundle: " + e.Kind + ": " + e.Msg }

func refuse(kind, f string, a ...interface{}) error {
	return &RefusalError{Kind: kind, Msg: fmt.Sprintf(f, a...)}
}

// KindOf returns the refusal kind of err ("" for nil, "other" for foreign errors).
func KindOf(err error) string {
	if err == nil {
		return ""
	}
	var r *RefusalError
	if errors.As(err, &r) {
		return r.Kind
	}
	return "other"
}

// ---------------------------------------------------------------------------
// header folding
// ---------------------------------------------------------------------------

func lowerASCII(s string) string {
	b := []byte(s)
	for i, c := range b {
		if c >= 'A' && c <= 'Z' {
			b[i] = c + 0x20
		}
	}
	return string(b)
}

// canonLess orders two strings the way their CBOR string encodings order
// bytewise: a shorter head class first, i.e. by length, then by content.
func canonLess(a, b string) bool {
	ea := refcbor.EncBytes([]byte(a)) // same relative order for bstr and tstr keys
	eb := refcbor.EncBytes([]byte(b))
	return bytes.Compare(ea, eb) < 0
}

// Fold turns header fields into the entries of the serialized header map: names
// case-folded, repeated values joined with "," in their order, entries in
// canonical map order.  Two fields folding to the same name cannot be written.
func Fold(hs []LHeader) ([]Field, error) {
	out := make([]Field, 0, len(hs))
	seen := map[string]bool{}
	for _, h := range hs {
		n := lowerASCII(h.Name)
		if seen[n] {
			return nil, refuse("dup-header", "two header fields fold to %q", n)
		}
		seen[n] = true
		out = append(out, Field{Name: n, Value: strings.Join(h.Values, ",")})
	}
	sort.SliceStable(out, func(i, j int) bool { return canonLess(out[i].Name, out[j].Name) })
	return out, nil
}

// headerValue returns the comma-joined value of the field called name
// (case-insensitively), "" when absent.
func headerValue(hs []LHeader, name string) string {
	for _, h := range hs {
		if lowerASCII(h.Name) == name {
			return strings.Join(h.Values, ",")
		}
	}
	return ""
}

// HeaderMap is the canonical CBOR of a response's header map.
func HeaderMap(status int, fields []Field) ([]byte, error) {
	if status < 100 || status > 999 {
		return nil, refuse("status", "status %d is not three digits", status)
	}
	kvs := []refcbor.KV{{K: refcbor.EncBytes([]byte(":status")), V: refcbor.EncBytes([]byte(strconv.Itoa(status)))}}
	for _, f := range fields {
		kvs = append(kvs, refcbor.KV{K: refcbor.EncBytes([]byte(f.Name)), V: refcbor.EncBytes([]byte(f.Value))})
	}
	m, err := refcbor.EncMap(kvs)
	if err != nil {
		return nil, refuse("dup-header", "%v", err)
	}
	return m, nil
}

// ---------------------------------------------------------------------------
// Variants / Variant-Key (structured-headers draft-09 "list of lists" of
// tokens and strings), row-major order of the possible keys
// ---------------------------------------------------------------------------

func isAlpha(c byte) bool { return c >= 'a' && c <= 'z' || c >= 'A' && c <= 'Z' }
func isTokenChar(c byte) bool {
	return isAlpha(c) || c >= '0' && c <= '9' || strings.IndexByte("_-.:%*/", c) >= 0
}

// ParseListOfLists parses `inner *( OWS "," OWS inner )`, inner = `item *( OWS ";"
// OWS item )`, item = token / quoted string.  Other item types (numbers, byte
// sequences) are not meaningful in Variants / Variant-Key and are refused.
func ParseListOfLists(s string) ([][]string, error) {
	// lexer: cut the input into items and separators
	type tok struct {
		sep  byte // ',' or ';' or 0 for an item
		text string
	}
	var toks []tok
	i := 0
	skipOWS := func() {
		for i < len(s) && (s[i] == ' ' || s[i] == '\t') {
			i++
		}
	}
	skipOWS()
	for i < len(s) {
		c := s[i]
		switch {
		case c == ',' || c == ';':
			toks = append(toks, tok{sep: c})
			i++
		case c == '"':
			i++
			var sb strings.Builder
			closed := false
			for i < len(s) && !closed {
				d := s[i]
				i++
				switch {
				case d == '\\':
					if i >= len(s) || (s[i] != '"' && s[i] != '\\') {
						return nil, errors.New("bad escape in string")
					}
					sb.WriteByte(s[i])
					i++
				case d == '"':
					closed = true
				case d < 0x20 || d > 0x7e:
					return nil, errors.New("bad character in string")
				default:
					sb.WriteByte(d)
				}
			}
			if !closed {
				return nil, errors.New("unterminated string")
			}
			toks = append(toks, tok{text: sb.String()})
		case isAlpha(c):
			j := i
			for j < len(s) && isTokenChar(s[j]) {
				j++
			}
			toks = append(toks, tok{text: s[i:j]})
			i = j
		default:
			return nil, fmt.Errorf("unexpected character %q", c)
		}
		skipOWS()
	}
	// grammar over tokens: item (sep item)*
	if len(toks) == 0 {
		return nil, errors.New("empty list of lists")
	}
	var out [][]string
	var inner []string
	for k, t := range toks {
		if k%2 == 0 {
			if t.sep != 0 {
				return nil, errors.New("item expected")
			}
			inner = append(inner, t.text)
			continue
		}
		switch t.sep {
		case ',':
			out = append(out, inner)
			inner = nil
		case ';':
		default:
			return nil, errors.New("separator expected")
		}
	}
	if len(toks)%2 == 0 {
		return nil, errors.New("trailing separator")
	}
	out = append(out, inner)
	return out, nil
}

// PossibleKeys lists every combination of one value per axis of a Variants
// value, in row-major order: the first axis varies slowest, the last fastest.
// Each axis is [field-name, value1, value2, ...] and needs at least one value.
func PossibleKeys(variants [][]string) ([][]string, error) {
	keys := [][]string{{}}
	for _, axis := range variants {
		if len(axis) < 2 {
			return nil, errors.New("axis without values")
		}
		var next [][]string
		for _, prefix := range keys {
			for _, v := range axis[1:] {
				k := append(append([]string{}, prefix...), v)
				next = append(next, k)
			}
		}
		keys = next
		if len(keys) > 10000 {
			return nil, errors.New("too many possible keys")
		}
	}
	return keys, nil
}

// variantOrder decides the order of the representations of one URL in a b1
// index.  group holds positions in exs.  It returns the variants-value and, for
// each possible key in row-major order, the position in exs of the
// representation serving it.
func variantOrder(exs []LExchange, group []int) (string, []int, error) {
	if len(group) == 1 {
		return "", []int{group[0]}, nil
	}
	vv := headerValue(exs[group[0]].Headers, "variants")
	if vv == "" {
		return "", nil, refuse("no-variants", "several representations of %q but no Variants header", exs[group[0]].URL)
	}
	axes, err := ParseListOfLists(vv)
	if err != nil {
		return "", nil, refuse("bad-variants", "%q: %v", vv, err)
	}
	keys, err := PossibleKeys(axes)
	if err != nil {
		return "", nil, refuse("bad-variants", "%q: %v", vv, err)
	}
	pos := map[string]int{}
	for i, k := range keys {
		id := strings.Join(k, "\x00")
		if _, dup := pos[id]; !dup { // a value listed twice on an axis: first position wins
			pos[id] = i
		}
	}
	order := make([]int, len(keys))
	for i := range order {
		order[i] = -1
	}
	for _, g := range group {
		if v := headerValue(exs[g].Headers, "variants"); v != vv {
			return "", nil, refuse("inconsistent-variants", "%q != %q", v, vv)
		}
		vk := headerValue(exs[g].Headers, "variant-key")
		ks, err := ParseListOfLists(vk)
		if err != nil {
			return "", nil, refuse("bad-variant-key", "%q: %v", vk, err)
		}
		for _, k := range ks {
			p, ok := pos[strings.Join(k, "\x00")]
			if !ok || len(k) != len(axes) {
				return "", nil, refuse("uncovered", "Variant-Key %q is not a possible key of %q", vk, vv)
			}
			if order[p] != -1 {
				return "", nil, refuse("overlap", "two representations of %q serve key %v", exs[g].URL, k)
			}
			order[p] = g
		}
	}
	for i, o := range order {
		if o == -1 {
			return "", nil, refuse("incomplete", "no representation of %q for key %v", exs[group[0]].URL, keys[i])
		}
	}
	return vv, order, nil
}

// Content computes what the index of a bundle holding l must contain: one entry
// per distinct URL in canonical key order, and per entry the responses in the
// order of their locations (b1: row-major order of the possible keys; a
// representation serving several keys appears once per key).  Offsets/lengths are
// not filled in.
func Content(l *Logical) ([]IndexEntry, error) {
	if l.Version != "b1" && l.Version != "b2" {
		return nil, fmt.Errorf("refbundle: unknown version %q", l.Version)
	}
	groups := map[string][]int{}
	var urls []string
	for i, e := range l.Exchanges {
		if _, ok := groups[e.URL]; !ok {
			urls = append(urls, e.URL)
		}
		groups[e.URL] = append(groups[e.URL], i)
	}
	sort.SliceStable(urls, func(i, j int) bool { return canonLess(urls[i], urls[j]) })
	var out []IndexEntry
	for _, u := range urls {
		g := groups[u]
		ent := IndexEntry{URL: u}
		order := g
		if l.Version == "b2" {
			if len(g) > 1 {
				return nil, refuse("dup-url", "b2 cannot hold %d responses for %q", len(g), u)
			}
		} else {
			vv, o, err := variantOrder(l.Exchanges, g)
			if err != nil {
				return nil, err
			}
			ent.VariantsValue, order = vv, o
		}
		for _, x := range order {
			e := l.Exchanges[x]
			f, err := Fold(e.Headers)
			if err != nil {
				return nil, err
			}
			if e.Status < 100 || e.Status > 999 {
				return nil, refuse("status", "status %d is not three digits", e.Status)
			}
			ent.Responses = append(ent.Responses, Response{Status: e.Status, Fields: f, Body: e.Body, Exchange: x})
		}
		out = append(out, ent)
	}
	return out, nil
}

// ---------------------------------------------------------------------------
// reference serializer
// ---------------------------------------------------------------------------

func versionBytes(v string) []byte { return []byte{v[0], v[1], 0, 0} }

// EncodeSignatures is the canonical CBOR of a signatures section.
func EncodeSignatures(s *LSignatures) []byte {
	var auths [][]byte
	for _, a := range s.Authorities {
		kvs := []refcbor.KV{{K: refcbor.EncText("cert"), V: refcbor.EncBytes(a.Cert)}}
		if a.OCSP != nil {
			kvs = append(kvs, refcbor.KV{K: refcbor.EncText("ocsp"), V: refcbor.EncBytes(a.OCSP)})
		}
		if a.SCT != nil {
			kvs = append(kvs, refcbor.KV{K: refcbor.EncText("sct"), V: refcbor.EncBytes(a.SCT)})
		}
		auths = append(auths, refcbor.MustMap(kvs...))
	}
	var vs [][]byte
	for _, v := range s.Vouched {
		vs = append(vs, refcbor.MustMap(
			refcbor.KV{K: refcbor.EncText("authority"), V: refcbor.EncUint(v.Authority)},
			refcbor.KV{K: refcbor.EncText("sig"), V: refcbor.EncBytes(v.Sig)},
			refcbor.KV{K: refcbor.EncText("signed"), V: refcbor.EncBytes(v.Signed)}))
	}
	return refcbor.EncArray(refcbor.EncArray(auths...), refcbor.EncArray(vs...))
}

// Serialize returns the bytes of the bundle holding l with sections in the order
// index, primary (b2) / manifest (b1), signatures, responses and the responses in
// exchange order; a *RefusalError when l cannot be represented.
func Serialize(l *Logical) ([]byte, error) {
	content, err := Content(l)
	if err != nil {
		return nil, err
	}
	if l.Version == "b1" && l.PrimaryURL == nil {
		return nil, refuse("no-primary-b1", "b1 needs a primary URL")
	}
	if l.Version == "b2" && l.ManifestURL != nil {
		return nil, refuse("manifest-b2", "b2 has no manifest section")
	}
	// responses section: array head, then every exchange's response in order
	resp := refcbor.AppendHead(nil, refcbor.Array, uint64(len(l.Exchanges)))
	type loc struct{ off, length uint64 }
	locs := make([]loc, len(l.Exchanges))
	for i, e := range l.Exchanges {
		f, err := Fold(e.Headers)
		if err != nil {
			return nil, err
		}
		hm, err := HeaderMap(e.Status, f)
		if err != nil {
			return nil, err
		}
		item := refcbor.EncArray(refcbor.EncBytes(hm), refcbor.EncBytes(e.Body))
		locs[i] = loc{uint64(len(resp)), uint64(len(item))}
		resp = append(resp, item...)
	}
	// index section
	var kvs []refcbor.KV
	for _, ent := range content {
		var val [][]byte
		if l.Version == "b1" {
			val = append(val, refcbor.EncBytes([]byte(ent.VariantsValue)))
		}
		for _, r := range ent.Responses {
			val = append(val, refcbor.EncUint(locs[r.Exchange].off), refcbor.EncUint(locs[r.Exchange].length))
		}
		if !refcbor.ValidUTF8([]byte(ent.URL)) {
			// an index key is a CBOR text string (RFC 8949 3.1: valid UTF-8); such a bundle cannot be represented
			return nil, refuse("url-not-utf8", fmt.Sprintf("URL %q is not valid UTF-8", ent.URL))
		}
		kvs = append(kvs, refcbor.KV{K: refcbor.EncText(ent.URL), V: refcbor.EncArray(val...)})
	}
	index, err := refcbor.EncMap(kvs)
	if err != nil {
		return nil, err
	}
	type sec struct {
		name string
		body []byte
	}
	secs := []sec{{"index", index}}
	if l.Version == "b2" && l.PrimaryURL != nil {
		secs = append(secs, sec{"primary", refcbor.EncText(*l.PrimaryURL)})
	}
	if l.ManifestURL != nil {
		secs = append(secs, sec{"manifest", refcbor.EncText(*l.ManifestURL)})
	}
	if l.Signatures != nil {
		secs = append(secs, sec{"signatures", EncodeSignatures(l.Signatures)})
	}
	secs = append(secs, sec{"responses", resp})

	var table [][]byte
	for _, s := range secs {
		table = append(table, refcbor.EncText(s.name), refcbor.EncUint(uint64(len(s.body))))
	}
	n := uint64(5)
	if l.Version == "b1" {
		n = 6
	}
	out := refcbor.AppendHead(nil, refcbor.Array, n)
	out = append(out, refcbor.EncBytes(Magic)...)
	out = append(out, refcbor.EncBytes(versionBytes(l.Version))...)
	if l.Version == "b1" {
		out = append(out, refcbor.EncText(*l.PrimaryURL)...)
	}
	out = append(out, refcbor.EncBytes(refcbor.EncArray(table...))...)
	out = refcbor.AppendHead(out, refcbor.Array, uint64(len(secs)))
	for _, s := range secs {
		out = append(out, s.body...)
	}
	var total [8]byte
	binary.BigEndian.PutUint64(total[:], uint64(len(out))+9)
	out = append(out, refcbor.EncBytes(total[:])...)
	return out, nil
}

// ---------------------------------------------------------------------------
// strict validator
// ---------------------------------------------------------------------------

// Section is one row of the section-length table with its absolute position.
type Section struct {
	Name           string
	Offset, Length uint64
}

// Bundle is what Validate extracts.
type Bundle struct {
	Version       string
	PrimaryURL    *string
	ManifestURL   *string
	Signatures    *LSignatures
	SignaturesRaw []byte
	Sections      []Section
	Index         []IndexEntry
	NumResponses  int // elements of the responses array
	Unreferenced  int // responses no index entry points at
}

// cursor walks a byte slice head by head with explicit positions.
type cursor struct {
	b   []byte
	pos int
}

func (c *cursor) head(major int, what string) (refcbor.Head, error) {
	h, err := refcbor.ParseHead(c.b[c.pos:])
	if err != nil {
		return h, fmt.Errorf("%s: %v", what, err)
	}
	if h.Major != major {
		return h, fmt.Errorf("%s: major type %d, expected %d", what, h.Major, major)
	}
	if !h.Shortest {
		return h, fmt.Errorf("%s: head not in shortest form", what)
	}
	c.pos += h.Len
	return h, nil
}

func (c *cursor) str(major int, what string) ([]byte, error) {
	h, err := c.head(major, what)
	if err != nil {
		return nil, err
	}
	if h.Arg > uint64(len(c.b)-c.pos) {
		return nil, fmt.Errorf("%s: declared length %d runs past the end", what, h.Arg)
	}
	s := c.b[c.pos : c.pos+int(h.Arg)]
	c.pos += int(h.Arg)
	if major == refcbor.Text && !refcbor.ValidUTF8(s) {
		return nil, fmt.Errorf("%s: text string is not valid UTF-8", what)
	}
	return s, nil
}

// oneItem checks that b is exactly one deterministic CBOR item and decodes it.
func oneItem(b []byte, what string) (*refcbor.Item, error) {
	it, n, err := refcbor.Decode(b)
	if err != nil {
		return nil, fmt.Errorf("%s: %v", what, err)
	}
	if n != len(b) {
		return nil, fmt.Errorf("%s: one item of %d bytes expected, the item ends after %d", what, len(b), n)
	}
	if err := refcbor.Deterministic(b); err != nil {
		return nil, fmt.Errorf("%s: not canonical CBOR: %v", what, err)
	}
	if err := utf8Everywhere(it); err != nil {
		return nil, fmt.Errorf("%s: %v", what, err)
	}
	return it, nil
}

func utf8Everywhere(it *refcbor.Item) error {
	if it.Major == refcbor.Text && !refcbor.ValidUTF8(it.Str) {
		return fmt.Errorf("text string %q is not valid UTF-8", it.Str)
	}
	for _, e := range it.Elems {
		if err := utf8Everywhere(e); err != nil {
			return err
		}
	}
	return nil
}

var knownSections = map[string]string{ // name -> versions it may appear in
	"index": "b1b2", "responses": "b1b2", "signatures": "b1b2", "primary": "b2", "manifest": "b1",
}

// Validate checks that b is a well-formed, canonical, self-consistent bundle the
// way a writer must produce it, and extracts its logical content.  It is strict:
// anything a conforming writer has no reason to emit is an error (unknown or
// repeated sections, non-canonical CBOR anywhere including the header maps inside
// byte strings, index entries that do not delimit exactly one response, bytes
// after the trailing length).
func Validate(b []byte) (*Bundle, error) {
	if len(b) < 10 {
		return nil, errors.New("too short")
	}
	// the whole file is one canonical CBOR item
	if _, err := oneItem(b, "file"); err != nil {
		return nil, err
	}
	c := &cursor{b: b}
	top, err := c.head(refcbor.Array, "top-level array")
	if err != nil {
		return nil, err
	}
	magic, err := c.str(refcbor.Bytes, "magic")
	if err != nil {
		return nil, err
	}
	if !bytes.Equal(magic, Magic) {
		return nil, fmt.Errorf("magic is %x", magic)
	}
	ver, err := c.str(refcbor.Bytes, "version")
	if err != nil {
		return nil, err
	}
	out := &Bundle{}
	switch {
	case bytes.Equal(ver, []byte("b1\x00\x00")) && top.Arg == 6:
		out.Version = "b1"
	case bytes.Equal(ver, []byte("b2\x00\x00")) && top.Arg == 5:
		out.Version = "b2"
	default:
		return nil, fmt.Errorf("version %q in a top-level array of %d", ver, top.Arg)
	}
	if out.Version == "b1" {
		p, err := c.str(refcbor.Text, "primary-url")
		if err != nil {
			return nil, err
		}
		s := string(p)
		out.PrimaryURL = &s
	}
	// section-lengths
	sl, err := c.str(refcbor.Bytes, "section-lengths")
	if err != nil {
		return nil, err
	}
	slItem, err := oneItem(sl, "section-lengths content")
	if err != nil {
		return nil, err
	}
	if slItem.Major != refcbor.Array || len(slItem.Elems)%2 != 0 {
		return nil, errors.New("section-lengths is not an array of (name, length) pairs")
	}
	seen := map[string]bool{}
	for i := 0; i < len(slItem.Elems); i += 2 {
		n, l := slItem.Elems[i], slItem.Elems[i+1]
		if n.Major != refcbor.Text || l.Major != refcbor.Uint {
			return nil, errors.New("section-lengths entry is not (tstr, uint)")
		}
		name := string(n.Str)
		if seen[name] {
			return nil, fmt.Errorf("section %q listed twice", name)
		}
		seen[name] = true
		vs, ok := knownSections[name]
		if !ok {
			return nil, fmt.Errorf("unknown section %q", name)
		}
		if !strings.Contains(vs, out.Version) {
			return nil, fmt.Errorf("section %q does not exist in %s", name, out.Version)
		}
		out.Sections = append(out.Sections, Section{Name: name, Length: l.Arg})
	}
	if len(out.Sections) == 0 || out.Sections[len(out.Sections)-1].Name != "responses" {
		return nil, errors.New("the last section is not \"responses\"")
	}
	if !seen["index"] {
		return nil, errors.New("no index section")
	}
	// sections array: as many elements as table rows; the table tiles the bytes up
	// to the trailing length item exactly
	sh, err := c.head(refcbor.Array, "sections array")
	if err != nil {
		return nil, err
	}
	if sh.Arg != uint64(len(out.Sections)) {
		return nil, fmt.Errorf("sections array has %d elements, the table %d rows", sh.Arg, len(out.Sections))
	}
	items := map[string]*refcbor.Item{}
	raws := map[string][]byte{}
	for i := range out.Sections {
		s := &out.Sections[i]
		left := uint64(len(b) - c.pos)
		if s.Length > left {
			return nil, fmt.Errorf("section %q: length %d exceeds the %d bytes left", s.Name, s.Length, left)
		}
		s.Offset = uint64(c.pos)
		raw := b[c.pos : c.pos+int(s.Length)]
		it, err := oneItem(raw, "section "+s.Name)
		if err != nil {
			return nil, err
		}
		items[s.Name], raws[s.Name] = it, raw
		c.pos += int(s.Length)
	}
	// trailing length
	if len(b)-c.pos != 9 {
		return nil, fmt.Errorf("%d bytes follow the last section, expected the 9-byte length item", len(b)-c.pos)
	}
	tl, err := c.str(refcbor.Bytes, "trailing length")
	if err != nil {
		return nil, err
	}
	if len(tl) != 8 {
		return nil, fmt.Errorf("trailing length item holds %d bytes", len(tl))
	}
	if got := binary.BigEndian.Uint64(tl); got != uint64(len(b)) {
		return nil, fmt.Errorf("trailing length says %d, the file has %d bytes", got, len(b))
	}
	if c.pos != len(b) {
		return nil, errors.New("bytes after the trailing length")
	}

	// primary / manifest
	for _, name := range []string{"primary", "manifest"} {
		it := items[name]
		if it == nil {
			continue
		}
		if it.Major != refcbor.Text {
			return nil, fmt.Errorf("section %s is not a text string", name)
		}
		s := string(it.Str)
		if name == "primary" {
			out.PrimaryURL = &s
		} else {
			out.ManifestURL = &s
		}
	}
	// signatures
	if it := items["signatures"]; it != nil {
		sg, err := parseSignatures(it)
		if err != nil {
			return nil, err
		}
		out.Signatures, out.SignaturesRaw = sg, raws["signatures"]
	}
	// responses: element boundaries
	rit, rraw := items["responses"], raws["responses"]
	if rit.Major != refcbor.Array {
		return nil, errors.New("responses section is not an array")
	}
	out.NumResponses = len(rit.Elems)
	rh, _ := refcbor.ParseHead(rraw)
	type span struct {
		length uint64
		resp   Response
		used   bool
	}
	spans := map[uint64]*span{}
	pos := uint64(rh.Len)
	for i, e := range rit.Elems {
		r, err := parseResponse(e)
		if err != nil {
			return nil, fmt.Errorf("responses[%d]: %v", i, err)
		}
		r.Offset, r.Length = pos, uint64(len(e.Raw))
		spans[pos] = &span{length: r.Length, resp: r}
		pos += r.Length
	}
	// index
	iit := items["index"]
	if iit.Major != refcbor.Map {
		return nil, errors.New("index section is not a map")
	}
	for i := 0; i+1 < len(iit.Elems); i += 2 {
		k, v := iit.Elems[i], iit.Elems[i+1]
		if k.Major != refcbor.Text {
			return nil, errors.New("index key is not a text string")
		}
		ent := IndexEntry{URL: string(k.Str)}
		if v.Major != refcbor.Array {
			return nil, fmt.Errorf("index[%q]: value is not an array", ent.URL)
		}
		locs := v.Elems
		if out.Version == "b2" {
			if len(locs) != 2 {
				return nil, fmt.Errorf("index[%q]: value has %d elements, expected [offset, length]", ent.URL, len(locs))
			}
		} else {
			if len(locs) < 3 || len(locs)%2 != 1 || locs[0].Major != refcbor.Bytes {
				return nil, fmt.Errorf("index[%q]: value is not [variants-value, +(offset, length)]", ent.URL)
			}
			ent.VariantsValue = string(locs[0].Str)
			locs = locs[1:]
			want := 1
			if ent.VariantsValue != "" {
				axes, err := ParseListOfLists(ent.VariantsValue)
				if err != nil {
					return nil, fmt.Errorf("index[%q]: variants-value %q: %v", ent.URL, ent.VariantsValue, err)
				}
				keys, err := PossibleKeys(axes)
				if err != nil {
					return nil, fmt.Errorf("index[%q]: variants-value %q: %v", ent.URL, ent.VariantsValue, err)
				}
				want = len(keys)
			}
			if len(locs) != 2*want {
				return nil, fmt.Errorf("index[%q]: %d locations for %d possible keys", ent.URL, len(locs)/2, want)
			}
		}
		for j := 0; j < len(locs); j += 2 {
			o, l := locs[j], locs[j+1]
			if o.Major != refcbor.Uint || l.Major != refcbor.Uint {
				return nil, fmt.Errorf("index[%q]: offset/length is not an unsigned integer", ent.URL)
			}
			total := uint64(len(rraw))
			if o.Arg > total || l.Arg > total-o.Arg {
				return nil, fmt.Errorf("index[%q]: location (%d,%d) is outside the responses section of %d bytes", ent.URL, o.Arg, l.Arg, total)
			}
			sp := spans[o.Arg]
			if sp == nil || sp.length != l.Arg {
				return nil, fmt.Errorf("index[%q]: location (%d,%d) does not delimit exactly one response of the responses array", ent.URL, o.Arg, l.Arg)
			}
			sp.used = true
			ent.Responses = append(ent.Responses, sp.resp)
		}
		out.Index = append(out.Index, ent)
	}
	for _, sp := range spans {
		if !sp.used {
			out.Unreferenced++
		}
	}
	return out, nil
}

func parseResponse(e *refcbor.Item) (Response, error) {
	var r Response
	if e.Major != refcbor.Array || len(e.Elems) != 2 || e.Elems[0].Major != refcbor.Bytes || e.Elems[1].Major != refcbor.Bytes {
		return r, errors.New("not [headers: bstr, payload: bstr]")
	}
	hm, err := oneItem(e.Elems[0].Str, "header map")
	if err != nil {
		return r, err
	}
	if hm.Major != refcbor.Map {
		return r, errors.New("headers do not hold a map")
	}
	status := ""
	for i := 0; i+1 < len(hm.Elems); i += 2 {
		k, v := hm.Elems[i], hm.Elems[i+1]
		if k.Major != refcbor.Bytes || v.Major != refcbor.Bytes {
			return r, errors.New("header map entry is not bstr => bstr")
		}
		name, val := string(k.Str), string(v.Str)
		for _, ch := range []byte(name) {
			if ch >= 0x80 || (ch >= 'A' && ch <= 'Z') {
				return r, fmt.Errorf("header name %q is not lower-case ASCII", name)
			}
		}
		for _, ch := range []byte(val) {
			if ch >= 0x80 {
				return r, fmt.Errorf("header %q has a non-ASCII value", name)
			}
		}
		if strings.HasPrefix(name, ":") {
			if name != ":status" {
				return r, fmt.Errorf("unexpected pseudo-header %q", name)
			}
			status = val
			continue
		}
		r.Fields = append(r.Fields, Field{Name: name, Value: val})
	}
	if len(status) != 3 || strings.Trim(status, "0123456789") != "" {
		return r, fmt.Errorf(":status is %q, expected three digits", status)
	}
	r.Status, _ = strconv.Atoi(status)
	r.Body = e.Elems[1].Str
	return r, nil
}

func parseSignatures(it *refcbor.Item) (*LSignatures, error) {
	bad := func(f string, a ...interface{}) (*LSignatures, error) {
		return nil, fmt.Errorf("signatures section: "+f, a...)
	}
	if it.Major != refcbor.Array || len(it.Elems) != 2 || it.Elems[0].Major != refcbor.Array || it.Elems[1].Major != refcbor.Array {
		return bad("not [authorities: [...], vouched-subsets: [...]]")
	}
	out := &LSignatures{}
	for i, a := range it.Elems[0].Elems {
		if a.Major != refcbor.Map {
			return bad("authority %d is not a map", i)
		}
		var la LAuthority
		for j := 0; j+1 < len(a.Elems); j += 2 {
			k, v := a.Elems[j], a.Elems[j+1]
			if k.Major != refcbor.Text || v.Major != refcbor.Bytes {
				return bad("authority %d: entry is not tstr => bstr", i)
			}
			val := v.Str
			if val == nil {
				val = []byte{}
			}
			switch string(k.Str) {
			case "cert":
				la.Cert = val
			case "ocsp":
				la.OCSP = val
			case "sct":
				la.SCT = val
			default:
				return bad("authority %d: unknown key %q", i, k.Str)
			}
		}
		if la.Cert == nil {
			return bad("authority %d has no cert", i)
		}
		out.Authorities = append(out.Authorities, la)
	}
	for i, v := range it.Elems[1].Elems {
		if v.Major != refcbor.Map || len(v.Elems) != 6 {
			return bad("vouched subset %d is not a map of three entries", i)
		}
		var lv LVouched
		got := map[string]bool{}
		for j := 0; j+1 < len(v.Elems); j += 2 {
			k, x := v.Elems[j], v.Elems[j+1]
			if k.Major != refcbor.Text {
				return bad("vouched subset %d: key is not a text string", i)
			}
			key := string(k.Str)
			got[key] = true
			switch {
			case key == "authority" && x.Major == refcbor.Uint:
				lv.Authority = x.Arg
			case key == "sig" && x.Major == refcbor.Bytes:
				lv.Sig = x.Str
			case key == "signed" && x.Major == refcbor.Bytes:
				lv.Signed = x.Str
			default:
				return bad("vouched subset %d: unexpected entry %q", i, key)
			}
		}
		if len(got) != 3 {
			return bad("vouched subset %d: missing entry", i)
		}
		out.Vouched = append(out.Vouched, lv)
	}
	return out, nil
}

// ---------------------------------------------------------------------------
// comparison helpers (both sides already in reference types)
// ---------------------------------------------------------------------------

// DiffResponse returns "" when the two responses carry the same status, header
// fields (as sets; order is the validator's business) and body.
func DiffResponse(want, got Response) string {
	if want.Status != got.Status {
		return fmt.Sprintf("status %d, expected %d", got.Status, want.Status)
	}
	if len(want.Fields) != len(got.Fields) {
		return fmt.Sprintf("%d header fields %v, expected %d %v", len(got.Fields), got.Fields, len(want.Fields), want.Fields)
	}
	wm := map[string]string{}
	for _, f := range want.Fields {
		wm[f.Name] = f.Value
	}
	for _, f := range got.Fields {
		v, ok := wm[f.Name]
		if !ok {
			return fmt.Sprintf("unexpected header field %q", f.Name)
		}
		if v != f.Value {
			return fmt.Sprintf("header %q is %q, expected %q", f.Name, f.Value, v)
		}
	}
	if !bytes.Equal(want.Body, got.Body) {
		return fmt.Sprintf("body of %d bytes starting %x, expected %d bytes starting %x", len(got.Body), clip(got.Body), len(want.Body), clip(want.Body))
	}
	return ""
}

func clip(b []byte) []byte {
	if len(b) > 8 {
		return b[:8]
	}
	return b
}

// DiffIndex returns "" when got lists exactly the entries of want in the same
// order with the same variants-value and responses.
func DiffIndex(want, got []IndexEntry) string {
	if len(want) != len(got) {
		return fmt.Sprintf("%d index entries, expected %d", len(got), len(want))
	}
	for i := range want {
		w, g := want[i], got[i]
		if w.URL != g.URL {
			return fmt.Sprintf("index entry %d is %q, expected %q", i, g.URL, w.URL)
		}
		if w.VariantsValue != g.VariantsValue {
			return fmt.Sprintf("index[%q]: variants-value %q, expected %q", w.URL, g.VariantsValue, w.VariantsValue)
		}
		if len(w.Responses) != len(g.Responses) {
			return fmt.Sprintf("index[%q]: %d responses, expected %d", w.URL, len(g.Responses), len(w.Responses))
		}
		for j := range w.Responses {
			if d := DiffResponse(w.Responses[j], g.Responses[j]); d != "" {
				return fmt.Sprintf("index[%q] response %d: %s", w.URL, j, d)
			}
		}
	}
	return ""
}

func optStr(p *string) string {
	if p == nil {
		return "<absent>"
	}
	return strconv.Quote(*p)
}

// DiffSignatures compares two signatures values (nil and empty byte strings are
// the same thing on the wire, absent and present keys are not).
func DiffSignatures(want, got *LSignatures) string {
	if (want == nil) != (got == nil) {
		return fmt.Sprintf("signatures present=%v, expected present=%v", got != nil, want != nil)
	}
	if want == nil {
		return ""
	}
	if len(want.Authorities) != len(got.Authorities) || len(want.Vouched) != len(got.Vouched) {
		return fmt.Sprintf("%d authorities / %d vouched subsets, expected %d / %d", len(got.Authorities), len(got.Vouched), len(want.Authorities), len(want.Vouched))
	}
	for i := range want.Authorities {
		w, g := want.Authorities[i], got.Authorities[i]
		if !bytes.Equal(w.Cert, g.Cert) || !bytes.Equal(w.OCSP, g.OCSP) || !bytes.Equal(w.SCT, g.SCT) ||
			(w.OCSP == nil) != (g.OCSP == nil) || (w.SCT == nil) != (g.SCT == nil) {
			return fmt.Sprintf("authority %d differs", i)
		}
	}
	for i := range want.Vouched {
		w, g := want.Vouched[i], got.Vouched[i]
		if w.Authority != g.Authority || !bytes.Equal(w.Sig, g.Sig) || !bytes.Equal(w.Signed, g.Signed) {
			return fmt.Sprintf("vouched subset %d differs: authority %d sig %x signed %x, expected authority %d sig %x signed %x", i, g.Authority, clip(g.Sig), clip(g.Signed), w.Authority, clip(w.Sig), clip(w.Signed))
		}
	}
	return ""
}

// DiffMeta compares version, primary URL, manifest URL and signatures.
func DiffMeta(l *Logical, b *Bundle) string {
	if l.Version != b.Version {
		return fmt.Sprintf("version %q, expected %q", b.Version, l.Version)
	}
	if optStr(l.PrimaryURL) != optStr(b.PrimaryURL) {
		return fmt.Sprintf("primary URL %s, expected %s", optStr(b.PrimaryURL), optStr(l.PrimaryURL))
	}
	if optStr(l.ManifestURL) != optStr(b.ManifestURL) {
		return fmt.Sprintf("manifest URL %s, expected %s", optStr(b.ManifestURL), optStr(l.ManifestURL))
	}
	return DiffSignatures(l.Signatures, b.Signatures)
}
