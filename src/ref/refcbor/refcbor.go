// Package refcbor is an independent reference implementation of the part of
// RFC 8949 the repository uses: a head tokenizer, a recursive item decoder, a
// canonical (core deterministic) encoder and a UTF-8 validator.  It imports
// nothing from the repository and is deliberately written differently from it
// (table-driven, uint64 length arithmetic, explicit remaining-length checks).
package refcbor

import (
	"bytes"
	"errors"
	"fmt"
	"sort"
)

// Major types.
const (
	Uint  = 0
	Nint  = 1
	Bytes = 2
	Text  = 3
	Array = 4
	Map   = 5
	Tag   = 6
	Other = 7
)

// Head is one decoded initial byte plus argument.
type Head struct {
	Major    int
	AI       int    // additional information 0..31
	Arg      uint64 // argument value
	Len      int    // bytes occupied by the head (1,2,3,5,9)
	Shortest bool   // argument is in its shortest form
}

var followLen = [32]int{24: 1, 25: 2, 26: 4, 27: 8}

var (
	ErrTruncated  = errors.New("refcbor: truncated")
	ErrReserved   = errors.New("refcbor: reserved additional information 28-30")
	ErrIndefinite = errors.New("refcbor: indefinite length (ai 31) not in the supported subset")
)

// ParseHead decodes the head at the start of b.
func ParseHead(b []byte) (Head, error) {
	if len(b) == 0 {
		return Head{}, ErrTruncated
	}
	h := Head{Major: int(b[0] >> 5), AI: int(b[0] & 31)}
	switch {
	case h.AI < 24:
		h.Arg, h.Len, h.Shortest = uint64(h.AI), 1, true
		return h, nil
	case h.AI <= 27:
		n := followLen[h.AI]
		if len(b) < 1+n {
			return h, ErrTruncated
		}
		for _, x := range b[1 : 1+n] {
			h.Arg = h.Arg<<8 | uint64(x)
		}
		h.Len = 1 + n
		var min uint64
		switch n {
		case 1:
			min = 24
		case 2:
			min = 1 << 8
		case 4:
			min = 1 << 16
		case 8:
			min = 1 << 32
		}
		h.Shortest = h.Arg >= min
		return h, nil
	case h.AI < 31:
		return h, ErrReserved
	default:
		return h, ErrIndefinite
	}
}

// Item is a decoded data item (definite lengths only).
type Item struct {
	Major int
	Arg   uint64  // integer argument / length / count / simple value
	Str   []byte  // content of byte and text strings
	Elems []*Item // array elements, or key,value,key,value... for maps
	Raw   []byte  // the exact encoded bytes of the item
}

const maxDepth = 64

// Decode decodes one complete definite-length item from the start of b and
// returns it with the number of bytes it occupies.  Text is not checked for
// UTF-8 validity here (see ValidUTF8).
func Decode(b []byte) (*Item, int, error) { return decode(b, 0) }

func decode(b []byte, depth int) (*Item, int, error) {
	if depth > maxDepth {
		return nil, 0, errors.New("refcbor: nesting too deep")
	}
	h, err := ParseHead(b)
	if err != nil {
		return nil, 0, err
	}
	it := &Item{Major: h.Major, Arg: h.Arg}
	rest := uint64(len(b) - h.Len)
	switch h.Major {
	case Uint, Nint:
		it.Raw = b[:h.Len]
		return it, h.Len, nil
	case Bytes, Text:
		if h.Arg > rest {
			return nil, 0, ErrTruncated
		}
		end := h.Len + int(h.Arg)
		it.Str = b[h.Len:end]
		it.Raw = b[:end]
		return it, end, nil
	case Array, Map:
		n := h.Arg
		if h.Major == Map {
			if n > rest/2 { // each pair needs at least two bytes
				return nil, 0, ErrTruncated
			}
			n *= 2
		}
		if n > rest { // each item needs at least one byte
			return nil, 0, ErrTruncated
		}
		pos := h.Len
		for i := uint64(0); i < n; i++ {
			e, l, err := decode(b[pos:], depth+1)
			if err != nil {
				return nil, 0, err
			}
			it.Elems = append(it.Elems, e)
			pos += l
		}
		it.Raw = b[:pos]
		return it, pos, nil
	case Tag:
		e, l, err := decode(b[h.Len:], depth+1)
		if err != nil {
			return nil, 0, err
		}
		it.Elems = []*Item{e}
		it.Raw = b[:h.Len+l]
		return it, h.Len + l, nil
	default: // major 7: simple values and floats; argument bytes already skipped
		if h.AI == 24 && h.Arg < 32 {
			return nil, 0, errors.New("refcbor: invalid two-byte simple value")
		}
		it.Raw = b[:h.Len]
		return it, h.Len, nil
	}
}

// DecodeSequence decodes a CBOR sequence that must cover b exactly.
func DecodeSequence(b []byte) ([]*Item, error) {
	var out []*Item
	for len(b) > 0 {
		it, n, err := Decode(b)
		if err != nil {
			return nil, err
		}
		out = append(out, it)
		b = b[n:]
	}
	return out, nil
}

// ---- canonical encoder ----

// AppendHead appends the shortest head for (major, arg).
func AppendHead(dst []byte, major int, arg uint64) []byte {
	m := byte(major << 5)
	switch {
	case arg <= 23:
		return append(dst, m|byte(arg))
	case arg <= 0xff:
		return append(dst, m|24, byte(arg))
	case arg <= 0xffff:
		return append(dst, m|25, byte(arg>>8), byte(arg))
	case arg <= 0xffffffff:
		return append(dst, m|26, byte(arg>>24), byte(arg>>16), byte(arg>>8), byte(arg))
	}
	dst = append(dst, m|27)
	for s := 56; s >= 0; s -= 8 {
		dst = append(dst, byte(arg>>uint(s)))
	}
	return dst
}

// AppendHeadWidth appends a head using exactly `width` follow bytes (0,1,2,4,8),
// whether or not that is the shortest form (used to build non-canonical inputs).
func AppendHeadWidth(dst []byte, major int, arg uint64, width int) []byte {
	m := byte(major << 5)
	switch width {
	case 0:
		return append(dst, m|byte(arg&31))
	case 1:
		return append(dst, m|24, byte(arg))
	case 2:
		return append(dst, m|25, byte(arg>>8), byte(arg))
	case 4:
		return append(dst, m|26, byte(arg>>24), byte(arg>>16), byte(arg>>8), byte(arg))
	}
	dst = append(dst, m|27)
	for s := 56; s >= 0; s -= 8 {
		dst = append(dst, byte(arg>>uint(s)))
	}
	return dst
}

func EncUint(v uint64) []byte { return AppendHead(nil, Uint, v) }

// EncInt encodes a signed integer (major 0 or 1).
func EncInt(v int64) []byte {
	if v >= 0 {
		return AppendHead(nil, Uint, uint64(v))
	}
	return AppendHead(nil, Nint, uint64(-(v + 1)))
}

func EncBytes(b []byte) []byte { return append(AppendHead(nil, Bytes, uint64(len(b))), b...) }
func EncText(s string) []byte  { return append(AppendHead(nil, Text, uint64(len(s))), s...) }

// EncArray encodes an array of already-encoded items.
func EncArray(items ...[]byte) []byte {
	out := AppendHead(nil, Array, uint64(len(items)))
	for _, it := range items {
		out = append(out, it...)
	}
	return out
}

// KV is one already-encoded map entry.
type KV struct{ K, V []byte }

var ErrDupKey = errors.New("refcbor: duplicate map key")

// EncMap encodes a map in core deterministic order (bytewise order of the encoded
// keys); two equal keys are an error.
func EncMap(kvs []KV) ([]byte, error) {
	s := make([]KV, len(kvs))
	copy(s, kvs)
	sort.SliceStable(s, func(i, j int) bool { return bytes.Compare(s[i].K, s[j].K) < 0 })
	out := AppendHead(nil, Map, uint64(len(s)))
	for i, kv := range s {
		if i > 0 && bytes.Equal(s[i-1].K, kv.K) {
			return nil, ErrDupKey
		}
		out = append(out, kv.K...)
		out = append(out, kv.V...)
	}
	return out, nil
}

// MustMap is EncMap for inputs known to have distinct keys.
func MustMap(kvs ...KV) []byte {
	b, err := EncMap(kvs)
	if err != nil {
		panic(err)
	}
	return b
}

// ---- UTF-8 (own DFA, RFC 3629 table 3-7 of Unicode) ----

// ValidUTF8 reports whether b is well-formed UTF-8 (no surrogates, no overlong
// forms, nothing above U+10FFFF).
func ValidUTF8(b []byte) bool {
	i := 0
	for i < len(b) {
		c := b[i]
		var n int
		var lo, hi byte = 0x80, 0xBF
		switch {
		case c <= 0x7F:
			i++
			continue
		case c >= 0xC2 && c <= 0xDF:
			n = 1
		case c == 0xE0:
			n, lo = 2, 0xA0
		case c >= 0xE1 && c <= 0xEC, c == 0xEE, c == 0xEF:
			n = 2
		case c == 0xED:
			n, hi = 2, 0x9F
		case c == 0xF0:
			n, lo = 3, 0x90
		case c >= 0xF1 && c <= 0xF3:
			n = 3
		case c == 0xF4:
			n, hi = 3, 0x8F
		default:
			return false
		}
		if i+n >= len(b) {
			return false // not enough continuation bytes
		}
		if b[i+1] < lo || b[i+1] > hi {
			return false
		}
		for k := 2; k <= n; k++ {
			if b[i+k] < 0x80 || b[i+k] > 0xBF {
				return false
			}
		}
		i += n + 1
	}
	return true
}

// ---- core deterministic recogniser (RFC 8949 section 4.2.1) for majors 0,2,3,4,5 ----

// Deterministic reports whether b is a sequence of complete items built only from
// unsigned integers, byte/text strings, arrays and maps, every head in shortest
// form and every map's keys strictly ascending by their encoded bytes.  It is
// total: it never panics and always terminates.
func Deterministic(b []byte) error {
	for len(b) > 0 {
		n, err := detItem(b, 0)
		if err != nil {
			return err
		}
		b = b[n:]
	}
	return nil
}

func detItem(b []byte, depth int) (int, error) {
	if depth > 512 {
		return 0, errors.New("refdet: nesting too deep")
	}
	h, err := ParseHead(b)
	if err != nil {
		return 0, err
	}
	if !h.Shortest {
		return 0, fmt.Errorf("refdet: argument %d not in shortest form", h.Arg)
	}
	rest := uint64(len(b) - h.Len)
	switch h.Major {
	case Uint:
		return h.Len, nil
	case Bytes, Text:
		if h.Arg > rest {
			return 0, ErrTruncated
		}
		return h.Len + int(h.Arg), nil
	case Array:
		if h.Arg > rest {
			return 0, ErrTruncated
		}
		pos := h.Len
		for i := uint64(0); i < h.Arg; i++ {
			n, err := detItem(b[pos:], depth+1)
			if err != nil {
				return 0, err
			}
			pos += n
		}
		return pos, nil
	case Map:
		if h.Arg > rest/2 {
			return 0, ErrTruncated
		}
		pos := h.Len
		var prev []byte
		for i := uint64(0); i < h.Arg; i++ {
			kn, err := detItem(b[pos:], depth+1)
			if err != nil {
				return 0, err
			}
			key := b[pos : pos+kn]
			if i > 0 && bytes.Compare(prev, key) >= 0 {
				return 0, errors.New("refdet: map keys not strictly ascending")
			}
			prev = key
			pos += kn
			vn, err := detItem(b[pos:], depth+1)
			if err != nil {
				return 0, err
			}
			pos += vn
		}
		return pos, nil
	}
	return 0, fmt.Errorf("refdet: major type %d outside the subset", h.Major)
}
