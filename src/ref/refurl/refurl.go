// Package refurl is the reference model for "the base URL joined with the file's
// percent-encoded relative path" (property C20).
//
// It is written from RFC 3986 only (section 2 percent-encoding, section 3 / appendix B
// component parsing, section 5.2 reference resolution) with the standard library's
// strings package and nothing from net/url or from the repository, so that it is
// independent both of the implementation under test and of the library the
// implementation is built on.
//
// Two directions are provided:
//
//   - Encode / Join turn a relative, slash-separated FILE PATH into a URL reference:
//     every path segment is percent-encoded on its own, so that no byte of a file
//     name can ever act as a URL delimiter ('#', '?', '%', a ':' in the first
//     segment of a relative reference).  Only the characters RFC 3986 allows
//     literally in a path segment (pchar = unreserved / sub-delims / ":" / "@")
//     are left alone; everything else becomes %XX with upper-case hex digits.
//
//   - Locate parses an arbitrary URL reference (what a tool wrote), resolves it
//     against a base and returns where it points: scheme, host and the DECODED
//     path, and whether it carries a query or a fragment.  Comparisons are done on
//     this parsed form, so they do not depend on which optional characters an
//     implementation chose to escape ("x%3Ay" and "x:y", "%7E" and "~" are equal).
//
// Expected gives the location the property prescribes directly from (base, path),
// without going through Encode; Locate(base, Join(base, p)) == Expected(base, p) is
// the model's own consistency check.
package refurl

import (
	"fmt"
	"strings"
)

// NoBase is the stand-in base used for resolving relative references when the tool
// was given no base URL: two relative references are "the same URL" iff they
// resolve to the same location against any one hierarchical base.
const NoBase = "https://nobase.invalid/r/"

const upperhex = "0123456789ABCDEF"

func isUnreserved(c byte) bool {
	return 'a' <= c && c <= 'z' || 'A' <= c && c <= 'Z' || '0' <= c && c <= '9' || c == '-' || c == '.' || c == '_' || c == '~'
}

func isSubDelim(c byte) bool { return strings.IndexByte("!$&'()*+,;=", c) >= 0 }

// isPchar: characters that may appear literally inside a path segment.
func isPchar(c byte) bool { return isUnreserved(c) || isSubDelim(c) || c == ':' || c == '@' }

// EncodeSegment percent-encodes one path segment (a file or directory name).
func EncodeSegment(seg string) string {
	var b strings.Builder
	for i := 0; i < len(seg); i++ {
		c := seg[i]
		if isPchar(c) {
			b.WriteByte(c)
		} else {
			b.WriteByte('%')
			b.WriteByte(upperhex[c>>4])
			b.WriteByte(upperhex[c&15])
		}
	}
	return b.String()
}

// Encode turns a relative slash-separated file path ("d/e f.txt") into a relative
// URL reference ("d/e%20f.txt").  A first segment containing ':' is protected with
// a leading "./" (RFC 3986 section 4.2) so that it cannot be read as a scheme.
func Encode(rel string) string {
	segs := strings.Split(rel, "/")
	for i, s := range segs {
		segs[i] = EncodeSegment(s)
	}
	out := strings.Join(segs, "/")
	if strings.Contains(segs[0], ":") {
		out = "./" + out
	}
	return out
}

// Join returns base ⊕ Encode(rel) as a string.  base is "" (relative URLs) or an
// absolute hierarchical URL without query and fragment; the reference replaces
// everything after the last '/' of the base path (RFC 3986 5.2.3 "merge").
func Join(base, rel string) string {
	if base == "" {
		return Encode(rel)
	}
	b := Parse(base)
	p := b.Path
	if p == "" {
		p = "/"
	}
	p = p[:strings.LastIndexByte(p, '/')+1]
	enc := Encode(rel)
	enc = strings.TrimPrefix(enc, "./")
	return b.Scheme + "://" + b.Authority + p + enc
}

// Ref is a URL reference split into its five components (RFC 3986 section 3);
// the Has* flags distinguish an absent component from an empty one.
type Ref struct {
	Scheme       string
	HasScheme    bool
	Authority    string
	HasAuthority bool
	Path         string // raw (still percent-encoded)
	Query        string
	HasQuery     bool
	Fragment     string
	HasFragment  bool
}

func isSchemeName(s string) bool {
	if s == "" {
		return false
	}
	for i := 0; i < len(s); i++ {
		c := s[i]
		alpha := 'a' <= c && c <= 'z' || 'A' <= c && c <= 'Z'
		if i == 0 && !alpha {
			return false
		}
		if !(alpha || '0' <= c && c <= '9' || c == '+' || c == '-' || c == '.') {
			return false
		}
	}
	return true
}

// Parse splits s into components; it never fails (every string has a split).
func Parse(s string) Ref {
	var r Ref
	if i := strings.IndexByte(s, '#'); i >= 0 {
		r.Fragment, r.HasFragment = s[i+1:], true
		s = s[:i]
	}
	if i := strings.IndexByte(s, '?'); i >= 0 {
		r.Query, r.HasQuery = s[i+1:], true
		s = s[:i]
	}
	if i := strings.IndexAny(s, ":/"); i > 0 && s[i] == ':' && isSchemeName(s[:i]) {
		r.Scheme, r.HasScheme = s[:i], true
		s = s[i+1:]
	}
	if strings.HasPrefix(s, "//") {
		s = s[2:]
		i := strings.IndexByte(s, '/')
		if i < 0 {
			i = len(s)
		}
		r.Authority, r.HasAuthority = s[:i], true
		s = s[i:]
	}
	r.Path = s
	return r
}

// removeDotSegments is RFC 3986 section 5.2.4, on the raw path.
func removeDotSegments(in string) string {
	var out []string // output segments, each including its leading "/" if it had one
	for in != "" {
		switch {
		case strings.HasPrefix(in, "../"):
			in = in[3:]
		case strings.HasPrefix(in, "./"):
			in = in[2:]
		case strings.HasPrefix(in, "/./"):
			in = in[2:]
		case in == "/.":
			in = "/"
		case strings.HasPrefix(in, "/../"):
			in = in[3:]
			if len(out) > 0 {
				out = out[:len(out)-1]
			}
		case in == "/..":
			in = "/"
			if len(out) > 0 {
				out = out[:len(out)-1]
			}
		case in == "." || in == "..":
			in = ""
		default:
			// move the first path segment (with its leading "/", if any) to the output
			start := 0
			if in[0] == '/' {
				start = 1
			}
			j := strings.IndexByte(in[start:], '/')
			if j < 0 {
				out = append(out, in)
				in = ""
			} else {
				out = append(out, in[:start+j])
				in = in[start+j:]
			}
		}
	}
	return strings.Join(out, "")
}

// Resolve is RFC 3986 section 5.2.2 (strict).
func Resolve(base, ref Ref) Ref {
	var t Ref
	switch {
	case ref.HasScheme:
		t = ref
		t.Path = removeDotSegments(ref.Path)
		return t
	case ref.HasAuthority:
		t.Authority, t.HasAuthority = ref.Authority, true
		t.Path = removeDotSegments(ref.Path)
		t.Query, t.HasQuery = ref.Query, ref.HasQuery
	default:
		if ref.Path == "" {
			t.Path = base.Path
			if ref.HasQuery {
				t.Query, t.HasQuery = ref.Query, true
			} else {
				t.Query, t.HasQuery = base.Query, base.HasQuery
			}
		} else {
			if strings.HasPrefix(ref.Path, "/") {
				t.Path = removeDotSegments(ref.Path)
			} else {
				var merged string
				if base.HasAuthority && base.Path == "" {
					merged = "/" + ref.Path
				} else {
					merged = base.Path[:strings.LastIndexByte(base.Path, '/')+1] + ref.Path
				}
				t.Path = removeDotSegments(merged)
			}
			t.Query, t.HasQuery = ref.Query, ref.HasQuery
		}
		t.Authority, t.HasAuthority = base.Authority, base.HasAuthority
	}
	t.Scheme, t.HasScheme = base.Scheme, base.HasScheme
	t.Fragment, t.HasFragment = ref.Fragment, ref.HasFragment
	return t
}

func unhex(c byte) int {
	switch {
	case '0' <= c && c <= '9':
		return int(c - '0')
	case 'a' <= c && c <= 'f':
		return int(c-'a') + 10
	case 'A' <= c && c <= 'F':
		return int(c-'A') + 10
	}
	return -1
}

// Decode removes percent-encoding; a '%' not followed by two hex digits is an error.
func Decode(raw string) (string, error) {
	var b strings.Builder
	for i := 0; i < len(raw); i++ {
		if raw[i] != '%' {
			b.WriteByte(raw[i])
			continue
		}
		if i+2 >= len(raw) {
			return "", fmt.Errorf("refurl: truncated percent-escape in %q", raw)
		}
		h, l := unhex(raw[i+1]), unhex(raw[i+2])
		if h < 0 || l < 0 {
			return "", fmt.Errorf("refurl: invalid percent-escape in %q", raw)
		}
		b.WriteByte(byte(h<<4 | l))
		i += 2
	}
	return b.String(), nil
}

// Target is where a URL points, in compared form.
type Target struct {
	Scheme   string // lower case
	Host     string // authority, lower case
	Path     string // percent-DECODED path
	Query    string // "?..." including the question mark when a query component is present, else ""
	Fragment string // "#..." including the hash when a fragment component is present, else ""
}

func (t Target) String() string {
	return fmt.Sprintf("{scheme=%q host=%q decoded-path=%q query=%q fragment=%q}", t.Scheme, t.Host, t.Path, t.Query, t.Fragment)
}

// Locate resolves the URL reference s against base ("" = NoBase) and returns its
// location.  It fails only when the path is not validly percent-encoded.
func Locate(base, s string) (Target, error) {
	if base == "" {
		base = NoBase
	}
	return locate(Resolve(Parse(base), Parse(s)))
}

// LocateVia resolves s against the URL that the reference via denotes under base
// (e.g. a Location header value relative to the URL of the response carrying it).
func LocateVia(base, via, s string) (Target, error) {
	if base == "" {
		base = NoBase
	}
	return locate(Resolve(Resolve(Parse(base), Parse(via)), Parse(s)))
}

func locate(r Ref) (Target, error) {
	p, err := Decode(r.Path)
	if err != nil {
		return Target{}, err
	}
	t := Target{Scheme: strings.ToLower(r.Scheme), Host: strings.ToLower(r.Authority), Path: p}
	if r.HasQuery {
		t.Query = "?" + r.Query
	}
	if r.HasFragment {
		t.Fragment = "#" + r.Fragment
	}
	return t, nil
}

// Expected is the location the property prescribes for the file at the relative
// slash-separated path rel under base ("" = relative URLs, compared through
// NoBase): same scheme and host as the base, decoded path = decoded base
// directory + rel, no query, no fragment.  rel == "" denotes the base directory
// itself; a trailing "/" denotes a directory URL.
func Expected(base, rel string) Target {
	if base == "" {
		base = NoBase
	}
	b := Parse(base)
	p := b.Path
	if p == "" {
		p = "/"
	}
	p = p[:strings.LastIndexByte(p, '/')+1]
	dp, err := Decode(p)
	if err != nil {
		dp = p
	}
	return Target{Scheme: strings.ToLower(b.Scheme), Host: strings.ToLower(b.Authority), Path: dp + rel}
}
