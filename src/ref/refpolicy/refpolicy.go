// Package refpolicy is the reference model of property C09: the acceptance policy
// of a signed exchange, as a pure predicate over the facts the policy talks about.
//
// It is written from the specification text, not from the implementation:
//
//   - draft-yasskin-http-origin-signed-responses, "Cross-origin trust" steps 1, 4, 5
//     (validity-url same-origin with requestUrl; RFC 7234 section 3 must not forbid a
//     shared cache from storing the response; no uncached header field),
//     "Signature validity" steps 3, 4, 8, 9 (expires at most 604800 s after date;
//     current time neither before date nor after expires; a Content-Type response
//     header; an integrity identifier the client implements), "Uncached header
//     fields" and "Stateful header fields" (the two name lists);
//   - draft-yasskin-httpbis-origin-signed-exchanges-impl-00/-02 (versions 1b1, 1b2):
//     the request method must be safe and cacheable (RFC 7231: GET, HEAD) and the
//     request must carry no stateful request header field (Authorization, Cookie,
//     Cookie2, Proxy-Authorization, Sec-WebSocket-Key);
//   - RFC 7234 section 3 for "storable by a shared cache", RFC 7231 section 6.1 for the
//     status codes that are cacheable by default, RFC 7230 section 3.2 / RFC 7234
//     section 5.2 for the Cache-Control syntax (field names and directive names are
//     case-insensitive, a field that occurs several times is equivalent to the
//     comma-joined single field, a directive is `token [ "=" argument ]`);
//   - RFC 6454 / HTML "same origin": two tuple origins are the same iff scheme, host
//     and (effective) port are identical.
//
// A valid signature and a payload that matches its integrity header are NOT part of
// this predicate: the harness guarantees both by construction.
//
// Only the standard library is imported (net/url to split a URL, net/http for
// StatusText: "a status code the cache understands" is taken to be a status code
// net/http has a reason phrase for, the same reading as the code under test, see
// DESIGN.md section 6/C09).
package refpolicy

import (
	"math"
	"net/http"
	"net/url"
	"strings"
)

// Input is everything the policy depends on.
type Input struct {
	Version string // "1b1", "1b2" or "1b3"

	// Verification time as Unix seconds plus a nanosecond part in [0, 1e9).
	TSec  int64
	TNsec int64
	// Signature parameters "date" and "expires" (Unix seconds).
	Date    int64
	Expires int64

	// Request side (meaningful for 1b1 / 1b2 only; 1b3 has neither).
	Method         string
	RequestHeaders []string // field names as they appear (any letter case)

	// Response side.
	Status          int
	ResponseHeaders []string // every field name as it appears (any letter case)
	CacheControl    []string // every Cache-Control field value, in order
	ExpiresPresent  bool     // an Expires response header field is present
	ContentType     bool     // a Content-Type response header field is present

	// Signature parameters "validity-url" and "integrity"; the exchange's request URL.
	ValidityURL string
	RequestURL  string
	Integrity   string
}

// Reasons returned by Accept / Storable.
const (
	OK                 = "ok"
	BadVersion         = "unknown-version"
	NotSameOrigin      = "validity-url-not-same-origin"
	TooLong            = "lifetime-over-7-days"
	NotYetValid        = "before-date"
	Expired            = "after-expires"
	BadIntegrity       = "integrity-scheme"
	BadMethod          = "request-method"
	StatefulRequest    = "stateful-request-header"
	NoContentType      = "no-content-type"
	UncachedResponse   = "uncached-response-header"
	NotStorableStatus  = "not-storable:status-not-understood"
	NotStorableNoStore = "not-storable:no-store"
	NotStorablePrivate = "not-storable:private"
	NotStorableNothing = "not-storable:nothing-allows-it"
)

// MaxLifetime is 7 days in seconds ("Signature validity" step 3).
const MaxLifetime = 604800

// The three name lists.  Kept as plain sorted slices and searched linearly with a
// case-insensitive comparison (the implementation keeps lower-cased hash sets).
var statefulRequestNames = []string{
	"Authorization", "Cookie", "Cookie2", "Proxy-Authorization", "Sec-WebSocket-Key",
}

var hopByHopNames = []string{
	"Connection", "Keep-Alive", "Proxy-Connection", "Trailer", "Transfer-Encoding", "Upgrade",
}

var statefulResponseNames = []string{
	"Authentication-Control", "Authentication-Info", "Clear-Site-Data", "Optional-WWW-Authenticate",
	"Proxy-Authenticate", "Proxy-Authentication-Info", "Public-Key-Pins", "Sec-WebSocket-Accept",
	"Set-Cookie", "Set-Cookie2", "SetProfile", "Strict-Transport-Security", "WWW-Authenticate",
}

// cacheableByDefault: RFC 7231 section 6.1.
var cacheableByDefault = [...]int{200, 203, 204, 206, 300, 301, 404, 405, 410, 414, 501}

// asciiFold reports whether a and b are equal ignoring ASCII letter case.
func asciiFold(a, b string) bool {
	if len(a) != len(b) {
		return false
	}
	for i := 0; i < len(a); i++ {
		x, y := a[i], b[i]
		if 'A' <= x && x <= 'Z' {
			x += 'a' - 'A'
		}
		if 'A' <= y && y <= 'Z' {
			y += 'a' - 'A'
		}
		if x != y {
			return false
		}
	}
	return true
}

func inList(list []string, name string) bool {
	for _, l := range list {
		if asciiFold(l, name) {
			return true
		}
	}
	return false
}

// IsStatefulRequestHeader: impl draft, "stateful request header fields".
func IsStatefulRequestHeader(name string) bool { return inList(statefulRequestNames, name) }

// IsUncachedResponseHeader: "Uncached header fields" (hop-by-hop list plus the
// stateful response header fields).
func IsUncachedResponseHeader(name string) bool {
	return inList(hopByHopNames, name) || inList(statefulResponseNames, name)
}

// UncachedNames returns the 19 names (spec spelling) for generators.
func UncachedNames() []string {
	return append(append([]string{}, hopByHopNames...), statefulResponseNames...)
}

// StatefulRequestNames returns the 5 names (spec spelling) for generators.
func StatefulRequestNames() []string { return append([]string{}, statefulRequestNames...) }

// Directives tokenises the Cache-Control field into directive names (lower-cased).  RFC 7234 section 5.2:
// Cache-Control = 1#cache-directive, cache-directive = token [ "=" ( token / quoted-string ) ]; RFC 7230
// section 7: list elements are separated by commas with optional whitespace, empty elements are ignored;
// section 3.2.6: quoted-string = DQUOTE *( qdtext / quoted-pair ) DQUOTE - a comma inside a quoted-string
// does not end the element.  Several field lines are one list (section 3.2.2: they are combined with ","),
// which is also the only form a signed exchange has once it is serialized.  A DQUOTE that is never closed does
// not start a quoted-string (the alphabet of C09 contains none).
func Directives(fieldValues []string) map[string]bool {
	out := map[string]bool{}
	fv := strings.Join(fieldValues, ",")
	var elems []string
	start, quote := 0, -1
	for i := 0; i < len(fv); i++ {
		switch ch := fv[i]; {
		case quote >= 0 && ch == '\\':
			i++
		case ch == '"' && quote >= 0:
			quote = -1
		case ch == '"':
			quote = i
		case ch == ',' && quote < 0:
			elems = append(elems, fv[start:i])
			start = i + 1
		}
	}
	if quote >= 0 {
		elems = append(elems, strings.Split(fv[start:], ",")...)
	} else {
		elems = append(elems, fv[start:])
	}
	for _, elem := range elems {
		elem = strings.Trim(elem, " \t")
		if elem == "" {
			continue
		}
		name := elem
		if eq := strings.IndexByte(elem, '='); eq >= 0 {
			name = strings.TrimRight(elem[:eq], " \t")
		}
		out[strings.ToLower(name)] = true
	}
	return out
}

// StatusUnderstood: the status code is one the cache understands.
func StatusUnderstood(status int) bool { return http.StatusText(status) != "" }

// Storable is RFC 7234 section 3 for a shared cache and a response to a GET request
// without Authorization (the 1b3 format has no request method and no request
// headers):
//
//	A cache MUST NOT store a response to any request, unless:
//	o the request method is understood by the cache and defined as being cacheable [GET], and
//	o the response status code is understood by the cache, and
//	o the "no-store" cache directive does not appear in request or response header fields, and
//	o the "private" response directive does not appear in the response, if the cache is shared, and
//	o the Authorization header field does not appear in the request ... [no request headers], and
//	o the response either: contains an Expires header field, or a max-age response
//	  directive, or a s-maxage response directive and the cache is shared, or a Cache
//	  Control Extension that allows it to be cached [none known], or has a status code
//	  that is defined as cacheable by default, or contains a public response directive.
func Storable(status int, cacheControl []string, expiresPresent bool) (bool, string) {
	if !StatusUnderstood(status) {
		return false, NotStorableStatus
	}
	d := Directives(cacheControl)
	if d["no-store"] {
		return false, NotStorableNoStore
	}
	if d["private"] {
		return false, NotStorablePrivate
	}
	allowed := expiresPresent || d["max-age"] || d["s-maxage"] || d["public"]
	for _, s := range cacheableByDefault {
		if s == status {
			allowed = true
		}
	}
	if !allowed {
		return false, NotStorableNothing
	}
	return true, OK
}

type origin struct {
	scheme, host, port string
}

// originOf computes the tuple origin of an absolute hierarchical URL; ok is false
// when the string is not such a URL (it then has an opaque origin, which is
// same-origin with nothing).
func originOf(raw string) (origin, bool) {
	u, err := url.Parse(raw)
	if err != nil || u.Scheme == "" || u.Host == "" || u.Opaque != "" {
		return origin{}, false
	}
	o := origin{scheme: strings.ToLower(u.Scheme), host: strings.ToLower(u.Hostname()), port: u.Port()}
	if o.host == "" {
		return origin{}, false
	}
	if o.port == "" {
		switch o.scheme {
		case "https", "wss":
			o.port = "443"
		case "http", "ws":
			o.port = "80"
		}
	}
	return o, true
}

// SameOrigin: both URLs have a tuple origin and scheme, host and port are identical.
func SameOrigin(a, b string) bool {
	oa, ok := originOf(a)
	if !ok {
		return false
	}
	ob, ok := originOf(b)
	if !ok {
		return false
	}
	return oa == ob
}

// IntegrityFor is the integrity identifier a client of the given version implements.
func IntegrityFor(version string) (string, bool) {
	switch version {
	case "1b1":
		return "mi-draft2", true
	case "1b2", "1b3":
		return "digest/mi-sha256-03", true
	}
	return "", false
}

// Accept is the acceptance predicate.  It returns whether an exchange with a valid
// signature and intact payload must be accepted, and the first reason (in the order
// of the spec's algorithm) why not.
func Accept(in Input) (bool, string) {
	wantIntegrity, known := IntegrityFor(in.Version)
	if !known {
		return false, BadVersion
	}
	hasRequest := in.Version == "1b1" || in.Version == "1b2"

	// Cross-origin trust, step 1.
	if !SameOrigin(in.ValidityURL, in.RequestURL) {
		return false, NotSameOrigin
	}
	// Signature validity, step 3: "If expires is more than 7 days (604800 seconds)
	// after date, return invalid."  (Written without a subtraction that could wrap.)
	if in.Date <= math.MaxInt64-MaxLifetime && in.Expires > in.Date+MaxLifetime {
		return false, TooLong
	}
	// Step 4: "If the current time is before date or after expires".
	if in.TSec < in.Date {
		return false, NotYetValid
	}
	if in.TSec > in.Expires || (in.TSec == in.Expires && in.TNsec > 0) {
		return false, Expired
	}
	// Step 8 (1b3 on): a Content-Type response header field.
	if !hasRequest && !in.ContentType {
		return false, NoContentType
	}
	// Step 9: the integrity identifier is one this version of the client can use.
	if in.Integrity != wantIntegrity {
		return false, BadIntegrity
	}
	if hasRequest {
		// impl draft (1b1/1b2): request method safe and cacheable.
		if in.Method != "GET" && in.Method != "HEAD" {
			return false, BadMethod
		}
	} else {
		// Cross-origin trust, step 4.
		if ok, why := Storable(in.Status, in.CacheControl, in.ExpiresPresent); !ok {
			return false, why
		}
	}
	// Cross-origin trust, step 5 (and, for 1b1/1b2, stateful request header fields).
	if hasRequest {
		for _, n := range in.RequestHeaders {
			if IsStatefulRequestHeader(n) {
				return false, StatefulRequest
			}
		}
	}
	for _, n := range in.ResponseHeaders {
		if IsUncachedResponseHeader(n) {
			return false, UncachedResponse
		}
	}
	return true, OK
}
