package refsxg

// A tiny structured-header codec for the Signature header (a parameterised list,
// draft-ietf-httpbis-header-structure-09 sections 3.4 / 4.1.4 / 4.2.5) restricted to
// what that header uses: a token label and parameters whose values are integers,
// strings or byte sequences.  Serializer and parser are written from the draft's
// algorithms; the parser works on a token stream (lexer + grammar), not on a
// character cursor.

import (
	"encoding/base64"
	"errors"
	"fmt"
	"sort"
	"strconv"
)

// Param is one parameter.  Value is int64, string, []byte, or nil (key only).
type Param struct {
	Key   string
	Value interface{}
}

func isAlpha(c byte) bool { return c|0x20 >= 'a' && c|0x20 <= 'z' }
func isLower(c byte) bool { return c >= 'a' && c <= 'z' }
func isDigit(c byte) bool { return c >= '0' && c <= '9' }
func isKeyCh(c byte) bool { return isLower(c) || isDigit(c) || c == '_' || c == '-' }
func isTokenCh(c byte) bool {
	return isAlpha(c) || isDigit(c) || c == '_' || c == '-' || c == '.' || c == ':' || c == '%' || c == '*' || c == '/'
}

func validToken(s string) bool {
	if s == "" || !isAlpha(s[0]) {
		return false
	}
	for i := 1; i < len(s); i++ {
		if !isTokenCh(s[i]) {
			return false
		}
	}
	return true
}

func validKey(s string) bool {
	if s == "" || !isLower(s[0]) {
		return false
	}
	for i := 1; i < len(s); i++ {
		if !isKeyCh(s[i]) {
			return false
		}
	}
	return true
}

// SerializeParamIdentifier writes label;key=value;... with the parameters in
// ascending key order (the order the repository documents for reproducibility;
// the draft leaves it to the sender).
func SerializeParamIdentifier(label string, params []Param) (string, error) {
	if !validToken(label) {
		return "", fmt.Errorf("refsxg: label %q is not a token", label)
	}
	ps := append([]Param{}, params...)
	sort.SliceStable(ps, func(i, j int) bool { return ps[i].Key < ps[j].Key })
	out := []byte(label)
	for i, p := range ps {
		if i > 0 && ps[i-1].Key == p.Key {
			return "", fmt.Errorf("refsxg: duplicate parameter %q", p.Key)
		}
		if !validKey(p.Key) {
			return "", fmt.Errorf("refsxg: %q is not a key", p.Key)
		}
		out = append(out, ';')
		out = append(out, p.Key...)
		switch v := p.Value.(type) {
		case nil:
		case int64:
			out = append(out, '=')
			out = strconv.AppendInt(out, v, 10)
		case string:
			out = append(out, '=', '"')
			for i := 0; i < len(v); i++ {
				c := v[i]
				if c < 0x20 || c > 0x7e {
					return "", fmt.Errorf("refsxg: string parameter %q holds a byte outside %%x20-7E", p.Key)
				}
				if c == '"' || c == '\\' {
					out = append(out, '\\')
				}
				out = append(out, c)
			}
			out = append(out, '"')
		case []byte:
			out = append(out, '=', '*')
			out = append(out, base64.StdEncoding.EncodeToString(v)...)
			out = append(out, '*')
		default:
			return "", fmt.Errorf("refsxg: unsupported parameter type %T", p.Value)
		}
	}
	return string(out), nil
}

// SignatureParams are the seven parameters of one signature.
type SignatureParams struct {
	Sig         []byte
	Integrity   string
	CertURL     string
	CertSha256  []byte
	ValidityURL string
	Date        int64
	Expires     int64
}

// SignatureHeader serializes a one-member Signature header.
func SignatureHeader(label string, p SignatureParams) (string, error) {
	return SerializeParamIdentifier(label, []Param{
		{"sig", p.Sig}, {"integrity", p.Integrity}, {"cert-url", p.CertURL}, {"cert-sha256", p.CertSha256},
		{"validity-url", p.ValidityURL}, {"date", p.Date}, {"expires", p.Expires},
	})
}

// ---- parser -------------------------------------------------------------------

type tokKind int

const (
	tEnd tokKind = iota
	tWS
	tSemi
	tComma
	tEq
	tWord  // token / key characters
	tInt   // integer
	tStr   // string
	tBytes // byte sequence
)

type tok struct {
	kind tokKind
	text string
	num  int64
	bin  []byte
}

func lex(s string) ([]tok, error) {
	var out []tok
	i := 0
	for i < len(s) {
		c := s[i]
		switch {
		case c == ' ' || c == '\t':
			j := i
			for j < len(s) && (s[j] == ' ' || s[j] == '\t') {
				j++
			}
			out = append(out, tok{kind: tWS})
			i = j
		case c == ';':
			out = append(out, tok{kind: tSemi})
			i++
		case c == ',':
			out = append(out, tok{kind: tComma})
			i++
		case c == '=':
			out = append(out, tok{kind: tEq})
			i++
		case c == '"':
			j := i + 1
			var b []byte
			closed := false
			for j < len(s) {
				d := s[j]
				if d == '\\' {
					if j+1 >= len(s) || (s[j+1] != '"' && s[j+1] != '\\') {
						return nil, errors.New("refsxg: bad escape in string")
					}
					b = append(b, s[j+1])
					j += 2
					continue
				}
				if d == '"' {
					closed = true
					j++
					break
				}
				if d < 0x20 || d > 0x7e {
					return nil, errors.New("refsxg: byte outside %x20-7E in string")
				}
				b = append(b, d)
				j++
			}
			if !closed {
				return nil, errors.New("refsxg: unterminated string")
			}
			out = append(out, tok{kind: tStr, text: string(b)})
			i = j
		case c == '*':
			j := i + 1
			for j < len(s) && s[j] != '*' {
				d := s[j]
				if !(isAlpha(d) || isDigit(d) || d == '+' || d == '/' || d == '=') {
					return nil, errors.New("refsxg: byte outside the base64 alphabet in byte sequence")
				}
				j++
			}
			if j >= len(s) {
				return nil, errors.New("refsxg: unterminated byte sequence")
			}
			body := s[i+1 : j]
			bin, err := base64.StdEncoding.DecodeString(body)
			if err != nil {
				if bin, err = base64.RawStdEncoding.DecodeString(body); err != nil {
					return nil, fmt.Errorf("refsxg: byte sequence is not base64: %v", err)
				}
			}
			out = append(out, tok{kind: tBytes, bin: bin})
			i = j + 1
		case c == '-' || isDigit(c):
			j := i + 1
			for j < len(s) && isDigit(s[j]) {
				j++
			}
			if j < len(s) && s[j] == '.' {
				return nil, errors.New("refsxg: floats are outside the Signature header's subset")
			}
			n, err := strconv.ParseInt(s[i:j], 10, 64)
			if err != nil {
				return nil, fmt.Errorf("refsxg: bad integer %q", s[i:j])
			}
			out = append(out, tok{kind: tInt, num: n})
			i = j
		case isAlpha(c):
			j := i + 1
			// '*' is a token character but also opens a byte sequence; a word starts
			// with ALPHA, so inside a word '*' can only be a token character
			for j < len(s) && isTokenCh(s[j]) {
				j++
			}
			out = append(out, tok{kind: tWord, text: s[i:j]})
			i = j
		default:
			return nil, fmt.Errorf("refsxg: unexpected byte %#x at offset %d", c, i)
		}
	}
	return append(out, tok{kind: tEnd}), nil
}

// Member is one parsed member of a parameterised list.
type Member struct {
	Label  string
	Params map[string]interface{} // int64 | string | []byte | nil
	Order  []string               // keys in the order they appear
}

// ParseParamList parses a parameterised list.
func ParseParamList(s string) ([]Member, error) {
	ts, err := lex(s)
	if err != nil {
		return nil, err
	}
	pos := 0
	peek := func() tokKind { return ts[pos].kind }
	skipWS := func() {
		for peek() == tWS {
			pos++
		}
	}
	var out []Member
	skipWS()
	for {
		if peek() != tWord || !validToken(ts[pos].text) {
			return nil, errors.New("refsxg: expected a token as the identifier")
		}
		m := Member{Label: ts[pos].text, Params: map[string]interface{}{}}
		pos++
		for {
			skipWS()
			if peek() != tSemi {
				break
			}
			pos++
			skipWS()
			if peek() != tWord || !validKey(ts[pos].text) {
				return nil, errors.New("refsxg: expected a parameter key")
			}
			k := ts[pos].text
			pos++
			if _, dup := m.Params[k]; dup {
				return nil, fmt.Errorf("refsxg: duplicate parameter %q", k)
			}
			var v interface{}
			if peek() == tEq {
				pos++
				switch peek() {
				case tInt:
					v = ts[pos].num
				case tStr:
					v = ts[pos].text
				case tBytes:
					v = ts[pos].bin
					if ts[pos].bin == nil {
						v = []byte{}
					}
				default:
					return nil, fmt.Errorf("refsxg: parameter %q has no integer / string / byte-sequence value", k)
				}
				pos++
			}
			m.Params[k] = v
			m.Order = append(m.Order, k)
		}
		out = append(out, m)
		skipWS()
		if peek() == tEnd {
			return out, nil
		}
		if peek() != tComma {
			return nil, errors.New("refsxg: expected ',' or end of input after a list member")
		}
		pos++
		skipWS()
	}
}

// ParseSignature parses a Signature header holding exactly one signature and
// extracts the seven mandatory parameters with their prescribed types.
func ParseSignature(s string) (label string, p SignatureParams, err error) {
	ms, err := ParseParamList(s)
	if err != nil {
		return "", p, err
	}
	if len(ms) != 1 {
		return "", p, fmt.Errorf("refsxg: %d signatures, the implementation snapshots allow exactly one", len(ms))
	}
	m := ms[0]
	get := func(k string) interface{} { return m.Params[k] }
	var ok bool
	fail := func(k, typ string) error { return fmt.Errorf("refsxg: parameter %q missing or not a %s", k, typ) }
	if p.Sig, ok = get("sig").([]byte); !ok {
		return "", p, fail("sig", "byte sequence")
	}
	if p.Integrity, ok = get("integrity").(string); !ok {
		return "", p, fail("integrity", "string")
	}
	if p.CertURL, ok = get("cert-url").(string); !ok {
		return "", p, fail("cert-url", "string")
	}
	if p.CertSha256, ok = get("cert-sha256").([]byte); !ok {
		return "", p, fail("cert-sha256", "byte sequence")
	}
	if p.ValidityURL, ok = get("validity-url").(string); !ok {
		return "", p, fail("validity-url", "string")
	}
	if p.Date, ok = get("date").(int64); !ok {
		return "", p, fail("date", "integer")
	}
	if p.Expires, ok = get("expires").(int64); !ok {
		return "", p, fail("expires", "integer")
	}
	return m.Label, p, nil
}
