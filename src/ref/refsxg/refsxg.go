// Package refsxg is an independent reference model of the signed-exchange wire
// formats 1b1, 1b2 and 1b3, written from the specification text
// (draft-yasskin-http-origin-signed-responses, sections "The Signature Header",
// "CBOR representation of exchange response metadata and headers", "Canonical CBOR
// serialization", "Signature validity", "application/signed-exchange format", and
// the implementation snapshots draft-yasskin-httpbis-origin-signed-exchanges-impl
// -01 (b1), -02 (b2), -03 (b3)).  It imports nothing from the repository: only the
// standard library and refcbor.  It is deliberately structured differently from the
// implementation: an exchange is a plain value with ordered header-field lists (no
// http.Header), every artefact is produced by appending to one byte slice, the
// header block is built from already-encoded key/value items, and there is a
// reference PARSER of the file layout next to the serializer.
//
// What each snapshot prescribes (the differences are the whole point of the checks):
//
//	            b1                               b2                         b3
//	magic       "sxg1-b1\0"                      "sxg1-b2\0"                "sxg1-b3\0"
//	file        magic sigLen(3) hdrLen(3)        magic urlLen(2) url sigLen(3, <=16384) hdrLen(3, <=524288)
//	            sig headers payload              sig headers payload
//	headers     [ {":method",":url",req...},     [ {":method",req...},      {":status",resp...}
//	              {":status",resp...} ]            {":status",resp...} ]
//	message     64*0x20 ctx 0 CBOR-map           64*0x20 ctx 0 (32 sha | 0) len8 validity-url date8 expires8
//	            {cert-sha256,validity-url,       len8 requestUrl len8 headers
//	             date,expires,headers}
//	context     "HTTP Exchange 1 b1"             "HTTP Exchange 1 b2"       "HTTP Exchange 1 b3"
//	integrity   "mi-draft2" (MI-Draft2 header)   "digest/mi-sha256-03" (Digest header)
package refsxg

import (
	"bytes"
	"crypto/ecdsa"
	"crypto/rand"
	"crypto/sha256"
	"crypto/sha512"
	"encoding/asn1"
	"encoding/base64"
	"errors"
	"fmt"
	"math/big"
	"sort"
	"strconv"

	"github.com/WICG/webpackage/go/signedexchange/zverif/refcbor"
)

// Version of the format.
type Version int

const (
	B1 Version = 1
	B2 Version = 2
	B3 Version = 3
)

var Versions = []Version{B1, B2, B3}

func (v Version) tag() string { return "b" + strconv.Itoa(int(v)) }

// String is the repository's spelling of the version ("1b1", "1b2", "1b3").
func (v Version) String() string { return "1" + v.tag() }

// Magic is the 8-byte file signature of a snapshot.
func Magic(v Version) []byte { return []byte("sxg1-" + v.tag() + "\x00") }

// Context is the draft-specific context string of the signed message.
func Context(v Version) string { return "HTTP Exchange 1 " + v.tag() }

// HasRequest: b1 and b2 sign a request map next to the response map.
func (v Version) HasRequest() bool { return v == B1 || v == B2 }

// IntegrityID is the value of the "integrity" parameter of a snapshot.
func IntegrityID(v Version) string {
	if v == B1 {
		return "mi-draft2"
	}
	return "digest/mi-sha256-03"
}

// DigestHeaderName is the response header field that carries the MI proof.
func DigestHeaderName(v Version) string {
	if v == B1 {
		return "MI-Draft2"
	}
	return "Digest"
}

// ContentEncodingName is the content coding (and digest algorithm) name.
func ContentEncodingName(v Version) string {
	if v == B1 {
		return "mi-sha256-draft2"
	}
	return "mi-sha256-03"
}

// Limits of the file layout.
const (
	MaxURLLen       = 1<<16 - 1 // 2-byte fallbackUrlLength (b2, b3)
	MaxSigLen       = 16384     // "If this is larger than 16384 (16*1024), parsing MUST fail" (b2, b3)
	MaxHeaderLen    = 524288    // "If this is larger than 524288 (512*1024), parsing MUST fail" (b2, b3)
	Max3ByteField   = 1<<24 - 1 // what a 3-byte big-endian integer can hold (b1: limit "TBD")
	spacesInMessage = 64
)

// Field is one header field as a caller supplies it: a name in any letter case
// and one or more values (repeated fields).
type Field struct {
	Name   string
	Values []string
}

// Pair is a header field in signed form: lower-case name, single value.
type Pair struct{ Name, Value string }

// Exchange is the logical content of a signed exchange.
type Exchange struct {
	Version     Version
	URL         string
	Method      string  // b1, b2 only
	ReqHeaders  []Field // b1, b2 only
	Status      int
	RespHeaders []Field
	Signature   string // the Signature header field's value
	Payload     []byte
}

func lowerASCII(s string) string {
	b := []byte(s)
	for i, c := range b {
		if c >= 'A' && c <= 'Z' {
			b[i] = c + ('a' - 'A')
		}
	}
	return string(b)
}

// Fold turns header fields into signed form: names lower-cased, the values of
// repeated fields joined with "," in the order given (RFC 7230 section 3.2.2),
// sorted by name.  Two fields whose names differ only in letter case are the same
// field.
func Fold(fs []Field) []Pair {
	idx := map[string]int{}
	var out []Pair
	for _, f := range fs {
		n := lowerASCII(f.Name)
		for _, v := range f.Values {
			if i, ok := idx[n]; ok {
				out[i].Value += "," + v
			} else {
				idx[n] = len(out)
				out = append(out, Pair{n, v})
			}
		}
		if len(f.Values) == 0 {
			if _, ok := idx[n]; !ok {
				idx[n] = len(out)
				out = append(out, Pair{n, ""})
			}
		}
	}
	sort.SliceStable(out, func(i, j int) bool { return out[i].Name < out[j].Name })
	return out
}

func bstr(s string) []byte { return refcbor.EncBytes([]byte(s)) }

func headerKVs(fs []Field) []refcbor.KV {
	var kvs []refcbor.KV
	for _, p := range Fold(fs) {
		kvs = append(kvs, refcbor.KV{K: bstr(p.Name), V: bstr(p.Value)})
	}
	return kvs
}

// ResponseMap: "the CBOR map with the following mappings: the byte string ':status'
// to the byte string containing the response's 3-digit status code, and for each
// response header field, the header field's lowercase name as a byte string to the
// header field's value as a byte string", canonically serialized.
func ResponseMap(status int, fs []Field) ([]byte, error) {
	if status < 100 || status > 999 {
		return nil, fmt.Errorf("refsxg: status %d is not a 3-digit status code", status)
	}
	kvs := append([]refcbor.KV{{K: bstr(":status"), V: bstr(strconv.Itoa(status))}}, headerKVs(fs)...)
	return refcbor.EncMap(kvs)
}

// RequestMap (b1, b2): ':method' (and in b1 ':url') plus the request header fields.
func RequestMap(v Version, method, url string, fs []Field) ([]byte, error) {
	kvs := []refcbor.KV{{K: bstr(":method"), V: bstr(method)}}
	if v == B1 {
		kvs = append(kvs, refcbor.KV{K: bstr(":url"), V: bstr(url)})
	}
	return refcbor.EncMap(append(kvs, headerKVs(fs)...))
}

// HeaderBlock is the canonical serialization of the CBOR representation of the
// exchange's headers: b3 the response map, b1/b2 the array [request map, response map].
func HeaderBlock(x *Exchange) ([]byte, error) {
	resp, err := ResponseMap(x.Status, x.RespHeaders)
	if err != nil {
		return nil, err
	}
	if !x.Version.HasRequest() {
		return resp, nil
	}
	req, err := RequestMap(x.Version, x.Method, x.URL, x.ReqHeaders)
	if err != nil {
		return nil, err
	}
	return refcbor.EncArray(req, resp), nil
}

// HeaderIntegrity is "sha256-" followed by the standard base64 of the SHA-256 of
// the header block.
func HeaderIntegrity(x *Exchange) (string, error) {
	h, err := HeaderBlock(x)
	if err != nil {
		return "", err
	}
	sum := sha256.Sum256(h)
	return "sha256-" + base64.StdEncoding.EncodeToString(sum[:]), nil
}

func be(n uint64, width int) []byte {
	out := make([]byte, width)
	for i := width - 1; i >= 0; i-- {
		out[i] = byte(n)
		n >>= 8
	}
	return out
}

func lenPrefixed8(dst []byte, b []byte) []byte {
	dst = append(dst, be(uint64(len(b)), 8)...)
	return append(dst, b...)
}

// SignedMessage is the byte string that gets signed ("Signature validity", step
// "Let message be the concatenation of ...").  certSha256 is nil when not set.
func SignedMessage(x *Exchange, certSha256 []byte, validityURL string, date, expires int64) ([]byte, error) {
	if certSha256 != nil && len(certSha256) != 32 {
		return nil, errors.New("refsxg: cert-sha256 must be 32 bytes")
	}
	if date < 0 || expires < 0 {
		return nil, errors.New("refsxg: negative Unix time outside the modelled domain")
	}
	hdr, err := HeaderBlock(x)
	if err != nil {
		return nil, err
	}
	msg := bytes.Repeat([]byte{0x20}, spacesInMessage)
	msg = append(msg, Context(x.Version)...)
	msg = append(msg, 0)
	if x.Version == B1 {
		var kvs []refcbor.KV
		if certSha256 != nil {
			kvs = append(kvs, refcbor.KV{K: refcbor.EncText("cert-sha256"), V: refcbor.EncBytes(certSha256)})
		}
		kvs = append(kvs,
			refcbor.KV{K: refcbor.EncText("validity-url"), V: bstr(validityURL)},
			refcbor.KV{K: refcbor.EncText("date"), V: refcbor.EncInt(date)},
			refcbor.KV{K: refcbor.EncText("expires"), V: refcbor.EncInt(expires)},
			refcbor.KV{K: refcbor.EncText("headers"), V: hdr},
		)
		m, err := refcbor.EncMap(kvs)
		if err != nil {
			return nil, err
		}
		return append(msg, m...), nil
	}
	if certSha256 != nil {
		msg = append(msg, 32)
		msg = append(msg, certSha256...)
	} else {
		msg = append(msg, 0)
	}
	msg = lenPrefixed8(msg, []byte(validityURL))
	msg = append(msg, be(uint64(date), 8)...)
	msg = append(msg, be(uint64(expires), 8)...)
	msg = lenPrefixed8(msg, []byte(x.URL))
	msg = lenPrefixed8(msg, hdr)
	return msg, nil
}

// ErrTooLong: a component does not fit the format's length fields or limits.
var ErrTooLong = errors.New("refsxg: component does not fit the format's length field / limit")

// Fits reports which component (if any) does not fit the file layout of x.Version.
// hdrLen is the length of the header block.
func Fits(v Version, urlLen, sigLen, hdrLen int) error {
	if v == B1 {
		if sigLen > Max3ByteField {
			return fmt.Errorf("%w: sigLength %d", ErrTooLong, sigLen)
		}
		if hdrLen > Max3ByteField {
			return fmt.Errorf("%w: headerLength %d", ErrTooLong, hdrLen)
		}
		return nil
	}
	if urlLen > MaxURLLen {
		return fmt.Errorf("%w: fallbackUrlLength %d", ErrTooLong, urlLen)
	}
	if sigLen > MaxSigLen {
		return fmt.Errorf("%w: sigLength %d", ErrTooLong, sigLen)
	}
	if hdrLen > MaxHeaderLen {
		return fmt.Errorf("%w: headerLength %d", ErrTooLong, hdrLen)
	}
	return nil
}

// File is the application/signed-exchange serialization.
func File(x *Exchange) ([]byte, error) {
	hdr, err := HeaderBlock(x)
	if err != nil {
		return nil, err
	}
	if err := Fits(x.Version, len(x.URL), len(x.Signature), len(hdr)); err != nil {
		return nil, err
	}
	out := append([]byte{}, Magic(x.Version)...)
	if x.Version != B1 {
		out = append(out, be(uint64(len(x.URL)), 2)...)
		out = append(out, x.URL...)
	}
	out = append(out, be(uint64(len(x.Signature)), 3)...)
	out = append(out, be(uint64(len(hdr)), 3)...)
	out = append(out, x.Signature...)
	out = append(out, hdr...)
	out = append(out, x.Payload...)
	return out, nil
}

// Parsed is what the reference parser finds in a file.
type Parsed struct {
	Version     Version
	FallbackURL string // b2, b3: the fallbackUrl field; b1: the ':url' of the request map
	Signature   string
	HeaderBytes []byte
	Method      string // b1, b2 (b3: "")
	ReqHeaders  []Pair // sorted by name
	Status      int
	RespHeaders []Pair // sorted by name
	Payload     []byte
	// raw length fields as found
	URLLenField, SigLenField, HdrLenField int
}

type cursor struct {
	b   []byte
	pos int
}

func (c *cursor) take(n int, what string) ([]byte, error) {
	if n < 0 || n > len(c.b)-c.pos {
		return nil, fmt.Errorf("refsxg: file ends inside %s (need %d bytes at offset %d, have %d)", what, n, c.pos, len(c.b)-c.pos)
	}
	s := c.b[c.pos : c.pos+n]
	c.pos += n
	return s, nil
}

func (c *cursor) uintN(n int, what string) (int, error) {
	s, err := c.take(n, what)
	if err != nil {
		return 0, err
	}
	v := 0
	for _, x := range s {
		v = v<<8 | int(x)
	}
	return v, nil
}

// ParseFile reads an application/signed-exchange file strictly: known magic,
// length fields within the snapshot's limits and within the file, header block one
// canonical CBOR item of the prescribed shape with byte-string keys and values.
func ParseFile(b []byte) (*Parsed, error) {
	c := &cursor{b: b}
	magic, err := c.take(8, "the file signature")
	if err != nil {
		return nil, err
	}
	p := &Parsed{}
	for _, v := range Versions {
		if bytes.Equal(magic, Magic(v)) {
			p.Version = v
		}
	}
	if p.Version == 0 {
		return nil, fmt.Errorf("refsxg: unknown file signature %q", magic)
	}
	if p.Version != B1 {
		if p.URLLenField, err = c.uintN(2, "fallbackUrlLength"); err != nil {
			return nil, err
		}
		u, err := c.take(p.URLLenField, "fallbackUrl")
		if err != nil {
			return nil, err
		}
		p.FallbackURL = string(u)
	}
	if p.SigLenField, err = c.uintN(3, "sigLength"); err != nil {
		return nil, err
	}
	if p.HdrLenField, err = c.uintN(3, "headerLength"); err != nil {
		return nil, err
	}
	if p.Version != B1 {
		if p.SigLenField > MaxSigLen {
			return nil, fmt.Errorf("refsxg: sigLength %d larger than %d", p.SigLenField, MaxSigLen)
		}
		if p.HdrLenField > MaxHeaderLen {
			return nil, fmt.Errorf("refsxg: headerLength %d larger than %d", p.HdrLenField, MaxHeaderLen)
		}
	}
	sig, err := c.take(p.SigLenField, "the Signature header value")
	if err != nil {
		return nil, err
	}
	p.Signature = string(sig)
	if p.HeaderBytes, err = c.take(p.HdrLenField, "the signed headers"); err != nil {
		return nil, err
	}
	p.Payload = c.b[c.pos:]

	item, n, err := refcbor.Decode(p.HeaderBytes)
	if err != nil {
		return nil, fmt.Errorf("refsxg: signed headers are not a CBOR item: %v", err)
	}
	if n != len(p.HeaderBytes) {
		return nil, fmt.Errorf("refsxg: %d trailing bytes after the signed-headers item", len(p.HeaderBytes)-n)
	}
	if err := refcbor.Deterministic(p.HeaderBytes); err != nil {
		return nil, fmt.Errorf("refsxg: signed headers are not canonically serialized: %v", err)
	}
	respItem := item
	if p.Version.HasRequest() {
		if item.Major != refcbor.Array || len(item.Elems) != 2 {
			return nil, errors.New("refsxg: signed headers must be an array of [request map, response map]")
		}
		req, err := pairsOf(item.Elems[0])
		if err != nil {
			return nil, err
		}
		seenMethod := false
		for _, kv := range req {
			switch {
			case kv.Name == ":method":
				p.Method, seenMethod = kv.Value, true
			case kv.Name == ":url" && p.Version == B1:
				p.FallbackURL = kv.Value
			case len(kv.Name) > 0 && kv.Name[0] == ':':
				return nil, fmt.Errorf("refsxg: unexpected pseudo key %q in the request map", kv.Name)
			default:
				p.ReqHeaders = append(p.ReqHeaders, kv)
			}
		}
		if !seenMethod {
			return nil, errors.New("refsxg: request map without ':method'")
		}
		respItem = item.Elems[1]
	}
	resp, err := pairsOf(respItem)
	if err != nil {
		return nil, err
	}
	seenStatus := false
	for _, kv := range resp {
		switch {
		case kv.Name == ":status":
			st, err := strconv.Atoi(kv.Value)
			if err != nil || len(kv.Value) != 3 {
				return nil, fmt.Errorf("refsxg: ':status' %q is not a 3-digit status code", kv.Value)
			}
			p.Status, seenStatus = st, true
		case len(kv.Name) > 0 && kv.Name[0] == ':':
			return nil, fmt.Errorf("refsxg: unexpected pseudo key %q in the response map", kv.Name)
		default:
			p.RespHeaders = append(p.RespHeaders, kv)
		}
	}
	if !seenStatus {
		return nil, errors.New("refsxg: response map without ':status'")
	}
	sort.SliceStable(p.ReqHeaders, func(i, j int) bool { return p.ReqHeaders[i].Name < p.ReqHeaders[j].Name })
	sort.SliceStable(p.RespHeaders, func(i, j int) bool { return p.RespHeaders[i].Name < p.RespHeaders[j].Name })
	return p, nil
}

func pairsOf(m *refcbor.Item) ([]Pair, error) {
	if m.Major != refcbor.Map {
		return nil, errors.New("refsxg: header representation is not a CBOR map")
	}
	var out []Pair
	for i := 0; i+1 < len(m.Elems); i += 2 {
		k, v := m.Elems[i], m.Elems[i+1]
		if k.Major != refcbor.Bytes || v.Major != refcbor.Bytes {
			return nil, errors.New("refsxg: header map keys and values must be byte strings")
		}
		name := string(k.Str)
		if name != lowerASCII(name) {
			return nil, fmt.Errorf("refsxg: header name %q is not lower-case", name)
		}
		out = append(out, Pair{name, string(v.Str)})
	}
	return out, nil
}

// EqualPairs compares two sorted pair lists.
func EqualPairs(a, b []Pair) bool {
	if len(a) != len(b) {
		return false
	}
	for i := range a {
		if a[i] != b[i] {
			return false
		}
	}
	return true
}

// ---- ECDSA, directly on crypto/ecdsa + encoding/asn1 -------------------------

type ecdsaSig struct{ R, S *big.Int }

// digestFor: secp256r1 -> ecdsa_secp256r1_sha256, secp384r1 -> ecdsa_secp384r1_sha384
// (TLS 1.3 signature schemes, RFC 8446 section 4.2.3).
func digestFor(pub *ecdsa.PublicKey, msg []byte) ([]byte, error) {
	switch pub.Curve.Params().BitSize {
	case 256:
		d := sha256.Sum256(msg)
		return d[:], nil
	case 384:
		d := sha512.Sum384(msg)
		return d[:], nil
	}
	return nil, fmt.Errorf("refsxg: unsupported curve %s", pub.Curve.Params().Name)
}

// VerifyECDSA checks an ASN.1 Ecdsa-Sig-Value over msg.
func VerifyECDSA(pub *ecdsa.PublicKey, msg, sig []byte) error {
	var v ecdsaSig
	rest, err := asn1.Unmarshal(sig, &v)
	if err != nil {
		return fmt.Errorf("refsxg: signature is not an Ecdsa-Sig-Value: %v", err)
	}
	if len(rest) != 0 {
		return errors.New("refsxg: trailing bytes after the Ecdsa-Sig-Value")
	}
	d, err := digestFor(pub, msg)
	if err != nil {
		return err
	}
	if v.R == nil || v.S == nil || !ecdsa.Verify(pub, d, v.R, v.S) {
		return errors.New("refsxg: ECDSA signature does not verify")
	}
	return nil
}

// SignECDSA signs msg the way a conforming signer would.
func SignECDSA(priv *ecdsa.PrivateKey, msg []byte) ([]byte, error) {
	d, err := digestFor(&priv.PublicKey, msg)
	if err != nil {
		return nil, err
	}
	r, s, err := ecdsa.Sign(rand.Reader, priv, d)
	if err != nil {
		return nil, err
	}
	return asn1.Marshal(ecdsaSig{r, s})
}
