// Package refsh is an independent reference model of the part of
// draft-ietf-httpbis-header-structure-09 that go/signedexchange/structuredheader
// implements: Lists of Lists (3.3) and Parameterised Lists (3.4) over the item
// types Integer (3.6), String (3.7), Token (3.8) and Byte Sequence (3.9).
//
// It imports nothing from the repository and is deliberately built differently
// from the implementation (which is a recursive descent over a character
// cursor, one function per draft algorithm of section 4.2):
//
//	phase 1  a context-free TOKENIZER turns the whole input into lexemes
//	         (OWS run, ",", ";", "=", word, integer, string, byte sequence);
//	         an input with a character that cannot start or continue a lexeme
//	         has no lexeme sequence and is refused there.
//	phase 2  the GRAMMAR works on the lexeme slice by SPLITTING, not by
//	         descending: trim OWS at both ends, cut at "," lexemes, trim each
//	         segment, cut at ";" lexemes, trim each piece, then match each piece
//	         against a fixed lexeme pattern (one item; or key; or key "=" item).
//
// Why a context-free tokenizer is faithful to the ABNF: lexemes of different
// classes start with disjoint character sets (ALPHA: word, DIGIT / "-": integer,
// DQUOTE: string, "*": byte sequence, SP / HTAB: OWS, the three separators) and
// every class is delimited either by a closing character (string, byte sequence)
// or by maximal munch over its own character set (sh-token, sh-integer, OWS);
// key (3.1) is a sub-language of sh-token, and none of the characters that may
// legally follow a key ("=", ";", ",", OWS, end) is a token character, so
// "longest word, then test whether it is a key" accepts the same inputs as the
// draft's "parse a key, then look at the next character".
//
// Decisions that state the implemented subset and no more (DESIGN.md C16):
//   - numbers: sh-integer only: optional "-", then 1*DIGIT, value within int64
//     (leading zeros allowed as in the ABNF; the draft's cap of 19 digits is NOT
//     modelled: it is unreachable within the explored string lengths and the
//     property does not settle it); no floats ("." after digits has no lexeme), no
//     booleans ("?" has no lexeme).
//   - byte sequences: content must consist of ALPHA / DIGIT / "+" / "/" / "=" only
//     (4.2.11 step 6) and be RFC 4648 base64 that is either correctly padded or
//     not padded at all ("parsers SHOULD NOT fail when [padding] is not present");
//     partially or wrongly padded content is refused; non-zero pad bits are
//     tolerated ("SHOULD NOT fail when it is present").
//   - a nil and an empty byte sequence are the same value.
//
// The serializers follow section 4.1 (", " between outer members, "; " between
// inner-list members, ";" without space before a parameter, padded base64) and
// emit parameters in bytewise key order, which makes the output canonical.
package refsh

import "fmt"

// ---------------------------------------------------------------- data model

type Kind int

const (
	Int Kind = iota + 1
	String
	Token
	Bytes
)

func (k Kind) String() string {
	switch k {
	case Int:
		return "int"
	case String:
		return "str"
	case Token:
		return "tok"
	case Bytes:
		return "bin"
	}
	return "?"
}

// Item is one sh-item.  Text holds the content of a String or a Token.
type Item struct {
	Kind  Kind
	Int   int64
	Text  string
	Bytes []byte
}

// Param is one parameter; Value == nil is a parameter without "=value".
type Param struct {
	Key   string
	Value *Item
}

// Member is one param-item: primary identifier and its parameters, held in
// bytewise key order (parameters are an unordered map in the draft; the order
// here is a canonical representation only).
type Member struct {
	ID     string
	Params []Param
}

type ListOfLists [][]Item
type ParamList []Member

// Error carries a short stable reason code (used for outcome classes) and how
// much had been recognised before the input was refused: for a lexical error
// the number of complete non-OWS lexemes before it (plus one for a byte sequence
// that is delimited but has invalid content), for a grammar error the number of
// grammar elements (items / identifiers / parameters).  The human-readable detail is formatted only
// when asked for (the sweep refuses hundreds of millions of inputs).
type Error struct {
	Code     string
	Progress int
	format   string // printf format over the arguments below
	nargs    int    // 0, 1 or 2 integer arguments; -1: one string; -2: a lexeme pattern
	n1, n2   int
	str      string
	pat      uint64 // up to 15 lexeme types, 4 bits each, first lexeme lowest, count in the top 4 bits
}

func (e *Error) Detail() string {
	switch e.nargs {
	case 1:
		return fmt.Sprintf(e.format, e.n1)
	case 2:
		return fmt.Sprintf(e.format, e.n1, e.n2)
	case -1:
		return fmt.Sprintf(e.format, e.str)
	case -2:
		return e.format + ", found " + describe(e.pat)
	}
	return e.format
}

func (e *Error) Error() string { return "refsh: " + e.Code + ": " + e.Detail() }

// after sets the progress of a lexical error: the complete non-OWS lexemes before
// it, plus extra.
func (e *Error) after(done []lexeme, extra int) *Error {
	e.Progress = extra
	for _, l := range done {
		if l.typ != lOWS {
			e.Progress++
		}
	}
	return e
}

func fail0(code, text string) *Error { return &Error{Code: code, format: text} }
func fail1(code, format string, a int) *Error {
	return &Error{Code: code, format: format, nargs: 1, n1: a}
}
func fail2(code, format string, a, b int) *Error {
	return &Error{Code: code, format: format, nargs: 2, n1: a, n2: b}
}
func failS(code, format, s string) *Error {
	return &Error{Code: code, format: format, nargs: -1, str: s}
}

// failAt is a grammar error: what was expected, the lexemes found instead, and
// how many grammar elements had been recognised before.
func failAt(code, expected string, found []lexeme, progress int) *Error {
	var pat uint64
	n := len(found)
	if n > 15 {
		n = 15
	}
	for i := 0; i < n; i++ {
		pat |= uint64(found[i].typ) << uint(4*i)
	}
	return &Error{Code: code, Progress: progress, format: expected, nargs: -2, pat: pat | uint64(n)<<60}
}

// ------------------------------------------------------- character classes

const (
	cLower = 1 << iota // lcalpha
	cUpper             // %x41-5A
	cDigit             // DIGIT
	cKeyP              // "_" "-"            (key and token punctuation)
	cTokP              // "." ":" "%" "*" "/" (token-only punctuation)
	cB64P              // "+" "/" "="        (base64 beyond ALPHA / DIGIT)
	cOWS               // SP HTAB
)

var class [256]uint8

func init() {
	for c := 'a'; c <= 'z'; c++ {
		class[c] |= cLower
	}
	for c := 'A'; c <= 'Z'; c++ {
		class[c] |= cUpper
	}
	for c := '0'; c <= '9'; c++ {
		class[c] |= cDigit
	}
	for _, c := range "_-" {
		class[c] |= cKeyP
	}
	for _, c := range ".:%*/" {
		class[c] |= cTokP
	}
	for _, c := range "+/=" {
		class[c] |= cB64P
	}
	class[' '] |= cOWS
	class['\t'] |= cOWS
}

const (
	cAlpha   = cLower | cUpper
	cKeyChr  = cLower | cDigit | cKeyP
	cTokChr  = cAlpha | cDigit | cKeyP | cTokP
	cB64Chr  = cAlpha | cDigit | cB64P
	minInt64 = -1 << 63
)

func is(c byte, mask uint8) bool { return class[c]&mask != 0 }

// ValidToken reports whether s matches sh-token (3.8).
func ValidToken(s string) bool {
	if len(s) == 0 || !is(s[0], cAlpha) {
		return false
	}
	for i := 1; i < len(s); i++ {
		if !is(s[i], cTokChr) {
			return false
		}
	}
	return true
}

// ValidKey reports whether s matches key (3.1).
func ValidKey(s string) bool {
	if len(s) == 0 || !is(s[0], cLower) {
		return false
	}
	for i := 1; i < len(s); i++ {
		if !is(s[i], cKeyChr) {
			return false
		}
	}
	return true
}

// ------------------------------------------------------------- tokenizer

type lexType uint8

const (
	lOWS lexType = iota
	lComma
	lSemi
	lEq
	lWord // ALPHA *tokenchar: an sh-token, possibly also a key
	lInt
	lString
	lBytes
)

type lexeme struct {
	typ  lexType
	text string // lWord: the word; lString: the unescaped content
	num  int64  // lInt
	bin  []byte // lBytes
}

func (l lexeme) isItem() bool { return l.typ >= lWord }

// item is the sh-item a word / integer / string / byte-sequence lexeme denotes.
func (l lexeme) item() Item {
	switch l.typ {
	case lWord:
		return Item{Kind: Token, Text: l.text}
	case lInt:
		return Item{Kind: Int, Int: l.num}
	case lString:
		return Item{Kind: String, Text: l.text}
	}
	return Item{Kind: Bytes, Bytes: l.bin}
}

// lex splits the whole input into lexemes (appended to out, which lets callers
// supply stack space) or reports why it has none.
func lex(in string, out []lexeme) ([]lexeme, *Error) {
	for i := 0; i < len(in); {
		c := in[i]
		start := i
		switch {
		case is(c, cOWS):
			for i < len(in) && is(in[i], cOWS) {
				i++
			}
			out = append(out, lexeme{typ: lOWS})
		case c == ',':
			i++
			out = append(out, lexeme{typ: lComma})
		case c == ';':
			i++
			out = append(out, lexeme{typ: lSemi})
		case c == '=':
			i++
			out = append(out, lexeme{typ: lEq})
		case is(c, cAlpha):
			for i < len(in) && is(in[i], cTokChr) {
				i++
			}
			out = append(out, lexeme{typ: lWord, text: in[start:i]})
		case c == '-' || is(c, cDigit):
			i++
			for i < len(in) && is(in[i], cDigit) {
				i++
			}
			v, err := integer(in[start:i])
			if err != nil {
				return nil, err.after(out, 0)
			}
			out = append(out, lexeme{typ: lInt, num: v})
		case c == '"':
			s, n, err := quoted(in[start:])
			if err != nil {
				return nil, err.after(out, 0)
			}
			i += n
			out = append(out, lexeme{typ: lString, text: s})
		case c == '*':
			end := -1
			for j := start + 1; j < len(in); j++ {
				if in[j] == '*' {
					end = j
					break
				}
			}
			if end < 0 {
				return nil, fail1("bytes-unterminated", "no closing \"*\" after offset %d", start).after(out, 0)
			}
			b, err := Base64Decode(in[start+1 : end])
			if err != nil {
				return nil, err.after(out, 1) // delimited, content invalid
			}
			i = end + 1
			out = append(out, lexeme{typ: lBytes, bin: b})
		default:
			return nil, fail2("char", "character %#02x at offset %d cannot start a lexeme", int(c), start).after(out, 0)
		}
	}
	return out, nil
}

// integer evaluates ["-"] 1*DIGIT within the int64 range (3.6).
func integer(s string) (int64, *Error) {
	neg := false
	d := s
	if d[0] == '-' {
		neg = true
		d = d[1:]
	}
	if len(d) == 0 {
		return 0, fail0("int-nodigits", "\"-\" without digits")
	}
	// magnitude limit: 2^63-1 for positive, 2^63 for negative numbers
	limit := uint64(1<<63 - 1)
	if neg {
		limit = 1 << 63
	}
	var mag uint64
	for i := 0; i < len(d); i++ {
		x := uint64(d[i] - '0')
		if mag > (limit-x)/10 {
			return 0, failS("int-range", "%q is outside the int64 range", s)
		}
		mag = mag*10 + x
	}
	if neg {
		if mag == 1<<63 {
			return minInt64, nil
		}
		return -int64(mag), nil
	}
	return int64(mag), nil
}

// quoted evaluates an sh-string at the start of s and returns its content and
// the number of input bytes it occupies (3.7).
func quoted(s string) (string, int, *Error) {
	var buf []byte // allocated at the first escape; without escapes the content is a substring
	for i := 1; i < len(s); i++ {
		c := s[i]
		switch {
		case c == '"':
			if buf == nil {
				return s[1:i], i + 1, nil
			}
			return string(buf), i + 1, nil
		case c == '\\':
			if i+1 >= len(s) {
				return "", 0, fail0("string-unterminated", "input ends inside an escape")
			}
			if buf == nil {
				buf = append(make([]byte, 0, len(s)), s[1:i]...)
			}
			i++
			if s[i] != '"' && s[i] != '\\' {
				return "", 0, fail1("string-escape", "escaped character %#02x is neither DQUOTE nor backslash", int(s[i]))
			}
			buf = append(buf, s[i])
		case c >= 0x20 && c <= 0x7e: // unescaped = %x20-21 / %x23-5B / %x5D-7E
			if buf != nil {
				buf = append(buf, c)
			}
		default:
			return "", 0, fail1("string-char", "character %#02x is not allowed in a string", int(c))
		}
	}
	return "", 0, fail0("string-unterminated", "no closing DQUOTE")
}

const b64Alphabet = "ABCDEFGHIJKLMNOPQRSTUVWXYZabcdefghijklmnopqrstuvwxyz0123456789+/"

var b64Value [256]int8

func init() {
	for i := range b64Value {
		b64Value[i] = -1
	}
	for i := 0; i < len(b64Alphabet); i++ {
		b64Value[b64Alphabet[i]] = int8(i)
	}
}

// Base64Decode decodes the content of a byte sequence: only characters of the
// ABNF `base64` rule; "=" only as a correct RFC 4648 padding tail, or no padding
// at all; pad bits are not inspected.
func Base64Decode(s string) ([]byte, *Error) {
	for i := 0; i < len(s); i++ {
		if !is(s[i], cB64Chr) {
			return nil, fail1("b64char", "character %#02x inside a byte sequence is not ALPHA / DIGIT / \"+\" / \"/\" / \"=\"", int(s[i]))
		}
	}
	data := len(s)
	for data > 0 && s[data-1] == '=' {
		data--
	}
	pad := len(s) - data
	for i := 0; i < data; i++ {
		if s[i] == '=' {
			return nil, fail0("b64pad", "\"=\" before the end of the base64 data")
		}
	}
	rem := data % 4
	if rem == 1 {
		return nil, fail1("b64len", "%d base64 characters cannot encode whole octets", data)
	}
	if pad != 0 && pad != (4-rem)%4 {
		return nil, fail2("b64pad", "%d data characters followed by %d \"=\"", data, pad)
	}
	out := make([]byte, 0, data*3/4)
	var acc uint32
	nbits := 0
	for i := 0; i < data; i++ {
		acc = acc<<6 | uint32(b64Value[s[i]])
		nbits += 6
		if nbits >= 8 {
			nbits -= 8
			out = append(out, byte(acc>>uint(nbits)))
			acc &= 1<<uint(nbits) - 1
		}
	}
	return out, nil
}

// Base64Encode is RFC 4648 section 4 with padding.
func Base64Encode(b []byte) string {
	out := make([]byte, 0, (len(b)+2)/3*4)
	for i := 0; i < len(b); i += 3 {
		var q [3]byte
		n := copy(q[:], b[i:])
		v := uint32(q[0])<<16 | uint32(q[1])<<8 | uint32(q[2])
		out = append(out, b64Alphabet[v>>18&63], b64Alphabet[v>>12&63])
		if n > 1 {
			out = append(out, b64Alphabet[v>>6&63])
		} else {
			out = append(out, '=')
		}
		if n > 2 {
			out = append(out, b64Alphabet[v&63])
		} else {
			out = append(out, '=')
		}
	}
	return string(out)
}

// --------------------------------------------------------------- grammar

func trim(l []lexeme) []lexeme {
	for len(l) > 0 && l[0].typ == lOWS {
		l = l[1:]
	}
	for len(l) > 0 && l[len(l)-1].typ == lOWS {
		l = l[:len(l)-1]
	}
	return l
}

// cut splits l at its first lexeme of type sep: the part before it with OWS
// trimmed at both ends (the ABNF always has OWS on both sides of "," and ";"),
// the rest after it, and whether there was a separator at all.  Calling it
// until found is false yields the same parts as splitting l at every sep (done
// incrementally so that the lexemes can stay in the caller's stack frame).
func cut(l []lexeme, sep lexType) (part, rest []lexeme, found bool) {
	for i := range l {
		if l[i].typ == sep {
			return trim(l[:i]), l[i+1:], true
		}
	}
	return trim(l), nil, false
}

func describe(pat uint64) string {
	names := [...]string{"OWS", "\",\"", "\";\"", "\"=\"", "word", "integer", "string", "byte-sequence"}
	n := int(pat >> 60)
	if n == 0 {
		return "nothing"
	}
	s := ""
	for i := 0; i < n; i++ {
		if i > 0 {
			s += " "
		}
		s += names[pat>>uint(4*i)&15]
	}
	return s
}

// ParseListOfLists:
//
//	sh-listlist = inner-list *( OWS "," OWS inner-list )
//	inner-list  = sh-item *( OWS ";" OWS sh-item )
//
// with OWS discarded at both ends of the header value (4.2 steps 1 and 6).
func ParseListOfLists(in string) (ListOfLists, *Error) {
	var scratch [12]lexeme
	lx, err := lex(in, scratch[:0])
	if err != nil {
		return nil, err
	}
	lx = trim(lx)
	if len(lx) == 0 {
		return nil, fail0("empty", "no structured data")
	}
	var out ListOfLists
	done := 0
	for more := true; more; {
		var seg []lexeme
		seg, lx, more = cut(lx, lComma)
		if len(seg) == 0 {
			return nil, failAt("list-empty-member", "a list member on both sides of every \",\"", nil, done)
		}
		var inner []Item
		for moreMembers := true; moreMembers; {
			var piece []lexeme
			piece, seg, moreMembers = cut(seg, lSemi)
			if len(piece) != 1 || !piece[0].isItem() {
				code := "item-expected"
				if len(piece) > 1 && piece[0].isItem() {
					code = "separator-expected"
				}
				return nil, failAt(code, "inner-list member must be exactly one item", piece, done)
			}
			inner = append(inner, piece[0].item())
			done++
		}
		out = append(out, inner)
	}
	return out, nil
}

// ParseParameterisedList:
//
//	sh-param-list = param-item *( OWS "," OWS param-item )
//	param-item    = sh-token *( OWS ";" OWS key [ "=" sh-item ] )
//
// A parameter name may occur once per param-item (4.2.6 step 3.6).
func ParseParameterisedList(in string) (ParamList, *Error) {
	var scratch [12]lexeme
	lx, err := lex(in, scratch[:0])
	if err != nil {
		return nil, err
	}
	lx = trim(lx)
	if len(lx) == 0 {
		return nil, fail0("empty", "no structured data")
	}
	var out ParamList
	done := 0
	for more := true; more; {
		var seg []lexeme
		seg, lx, more = cut(lx, lComma)
		if len(seg) == 0 {
			return nil, failAt("list-empty-member", "a list member on both sides of every \",\"", nil, done)
		}
		id, seg, moreParams := cut(seg, lSemi)
		if len(id) != 1 || id[0].typ != lWord {
			code := "identifier-expected"
			if len(id) > 1 && id[0].typ == lWord {
				code = "separator-expected"
			}
			return nil, failAt(code, "primary identifier must be exactly one token", id, done)
		}
		m := Member{ID: id[0].text}
		done++
		for moreParams {
			var p []lexeme
			p, seg, moreParams = cut(seg, lSemi)
			var prm Param
			switch {
			case len(p) == 1 && p[0].typ == lWord:
				prm.Key = p[0].text
			case len(p) == 3 && p[0].typ == lWord && p[1].typ == lEq && p[2].isItem():
				prm.Key = p[0].text
				v := p[2].item()
				prm.Value = &v
			default:
				code := "parameter-malformed"
				if len(p) == 0 || p[0].typ != lWord {
					code = "key-expected"
				}
				return nil, failAt(code, "parameter must be key or key\"=\"item without inner OWS", p, done)
			}
			if !ValidKey(prm.Key) {
				e := failS("key-invalid", "%q is not lcalpha *( lcalpha / DIGIT / \"_\" / \"-\" )", prm.Key)
				e.Progress = done
				return nil, e
			}
			for _, q := range m.Params {
				if q.Key == prm.Key {
					e := failS("key-duplicate", "parameter %q occurs twice", prm.Key)
					e.Progress = done
					return nil, e
				}
			}
			m.Params = append(m.Params, prm)
			done++
		}
		sortParams(m.Params)
		out = append(out, m)
	}
	return out, nil
}

// sortParams orders parameters bytewise by key (insertion sort; keys are unique).
func sortParams(p []Param) {
	for i := 1; i < len(p); i++ {
		for j := i; j > 0 && p[j].Key < p[j-1].Key; j-- {
			p[j], p[j-1] = p[j-1], p[j]
		}
	}
}

// ------------------------------------------------------------- serializers

// SerializeItem is 4.1.5 - 4.1.10 for the four implemented item types.
func SerializeItem(it Item) (string, *Error) {
	switch it.Kind {
	case Int:
		return decimal(it.Int), nil
	case String:
		out := []byte{'"'}
		for i := 0; i < len(it.Text); i++ {
			c := it.Text[i]
			if c < 0x20 || c > 0x7e {
				return "", fail1("string-char", "character %#02x cannot be serialized in a string", int(c))
			}
			if c == '"' || c == '\\' {
				out = append(out, '\\')
			}
			out = append(out, c)
		}
		return string(append(out, '"')), nil
	case Token:
		if !ValidToken(it.Text) {
			return "", failS("token-invalid", "%q is not a token", it.Text)
		}
		return it.Text, nil
	case Bytes:
		return "*" + Base64Encode(it.Bytes) + "*", nil
	}
	return "", fail1("item-type", "unsupported item kind %d", int(it.Kind))
}

func decimal(v int64) string {
	if v == 0 {
		return "0"
	}
	var mag uint64
	if v < 0 {
		mag = uint64(-(v + 1)) + 1
	} else {
		mag = uint64(v)
	}
	var buf [20]byte
	i := len(buf)
	for mag > 0 {
		i--
		buf[i] = byte('0' + mag%10)
		mag /= 10
	}
	if v < 0 {
		i--
		buf[i] = '-'
	}
	return string(buf[i:])
}

// SerializeListOfLists is 4.1.3.
func SerializeListOfLists(ll ListOfLists) (string, *Error) {
	if len(ll) == 0 {
		return "", fail0("empty", "empty list of lists")
	}
	out := ""
	for i, inner := range ll {
		if len(inner) == 0 {
			return "", fail0("empty-inner", "empty inner list")
		}
		if i > 0 {
			out += ", "
		}
		for j, it := range inner {
			if j > 0 {
				out += "; "
			}
			s, err := SerializeItem(it)
			if err != nil {
				return "", err
			}
			out += s
		}
	}
	return out, nil
}

// SerializeParameterisedList is 4.1.4, parameters in bytewise key order
// whatever order they are given in.
func SerializeParameterisedList(pl ParamList) (string, *Error) {
	if len(pl) == 0 {
		return "", fail0("empty", "empty parameterised list")
	}
	out := ""
	for i, m := range pl {
		if i > 0 {
			out += ", "
		}
		if !ValidToken(m.ID) {
			return "", failS("token-invalid", "identifier %q is not a token", m.ID)
		}
		out += m.ID
		ps := append([]Param(nil), m.Params...)
		sortParams(ps)
		for k, p := range ps {
			if k > 0 && ps[k-1].Key == p.Key {
				return "", failS("key-duplicate", "parameter %q given twice", p.Key)
			}
			if !ValidKey(p.Key) {
				return "", failS("key-invalid", "%q is not a key", p.Key)
			}
			out += ";" + p.Key
			if p.Value != nil {
				s, err := SerializeItem(*p.Value)
				if err != nil {
					return "", err
				}
				out += "=" + s
			}
		}
	}
	return out, nil
}

// ---------------------------------------------------------------- equality

func EqualItem(a, b Item) bool {
	if a.Kind != b.Kind {
		return false
	}
	switch a.Kind {
	case Int:
		return a.Int == b.Int
	case String, Token:
		return a.Text == b.Text
	case Bytes:
		return string(a.Bytes) == string(b.Bytes) // nil == empty
	}
	return false
}

func EqualListOfLists(a, b ListOfLists) bool {
	if len(a) != len(b) {
		return false
	}
	for i := range a {
		if len(a[i]) != len(b[i]) {
			return false
		}
		for j := range a[i] {
			if !EqualItem(a[i][j], b[i][j]) {
				return false
			}
		}
	}
	return true
}

// EqualParamList compares two lists whose Params are in key order.
func EqualParamList(a, b ParamList) bool {
	if len(a) != len(b) {
		return false
	}
	for i := range a {
		if a[i].ID != b[i].ID || len(a[i].Params) != len(b[i].Params) {
			return false
		}
		for j := range a[i].Params {
			p, q := a[i].Params[j], b[i].Params[j]
			if p.Key != q.Key || (p.Value == nil) != (q.Value == nil) {
				return false
			}
			if p.Value != nil && !EqualItem(*p.Value, *q.Value) {
				return false
			}
		}
	}
	return true
}

// SortParams puts the parameters of every member into canonical key order.
func SortParams(pl ParamList) {
	for i := range pl {
		sortParams(pl[i].Params)
	}
}

func (it Item) String() string {
	switch it.Kind {
	case Int:
		return fmt.Sprintf("int(%d)", it.Int)
	case String:
		return fmt.Sprintf("str(%q)", it.Text)
	case Token:
		return fmt.Sprintf("tok(%q)", it.Text)
	case Bytes:
		return fmt.Sprintf("bin(%x)", it.Bytes)
	}
	return fmt.Sprintf("kind%d", int(it.Kind))
}

func (ll ListOfLists) String() string {
	s := "["
	for i, inner := range ll {
		if i > 0 {
			s += ", "
		}
		s += "["
		for j, it := range inner {
			if j > 0 {
				s += "; "
			}
			s += it.String()
		}
		s += "]"
	}
	return s + "]"
}

func (pl ParamList) String() string {
	s := "["
	for i, m := range pl {
		if i > 0 {
			s += ", "
		}
		s += fmt.Sprintf("%q{", m.ID)
		for j, p := range m.Params {
			if j > 0 {
				s += " "
			}
			s += p.Key
			if p.Value != nil {
				s += "=" + p.Value.String()
			}
		}
		s += "}"
	}
	return s + "]"
}
