// Package refib is an independent reference model of the Web Bundle integrity
// block as the repository's signer (version "1b\0\0") is specified by property C07
// and explainers/integrity-signature.md:
//
//	integrity-block = [
//	  magic:           h'F0 9F 96 8B F0 9F 93 A6',      ; U+1F58B U+1F4E6
//	  version:         bstr .size 4,                    ; '1' 'b' 00 00
//	  signature-stack: [ *integrity-signature ],        ; newest first
//	]
//	integrity-signature = [
//	  attributes: { "ed25519PublicKey" => bstr .size 32, * tstr => bstr },
//	  signature:  bstr .size 64,
//	]
//
// deterministically encoded (RFC 8949 4.2.1: shortest heads, map keys in bytewise
// order of their encodings).  A signed file is the block immediately followed by
// the unsigned bundle.  For the signature at stack index i
//
//	data-to-be-signed = u64be(64) ‖ SHA-512(bundle)
//	                  ‖ u64be(len(B_i)) ‖ B_i        ; B_i = the block as it stood before
//	                                                 ;   that signature was added, i.e. the
//	                                                 ;   block with stack[i+1:]
//	                  ‖ u64be(len(A_i)) ‖ A_i        ; A_i = the CBOR of its attributes map
//
// and the Web Bundle ID of a key is the lower-case, unpadded RFC 4648 base32 of
// (public key ‖ 00 01 02).
//
// The package works on whole byte slices (build: concatenate already-encoded
// items through refcbor; read: decode the whole item tree with refcbor.Decode and
// judge the tree).  It imports only the standard library and refcbor, nothing from
// the repository, and uses its own base32 so that the ID does not share the
// library call of the implementation.
package refib

import (
	"bytes"
	"crypto/ed25519"
	"crypto/sha512"
	"fmt"

	"github.com/WICG/webpackage/go/signedexchange/zverif/refcbor"
)

// Magic is the first element of an integrity block.
var Magic = []byte{0xF0, 0x9F, 0x96, 0x8B, 0xF0, 0x9F, 0x93, 0xA6}

// VersionB1 is the version string of the signer under test: "1b" 00 00.
var VersionB1 = []byte{'1', 'b', 0, 0}

// KeyAttr is the attribute name holding the Ed25519 public key.
const KeyAttr = "ed25519PublicKey"

// IDSuffix is appended to the public key before base32 encoding.
var IDSuffix = []byte{0x00, 0x01, 0x02}

// Attr is one signature attribute (text-string name, byte-string value).
type Attr struct {
	Name  string
	Value []byte
}

// Signature is one integrity-signature.  Attrs may be listed in any order; the
// encoder puts them into deterministic order.
type Signature struct {
	Attrs []Attr
	Sig   []byte
}

// Block is an integrity block; Stack[0] is the newest signature.
type Block struct {
	Magic   []byte
	Version []byte
	Stack   []Signature
}

// Error carries the stage at which a block / signed file was refused.
type Error struct {
	Class string // malformed | shape | magic | version | attributes | nondeterministic | key | signature | remainder
	Msg   string
}

func (e *Error) Error() string { return "refib: " + e.Class + ": " + e.Msg }

func fail(class, format string, a ...interface{}) *Error {
	return &Error{Class: class, Msg: fmt.Sprintf(format, a...)}
}

// ClassOf returns the refusal class of an error of this package ("" for nil).
func ClassOf(err error) string {
	if err == nil {
		return ""
	}
	if e, ok := err.(*Error); ok {
		return e.Class
	}
	return "other"
}

// NewBlock returns the minimal block: right magic and version, empty stack.
func NewBlock() *Block {
	return &Block{Magic: append([]byte{}, Magic...), Version: append([]byte{}, VersionB1...)}
}

// EncodeAttrs returns the deterministic CBOR map of the attributes (two equal
// names are an error).
func EncodeAttrs(attrs []Attr) ([]byte, error) {
	kvs := make([]refcbor.KV, 0, len(attrs))
	for _, a := range attrs {
		kvs = append(kvs, refcbor.KV{K: refcbor.EncText(a.Name), V: refcbor.EncBytes(a.Value)})
	}
	return refcbor.EncMap(kvs)
}

// EncodeSignature returns [attributes, signature].
func EncodeSignature(s Signature) ([]byte, error) {
	am, err := EncodeAttrs(s.Attrs)
	if err != nil {
		return nil, err
	}
	return refcbor.EncArray(am, refcbor.EncBytes(s.Sig)), nil
}

// Encode returns the deterministic CBOR of the block.
func (b *Block) Encode() ([]byte, error) {
	sigs := make([][]byte, 0, len(b.Stack))
	for _, s := range b.Stack {
		e, err := EncodeSignature(s)
		if err != nil {
			return nil, err
		}
		sigs = append(sigs, e)
	}
	return refcbor.EncArray(refcbor.EncBytes(b.Magic), refcbor.EncBytes(b.Version), refcbor.EncArray(sigs...)), nil
}

// Below returns the block as it stood before Stack[i] was added: same magic and
// version, only the signatures underneath it.
func (b *Block) Below(i int) *Block {
	nb := &Block{Magic: b.Magic, Version: b.Version}
	if i+1 < len(b.Stack) {
		nb.Stack = b.Stack[i+1:]
	}
	return nb
}

// Push returns a new block with s on top of b's stack (b is not changed).
func (b *Block) Push(s Signature) *Block {
	nb := &Block{Magic: b.Magic, Version: b.Version}
	nb.Stack = append(nb.Stack, s)
	nb.Stack = append(nb.Stack, b.Stack...)
	return nb
}

// BundleHash is the SHA-512 of the unsigned bundle bytes.
func BundleHash(bundle []byte) []byte {
	h := sha512.Sum512(bundle)
	return h[:]
}

func u64be(n int) []byte {
	v := uint64(n)
	return []byte{byte(v >> 56), byte(v >> 48), byte(v >> 40), byte(v >> 32), byte(v >> 24), byte(v >> 16), byte(v >> 8), byte(v)}
}

// DataToBeSigned concatenates the three length-prefixed parts.
func DataToBeSigned(bundleHash, blockBefore, attrsCBOR []byte) []byte {
	var out []byte
	for _, part := range [][]byte{bundleHash, blockBefore, attrsCBOR} {
		out = append(out, u64be(len(part))...)
		out = append(out, part...)
	}
	return out
}

// DataToBeSignedFor builds the data-to-be-signed of a new signature with the
// given attributes on top of block `before` for a bundle with the given hash.
func DataToBeSignedFor(bundleHash []byte, before *Block, attrs []Attr) ([]byte, error) {
	bb, err := before.Encode()
	if err != nil {
		return nil, err
	}
	ab, err := EncodeAttrs(attrs)
	if err != nil {
		return nil, err
	}
	return DataToBeSigned(bundleHash, bb, ab), nil
}

const b32 = "abcdefghijklmnopqrstuvwxyz234567"

// Base32LowerNoPad is RFC 4648 base32 with the lower-case alphabet and without
// padding (bit-queue implementation, independent of encoding/base32).
func Base32LowerNoPad(b []byte) string {
	var out []byte
	var acc uint32
	bits := 0
	for _, x := range b {
		acc = acc<<8 | uint32(x)
		bits += 8
		for bits >= 5 {
			out = append(out, b32[(acc>>uint(bits-5))&31])
			bits -= 5
		}
		acc &= 1<<uint(bits) - 1
	}
	if bits > 0 {
		out = append(out, b32[(acc<<uint(5-bits))&31])
	}
	return string(out)
}

// WebBundleID returns the Web Bundle ID of an Ed25519 public key.
func WebBundleID(pub []byte) string {
	k := make([]byte, 0, len(pub)+len(IDSuffix))
	k = append(k, pub...)
	k = append(k, IDSuffix...)
	return Base32LowerNoPad(k)
}

// Parse reads one integrity block from the start of file and returns it with the
// number of bytes it occupies.  It checks the shape only (array of 3, two byte
// strings, an array of [map(tstr => bstr), bstr]); magic / version values, key
// sizes and determinism are judged by Verify.
func Parse(file []byte) (*Block, int, error) {
	it, n, err := refcbor.Decode(file)
	if err != nil {
		return nil, 0, fail("malformed", "%v", err)
	}
	if it.Major != refcbor.Array || len(it.Elems) != 3 {
		return nil, 0, fail("shape", "top-level item is not an array of 3")
	}
	m, v, st := it.Elems[0], it.Elems[1], it.Elems[2]
	if m.Major != refcbor.Bytes || v.Major != refcbor.Bytes || st.Major != refcbor.Array {
		return nil, 0, fail("shape", "block is not [bstr, bstr, array]")
	}
	b := &Block{Magic: m.Str, Version: v.Str}
	for i, s := range st.Elems {
		if s.Major != refcbor.Array || len(s.Elems) != 2 || s.Elems[0].Major != refcbor.Map || s.Elems[1].Major != refcbor.Bytes {
			return nil, 0, fail("shape", "signature %d is not [map, bstr]", i)
		}
		var sg Signature
		am := s.Elems[0].Elems
		for j := 0; j+1 < len(am); j += 2 {
			if am[j].Major != refcbor.Text || am[j+1].Major != refcbor.Bytes {
				return nil, 0, fail("attributes", "signature %d: attribute %d is not tstr => bstr", i, j/2)
			}
			if !refcbor.ValidUTF8(am[j].Str) {
				return nil, 0, fail("attributes", "signature %d: attribute name is not UTF-8", i)
			}
			sg.Attrs = append(sg.Attrs, Attr{Name: string(am[j].Str), Value: am[j+1].Str})
		}
		sg.Sig = s.Elems[1].Str
		b.Stack = append(b.Stack, sg)
	}
	return b, n, nil
}

// PublicKey returns the value of the ed25519PublicKey attribute.
func (s *Signature) PublicKey() ([]byte, bool) {
	for _, a := range s.Attrs {
		if a.Name == KeyAttr {
			return a.Value, true
		}
	}
	return nil, false
}

// Verified is what Verify learned about a signed file.
type Verified struct {
	Block      *Block
	BlockBytes []byte   // the encoded block exactly as found in the file
	Bundle     []byte   // everything after the block
	Keys       [][]byte // public key of each signature, stack order (newest first)
}

// Verify judges a complete signed file: a well-formed block with the expected
// magic and version at the start; the block bytes are deterministic CBOR and equal
// to the reference encoding of what they decode to; at least one signature; every
// signature carries a 32-byte ed25519PublicKey attribute and a 64-byte signature
// that verifies under that key over the data-to-be-signed built from SHA-512 of
// the remainder of the file, the block with only the signatures underneath it, and
// its own attributes map; the remainder's last 8 bytes state the remainder's length
// (it is an unsigned bundle as far as the trailing-length rule goes).
func Verify(file []byte) (*Verified, error) {
	b, n, err := Parse(file)
	if err != nil {
		return nil, err
	}
	raw := file[:n]
	if !bytes.Equal(b.Magic, Magic) {
		return nil, fail("magic", "%x", b.Magic)
	}
	if !bytes.Equal(b.Version, VersionB1) {
		return nil, fail("version", "%x", b.Version)
	}
	if derr := refcbor.Deterministic(raw); derr != nil {
		return nil, fail("nondeterministic", "%v", derr)
	}
	re, err := b.Encode()
	if err != nil {
		return nil, fail("attributes", "%v", err)
	}
	if !bytes.Equal(re, raw) {
		return nil, fail("nondeterministic", "block bytes differ from the reference encoding of their own content")
	}
	if len(b.Stack) == 0 {
		return nil, fail("signature", "empty signature stack")
	}
	v := &Verified{Block: b, BlockBytes: raw, Bundle: file[n:]}
	hash := BundleHash(v.Bundle)
	for i := range b.Stack {
		s := &b.Stack[i]
		pk, ok := s.PublicKey()
		if !ok || len(pk) != ed25519.PublicKeySize {
			return nil, fail("key", "signature %d: no 32-byte %s attribute", i, KeyAttr)
		}
		if len(s.Sig) != ed25519.SignatureSize {
			return nil, fail("signature", "signature %d is %d bytes long", i, len(s.Sig))
		}
		dtbs, err := DataToBeSignedFor(hash, b.Below(i), s.Attrs)
		if err != nil {
			return nil, fail("attributes", "%v", err)
		}
		if !ed25519.Verify(ed25519.PublicKey(pk), dtbs, s.Sig) {
			return nil, fail("signature", "signature %d does not verify under the key in its attributes", i)
		}
		v.Keys = append(v.Keys, pk)
	}
	if !TrailingLengthMatches(v.Bundle) {
		return nil, fail("remainder", "the %d bytes after the block do not end with their own length", len(v.Bundle))
	}
	return v, nil
}

// TrailingLength returns the big-endian number in the last 8 bytes of a file.
func TrailingLength(file []byte) (uint64, bool) {
	if len(file) < 8 {
		return 0, false
	}
	var v uint64
	for _, x := range file[len(file)-8:] {
		v = v<<8 | uint64(x)
	}
	return v, true
}

// TrailingLengthMatches reports whether the last 8 bytes state the file's length.
func TrailingLengthMatches(file []byte) bool {
	v, ok := TrailingLength(file)
	return ok && v == uint64(len(file))
}

// Input classes of a file handed to the signer, by the trailing-length rule.
const (
	Unsigned = "unsigned"  // trailing length == file size: may be signed
	HasBlock = "has-block" // trailing length < file size: something precedes the bundle
	Oversize = "oversize"  // trailing length > file size
	TooShort = "too-short" // fewer than 8 bytes: no trailing length at all
)

// Classify applies the trailing-length rule in unsigned 64-bit arithmetic.
func Classify(file []byte) string {
	v, ok := TrailingLength(file)
	switch {
	case !ok:
		return TooShort
	case v == uint64(len(file)):
		return Unsigned
	case v < uint64(len(file)):
		return HasBlock
	}
	return Oversize
}
