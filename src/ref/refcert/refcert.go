// Package refcert is an independent reference model of
//
//   - the application/cert-chain+cbor format of
//     draft-yasskin-http-origin-signed-responses, section "Loading a certificate
//     chain":
//
//     cert-chain = [ "📜⛓", + augmented-certificate ]
//     augmented-certificate = { cert: bytes, ? ocsp: bytes, ? sct: bytes, * tstr => any }
//
//     canonically-encoded CBOR; the first certificate MUST have an ocsp value,
//     subsequent certificates MUST NOT have one;
//
//   - the SignedCertificateTimestampList of RFC 6962 section 3.3:
//
//     opaque SerializedSCT<1..2^16-1>;
//     struct { SerializedSCT sct_list <1..2^16-1>; } SignedCertificateTimestampList;
//
//     i.e. (TLS presentation language, RFC 5246 section 4.3) a 2-byte big-endian
//     byte count of the whole list followed by the elements, each preceded by its
//     own 2-byte big-endian byte count.
//
// It is built on refcbor and the standard library only and imports nothing from
// the repository.  It works on raw items (decode the whole input into a tree, then
// judge the tree), where the implementation is a streaming reader.
package refcert

import (
	"bytes"
	"fmt"

	"github.com/WICG/webpackage/go/signedexchange/zverif/refcbor"
)

// Magic is the first element of a cert-chain: U+1F4DC U+26D3.
var Magic = string([]byte{0xF0, 0x9F, 0x93, 0x9C, 0xE2, 0x9B, 0x93})

// Entry is one augmented-certificate.  A nil OCSP / SCT means "key absent"; a
// non-nil slice of length 0 means "key present with an empty byte string".
type Entry struct {
	Cert    []byte
	OCSP    []byte
	SCT     []byte
	Unknown int // number of additional (tstr => any) entries met by Parse
}

// Error carries the stage at which a chain was refused.
type Error struct {
	Class string // empty-chain | presence | missing-cert | malformed | trailing | shape | magic | key-type | value-type | duplicate-key | noncanonical
	Msg   string
}

func (e *Error) Error() string { return "refcert: " + e.Class + ": " + e.Msg }

func fail(class, format string, a ...interface{}) *Error {
	return &Error{Class: class, Msg: fmt.Sprintf(format, a...)}
}

// ClassOf returns the refusal class of an error returned by this package ("" for nil).
func ClassOf(err error) string {
	if err == nil {
		return ""
	}
	if e, ok := err.(*Error); ok {
		return e.Class
	}
	return "other"
}

// CheckPresence applies the two rules of the draft to a chain of entries: at least
// one certificate, each with a cert value; ocsp on the first and on no other.
func CheckPresence(chain []Entry) error {
	if len(chain) == 0 {
		return fail("empty-chain", "a chain has at least one certificate")
	}
	for pos := range chain {
		if chain[pos].Cert == nil {
			return fail("missing-cert", "certificate %d has no cert value", pos)
		}
	}
	if chain[0].OCSP == nil {
		return fail("presence", "the first certificate has no ocsp value")
	}
	for pos := 1; pos < len(chain); pos++ {
		if chain[pos].OCSP != nil {
			return fail("presence", "certificate %d has an ocsp value", pos)
		}
	}
	return nil
}

var (
	keyCert = refcbor.EncText("cert")
	keyOCSP = refcbor.EncText("ocsp")
	keySCT  = refcbor.EncText("sct")
)

// EntryMap is the canonical augmented-certificate map of one entry (no rule is
// checked here; absent keys are left out).
func EntryMap(e Entry) []byte {
	var kvs []refcbor.KV
	if e.Cert != nil {
		kvs = append(kvs, refcbor.KV{K: keyCert, V: refcbor.EncBytes(e.Cert)})
	}
	if e.OCSP != nil {
		kvs = append(kvs, refcbor.KV{K: keyOCSP, V: refcbor.EncBytes(e.OCSP)})
	}
	if e.SCT != nil {
		kvs = append(kvs, refcbor.KV{K: keySCT, V: refcbor.EncBytes(e.SCT)})
	}
	return refcbor.MustMap(kvs...) // keys are distinct by construction
}

// SerializeUnchecked is the canonical encoding of [magic, entry...] without any
// rule being applied; it is what hostile inputs (illegal presence patterns,
// missing cert, zero certificates) are made of.
func SerializeUnchecked(chain []Entry) []byte {
	items := [][]byte{refcbor.EncText(Magic)}
	for _, e := range chain {
		items = append(items, EntryMap(e))
	}
	return refcbor.EncArray(items...)
}

// Serialize is the canonical cert-chain+cbor encoding of a chain, or an error when
// the chain breaks a rule of the draft.
func Serialize(chain []Entry) ([]byte, error) {
	if err := CheckPresence(chain); err != nil {
		return nil, err
	}
	return SerializeUnchecked(chain), nil
}

func own(b []byte) []byte { return append([]byte{}, b...) } // never nil

// Parse is the strict reader: b must be exactly one canonically-encoded CBOR item
// matching the CDDL, obeying the ocsp presence rules.  The cert values are not
// interpreted (whether they are DER X.509 is left to the caller).
func Parse(b []byte) ([]Entry, error) {
	top, n, err := refcbor.Decode(b)
	if err != nil {
		return nil, fail("malformed", "%v", err)
	}
	if n != len(b) {
		return nil, fail("trailing", "%d bytes after the top-level item", len(b)-n)
	}
	if top.Major != refcbor.Array {
		return nil, fail("shape", "top-level item has major type %d, want array", top.Major)
	}
	if len(top.Elems) == 0 {
		return nil, fail("shape", "empty array")
	}
	if m := top.Elems[0]; m.Major != refcbor.Text || string(m.Str) != Magic {
		return nil, fail("magic", "first element is not the magic text string")
	}
	var chain []Entry
	for pos, it := range top.Elems[1:] {
		if it.Major != refcbor.Map {
			return nil, fail("shape", "element %d has major type %d, want map", pos+1, it.Major)
		}
		var e Entry
		var seen [][]byte
		for k := 0; k+1 < len(it.Elems); k += 2 {
			key, val := it.Elems[k], it.Elems[k+1]
			if key.Major != refcbor.Text {
				return nil, fail("key-type", "certificate %d: key of major type %d, want text", pos, key.Major)
			}
			if !refcbor.ValidUTF8(key.Str) {
				return nil, fail("key-type", "certificate %d: key is not UTF-8", pos)
			}
			for _, s := range seen {
				if bytes.Equal(s, key.Raw) {
					return nil, fail("duplicate-key", "certificate %d: key %q twice", pos, key.Str)
				}
			}
			seen = append(seen, key.Raw)
			var dst *[]byte
			switch string(key.Str) {
			case "cert":
				dst = &e.Cert
			case "ocsp":
				dst = &e.OCSP
			case "sct":
				dst = &e.SCT
			default:
				e.Unknown++ // * tstr => any
				continue
			}
			if val.Major != refcbor.Bytes {
				return nil, fail("value-type", "certificate %d: %s value has major type %d, want bytes", pos, key.Str, val.Major)
			}
			*dst = own(val.Str)
		}
		chain = append(chain, e)
	}
	if err := CheckPresence(chain); err != nil {
		return nil, err
	}
	if err := refcbor.Deterministic(b); err != nil {
		return nil, fail("noncanonical", "%v", err)
	}
	return chain, nil
}

// ---- RFC 6962 section 3.3 ----

// MaxVector is the ceiling 2^16-1 of both vectors.
const MaxVector = 1<<16 - 1

// SerializeSCTList encodes scts as a SignedCertificateTimestampList.  It fails
// with class "element" when one SerializedSCT does not fit its 2-byte length and
// with class "total" when the list does not fit its own.  The floors of the two
// vectors (<1..) are not enforced here, see LowerBoundIssue.
func SerializeSCTList(scts [][]byte) ([]byte, error) {
	body := []byte{}
	for i, s := range scts {
		if len(s) > MaxVector {
			return nil, &Error{Class: "element", Msg: fmt.Sprintf("SerializedSCT %d has %d bytes", i, len(s))}
		}
		body = append(body, byte(len(s)>>8), byte(len(s)))
		body = append(body, s...)
	}
	if len(body) > MaxVector {
		return nil, &Error{Class: "total", Msg: fmt.Sprintf("sct_list has %d bytes", len(body))}
	}
	return append([]byte{byte(len(body) >> 8), byte(len(body))}, body...), nil
}

// LowerBoundIssue names the RFC 6962 floor a list breaks ("" when none): both
// vectors are declared <1..2^16-1>.
func LowerBoundIssue(scts [][]byte) string {
	if len(scts) == 0 {
		return "empty list"
	}
	for _, s := range scts {
		if len(s) == 0 {
			return "empty element"
		}
	}
	return ""
}

// ParseSCTList decodes a SignedCertificateTimestampList into its elements (each a
// non-nil copy).  The length field must cover the rest of the input exactly and
// every element must lie inside it.  Floors are not enforced (LowerBoundIssue).
func ParseSCTList(b []byte) ([][]byte, error) {
	if len(b) < 2 {
		return nil, &Error{Class: "sct-truncated", Msg: "no list length"}
	}
	total := int(b[0])<<8 | int(b[1])
	rest := b[2:]
	if total != len(rest) {
		return nil, &Error{Class: "sct-total", Msg: fmt.Sprintf("list length field %d, %d bytes follow", total, len(rest))}
	}
	out := [][]byte{}
	for len(rest) > 0 {
		if len(rest) < 2 {
			return nil, &Error{Class: "sct-truncated", Msg: "element length cut short"}
		}
		l := int(rest[0])<<8 | int(rest[1])
		rest = rest[2:]
		if l > len(rest) {
			return nil, &Error{Class: "sct-truncated", Msg: fmt.Sprintf("element of %d bytes, %d left", l, len(rest))}
		}
		out = append(out, own(rest[:l]))
		rest = rest[l:]
	}
	return out, nil
}
