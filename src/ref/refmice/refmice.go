// Package refmice is an independent reference model of Merkle Integrity Content
// Encoding, "mi-sha256", as defined by draft-thomson-http-mice-02 and -03.  It
// imports nothing from the repository (standard library only) and is written from
// the drafts' RECURSIVE definition, front to back:
//
//	proof(last record r)      = SHA-256(r || 0x00)
//	proof(non-last record r)  = SHA-256(r || proof(successor of r) || 0x01)
//	stream                    = rs as 8 bytes big endian, then
//	                            records(payload)
//	records(p), len(p) <= rs  = p                                  (the last record)
//	records(p), len(p) >  rs  = p[:rs] || proof(p[rs:]) || records(p[rs:])
//	header value              = <algorithm> "=" base64(proof(payload))
//
// (the implementation under test computes the same chain iteratively from the
// tail; a shared misreading of the loop structure is therefore unlikely).
// Per-draft details:
//
//	draft-02  header "MI-Draft2", value "mi-sha256-draft2=" base64url WITHOUT padding;
//	          an empty payload is the 8-byte record size followed by one empty
//	          record, proof SHA-256(0x00).
//	draft-03  header "Digest", value "mi-sha256-03=" standard base64 WITH padding;
//	          an empty payload encodes to the EMPTY stream (no record size),
//	          proof SHA-256(0x00).
//
// # What "authenticated" means (Decode)
//
// Decoding walks the same recursion with the proof the digest header commits to.
// A record may be RELEASED only after the hash of (that record || the proof of its
// successor found in the stream || 0x01), or of (that record || 0x00) when it is
// the last record of the stream, was found equal to the proof COMMITTED for it:
// the top-level proof from the digest header for the first record, and for every
// later record the successor proof that was part of the (already verified) hash
// input of its predecessor.  Whether a record is the last one is decided by the
// stream alone: what is left after the record size is the last record iff it is at
// most rs bytes long; otherwise the next rs bytes are a non-last record and MUST be
// followed by 32 bytes of proof.  Nothing after the first record that fails its
// test is authenticated, whatever it contains.  By collision resistance of SHA-256
// the released bytes are a prefix of the one payload the digest commits to.
//
// The model is deliberately the MOST PERMISSIVE sound reading, so that it never
// forbids a release the definition allows: where more than rs bytes are left and
// the non-last reading fails, the next rs bytes are also tried as a last record; if
// that hash matches they ARE the committed last record (followed by junk) and count
// as authenticated, but the stream is not clean.  At most one reading can succeed.
//
// The stream is CLEAN (a decoder may report end-of-stream without error) iff the
// walk authenticates a last record that ends exactly at the end of the stream,
// i.e. every byte of the stream was accounted for.
//
// One point the drafts do not settle is an EMPTY last record after a non-empty
// payload (stream ends exactly after a proof P, and P = SHA-256(0x00)), and for
// draft-03 the stream "record size only".  The chain authenticates them (they
// commit to exactly one payload), no honest encoder produces them, and a decoder
// may or may not refuse them.  This model reports them as clean and flags them in
// Result.EmptyFinal so that a caller never DEMANDS either behaviour.
package refmice

import (
	"crypto/sha256"
	"strings"
)

// Draft selects the draft revision.
type Draft int

const (
	Draft02 Draft = 2
	Draft03 Draft = 3
)

const proofLen = sha256.Size

// Algorithm is the token in front of "=" in the header value (also the content
// coding name).
func (d Draft) Algorithm() string {
	if d == Draft02 {
		return "mi-sha256-draft2"
	}
	return "mi-sha256-03"
}

// HeaderName is the HTTP header field that carries the top-level proof.
func (d Draft) HeaderName() string {
	if d == Draft02 {
		return "MI-Draft2"
	}
	return "Digest"
}

func (d Draft) String() string {
	if d == Draft02 {
		return "draft02"
	}
	return "draft03"
}

// ---- base64 (hand-written; RFC 4648 section 4 and section 5) ----

const (
	alphaStd = "ABCDEFGHIJKLMNOPQRSTUVWXYZabcdefghijklmnopqrstuvwxyz0123456789+/"
	alphaURL = "ABCDEFGHIJKLMNOPQRSTUVWXYZabcdefghijklmnopqrstuvwxyz0123456789-_"
)

func (d Draft) alphabet() (alpha string, padded bool) {
	if d == Draft02 {
		return alphaURL, false
	}
	return alphaStd, true
}

func b64encode(alpha string, padded bool, in []byte) string {
	var sb strings.Builder
	for len(in) >= 3 {
		v := uint(in[0])<<16 | uint(in[1])<<8 | uint(in[2])
		sb.WriteByte(alpha[v>>18&63])
		sb.WriteByte(alpha[v>>12&63])
		sb.WriteByte(alpha[v>>6&63])
		sb.WriteByte(alpha[v&63])
		in = in[3:]
	}
	switch len(in) {
	case 1:
		v := uint(in[0]) << 16
		sb.WriteByte(alpha[v>>18&63])
		sb.WriteByte(alpha[v>>12&63])
		if padded {
			sb.WriteString("==")
		}
	case 2:
		v := uint(in[0])<<16 | uint(in[1])<<8
		sb.WriteByte(alpha[v>>18&63])
		sb.WriteByte(alpha[v>>12&63])
		sb.WriteByte(alpha[v>>6&63])
		if padded {
			sb.WriteByte('=')
		}
	}
	return sb.String()
}

// b64decode is strict about alphabet, padding and length; it does not insist on
// zero trailing bits (RFC 4648 section 3.5 leaves that to the decoder, the value
// denoted is the same).
func b64decode(alpha string, padded bool, s string) ([]byte, bool) {
	if padded {
		if len(s)%4 != 0 {
			return nil, false
		}
		pad := 0
		for pad < 2 && len(s) > 0 && s[len(s)-1] == '=' {
			s = s[:len(s)-1]
			pad++
		}
		// 1 pad char <-> 3 significant chars in the last quantum, 2 <-> 2
		if (pad == 1 && len(s)%4 != 3) || (pad == 2 && len(s)%4 != 2) || (pad == 0 && len(s)%4 != 0) {
			return nil, false
		}
	}
	if len(s)%4 == 1 {
		return nil, false
	}
	out := make([]byte, 0, len(s)*3/4)
	var acc uint
	nbits := 0
	for i := 0; i < len(s); i++ {
		k := strings.IndexByte(alpha, s[i])
		if k < 0 {
			return nil, false
		}
		acc = acc<<6 | uint(k)
		nbits += 6
		if nbits >= 8 {
			nbits -= 8
			out = append(out, byte(acc>>uint(nbits)))
			acc &= 1<<uint(nbits) - 1
		}
	}
	return out, true
}

// FormatDigest renders a top-level proof as the header value of the draft.
func FormatDigest(d Draft, proof []byte) string {
	alpha, padded := d.alphabet()
	return d.Algorithm() + "=" + b64encode(alpha, padded, proof)
}

// ParseDigest extracts the 32-byte top-level proof from a header value of the
// form <algorithm>=<base64>; ok is false when the value does not denote one for
// this draft (other algorithm, other alphabet, wrong padding, not 32 bytes).
func ParseDigest(d Draft, value string) (proof []byte, ok bool) {
	eq := strings.IndexByte(value, '=')
	if eq < 0 || value[:eq] != d.Algorithm() {
		return nil, false
	}
	alpha, padded := d.alphabet()
	p, ok := b64decode(alpha, padded, value[eq+1:])
	if !ok || len(p) != proofLen {
		return nil, false
	}
	return p, true
}

// ---- the recursive definition ----

func hashLast(rec []byte) []byte {
	h := sha256.New()
	h.Write(rec)
	h.Write([]byte{0x00})
	return h.Sum(nil)
}

func hashInner(rec, successorProof []byte) []byte {
	h := sha256.New()
	h.Write(rec)
	h.Write(successorProof)
	h.Write([]byte{0x01})
	return h.Sum(nil)
}

// records returns records(p) and proof(p) of the definition above.
func records(p []byte, rs int) (encoded []byte, proof []byte) {
	if len(p) <= rs {
		return append([]byte{}, p...), hashLast(p)
	}
	tail, tailProof := records(p[rs:], rs)
	out := make([]byte, 0, rs+proofLen+len(tail))
	out = append(out, p[:rs]...)
	out = append(out, tailProof...)
	out = append(out, tail...)
	return out, hashInner(p[:rs], tailProof)
}

func sizeHeader(rs uint64) []byte {
	b := make([]byte, 8)
	for i := 7; i >= 0; i-- {
		b[i] = byte(rs)
		rs >>= 8
	}
	return b
}

// TopProof returns proof(payload) for record size rs (rs >= 1).
func TopProof(payload []byte, rs int) []byte {
	_, p := records(payload, rs)
	return p
}

// Encode returns the encoded stream and the digest header value for payload and
// record size rs (rs >= 1).
func Encode(d Draft, payload []byte, rs int) (stream []byte, digestHeaderValue string) {
	if rs < 1 {
		panic("refmice: record size must be at least 1")
	}
	body, proof := records(payload, rs)
	if len(payload) == 0 && d == Draft03 {
		// "the encoding of an empty payload is itself an empty message (i.e. it
		// omits the initial record size), and its integrity proof is SHA-256("\0")"
		return []byte{}, FormatDigest(d, proof)
	}
	return append(sizeHeader(uint64(rs)), body...), FormatDigest(d, proof)
}

// Chunk is one syntactic unit of an honest stream.
type Chunk struct {
	Kind  string // "size", "record", "proof"
	Index int    // record number (0-based) for records; number of the record the proof belongs to for proofs
	Bytes []byte
}

// Chunks returns the honest stream of Encode cut into its syntactic units (size
// header, records, proofs), in stream order; their concatenation is the stream.
func Chunks(d Draft, payload []byte, rs int) []Chunk {
	if len(payload) == 0 && d == Draft03 {
		return nil
	}
	out := []Chunk{{Kind: "size", Bytes: sizeHeader(uint64(rs))}}
	var walk func(p []byte, i int)
	walk = func(p []byte, i int) {
		if len(p) <= rs {
			out = append(out, Chunk{Kind: "record", Index: i, Bytes: append([]byte{}, p...)})
			return
		}
		_, tp := records(p[rs:], rs)
		out = append(out, Chunk{Kind: "record", Index: i, Bytes: append([]byte{}, p[:rs]...)})
		out = append(out, Chunk{Kind: "proof", Index: i + 1, Bytes: tp})
		walk(p[rs:], i+1)
	}
	walk(payload, 0)
	return out
}

// EncodeEmptyFinal builds the unusual stream in which the payload (a non-zero
// multiple of rs long, or empty) is followed by an EMPTY last record; see the
// package comment.  It is used to exercise a decoder, never as an expectation of
// what an encoder emits.
func EncodeEmptyFinal(d Draft, payload []byte, rs int) (stream []byte, digestHeaderValue string) {
	if rs < 1 || len(payload)%rs != 0 {
		panic("refmice: EncodeEmptyFinal needs a payload that is a multiple of rs")
	}
	var rec func(p []byte) ([]byte, []byte)
	rec = func(p []byte) ([]byte, []byte) {
		if len(p) == 0 {
			return nil, hashLast(nil)
		}
		tail, tp := rec(p[rs:])
		out := append(append(append([]byte{}, p[:rs]...), tp...), tail...)
		return out, hashInner(p[:rs], tp)
	}
	body, proof := rec(payload)
	return append(sizeHeader(uint64(rs)), body...), FormatDigest(d, proof)
}

// Result is the detailed verdict of the reference decoder.
type Result struct {
	// Authenticated is the longest prefix of the payload a correct decoder may
	// release for this (stream, digest).
	Authenticated []byte
	// Clean: the whole stream is valid; end-of-stream may be reported.
	Clean bool
	// Refused: the record size is zero or above the limit; the stream must be
	// refused before any payload byte is read.
	Refused bool
	// EmptyFinal: Clean only by virtue of an empty last record that no honest
	// encoder emits (see the package comment); a decoder may refuse it.
	EmptyFinal bool
	// RecordSize is the declared record size (0 when there is none).
	RecordSize uint64
	// Records is the number of authenticated records (an empty one counts).
	Records int
	// Stage names where the walk stopped (for outcome histograms).
	Stage string
}

// Decode is DecodeDetail reduced to (authenticated prefix, clean, refused).
func Decode(d Draft, stream []byte, digestHeaderValue string, maxRecordSize uint64) (authenticatedPrefix []byte, clean bool, refusedBeforeData bool) {
	r := DecodeDetail(d, stream, digestHeaderValue, maxRecordSize)
	return r.Authenticated, r.Clean, r.Refused
}

// DecodeDetail decides what of stream is authenticated by digestHeaderValue.
func DecodeDetail(d Draft, stream []byte, digestHeaderValue string, maxRecordSize uint64) Result {
	res := Result{Authenticated: []byte{}}
	committed, ok := ParseDigest(d, digestHeaderValue)
	if !ok {
		res.Stage = "digest header does not denote a proof"
		return res
	}
	if len(stream) == 0 && d == Draft03 {
		if equal(hashLast(nil), committed) {
			res.Clean = true
			res.Records = 1
			res.Stage = "clean: empty stream (draft-03 empty payload)"
		} else {
			res.Stage = "empty stream, digest is not SHA-256(0x00)"
		}
		return res
	}
	if len(stream) < 8 {
		res.Stage = "record size truncated"
		return res
	}
	var rs uint64
	for _, b := range stream[:8] {
		rs = rs<<8 | uint64(b)
	}
	res.RecordSize = rs
	if rs == 0 {
		res.Refused = true
		res.Stage = "record size zero"
		return res
	}
	if rs > maxRecordSize {
		res.Refused = true
		res.Stage = "record size above the limit"
		return res
	}
	walk(stream[8:], rs, committed, &res)
	if res.Clean && d == Draft03 && res.Records == 1 && len(stream) == 8 {
		res.EmptyFinal = true
	}
	return res
}

// walk authenticates rest (everything after the size header or after the previous
// proof) against the proof committed for its first record.
func walk(rest []byte, rs uint64, committed []byte, res *Result) {
	n := uint64(len(rest))
	// non-last reading: rs bytes of record followed by 32 bytes of successor proof
	if n > rs && n-rs >= proofLen {
		rec, succ := rest[:rs], rest[rs:rs+proofLen]
		if equal(hashInner(rec, succ), committed) {
			res.Authenticated = append(res.Authenticated, rec...)
			res.Records++
			walk(rest[rs+proofLen:], rs, succ, res)
			return
		}
	}
	// last-record reading of the next (at most rs) bytes
	k := n
	if k > rs {
		k = rs
	}
	if equal(hashLast(rest[:k]), committed) {
		res.Authenticated = append(res.Authenticated, rest[:k]...)
		switch {
		case k < n:
			// the committed last record, but the stream goes on: the record itself is
			// authenticated (its hash with the last-record flag matched), the stream is not valid
			res.Stage = "last record authenticated but the stream continues (extension)"
		case n == 0 && res.Records > 0:
			res.Clean, res.EmptyFinal = true, true
			res.Stage = "clean: empty last record after data"
		case n == 0:
			res.Clean = true
			res.Stage = "clean: empty payload (record size + empty record)"
		case n == rs:
			res.Clean = true
			res.Stage = "clean: last record full"
		default:
			res.Clean = true
			res.Stage = "clean: last record short"
		}
		res.Records++
		return
	}
	switch {
	case n == 0:
		res.Stage = "stream ends at a record boundary (truncation): empty last record does not match"
	case n <= rs:
		res.Stage = "last record does not match its committed proof"
	case n-rs < proofLen:
		res.Stage = "stream ends inside a proof"
	default:
		res.Stage = "non-last record does not match its committed proof"
	}
}

func equal(a, b []byte) bool {
	if len(a) != len(b) {
		return false
	}
	var x byte
	for i := range a {
		x |= a[i] ^ b[i]
	}
	return x == 0
}
