// Package refbx is an independent, location-strict / encoding-lenient extractor
// for Web Bundles (versions b1 and b2), used as the oracle for the bundle READER
// (property C05).  It accepts any well-formed definite-length CBOR head and any key
// order (so it extracts at least everything the repository's reader accepts) but is
// strict about where things are: every section must lie inside the file, every
// index entry inside the responses section, with all arithmetic checked for
// overflow.  While parsing it records a FIELD MAP: the byte range and meaning of
// every length / offset / count head, which drives structure-aware mutation.
//
// It imports only the standard library and refcbor.
package refbx

import (
	"bytes"
	"errors"
	"fmt"

	"github.com/WICG/webpackage/go/signedexchange/zverif/refcbor"
)

// Field is one head of the file whose argument is a length, offset or count.
type Field struct {
	Off   int    // offset of the head in the file
	Len   int    // bytes occupied by the head
	Major int    // CBOR major type of the head
	Value uint64 // its argument
	What  string // meaning
}

type Location struct {
	Offset, Length uint64 // relative to the responses section
}

type IndexEntry struct {
	URL       string
	Variants  []byte // b1 variants-value
	Locations []Location
}

type Header struct{ Name, Value string }

type Response struct {
	Status  string
	Headers []Header // in file order, pseudo headers other than :status kept with their ':' name
	Body    []byte
	// Ambiguous is set when the header map has duplicate names (what a reader should
	// return is not settled by the property).
	Ambiguous bool
}

type Section struct {
	Name   string
	Length uint64
	Start  uint64 // absolute offset (valid only when InFile)
	InFile bool
	Known  bool
}

type Result struct {
	Version       string // "b1" | "b2"
	PrimaryURL    string // b1 header field or b2 "primary" section ("" = none)
	HasPrimary    bool
	ManifestURL   string
	HasManifest   bool
	Signatures    []byte // raw bytes of the signatures section
	Sections      []Section
	SectionsStart uint64
	Index         []IndexEntry
	Responses     [][]Response // per index entry, per location
	Fields        []Field
	// raw pieces for Rebuild
	Prefix      []byte   // magic, version, (b1) primary URL
	SectionData [][]byte // raw bytes of every section, in table order
}

// ErrLocation marks inputs in which an index entry or a section length points
// outside the file / responses section, overflows 64-bit arithmetic or disagrees
// with the section table: a reader MUST refuse these.
type ErrLocation struct{ Msg string }

func (e *ErrLocation) Error() string { return "location: " + e.Msg }

// ErrFormat marks everything else the extractor cannot make sense of (nothing is
// claimed about what a reader does with such input, other than C10's totality).
var ErrFormat = errors.New("refbx: cannot extract")

func ferr(format string, a ...interface{}) error {
	return fmt.Errorf("%w: %s", ErrFormat, fmt.Sprintf(format, a...))
}

type cursor struct {
	b    []byte
	pos  int
	base int // absolute offset of b[0] in the file
	res  *Result
}

func (c *cursor) head(what string, major int) (refcbor.Head, error) {
	h, err := refcbor.ParseHead(c.b[c.pos:])
	if err != nil {
		return h, ferr("%s: %v", what, err)
	}
	if h.Major != major {
		return h, ferr("%s: major type %d, want %d", what, h.Major, major)
	}
	if c.res != nil {
		c.res.Fields = append(c.res.Fields, Field{Off: c.base + c.pos, Len: h.Len, Major: major, Value: h.Arg, What: what})
	}
	c.pos += h.Len
	return h, nil
}

func (c *cursor) str(what string, major int) ([]byte, error) {
	h, err := c.head(what, major)
	if err != nil {
		return nil, err
	}
	if h.Arg > uint64(len(c.b)-c.pos) {
		return nil, ferr("%s: declared length %d exceeds the %d bytes available", what, h.Arg, len(c.b)-c.pos)
	}
	s := c.b[c.pos : c.pos+int(h.Arg)]
	c.pos += int(h.Arg)
	return s, nil
}

var magic = []byte{0xf0, 0x9f, 0x8c, 0x90, 0xf0, 0x9f, 0x93, 0xa6}

var known = map[string]bool{"index": true, "manifest": true, "primary": true, "signatures": true, "responses": true}

// Extract parses file.
func Extract(file []byte) (*Result, error) {
	res := &Result{}
	c := &cursor{b: file, res: res}
	top, err := c.head("top-level array count", refcbor.Array)
	if err != nil {
		return nil, err
	}
	m, err := c.str("magic length", refcbor.Bytes)
	if err != nil {
		return nil, err
	}
	if !bytes.Equal(m, magic) {
		return nil, ferr("bad magic")
	}
	v, err := c.str("version length", refcbor.Bytes)
	if err != nil {
		return nil, err
	}
	switch string(v) {
	case "b1\x00\x00":
		res.Version = "b1"
		if top.Arg != 6 {
			return nil, ferr("b1 top-level array has %d items", top.Arg)
		}
	case "b2\x00\x00":
		res.Version = "b2"
		if top.Arg != 5 {
			return nil, ferr("b2 top-level array has %d items", top.Arg)
		}
	default:
		return nil, ferr("unknown version %q", v)
	}
	if res.Version == "b1" {
		u, err := c.str("b1 primary URL length", refcbor.Text)
		if err != nil {
			return nil, err
		}
		res.PrimaryURL, res.HasPrimary = string(u), true
	}
	res.Prefix = file[top.Len:c.pos] // without the top-level array head
	sl, err := c.str("section-lengths byte string length", refcbor.Bytes)
	if err != nil {
		return nil, err
	}
	slBase := c.pos - len(sl)
	sc := &cursor{b: sl, base: slBase, res: res}
	n, err := sc.head("section-lengths array count", refcbor.Array)
	if err != nil {
		return nil, err
	}
	// Leniency: the format's section-lengths array holds (name, length) pairs; an odd
	// count is malformed, but a reader that walks the array pairwise ("for i < n; i += 2")
	// consumes ceil(n/2) pairs.  The extractor does the same so that content returned for
	// such an input can still be judged (the property does not demand refusal here).
	pairs := n.Arg/2 + n.Arg%2
	if pairs > uint64(len(sl)) {
		return nil, ferr("section-lengths array count exceeds its bytes")
	}
	seen := map[string]bool{}
	for i := uint64(0); i < pairs; i++ {
		name, err := sc.str(fmt.Sprintf("section %d name length", i), refcbor.Text)
		if err != nil {
			return nil, err
		}
		l, err := sc.head(fmt.Sprintf("section %q length", name), refcbor.Uint)
		if err != nil {
			return nil, err
		}
		if seen[string(name)] {
			return nil, &ErrLocation{fmt.Sprintf("section %q listed twice in the section table", name)}
		}
		seen[string(name)] = true
		res.Sections = append(res.Sections, Section{Name: string(name), Length: l.Arg, Known: known[string(name)]})
	}
	if sc.pos != len(sl) {
		return nil, ferr("trailing bytes inside section-lengths")
	}
	sh, err := c.head("sections array count", refcbor.Array)
	if err != nil {
		return nil, err
	}
	if sh.Arg != uint64(len(res.Sections)) {
		return nil, &ErrLocation{fmt.Sprintf("sections array has %d items but the section table lists %d", sh.Arg, len(res.Sections))}
	}
	if len(res.Sections) == 0 || res.Sections[len(res.Sections)-1].Name != "responses" {
		return nil, &ErrLocation{"last section is not \"responses\""}
	}
	res.SectionsStart = uint64(c.pos)
	// place every section; all of them (unknown ones too) must lie inside the file
	off := res.SectionsStart
	fileLen := uint64(len(file))
	for i := range res.Sections {
		s := &res.Sections[i]
		if off > fileLen || s.Length > fileLen-off {
			return nil, &ErrLocation{fmt.Sprintf("section %q (offset %d, length %d) does not fit in the %d-byte file", s.Name, off, s.Length, fileLen)}
		}
		s.Start, s.InFile = off, true
		res.SectionData = append(res.SectionData, file[off:off+s.Length])
		off += s.Length
	}
	resp := res.Sections[len(res.Sections)-1]
	for i, s := range res.Sections {
		data := res.SectionData[i]
		switch s.Name {
		case "index":
			if err := res.parseIndex(data, int(s.Start), resp); err != nil {
				return nil, err
			}
		case "primary":
			pc := &cursor{b: data, base: int(s.Start), res: res}
			u, err := pc.str("primary section URL length", refcbor.Text)
			if err != nil {
				return nil, err
			}
			res.PrimaryURL, res.HasPrimary = string(u), true
		case "manifest":
			pc := &cursor{b: data, base: int(s.Start), res: res}
			u, err := pc.str("manifest section URL length", refcbor.Text)
			if err != nil {
				return nil, err
			}
			res.ManifestURL, res.HasManifest = string(u), true
		case "signatures":
			res.Signatures = data
		}
	}
	// responses referenced by the index
	for _, e := range res.Index {
		var rs []Response
		for _, loc := range e.Locations {
			start := resp.Start + loc.Offset
			r, err := res.parseResponse(file[start:start+loc.Length], int(start))
			if err != nil {
				return nil, err
			}
			rs = append(rs, *r)
		}
		res.Responses = append(res.Responses, rs)
	}
	return res, nil
}

func (res *Result) parseIndex(data []byte, base int, resp Section) error {
	c := &cursor{b: data, base: base, res: res}
	n, err := c.head("index map count", refcbor.Map)
	if err != nil {
		return err
	}
	for i := uint64(0); i < n.Arg; i++ {
		u, err := c.str(fmt.Sprintf("index[%d] URL length", i), refcbor.Text)
		if err != nil {
			return err
		}
		a, err := c.head(fmt.Sprintf("index[%d] value array count", i), refcbor.Array)
		if err != nil {
			return err
		}
		e := IndexEntry{URL: string(u)}
		items := a.Arg
		if res.Version == "b1" {
			if items == 0 {
				return ferr("index[%d]: empty value array", i)
			}
			vv, err := c.str(fmt.Sprintf("index[%d] variants-value length", i), refcbor.Bytes)
			if err != nil {
				return err
			}
			e.Variants = vv
			items--
		}
		if items == 0 || items%2 != 0 {
			return ferr("index[%d]: value array of %d items", i, a.Arg)
		}
		if items/2 > uint64(len(data)) {
			return ferr("index[%d]: more locations than bytes", i)
		}
		for j := uint64(0); j < items/2; j++ {
			o, err := c.head(fmt.Sprintf("index[%d] location %d offset", i, j), refcbor.Uint)
			if err != nil {
				return err
			}
			l, err := c.head(fmt.Sprintf("index[%d] location %d length", i, j), refcbor.Uint)
			if err != nil {
				return err
			}
			if l.Arg > resp.Length || o.Arg > resp.Length-l.Arg {
				return &ErrLocation{fmt.Sprintf("index[%d] location (offset %d, length %d) lies outside the responses section of %d bytes", i, o.Arg, l.Arg, resp.Length)}
			}
			e.Locations = append(e.Locations, Location{o.Arg, l.Arg})
		}
		res.Index = append(res.Index, e)
	}
	return nil
}

func (res *Result) parseResponse(data []byte, base int) (*Response, error) {
	c := &cursor{b: data, base: base, res: res}
	a, err := c.head("response array count", refcbor.Array)
	if err != nil {
		return nil, err
	}
	if a.Arg != 2 {
		return nil, ferr("response is an array of %d", a.Arg)
	}
	hb, err := c.str("response headers byte string length", refcbor.Bytes)
	if err != nil {
		return nil, err
	}
	hbase := base + c.pos - len(hb)
	body, err := c.str("response payload length", refcbor.Bytes)
	if err != nil {
		return nil, err
	}
	if c.pos != len(data) {
		return nil, ferr("index entry does not delimit exactly one response (%d of %d bytes used)", c.pos, len(data))
	}
	r := &Response{Body: body}
	hc := &cursor{b: hb, base: hbase, res: res}
	m, err := hc.head("response header map count", refcbor.Map)
	if err != nil {
		return nil, err
	}
	names := map[string]bool{}
	for i := uint64(0); i < m.Arg; i++ {
		k, err := hc.str("header name length", refcbor.Bytes)
		if err != nil {
			return nil, err
		}
		v, err := hc.str("header value length", refcbor.Bytes)
		if err != nil {
			return nil, err
		}
		if names[string(k)] {
			r.Ambiguous = true
		}
		names[string(k)] = true
		if string(k) == ":status" {
			r.Status = string(v)
			continue
		}
		r.Headers = append(r.Headers, Header{string(k), string(v)})
	}
	// bytes after the map inside the headers bstr are ignored by the format's
	// load-response algorithm; record nothing about them
	return r, nil
}

// Rebuild serializes a bundle from raw pieces: prefix (magic, version, b1 primary
// URL items), the section table and the raw section contents, recomputing the
// trailing length.  It is used to insert / reorder / drop sections consistently.
func Rebuild(version string, prefix []byte, names []string, data [][]byte) []byte {
	lens := make([]uint64, len(data))
	for i, d := range data {
		lens[i] = uint64(len(d))
	}
	return RebuildLens(version, prefix, names, lens, data)
}

// RebuildLens is Rebuild with the section-table lengths given explicitly (they may
// lie about the data), everything else consistent.
func RebuildLens(version string, prefix []byte, names []string, lens []uint64, data [][]byte) []byte {
	top := uint64(5)
	if version == "b1" {
		top = 6
	}
	out := refcbor.AppendHead(nil, refcbor.Array, top)
	out = append(out, prefix...)
	var tbl []byte
	tbl = refcbor.AppendHead(tbl, refcbor.Array, uint64(2*len(names)))
	for i, n := range names {
		tbl = append(tbl, refcbor.EncText(n)...)
		tbl = append(tbl, refcbor.EncUint(lens[i])...)
	}
	out = append(out, refcbor.EncBytes(tbl)...)
	out = refcbor.AppendHead(out, refcbor.Array, uint64(len(names)))
	for _, d := range data {
		out = append(out, d...)
	}
	total := uint64(len(out) + 9)
	out = append(out, 0x48)
	for s := 56; s >= 0; s -= 8 {
		out = append(out, byte(total>>uint(s)))
	}
	return out
}

// ReplaceHead returns file with the head of field f re-encoded to carry value v:
// in the same width when v fits, otherwise in the shortest width that holds it
// (the rest of the file is spliced behind it unchanged).
func ReplaceHead(file []byte, f Field, v uint64) []byte {
	width := f.Len - 1
	fits := false
	switch width {
	case 0:
		fits = v < 24
	case 1:
		fits = v <= 0xff
	case 2:
		fits = v <= 0xffff
	case 4:
		fits = v <= 0xffffffff
	case 8:
		fits = true
	}
	var nh []byte
	if fits {
		nh = refcbor.AppendHeadWidth(nil, f.Major, v, width)
	} else {
		nh = refcbor.AppendHead(nil, f.Major, v)
	}
	out := make([]byte, 0, len(file)+8)
	out = append(out, file[:f.Off]...)
	out = append(out, nh...)
	out = append(out, file[f.Off+f.Len:]...)
	return out
}

// EncodeIndex encodes an index section from entries (in the given order).
func EncodeIndex(version string, entries []IndexEntry) []byte {
	out := refcbor.AppendHead(nil, refcbor.Map, uint64(len(entries)))
	for _, e := range entries {
		out = append(out, refcbor.EncText(e.URL)...)
		n := uint64(2 * len(e.Locations))
		if version == "b1" {
			n++
		}
		out = refcbor.AppendHead(out, refcbor.Array, n)
		if version == "b1" {
			out = append(out, refcbor.EncBytes(e.Variants)...)
		}
		for _, l := range e.Locations {
			out = append(out, refcbor.EncUint(l.Offset)...)
			out = append(out, refcbor.EncUint(l.Length)...)
		}
	}
	return out
}
