// Package refsig is an independent reference model of what the "signatures"
// section of a Web Bundle commits to (extensions/signatures-section.md and the
// signing scheme referenced from go/bundle/signature):
//
//	signed-subset = {
//	  validity-url: whatwg-url (tstr), auth-sha256: bstr, date: uint, expires: uint,
//	  subset-hashes: {+ whatwg-url => [variants-value, +resource-integrity] },
//	}
//	resource-integrity = ( header-sha256: bstr, payload-integrity-header: tstr )
//
// encoded as canonical CBOR (shortest heads, map keys in bytewise order of their
// encodings);
//
//	header-sha256 = SHA-256( canonical CBOR map { bstr => bstr } of ":status" =>
//	                decimal status and lower-cased field name => field values joined by "," )
//
//	signature input = 64 x 0x20 || "Web Package 1 <version>" || 0x00 || signed-subset bytes
//	                  signed with ECDSA, SHA-256 on P-256 and SHA-384 on P-384, ASN.1 DER Ecdsa-Sig-Value
//
//	payload integrity = draft-thomson-http-mice-03 "mi-sha256-03":
//	                    proof(last record) = SHA-256(record || 0x00)
//	                    proof(record i)    = SHA-256(record i || proof(i+1) || 0x01)
//	                    body   = uint64be(rs) || rec0 || proof(1) || rec1 || proof(2) || ...
//	                    Digest = "mi-sha256-03=" base64(proof(0)); the empty payload encodes to the
//	                    empty body with proof SHA-256(0x00)
//
// It is built on refcbor and the standard library only and imports nothing from
// the repository.  Maps are assembled as unordered key/value lists and ordered by
// refcbor; the MI proofs are computed by front-to-back recursion (the
// implementation iterates back to front).
package refsig

import (
	"crypto/ecdsa"
	"crypto/sha256"
	"crypto/sha512"
	"encoding/base64"
	"errors"
	"fmt"
	"sort"
	"strconv"
	"strings"

	"github.com/WICG/webpackage/go/signedexchange/zverif/refcbor"
)

// IntegrityID is the payload-integrity-header identifier for mi-sha256-03 carried in a Digest header.
const IntegrityID = "digest/mi-sha256-03"

// ContentEncoding is the content-coding token of draft-03 MI.
const ContentEncoding = "mi-sha256-03"

// ---- response headers ----------------------------------------------------

// CanonHeaders folds a header multimap into lower-cased name => values joined by
// ",".  Two names equal up to case are an error (the CBOR map would have a duplicate key).
func CanonHeaders(h map[string][]string) (map[string]string, error) {
	out := map[string]string{}
	for name, vals := range h {
		ln := strings.ToLower(name)
		if _, dup := out[ln]; dup {
			return nil, fmt.Errorf("refsig: header %q present twice up to case", ln)
		}
		out[ln] = strings.Join(vals, ",")
	}
	return out, nil
}

// HeaderCBOR is the canonical CBOR response-header map including ":status".
func HeaderCBOR(status int, h map[string][]string) ([]byte, error) {
	ch, err := CanonHeaders(h)
	if err != nil {
		return nil, err
	}
	kvs := []refcbor.KV{{K: refcbor.EncBytes([]byte(":status")), V: refcbor.EncBytes([]byte(strconv.Itoa(status)))}}
	for n, v := range ch {
		kvs = append(kvs, refcbor.KV{K: refcbor.EncBytes([]byte(n)), V: refcbor.EncBytes([]byte(v))})
	}
	return refcbor.EncMap(kvs)
}

// HeaderSHA256 is the header-sha256 of a response.
func HeaderSHA256(status int, h map[string][]string) ([]byte, error) {
	b, err := HeaderCBOR(status, h)
	if err != nil {
		return nil, err
	}
	s := sha256.Sum256(b)
	return s[:], nil
}

// SameHeaders reports whether two header multimaps denote the same field set
// (names case-insensitively, repeated values folded with ",").
func SameHeaders(a, b map[string][]string) bool {
	ca, ea := CanonHeaders(a)
	cb, eb := CanonHeaders(b)
	if ea != nil || eb != nil || len(ca) != len(cb) {
		return false
	}
	for k, v := range ca {
		if w, ok := cb[k]; !ok || w != v {
			return false
		}
	}
	return true
}

// DescribeHeaders renders a header multimap deterministically.
func DescribeHeaders(h map[string][]string) string {
	ch, err := CanonHeaders(h)
	if err != nil {
		return "<" + err.Error() + ">"
	}
	names := make([]string, 0, len(ch))
	for n := range ch {
		names = append(names, n)
	}
	sort.Strings(names)
	var sb strings.Builder
	for _, n := range names {
		v := ch[n]
		if len(v) > 60 {
			v = v[:60] + fmt.Sprintf("...(%d)", len(v))
		}
		fmt.Fprintf(&sb, "%s=%q ", n, v)
	}
	return sb.String()
}

// ---- MI (mi-sha256-03) -----------------------------------------------------

func miProofs(payload []byte, rs int) [][]byte {
	// front-to-back recursion over the records
	var rec func(p []byte) [][]byte
	rec = func(p []byte) [][]byte {
		if len(p) <= rs {
			h := sha256.New()
			h.Write(p)
			h.Write([]byte{0})
			return [][]byte{h.Sum(nil)}
		}
		rest := rec(p[rs:])
		h := sha256.New()
		h.Write(p[:rs])
		h.Write(rest[0])
		h.Write([]byte{1})
		return append([][]byte{h.Sum(nil)}, rest...)
	}
	return rec(payload)
}

// MIEncode returns the mi-sha256-03 body and the Digest header value of payload.
func MIEncode(payload []byte, rs int) (body []byte, digest string) {
	if rs <= 0 {
		panic("refsig: record size")
	}
	if len(payload) == 0 {
		s := sha256.Sum256([]byte{0})
		return nil, ContentEncoding + "=" + base64.StdEncoding.EncodeToString(s[:])
	}
	proofs := miProofs(payload, rs)
	body = make([]byte, 8, 8+len(payload)+32*len(proofs))
	for i := 0; i < 8; i++ {
		body[i] = byte(uint64(rs) >> uint(56-8*i))
	}
	for i := 0; i*rs < len(payload); i++ {
		end := (i + 1) * rs
		if end > len(payload) {
			end = len(payload)
		}
		if i > 0 {
			body = append(body, proofs[i]...)
		}
		body = append(body, payload[i*rs:end]...)
	}
	return body, ContentEncoding + "=" + base64.StdEncoding.EncodeToString(proofs[0])
}

// ---- signed subset -----------------------------------------------------------

// Integrity is one subset-hashes value restricted to what the signer emits: an
// empty variants-value and exactly one resource-integrity pair.
type Integrity struct {
	Variants     []byte
	HeaderSHA256 []byte
	ID           string
}

// Subset is a signed-subset.
type Subset struct {
	ValidityURL string
	AuthSHA256  []byte
	Date        uint64
	Expires     uint64
	Hashes      map[string]Integrity // URL => integrity
}

// Encode returns the canonical CBOR of s.
func (s *Subset) Encode() []byte {
	var hs []refcbor.KV
	for u, in := range s.Hashes {
		hs = append(hs, refcbor.KV{K: refcbor.EncText(u), V: refcbor.EncArray(refcbor.EncBytes(in.Variants), refcbor.EncBytes(in.HeaderSHA256), refcbor.EncText(in.ID))})
	}
	return refcbor.MustMap(
		refcbor.KV{K: refcbor.EncText("subset-hashes"), V: refcbor.MustMap(hs...)},
		refcbor.KV{K: refcbor.EncText("expires"), V: refcbor.EncUint(s.Expires)},
		refcbor.KV{K: refcbor.EncText("date"), V: refcbor.EncUint(s.Date)},
		refcbor.KV{K: refcbor.EncText("auth-sha256"), V: refcbor.EncBytes(s.AuthSHA256)},
		refcbor.KV{K: refcbor.EncText("validity-url"), V: refcbor.EncText(s.ValidityURL)},
	)
}

// ParseSubset decodes signed-subset bytes produced by Encode (used to build
// tampered variants of a real signed subset).
func ParseSubset(b []byte) (*Subset, error) {
	it, n, err := refcbor.Decode(b)
	if err != nil || n != len(b) || it.Major != refcbor.Map {
		return nil, errors.New("refsig: signed-subset is not one CBOR map")
	}
	s := &Subset{}
	for i := 0; i+1 < len(it.Elems); i += 2 {
		k, v := it.Elems[i], it.Elems[i+1]
		if k.Major != refcbor.Text {
			return nil, errors.New("refsig: non-text key")
		}
		switch string(k.Str) {
		case "validity-url":
			s.ValidityURL = string(v.Str)
		case "auth-sha256":
			s.AuthSHA256 = append([]byte{}, v.Str...)
		case "date":
			s.Date = v.Arg
		case "expires":
			s.Expires = v.Arg
		case "subset-hashes":
			if v.Major != refcbor.Map {
				return nil, errors.New("refsig: subset-hashes is not a map")
			}
			s.Hashes = map[string]Integrity{}
			for j := 0; j+1 < len(v.Elems); j += 2 {
				arr := v.Elems[j+1]
				if arr.Major != refcbor.Array || len(arr.Elems) != 3 {
					return nil, errors.New("refsig: subset-hashes value is not a 3-element array")
				}
				s.Hashes[string(v.Elems[j].Str)] = Integrity{Variants: append([]byte{}, arr.Elems[0].Str...), HeaderSHA256: append([]byte{}, arr.Elems[1].Str...), ID: string(arr.Elems[2].Str)}
			}
		default:
			return nil, fmt.Errorf("refsig: unknown key %q", k.Str)
		}
	}
	return s, nil
}

// ---- signature ------------------------------------------------------------------

// SignedMessage is the byte string the ECDSA signature is computed over.
func SignedMessage(version string, signed []byte) []byte {
	m := []byte(strings.Repeat(" ", 64))
	m = append(m, "Web Package 1 "+version...)
	m = append(m, 0)
	return append(m, signed...)
}

// VerifySig checks an ASN.1 DER ECDSA signature over SignedMessage(version, signed)
// with SHA-256 for P-256 keys and SHA-384 for P-384 keys.
func VerifySig(pub *ecdsa.PublicKey, version string, signed, sig []byte) bool {
	msg := SignedMessage(version, signed)
	var digest []byte
	switch pub.Curve.Params().BitSize {
	case 256:
		d := sha256.Sum256(msg)
		digest = d[:]
	case 384:
		d := sha512.Sum384(msg)
		digest = d[:]
	default:
		return false
	}
	return ecdsa.VerifyASN1(pub, digest, sig)
}

// ---- signatures section ------------------------------------------------------------

// Authority is one augmented-certificate; nil OCSP / SCT = key absent.
type Authority struct{ Cert, OCSP, SCT []byte }

// Vouched is one vouched-subset.
type Vouched struct {
	Authority uint64
	Sig       []byte
	Signed    []byte
}

// SignaturesSection is the canonical CBOR of the signatures section.
func SignaturesSection(auths []Authority, vs []Vouched) []byte {
	var as [][]byte
	for _, a := range auths {
		kvs := []refcbor.KV{{K: refcbor.EncText("cert"), V: refcbor.EncBytes(a.Cert)}}
		if a.OCSP != nil {
			kvs = append(kvs, refcbor.KV{K: refcbor.EncText("ocsp"), V: refcbor.EncBytes(a.OCSP)})
		}
		if a.SCT != nil {
			kvs = append(kvs, refcbor.KV{K: refcbor.EncText("sct"), V: refcbor.EncBytes(a.SCT)})
		}
		as = append(as, refcbor.MustMap(kvs...))
	}
	var vv [][]byte
	for _, v := range vs {
		vv = append(vv, refcbor.MustMap(
			refcbor.KV{K: refcbor.EncText("signed"), V: refcbor.EncBytes(v.Signed)},
			refcbor.KV{K: refcbor.EncText("authority"), V: refcbor.EncUint(v.Authority)},
			refcbor.KV{K: refcbor.EncText("sig"), V: refcbor.EncBytes(v.Sig)},
		))
	}
	return refcbor.EncArray(refcbor.EncArray(as...), refcbor.EncArray(vv...))
}

// ---- locating sections in a serialized bundle -----------------------------------------

// Section is the byte range [Start,End) of one section of a serialized bundle.
type Section struct {
	Name       string
	Start, End int
}

// Sections walks the fixed prefix of a b1/b2 bundle (magic, version, b1: primary
// URL, section-lengths, sections array head) and returns the ranges of the sections.
func Sections(file []byte) ([]Section, error) {
	if len(file) < 15 {
		return nil, errors.New("refsig: short file")
	}
	pos := 10 + 5
	b1 := file[12] == '1'
	if b1 {
		h, err := refcbor.ParseHead(file[pos:])
		if err != nil || h.Major != refcbor.Text {
			return nil, errors.New("refsig: b1 primary URL")
		}
		pos += h.Len + int(h.Arg)
	}
	sl, n, err := refcbor.Decode(file[pos:])
	if err != nil || sl.Major != refcbor.Bytes {
		return nil, errors.New("refsig: section-lengths")
	}
	pos += n
	arr, m, err := refcbor.Decode(sl.Str)
	if err != nil || m != len(sl.Str) || arr.Major != refcbor.Array || len(arr.Elems)%2 != 0 {
		return nil, errors.New("refsig: section-lengths array")
	}
	h, err := refcbor.ParseHead(file[pos:])
	if err != nil || h.Major != refcbor.Array || int(h.Arg) != len(arr.Elems)/2 {
		return nil, errors.New("refsig: sections array head")
	}
	pos += h.Len
	var out []Section
	for i := 0; i+1 < len(arr.Elems); i += 2 {
		l := int(arr.Elems[i+1].Arg)
		if pos+l > len(file) {
			return nil, errors.New("refsig: section beyond the file")
		}
		out = append(out, Section{Name: string(arr.Elems[i].Str), Start: pos, End: pos + l})
		pos += l
	}
	return out, nil
}

// Field names one byte range inside a section (for classifying mutation sites).
type Field struct {
	Name       string
	Start, End int
}

// offsetOf returns the offset of sub (a subslice of base) inside base.
func offsetOf(base, sub []byte) int { return cap(base) - cap(sub) }

// SignatureFields lists the content ranges of cert / ocsp / sct / authority / sig /
// signed inside a signatures section located at file[sec.Start:sec.End]; offsets
// are file offsets.  Bytes not listed are structure (heads and map keys).
func SignatureFields(file []byte, sec Section) ([]Field, error) {
	b := file[sec.Start:sec.End:sec.End]
	it, n, err := refcbor.Decode(b)
	if err != nil || n != len(b) || it.Major != refcbor.Array || len(it.Elems) != 2 {
		return nil, errors.New("refsig: signatures section shape")
	}
	var out []Field
	add := func(name string, v *refcbor.Item) {
		var start, end int
		if v.Major == refcbor.Bytes || v.Major == refcbor.Text {
			end = offsetOf(b, v.Raw) + len(v.Raw)
			start = end - len(v.Str)
		} else {
			start = offsetOf(b, v.Raw)
			end = start + len(v.Raw)
		}
		out = append(out, Field{Name: name, Start: sec.Start + start, End: sec.Start + end})
	}
	for i, a := range it.Elems[0].Elems {
		for j := 0; j+1 < len(a.Elems); j += 2 {
			add(fmt.Sprintf("authorities[%d].%s", i, a.Elems[j].Str), a.Elems[j+1])
		}
	}
	for i, v := range it.Elems[1].Elems {
		for j := 0; j+1 < len(v.Elems); j += 2 {
			add(fmt.Sprintf("vouched[%d].%s", i, v.Elems[j].Str), v.Elems[j+1])
		}
	}
	return out, nil
}

// ResponseFields lists the header-map and payload content ranges of every
// response in a responses section (file offsets).
func ResponseFields(file []byte, sec Section) ([]Field, error) {
	b := file[sec.Start:sec.End:sec.End]
	it, n, err := refcbor.Decode(b)
	if err != nil || n != len(b) || it.Major != refcbor.Array {
		return nil, errors.New("refsig: responses section shape")
	}
	var out []Field
	for i, r := range it.Elems {
		if r.Major != refcbor.Array || len(r.Elems) != 2 {
			return nil, errors.New("refsig: response shape")
		}
		for j, nm := range []string{"headers", "payload"} {
			v := r.Elems[j]
			end := offsetOf(b, v.Raw) + len(v.Raw)
			out = append(out, Field{Name: fmt.Sprintf("responses[%d].%s", i, nm), Start: sec.Start + end - len(v.Str), End: sec.Start + end})
		}
	}
	return out, nil
}

// FieldAt returns the name of the field containing file offset off ("structure" if none).
func FieldAt(fs []Field, off int) string {
	for _, f := range fs {
		if off >= f.Start && off < f.End {
			return f.Name
		}
	}
	return "structure"
}
