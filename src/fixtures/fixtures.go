// Package fixtures holds static keys and certificates (generated once, see
// /verif/tools/genfixtures.go.txt) so that every run explores the same artifacts.
package fixtures

import (
	"crypto/ecdsa"
	"crypto/ed25519"
	"crypto/x509"
	"encoding/pem"
)

// Passphrase of the encrypted PKCS#8 fixtures.
const Passphrase = "verif-pass"

type ECIdentity struct {
	Name     string
	Key      *ecdsa.PrivateKey
	Leaf     *x509.Certificate
	CA       *x509.Certificate
	CertPEM  string // leaf only
	ChainPEM string // leaf + CA
	SEC1PEM  string
	PKCS8PEM string
}

func parseCert(p string) *x509.Certificate {
	b, _ := pem.Decode([]byte(p))
	c, err := x509.ParseCertificate(b.Bytes)
	if err != nil {
		panic(err)
	}
	return c
}

func parseEC(p string) *ecdsa.PrivateKey {
	b, _ := pem.Decode([]byte(p))
	k, err := x509.ParseECPrivateKey(b.Bytes)
	if err != nil {
		panic(err)
	}
	return k
}

func mk(name, cert, sec1, p8 string) *ECIdentity {
	return &ECIdentity{Name: name, Key: parseEC(sec1), Leaf: parseCert(cert), CA: parseCert(CACertPEM), CertPEM: cert, ChainPEM: cert + CACertPEM, SEC1PEM: sec1, PKCS8PEM: p8}
}

var (
	// A: P-256, hosts a.test www.a.test. A2: second P-256 key for a.test.
	// B: P-384, hosts b.test *.b.test. C: P-256, c.test.
	A  = mk("A", ACertPEM, AKeySEC1PEM, AKeyPKCS8PEM)
	A2 = mk("A2", A2CertPEM, A2KeySEC1PEM, A2KeyPKCS8PEM)
	B  = mk("B", BCertPEM, BKeySEC1PEM, BKeyPKCS8PEM)
	C  = mk("C", CCertPEM, CKeySEC1PEM, CKeyPKCS8PEM)
)

type EdIdentity struct {
	Name   string
	Priv   ed25519.PrivateKey
	Pub    ed25519.PublicKey
	KeyPEM string
	PubPEM string
}

func mkEd(name, keyPEM, pubPEM string) *EdIdentity {
	b, _ := pem.Decode([]byte(keyPEM))
	k, err := x509.ParsePKCS8PrivateKey(b.Bytes)
	if err != nil {
		panic(err)
	}
	priv := k.(ed25519.PrivateKey)
	return &EdIdentity{Name: name, Priv: priv, Pub: priv.Public().(ed25519.PublicKey), KeyPEM: keyPEM, PubPEM: pubPEM}
}

var (
	Ed1 = mkEd("Ed1", Ed1KeyPEM, Ed1PubPEM)
	Ed2 = mkEd("Ed2", Ed2KeyPEM, Ed2PubPEM)
	Ed3 = mkEd("Ed3", Ed3KeyPEM, Ed3PubPEM)
)
