package main

// C16/long-items: the LENGTH of one item as the swept quantity.  The pools of the other value harnesses stop at a few
// bytes; a serializer or parser that works in blocks (base64 in chunks, a fixed scratch buffer, a pre-sized builder)
// first differs at a block boundary.  Every length 0..N of a byte sequence, a string, a token and a label/key is
// serialized, compared with the reference text, parsed back and compared with the value (c16LolCase / c16PlCase carry
// the oracle), as the only member of a list of lists and as a parameter value.

import (
	"fmt"
	"strings"

	"github.com/WICG/webpackage/go/signedexchange/zverif/mc"
)

func init() {
	p := props["C16"]
	p.Harnesses = append(p.Harnesses, &mc.Harness{Name: "C16/long-items", Run: func(c *mc.Ctx) {
		max := c.Pick(1100, 4200)
		n := c.Free(max+1, "length")
		var it c16Gen
		switch c.Free(4, "type") {
		case 0:
			it = gBin(pattern(n, c.Seed+int64(n)))
		case 1:
			it = gBin(append([]byte{}, strings.Repeat("\xff", n)...)) // base64 text of '/' only
		case 2:
			s := []byte(strings.Repeat("abcdefghij klmno", n/16+1)[:n])
			if n > 2 {
				s[n/2], s[n-1] = '"', '\\' // characters that need escaping, one of them last
			}
			it = gStr(string(s))
		default:
			if n == 0 {
				n = 1
			}
			it = gTok("t" + strings.Repeat("A-z_0.9:/%*", n/11+1)[:n-1])
		}
		switch c.Free(3, "context") {
		case 0:
			c16LolCase(c, [][]c16Gen{{it}})
		case 1:
			c16LolCase(c, [][]c16Gen{{gInt(1), it}, {it}})
		default:
			c16PlCase(c, []c16GenMember{{label: "a", params: []c16GenParam{{key: "k", val: it}, {key: "j", val: gInt(int64(n))}}}})
		}
	}})
	p.Rule += " C16/long-items: every length 0..1100 (quick) / 0..4200 (thorough) of one item x {byte sequence of pattern bytes, byte sequence of 0xff, string with an escaped character in the middle and at the end, token} x 3 contexts (alone in a list of lists, second member and again in a second inner list, parameter value next to another parameter)."
}

// C16/long-lists: the NUMBER of members as the swept quantity: a parameterised list of n identifiers, a list of lists
// with one inner list of n items, a list of n inner lists, one identifier with n parameters.  The grammar has no upper
// bound; a parser or serializer with a fixed table, a pre-sized slice or a "hardening" limit is first wrong at some count.
func init() {
	p := props["C16"]
	p.Harnesses = append(p.Harnesses, &mc.Harness{Name: "C16/long-lists", Run: func(c *mc.Ctx) {
		var counts []int
		if c.Quick() {
			for _, b := range []int{16, 32, 64, 100, 128, 256, 512, 1000, 1024, 2048, 4096} {
				counts = append(counts, b-1, b, b+1)
			}
		} else {
			for n := 1; n <= 4200; n++ {
				counts = append(counts, n)
			}
			counts = append(counts, 8191, 8192, 8193, 16384, 65535, 65536, 65537)
		}
		n := counts[c.Free(len(counts), "count")]
		switch c.Free(4, "shape") {
		case 0:
			g := make([]c16GenMember, n)
			for i := range g {
				g[i] = c16GenMember{label: fmt.Sprintf("m%d", i)}
			}
			c16PlCase(c, g)
		case 1:
			inner := make([]c16Gen, n)
			for i := range inner {
				inner[i] = gInt(int64(i))
			}
			c16LolCase(c, [][]c16Gen{inner})
		case 2:
			g := make([][]c16Gen, n)
			for i := range g {
				g[i] = []c16Gen{gInt(int64(i))}
			}
			c16LolCase(c, g)
		default:
			if n > 1100 {
				n = 1100 // two insertion orders (ascending and descending generation order), not every permutation
			}
			m := c16GenMember{label: "a"}
			for i := 0; i < n; i++ {
				m.params = append(m.params, c16GenParam{key: fmt.Sprintf("k%d", (i*7919)%n), val: gInt(int64(i))})
			}
			id, rev := make([]int, n), make([]int, n)
			for i := range id {
				id[i], rev[i] = i, n-1-i
			}
			m.orders = [][]int{id, rev}
			c16PlCase(c, []c16GenMember{m})
		}
	}})
	p.Rule += " C16/long-lists: member counts b-1, b, b+1 for b in {16, 32, 64, 100, 128, 256, 512, 1000, 1024, 2048, 4096} (thorough: every count 1..4200 and 8191..8193, 16384, 65535..65537) x 4 shapes (n identifiers, one inner list of n items, n inner lists, one identifier with n parameters)."
}
