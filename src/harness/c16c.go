package main

// C16/long-items: the LENGTH of one item as the swept quantity.  The pools of the other value harnesses stop at a few
// bytes; a serializer or parser that works in blocks (base64 in chunks, a fixed scratch buffer, a pre-sized builder)
// first differs at a block boundary.  Every length 0..N of a byte sequence, a string, a token and a label/key is
// serialized, compared with the reference text, parsed back and compared with the value (c16LolCase / c16PlCase carry
// the oracle), as the only member of a list of lists and as a parameter value.

import (
	"strings"

	"github.com/WICG/webpackage/go/signedexchange/zverif/mc"
)

func init() {
	p := props["C16"]
	p.Harnesses = append(p.Harnesses, &mc.Harness{Name: "C16/long-items", Run: func(c *mc.Ctx) {
		max := c.Pick(1100, 4200)
		n := c.Free(max+1, "length")
		var it c16Gen
		switch c.Free(4, "type") {
		case 0:
			it = gBin(pattern(n, c.Seed+int64(n)))
		case 1:
			it = gBin(append([]byte{}, strings.Repeat("\xff", n)...)) // base64 text of '/' only
		case 2:
			s := []byte(strings.Repeat("abcdefghij klmno", n/16+1)[:n])
			if n > 2 {
				s[n/2], s[n-1] = '"', '\\' // characters that need escaping, one of them last
			}
			it = gStr(string(s))
		default:
			if n == 0 {
				n = 1
			}
			it = gTok("t" + strings.Repeat("A-z_0.9:/%*", n/11+1)[:n-1])
		}
		switch c.Free(3, "context") {
		case 0:
			c16LolCase(c, [][]c16Gen{{it}})
		case 1:
			c16LolCase(c, [][]c16Gen{{gInt(1), it}, {it}})
		default:
			c16PlCase(c, []c16GenMember{{label: "a", params: []c16GenParam{{key: "k", val: it}, {key: "j", val: gInt(int64(n))}}}})
		}
	}})
	p.Rule += " C16/long-items: every length 0..1100 (quick) / 0..4200 (thorough) of one item x {byte sequence of pattern bytes, byte sequence of 0xff, string with an escaped character in the middle and at the end, token} x 3 contexts (alone in a list of lists, second member and again in a second inner list, parameter value next to another parameter)."
}
