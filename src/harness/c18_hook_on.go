//go:build verif

package main

import "github.com/WICG/webpackage/go/internal/verifhook"

const c18HooksBuilt = true

func c18InstallHook(f func(string)) { verifhook.Hook = f }
