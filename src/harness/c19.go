package main

// C19 - write failures at any byte position surface as errors (fault enumeration).
//
// Space.  For every (serializer, artifact): the fault-free output `ref` is computed
// first on a plain buffer; then EVERY k in [0, len(ref)] is enumerated (k = len(ref)
// is the no-fault control) x fault delivery {refuse the offending call, short write
// + error} x persistence {sticky, transient} x destination {implements
// io.ReaderFrom, does not}.  All four dimensions are Free choice points: nothing is
// bounded by deviations, the sweep is complete.  The destination is mc.FaultWriter.
// Writers that return n < len(p) with a nil error break the io.Writer contract and
// are not modelled.
//
// Oracle (never demands more than the property states).
//   k < len(ref)  => the serializer returns a non-nil error (also in transient mode:
//                    one write failed, so success must not be reported);
//                    the bytes the destination accepted up to the first failure (in
//                    sticky mode: all accepted bytes) are a prefix of ref;
//                    Bundle.WriteTo: returned count == bytes the destination accepted.
//   k = len(ref)  => success, accepted bytes identical to ref (and count == len(ref)).
//   CountingWriter driven directly: Written == bytes accepted, always; Write returns
//                    the accepted count; ReadFrom returns (bytes transferred, nil) at EOF.
// The reference is the implementation's own fault-free output: C19 is about error
// propagation and byte accounting; whether those bytes are right belongs to
// C04/C08/C11/C14/C17.
//
// Every artifact is built afresh for the reference run and again for the fault run
// (no object is shared between executions or goroutines).

import (
	"bytes"
	"crypto/x509"
	"encoding/binary"
	"errors"
	"fmt"
	"io"
	"net/http"
	"net/url"
	"strings"
	"sync"
	"time"

	"github.com/WICG/webpackage/go/bundle"
	"github.com/WICG/webpackage/go/bundle/signature"
	bundleversion "github.com/WICG/webpackage/go/bundle/version"
	"github.com/WICG/webpackage/go/internal/cbor"
	"github.com/WICG/webpackage/go/internal/signingalgorithm"
	"github.com/WICG/webpackage/go/signedexchange"
	"github.com/WICG/webpackage/go/signedexchange/certurl"
	"github.com/WICG/webpackage/go/signedexchange/mice"
	sxgversion "github.com/WICG/webpackage/go/signedexchange/version"
	"github.com/WICG/webpackage/go/signedexchange/zverif/fixtures"
	"github.com/WICG/webpackage/go/signedexchange/zverif/mc"
)

// c19Run serializes one freshly built artifact into w.  count is the byte count
// the serializer returned, or -1 when its API returns none.
type c19Run func(w io.Writer) (count int64, err error)

type c19Art struct {
	ser   string        // serializer name used in keys: C19/<ser>/<name>
	name  string        // artifact name
	build func() c19Run // builds a fresh artifact (never shared) and returns its serializer call
}

// c19Call runs the serializer, turning a panic into a reportable observation.
func c19Call(run c19Run, w io.Writer) (count int64, err error, pan string) {
	defer func() {
		if r := recover(); r != nil {
			pan = fmt.Sprint(r)
		}
	}()
	count, err = run(w)
	return
}

func c19Mode(short, transient bool) string {
	m := "refuse"
	if short {
		m = "short"
	}
	if transient {
		return m + ",transient"
	}
	return m + ",sticky"
}

func c19Dst(rf bool) string {
	if rf {
		return "rf"
	}
	return "plain"
}

func c19U32(k int) []byte {
	var b [4]byte
	binary.BigEndian.PutUint32(b[:], uint32(k))
	return b[:]
}

func c19ErrClass(err error) string {
	if errors.Is(err, mc.ErrInjected) {
		return "injected error passed through"
	}
	if strings.Contains(err.Error(), mc.ErrInjected.Error()) {
		return "injected error wrapped in a message"
	}
	return "other error returned"
}

var (
	c19RefMu   sync.Mutex
	c19RefSeen = map[string][]byte{}
)

// c19Explore is one execution of a serializer family harness.
func c19Explore(c *mc.Ctx, arts []c19Art) {
	a := arts[c.Free(len(arts), "artifact")]
	id := a.ser + "/" + a.name

	// reference: fault-free output on a plain buffer, from a fresh artifact
	var refBuf bytes.Buffer
	refCount, refErr, refPan := c19Call(a.build(), &refBuf)
	ref := refBuf.Bytes()
	if refErr != nil || refPan != "" || (refCount >= 0 && refCount != int64(len(ref))) {
		c.Outcome("VIOLATION: fault-free run failed")
		c.Fail("C19/"+id+":ref", "the serializer failed (or miscounted) on a plain bytes.Buffer with no fault at all", id, fmt.Sprintf("nil error, count %d", len(ref)), fmt.Sprintf("err=%v panic=%q count=%d len=%d", refErr, refPan, refCount, len(ref)))
		return
	}

	// the fault-free output of a fresh artifact must not depend on what the process did before
	// (e.g. an earlier failed write); the first value seen is kept and decides the tree shape
	c19RefMu.Lock()
	first0, seen := c19RefSeen[id]
	if !seen {
		c19RefSeen[id] = append([]byte{}, ref...)
		first0 = c19RefSeen[id]
	}
	c19RefMu.Unlock()
	if !bytes.Equal(first0, ref) {
		c.Outcome("VIOLATION: fault-free output changed during the run")
		c.Fail("C19/"+id+":ref-changed", "the fault-free output of a freshly built artifact differs from the fault-free output of the same artifact earlier in this process (state left behind by earlier, possibly failed, writes)", id, hx(first0), hx(ref))
		ref = first0
	}

	k := c.Free(len(ref)+1, "k")
	short := c.Free(2, "fault:refuse/short") == 1
	transient := c.Free(2, "sticky/transient") == 1
	rf := c.Free(2, "dest:plain/readerfrom") == 1
	mode := c19Mode(short, transient) + ",dst=" + c19Dst(rf)
	key := fmt.Sprintf("C19/%s:k=%d:mode=%s", id, k, mode)
	input := fmt.Sprintf("%s (fault-free output %d bytes), destination accepts %d bytes then fails [%s]", id, len(ref), k, mode)

	fw := mc.NewFaultWriter(k, short, transient)
	count, err, pan := c19Call(a.build(), fw.Writer(rf))
	acc := fw.Accepted()
	first := fw.AcceptedAtFirstFailure()

	c.Eval()
	c.State([]byte(key))
	c.Transitions(int64(fw.Calls()))
	if k < len(ref) {
		c.Nontrivial([]byte(id), c19U32(k))
	}
	obs := fmt.Sprintf("err=%v count=%d accepted=%d (at first failure %d) calls=%d failed-calls=%d", err, count, len(acc), len(first), fw.Calls(), fw.Failures())
	c.Sample(key + " -> " + obs)
	if fw.ReadFromCalls() > 0 {
		// informational: tells whether any serializer reaches dest.ReadFrom at all
		c.Outcome("note: destination's ReadFrom was used")
	}

	var bad []string
	if pan != "" {
		bad = append(bad, "panic: "+pan)
	}
	// history: the same artifact, freshly built, written to a healthy destination right after the
	// failed write must still produce the fault-free output
	{
		var again bytes.Buffer
		aCount, aErr, aPan := c19Call(a.build(), &again)
		c.Transitions(1)
		if aErr != nil || aPan != "" || !bytes.Equal(again.Bytes(), ref) || (aCount >= 0 && aCount != int64(len(ref))) {
			c.Outcome("VIOLATION healthy write after a failed write")
			c.Fail(key+":after", "a write to a healthy destination right after the failed write does not produce the fault-free output", input+"; then the same artifact built afresh and written to a bytes.Buffer", fmt.Sprintf("nil error, %d bytes: %s", len(ref), hx(ref)), fmt.Sprintf("err=%v panic=%q count=%d, %d bytes: %s", aErr, aPan, aCount, again.Len(), hx(again.Bytes())))
			return
		}
	}
	if k < len(ref) {
		if pan == "" && err == nil {
			bad = append(bad, "success reported although a write failed")
		}
		chk := acc // sticky: nothing may be accepted after the failure anyway
		if transient {
			chk = first
		}
		if !bytes.HasPrefix(ref, chk) {
			bad = append(bad, "accepted bytes are not a prefix of the fault-free output")
		}
		if count >= 0 && count != int64(len(acc)) {
			bad = append(bad, fmt.Sprintf("returned count %d != %d bytes accepted", count, len(acc)))
		}
		if len(bad) > 0 {
			c.Outcome("VIOLATION fault " + c19Mode(short, transient))
			c.Fail(key, fmt.Sprint(bad), input, "non-nil error; accepted bytes a prefix of the fault-free output; count == bytes accepted", obs+" accepted="+hx(acc)+" ref="+hx(ref))
			return
		}
		c.Outcome("fault " + c19Mode(short, transient) + ": error returned, prefix ok (" + c19ErrClass(err) + ")")
		return
	}
	// control
	if pan == "" && err != nil {
		bad = append(bad, "error without any fault")
	}
	if !bytes.Equal(acc, ref) {
		bad = append(bad, "output differs from the fault-free output")
	}
	if count >= 0 && count != int64(len(ref)) {
		bad = append(bad, fmt.Sprintf("returned count %d != %d", count, len(ref)))
	}
	if len(bad) > 0 {
		c.Outcome("VIOLATION control")
		c.Fail(key, fmt.Sprint(bad), input, "success, output identical to the fault-free output", obs+" accepted="+hx(acc)+" ref="+hx(ref))
		return
	}
	c.Outcome("control k=len: success, output identical (dst=" + c19Dst(rf) + ")")
}

func c19URL(s string) *url.URL {
	u, err := url.Parse(s)
	if err != nil {
		panic(err)
	}
	return u
}

var c19Date = time.Date(2018, 1, 31, 17, 13, 20, 0, time.UTC)

// ---- bundles ---------------------------------------------------------------

type c19BundleSpec struct {
	name     string
	ver      bundleversion.Version
	primary  bool
	manifest bool
	sig      bool
	nEx      int
	bodyLen  int
	variants bool // two representations of the first URL (b1 only)
}

func c19BuildBundle(sp c19BundleSpec, seed int64) *bundle.Bundle {
	b := &bundle.Bundle{Version: sp.ver}
	if sp.primary {
		b.PrimaryURL = c19URL("https://a.test/")
	}
	if sp.manifest {
		b.ManifestURL = c19URL("https://a.test/manifest.webmanifest")
	}
	urls := []string{"https://a.test/", "https://a.test/s/app.js", "https://www.a.test/img/logo.png?v=2", "https://a.test/a/b/c.css", "https://a.test/data.json"}
	ctypes := []string{"text/html; charset=utf-8", "application/javascript", "image/png", "text/css", "application/json"}
	for i := 0; i < sp.nEx; i++ {
		body := pattern(sp.bodyLen+7*i, seed+int64(i))
		h := http.Header{"Content-Type": []string{ctypes[i%len(ctypes)]}}
		if i == 1 {
			h["Cache-Control"] = []string{"max-age=60", "public"} // joined with ","
		}
		b.Exchanges = append(b.Exchanges, &bundle.Exchange{
			Request:  bundle.Request{URL: c19URL(urls[i%len(urls)])},
			Response: bundle.Response{Status: 200, Header: h, Body: body},
		})
	}
	if sp.variants {
		// second representation of exchange 0's URL, selected by Accept-Language
		e0 := b.Exchanges[0]
		e0.Response.Header["Variants"] = []string{"Accept-Language;en;fr"}
		e0.Response.Header["Variant-Key"] = []string{"en"}
		b.Exchanges = append(b.Exchanges, &bundle.Exchange{
			Request: bundle.Request{URL: c19URL(urls[0])},
			Response: bundle.Response{Status: 200, Header: http.Header{"Content-Type": []string{ctypes[0]},
				"Variants": []string{"Accept-Language;en;fr"}, "Variant-Key": []string{"fr"}}, Body: []byte("bonjour")},
		})
	}
	if sp.sig {
		chain, err := certurl.NewCertChain([]*x509.Certificate{fixtures.A.Leaf}, pattern(24, 7), nil)
		if err != nil {
			panic(err)
		}
		s, err := signature.NewSigner(sp.ver, chain, fixtures.A.Key, c19URL("https://a.test/resource.validity"), c19Date, time.Hour)
		if err != nil {
			panic(err)
		}
		s.Algorithm = &signingalgorithm.MockSigningAlgorithm{} // SHA-256 of the message: reproducible output
		for _, e := range b.Exchanges {
			integrity, err := e.AddPayloadIntegrity(sp.ver, 16)
			if err != nil {
				panic(err)
			}
			if err := s.AddExchange(e, integrity); err != nil {
				panic(err)
			}
		}
		sigs, err := s.UpdateSignatures(nil)
		if err != nil {
			panic(err)
		}
		b.Signatures = sigs
	}
	return b
}

func c19BundleArts(tier string, seed int64) []c19Art {
	b1, b2 := bundleversion.VersionB1, bundleversion.VersionB2
	specs := []c19BundleSpec{
		{name: "b1-primary-manifest-1ex", ver: b1, primary: true, manifest: true, nEx: 1, bodyLen: 13},
		{name: "b1-primary-manifest-sig-3ex", ver: b1, primary: true, manifest: true, sig: true, nEx: 3, bodyLen: 20},
		{name: "b2-primarysection-1ex", ver: b2, primary: true, nEx: 1, bodyLen: 13},
		{name: "b2-primarysection-sig-2ex", ver: b2, primary: true, sig: true, nEx: 2, bodyLen: 20},
		{name: "b2-noprimary-2ex", ver: b2, nEx: 2, bodyLen: 0},
		{name: "b1-primary-2ex", ver: b1, primary: true, nEx: 2, bodyLen: 40},
		{name: "b1-variants-3ex", ver: b1, primary: true, manifest: true, nEx: 2, bodyLen: 30, variants: true},
	}
	if tier == "thorough" {
		specs = append(specs,
			c19BundleSpec{name: "b1-primary-manifest-5ex-1k", ver: b1, primary: true, manifest: true, nEx: 5, bodyLen: 1000},
			c19BundleSpec{name: "b1-sig-1ex", ver: b1, primary: true, sig: true, nEx: 1, bodyLen: 300},
			c19BundleSpec{name: "b2-primarysection-3ex", ver: b2, primary: true, nEx: 3, bodyLen: 257},
			c19BundleSpec{name: "b2-sig-3ex", ver: b2, primary: true, sig: true, nEx: 3, bodyLen: 100},
			c19BundleSpec{name: "b2-noprimary-0ex", ver: b2, nEx: 0},
			c19BundleSpec{name: "b2-primarysection-1ex-8k", ver: b2, primary: true, nEx: 1, bodyLen: 8000},
		)
	}
	var arts []c19Art
	for _, sp := range specs {
		sp := sp
		arts = append(arts, c19Art{ser: "bundle.writeto", name: sp.name, build: func() c19Run {
			b := c19BuildBundle(sp, seed)
			return func(w io.Writer) (int64, error) { return b.WriteTo(w) }
		}})
	}
	return arts
}

// ---- signed exchanges --------------------------------------------------------

func c19BuildExchange(ver sxgversion.Version, payloadLen int, seed int64) (*signedexchange.Exchange, *signedexchange.Signer) {
	reqH := http.Header{}
	reqH.Add("Accept", "*/*")
	respH := http.Header{}
	respH.Add("Content-Type", "text/html; charset=utf-8")
	respH.Add("Foo", "Bar")
	respH.Add("Foo", "Baz")
	e := signedexchange.NewExchange(ver, "https://a.test/index.html", http.MethodGet, reqH, 200, respH, pattern(payloadLen, seed))
	if err := e.MiEncodePayload(16); err != nil {
		panic(err)
	}
	s := &signedexchange.Signer{
		Date:        c19Date,
		Expires:     c19Date.Add(time.Hour),
		Certs:       []*x509.Certificate{fixtures.A.Leaf},
		CertUrl:     c19URL("https://a.test/cert.cbor"),
		ValidityUrl: c19URL("https://a.test/resource.validity"),
		PrivKey:     fixtures.A.Key,
		Algorithm:   &signingalgorithm.MockSigningAlgorithm{}, // deterministic: SHA-256 of the signed message
	}
	if err := e.AddSignatureHeader(s); err != nil {
		panic(err)
	}
	return e, s
}

func c19SXGArts(tier string, seed int64) []c19Art {
	type spec struct {
		suffix string
		ver    sxgversion.Version
		plen   int
	}
	specs := []spec{
		{"1b1", sxgversion.Version1b1, 40},
		{"1b2", sxgversion.Version1b2, 40},
		{"1b3", sxgversion.Version1b3, 40},
		{"1b3-emptypayload", sxgversion.Version1b3, 0}, // ends with a zero-length Write
	}
	if tier == "thorough" {
		specs = append(specs, spec{"1b1-emptypayload", sxgversion.Version1b1, 0}, spec{"1b2-2k", sxgversion.Version1b2, 2000}, spec{"1b3-600", sxgversion.Version1b3, 600})
	}
	var arts []c19Art
	for _, sp := range specs {
		sp := sp
		arts = append(arts,
			c19Art{ser: "exchange.write", name: sp.suffix, build: func() c19Run {
				e, _ := c19BuildExchange(sp.ver, sp.plen, seed)
				return func(w io.Writer) (int64, error) { return -1, e.Write(w) }
			}})
		if sp.plen != 40 {
			continue // the two dumps do not depend on the payload beyond its digest
		}
		arts = append(arts,
			c19Art{ser: "dumpexchangeheaders", name: sp.suffix, build: func() c19Run {
				e, _ := c19BuildExchange(sp.ver, sp.plen, seed)
				return func(w io.Writer) (int64, error) { return -1, e.DumpExchangeHeaders(w) }
			}},
			c19Art{ser: "dumpsignedmessage", name: sp.suffix, build: func() c19Run {
				e, s := c19BuildExchange(sp.ver, sp.plen, seed)
				return func(w io.Writer) (int64, error) { return -1, e.DumpSignedMessage(w, s) }
			}})
	}
	return arts
}

// ---- cert chains ---------------------------------------------------------------

func c19CertArts(tier string) []c19Art {
	type spec struct {
		name  string
		certs []*x509.Certificate
		ocsp  int
		sct   int // -1: absent
	}
	A, CA, B := fixtures.A.Leaf, fixtures.A.CA, fixtures.B.Leaf
	specs := []spec{
		{"1cert-ocsp-sct", []*x509.Certificate{A}, 70, 40},
		{"1cert-ocsp-nosct", []*x509.Certificate{A}, 10, -1},
		{"2certs-ocsp-sct", []*x509.Certificate{A, CA}, 30, 23},
		{"2certs-p384-ocsp300-sct", []*x509.Certificate{B, CA}, 300, 120},
	}
	if tier == "thorough" {
		specs = append(specs,
			spec{"3certs-ocsp-nosct", []*x509.Certificate{fixtures.C.Leaf, A, CA}, 24, -1},
			spec{"1cert-emptyocsp-emptysct", []*x509.Certificate{A}, 0, 0},
		)
	}
	var arts []c19Art
	for _, sp := range specs {
		sp := sp
		arts = append(arts, c19Art{ser: "certchain.write", name: sp.name, build: func() c19Run {
			var sct []byte
			if sp.sct >= 0 {
				sct = append([]byte{}, pattern(sp.sct, 3)...)
			}
			chain, err := certurl.NewCertChain(sp.certs, append([]byte{}, pattern(sp.ocsp, 5)...), sct)
			if err != nil {
				panic(err)
			}
			return func(w io.Writer) (int64, error) { return -1, chain.Write(w) }
		}})
	}
	return arts
}

// ---- MI encoding ---------------------------------------------------------------

func c19MiceArts(tier string, seed int64) []c19Art {
	type spec struct {
		name string
		n    int // payload length
		rs   int
	}
	// record size 16: 0 records (empty payload), 1 record, 3 records (last partial), 3 full records
	specs := []spec{{"0rec", 0, 16}, {"1rec", 10, 16}, {"3rec", 40, 16}, {"3rec-full", 48, 16}}
	if tier == "thorough" {
		specs = append(specs, spec{"5rec-rs1", 5, 1}, spec{"2rec-rs4096", 5000, 4096}, spec{"9rec-rs100", 850, 100})
	}
	var arts []c19Art
	for _, enc := range []mice.Encoding{mice.Draft02Encoding, mice.Draft03Encoding} {
		for _, sp := range specs {
			sp, enc := sp, enc
			d := "draft03"
			if enc == mice.Draft02Encoding {
				d = "draft02"
			}
			arts = append(arts, c19Art{ser: "mice.encode", name: d + "-" + sp.name, build: func() c19Run {
				payload := pattern(sp.n, seed)
				return func(w io.Writer) (int64, error) {
					_, err := enc.Encode(w, payload, sp.rs)
					return -1, err
				}
			}})
		}
	}
	return arts
}

// ---- CBOR encoder ----------------------------------------------------------------

func c19Map3() []*cbor.MapEntryEncoder {
	// three entries, supplied out of canonical order; values of three shapes
	return []*cbor.MapEntryEncoder{
		cbor.GenerateMapEntry(func(k, v *cbor.Encoder) { k.EncodeTextString("zz"); v.EncodeUint(70000) }),
		cbor.GenerateMapEntry(func(k, v *cbor.Encoder) { k.EncodeUint(7); v.EncodeByteString([]byte("0123456789abcdefghijklmnop")) }),
		cbor.GenerateMapEntry(func(k, v *cbor.Encoder) {
			k.EncodeTextString("a")
			v.EncodeArrayHeader(2)
			v.EncodeBool(true)
			v.EncodeInt(-300)
		}),
	}
}

func c19CborArts(tier string, seed int64) []c19Art {
	type spec struct {
		name string
		do   func(e *cbor.Encoder) error
	}
	text30 := "thirty bytes of text: é ü ✓ ok" // multi-byte UTF-8, 2-byte head
	specs := []spec{
		{"encodeuint/0", func(e *cbor.Encoder) error { return e.EncodeUint(0) }},
		{"encodeuint/500", func(e *cbor.Encoder) error { return e.EncodeUint(500) }},
		{"encodeuint/2^32", func(e *cbor.Encoder) error { return e.EncodeUint(1 << 32) }},
		{"encodeint/-1", func(e *cbor.Encoder) error { return e.EncodeInt(-1) }},
		{"encodeint/-70000", func(e *cbor.Encoder) error { return e.EncodeInt(-70000) }},
		{"encodeint/25", func(e *cbor.Encoder) error { return e.EncodeInt(25) }},
		{"encodebytestring/empty", func(e *cbor.Encoder) error { return e.EncodeByteString(nil) }},
		{"encodebytestring/5", func(e *cbor.Encoder) error { return e.EncodeByteString(pattern(5, seed)) }},
		{"encodebytestring/40", func(e *cbor.Encoder) error { return e.EncodeByteString(pattern(40, seed)) }},
		{"encodetextstring/empty", func(e *cbor.Encoder) error { return e.EncodeTextString("") }},
		{"encodetextstring/30", func(e *cbor.Encoder) error { return e.EncodeTextString(text30) }},
		{"encodearrayheader/3", func(e *cbor.Encoder) error { return e.EncodeArrayHeader(3) }},
		{"encodearrayheader/70000", func(e *cbor.Encoder) error { return e.EncodeArrayHeader(70000) }},
		{"encodebool/true", func(e *cbor.Encoder) error { return e.EncodeBool(true) }},
		{"encodebool/false", func(e *cbor.Encoder) error { return e.EncodeBool(false) }},
		{"encodemap/0", func(e *cbor.Encoder) error { return e.EncodeMap(nil) }},
		{"encodemap/1", func(e *cbor.Encoder) error { return e.EncodeMap(c19Map3()[:1]) }},
		{"encodemap/3", func(e *cbor.Encoder) error { return e.EncodeMap(c19Map3()) }},
		// the usual calling pattern: several calls on one encoder, first error returned
		{"sequence/array-text-map-bytes", func(e *cbor.Encoder) error {
			if err := e.EncodeArrayHeader(3); err != nil {
				return err
			}
			if err := e.EncodeTextString("hdr"); err != nil {
				return err
			}
			if err := e.EncodeMap(c19Map3()); err != nil {
				return err
			}
			return e.EncodeByteString([]byte("tail"))
		}},
	}
	if tier == "thorough" {
		specs = append(specs,
			spec{"encodebytestring/300", func(e *cbor.Encoder) error { return e.EncodeByteString(pattern(300, seed)) }},
			spec{"encodetextstring/2000", func(e *cbor.Encoder) error { return e.EncodeTextString(strings.Repeat("twenty bytes: é ✓ ok", 100)) }},
			spec{"encodeuint/2^64-1", func(e *cbor.Encoder) error { return e.EncodeUint(1<<64 - 1) }},
			spec{"encodeint/min", func(e *cbor.Encoder) error { return e.EncodeInt(-1 << 63) }},
			spec{"encodemap/3-nested", func(e *cbor.Encoder) error {
				m := c19Map3()
				m = append(m, cbor.GenerateMapEntry(func(k, v *cbor.Encoder) { k.EncodeTextString("nested"); v.EncodeMap(c19Map3()) }))
				return e.EncodeMap(m)
			}},
		)
	}
	var arts []c19Art
	for _, sp := range specs {
		sp := sp
		arts = append(arts, c19Art{ser: "cbor", name: sp.name, build: func() c19Run {
			return func(w io.Writer) (int64, error) { return -1, sp.do(cbor.NewEncoder(w)) }
		}})
	}
	return arts
}

// ---- CountingWriter driven directly ------------------------------------------------

type c19Src struct {
	name     string
	writerTo bool
	mk       func(data []byte) io.Reader
}

var c19Srcs = []c19Src{
	{"bytesreader", true, func(d []byte) io.Reader { return bytes.NewReader(d) }},
	{"bytesbuffer", true, func(d []byte) io.Reader { return bytes.NewBuffer(append([]byte{}, d...)) }},
	{"chunk-full", false, func(d []byte) io.Reader { return mc.NewChunkReader(d, mc.ReadFull) }},
	{"chunk-onebyte", false, func(d []byte) io.Reader { return mc.NewChunkReader(d, mc.ReadOneByte) }},
	{"chunk-eofwithdata", false, func(d []byte) io.Reader { return mc.NewChunkReader(d, mc.ReadEOFWithData) }},
	{"chunk-onebyte-eofwithdata", false, func(d []byte) io.Reader { return mc.NewChunkReader(d, mc.ReadOneByteEOFWithData) }},
}

// c19CountingWriter: one execution of the direct CountingWriter driver.
//
// Operations: Write (whole / in 3 pieces incl. an empty one), ReadFrom called
// directly, io.Copy(cw, src).  Sources: two that implement io.WriterTo
// (bytes.Reader, bytes.Buffer) and four ChunkReader styles that do not.
// The path the data takes is a consequence of Go's io.Copy rules and of
// CountingWriter being an io.ReaderFrom (asserted at compile time in the
// repository); it is part of the key so that one prefix names one code path:
//
//	write-<dst>     cw.Write (directly, or through src.WriteTo when io.Copy meets a WriterTo source)
//	readfrom-<dst>  cw.ReadFrom (directly, or through io.Copy from a source without WriteTo);
//	                dst=rf delegates to the destination's ReadFrom, dst=plain runs the fallback loop
func c19CountingWriter(c *mc.Ctx) {
	type op struct {
		name     string
		kind     int // 0 write, 1 ReadFrom direct, 2 io.Copy
		src      *c19Src
		readFrom bool // data reaches cw through cw.ReadFrom
	}
	ops := []op{{name: "write-once", kind: 0}, {name: "write-3pieces", kind: 0}}
	for i := range c19Srcs {
		s := &c19Srcs[i]
		ops = append(ops, op{name: "readfrom-" + s.name, kind: 1, src: s, readFrom: true})
		ops = append(ops, op{name: "iocopy-" + s.name, kind: 2, src: s, readFrom: !s.writerTo})
	}
	o := ops[c.Free(len(ops), "op")]
	data := pattern(c.Pick(40, 100), c.Seed+11)
	k := c.Free(len(data)+1, "k")
	short := c.Free(2, "fault:refuse/short") == 1
	transient := c.Free(2, "sticky/transient") == 1
	rf := c.Free(2, "dest:plain/readerfrom") == 1

	path := "write-"
	if o.readFrom {
		path = "readfrom-"
	}
	id := "countingwriter/" + path + c19Dst(rf) + "/" + o.name
	key := fmt.Sprintf("C19/%s:k=%d:mode=%s", id, k, c19Mode(short, transient))
	input := fmt.Sprintf("%s over %d bytes, destination accepts %d bytes then fails [%s,dst=%s]", id, len(data), k, c19Mode(short, transient), c19Dst(rf))

	fw := mc.NewFaultWriter(k, short, transient)
	fw.RFChunk = 16 // the delegated ReadFrom sees several chunks
	cw := bundle.NewCountingWriter(fw.Writer(rf))
	var n int64
	var err error
	pan := ""
	func() {
		defer func() {
			if r := recover(); r != nil {
				pan = fmt.Sprint(r)
			}
		}()
		switch {
		case o.name == "write-once":
			var m int
			m, err = cw.Write(data)
			n = int64(m)
		case o.name == "write-3pieces":
			for _, p := range [][]byte{data[:13], data[13:13], data[13:]} {
				var m int
				m, err = cw.Write(p)
				n += int64(m)
				if err != nil {
					break
				}
			}
		case o.kind == 1:
			n, err = cw.ReadFrom(o.src.mk(data))
		case o.kind == 2:
			n, err = io.Copy(cw, o.src.mk(data))
		}
	}()
	acc := fw.Accepted()
	first := fw.AcceptedAtFirstFailure()

	c.Eval()
	c.State([]byte(key), []byte(c19Dst(rf)))
	c.Transitions(int64(fw.Calls()))
	if k < len(data) {
		c.Nontrivial([]byte(id), c19U32(k))
	}
	obs := fmt.Sprintf("n=%d err=%v Written=%d accepted=%d (at first failure %d) dest-calls=%d", n, err, cw.Written, len(acc), len(first), fw.Calls())
	c.Sample(key + " -> " + obs)

	var bad []string
	if pan != "" {
		bad = append(bad, "panic: "+pan)
	}
	if cw.Written != int64(len(acc)) {
		bad = append(bad, fmt.Sprintf("Written=%d but the destination accepted %d bytes", cw.Written, len(acc)))
	}
	if k < len(data) {
		if pan == "" && err == nil {
			bad = append(bad, "success reported although a write failed")
		}
		chk := acc
		if transient {
			chk = first
		}
		if !bytes.HasPrefix(data, chk) {
			bad = append(bad, "accepted bytes are not a prefix of the data")
		}
		if o.kind == 0 && n != int64(len(acc)) {
			bad = append(bad, fmt.Sprintf("Write returned %d, destination accepted %d", n, len(acc)))
		}
	} else {
		if err != nil {
			bad = append(bad, fmt.Sprintf("error %v without any fault (at EOF the result must be (bytes transferred, nil))", err))
		}
		if n != int64(len(data)) {
			bad = append(bad, fmt.Sprintf("returned n=%d, %d bytes were to be transferred", n, len(data)))
		}
		if !bytes.Equal(acc, data) {
			bad = append(bad, fmt.Sprintf("destination received %d of %d bytes", len(acc), len(data)))
		}
	}
	cls := "control k=len"
	if k < len(data) {
		cls = "fault " + c19Mode(short, transient)
	}
	if len(bad) > 0 {
		c.Outcome("VIOLATION " + path + c19Dst(rf) + " " + cls)
		c.Fail(key, fmt.Sprint(bad), input, "Written == bytes accepted; error iff a write failed; (len, nil) and identical data with no fault", obs+" accepted="+hx(acc)+" data="+hx(data))
		return
	}
	if k < len(data) {
		c.Outcome(path + c19Dst(rf) + " " + cls + ": error returned, Written == accepted, prefix ok")
	} else {
		c.Outcome(path + c19Dst(rf) + " " + cls + ": (len, nil), Written == len, data identical")
	}
}

func init() {
	fam := func(name string, arts func(c *mc.Ctx) []c19Art) *mc.Harness {
		return &mc.Harness{
			Name: name,
			Mode: "fault enumeration: every failure position x {refuse, short} x {sticky, transient} x {ReaderFrom, plain}",
			Run:  func(c *mc.Ctx) { c19Explore(c, arts(c)) },
		}
	}
	hs := []*mc.Harness{
		fam("C19/bundle", func(c *mc.Ctx) []c19Art { return c19BundleArts(c.Tier, c.Seed) }),
		fam("C19/sxg", func(c *mc.Ctx) []c19Art { return c19SXGArts(c.Tier, c.Seed) }),
		fam("C19/certchain", func(c *mc.Ctx) []c19Art { return c19CertArts(c.Tier) }),
		fam("C19/mice", func(c *mc.Ctx) []c19Art { return c19MiceArts(c.Tier, c.Seed) }),
		fam("C19/cbor", func(c *mc.Ctx) []c19Art { return c19CborArts(c.Tier, c.Seed) }),
		{
			Name: "C19/countingwriter",
			Mode: "fault enumeration over direct CountingWriter operations (Write, ReadFrom, io.Copy) x sources x every failure position x 8 destination variants",
			Run:  c19CountingWriter,
			// 4.6k tiny executions; a single explorer goroutine makes the subset of
			// violations the engine keeps (first 200 distinct keys) reproducible.
			Serial: true,
		},
	}
	register(&mc.Property{
		ID:    "C19",
		Level: "fault_enumeration",
		Rule:  "for each (serializer, artifact) the fault-free output ref is computed on a plain buffer, then every failure position k in [0, len(ref)] is executed (k = len(ref) is the no-fault control) x {offending call refused, short write + error} x {sticky, transient} x destination {with io.ReaderFrom, without}; all dimensions are swept completely (no deviation bound). Serializers: Bundle.WriteTo (b1 primary+manifest, b2 primary section, with/without signatures, 1-3 exchanges; thorough adds variants, 0/5 exchanges, kB bodies), Exchange.Write / DumpExchangeHeaders / DumpSignedMessage for 1b1/1b2/1b3 (MockSigningAlgorithm), CertChain.Write (1-2 certs, OCSP, SCT; thorough 3 certs, P-384), mice Encode (both drafts, 0/1/3 records), every cbor.Encoder method incl. EncodeMap with 3 entries, and CountingWriter driven directly (Write, ReadFrom, io.Copy over WriterTo and non-WriterTo sources). A case is non-trivial when k < len(ref), i.e. a write really fails; distinct by (serializer, artifact, k).",
		Assumptions: []string{
			"destinations obey the io.Writer contract: n < len(p) only together with a non-nil error (writers returning short counts with nil error are not modelled)",
			"at most one fault position per execution (sticky: all later calls fail; transient: only the offending call fails)",
			"the reference is the implementation's own fault-free output; its correctness is the subject of C04/C08/C11/C14/C17, not of C19",
			"artifacts are representatives: every Write call site of each serializer is reached by at least one artifact, larger artifacts repeat the same call sites (small-scope hypothesis)",
		},
		Harnesses: hs,
		Guard: func(s map[string]*mc.Stats) error {
			// generator-side only: every family must have produced fault positions
			// (k < len(ref)) and at least the 8 control variants per artifact.
			for _, h := range hs {
				st := s[h.Name]
				if st == nil {
					return fmt.Errorf("%s did not run", h.Name)
				}
				if st.Nontrivial == 0 {
					return fmt.Errorf("%s produced no fault position", h.Name)
				}
				// (the CountingWriter driver names the destination kind in the
				// artifact, so there a fault position has 4 variants, not 8)
				per := int64(8)
				if h.Name == "C19/countingwriter" {
					per = 4
				}
				if st.Executions < per*st.Nontrivial {
					return fmt.Errorf("%s: %d executions for %d fault positions, expected at least %d variants each", h.Name, st.Executions, st.Nontrivial, per)
				}
			}
			return nil
		},
	})
}
