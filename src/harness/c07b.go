package main

// C07/tool-strategies: the sign-bundle tool's own signing routine under signing strategies the command line cannot
// select.  ./vcheck plants a small driver next to the tool's sources (build overlay; inert unless VERIF_SIGN_DRIVER is
// set) that calls the tool's SignWithIntegrityBlock with a keyring strategy: always the first key / the next key after
// every Sign / the next key after every GetPublicKey.  With the stock single-key strategy "the key recorded in the
// block" and "the key the ID is reported for" cannot differ whatever the tool does; with a keyring that moves on they
// differ as soon as the tool asks the strategy twice.  Space: 3 modes x keyrings of 1..3 keys (every rotation of the
// three Ed25519 fixtures) x 3 file shapes.  Oracle: the tool either fails (exit != 0) or writes block || input where
// every signature verifies under the key in its own attributes (refib.Verify) and prints exactly one Web Bundle ID, the
// one of the key recorded in the newest signature.

import (
	"bytes"
	"encoding/hex"
	"fmt"
	"os"
	"path/filepath"
	"strings"

	"github.com/WICG/webpackage/go/signedexchange/zverif/fixtures"
	"github.com/WICG/webpackage/go/signedexchange/zverif/mc"
	"github.com/WICG/webpackage/go/signedexchange/zverif/refib"
)

func c07ToolStrategies(c *mc.Ctx) {
	if os.Getenv("VERIF_TOOLS") == "" {
		c.Cap("VERIF_TOOLS not set (run through ./vcheck C07 <tier>)")
		return
	}
	if os.Getenv("VERIF_SIGN_DRIVER_OK") != "1" {
		c.Cap("the strategy driver does not build against this tree's sign-bundle (SignWithIntegrityBlock(in, out *os.File, strategy) not found): harness skipped")
		return
	}
	ids := []*fixtures.EdIdentity{fixtures.Ed1, fixtures.Ed2, fixtures.Ed3}
	mode := c.Free(3, "strategy: fixed / next key after Sign / next key after GetPublicKey")
	nkeys := 1 + c.Free(3, "keys in the ring")
	first := c.Free(3, "first key")
	size := []int{8, 100, 70000}[c.Free(3, "size")]
	var ring []*fixtures.EdIdentity
	var seeds []string
	for i := 0; i < nkeys; i++ {
		id := ids[(first+i)%3]
		ring = append(ring, id)
		seeds = append(seeds, hex.EncodeToString(id.Priv.Seed()))
	}
	file := c07File(size, uint64(size), c.Seed)
	desc := fmt.Sprintf("strategy-mode=%d,ring=%d keys from %s,size=%d", mode, nkeys, ring[0].Name, size)
	c.State([]byte(desc))
	dir, err := os.MkdirTemp(os.TempDir(), "c07s-")
	if err != nil {
		c.Cap("cannot create temp dir: " + err.Error())
		return
	}
	defer os.RemoveAll(dir)
	if err := os.WriteFile(filepath.Join(dir, "in.wbn"), file, 0600); err != nil {
		c.Cap("cannot write temp file: " + err.Error())
		return
	}
	out := filepath.Join(dir, "out.wbn")
	p := c07RunTool(dir, []string{"VERIF_SIGN_DRIVER=" + fmt.Sprintf("%d:%s", mode, strings.Join(seeds, ",")), "VERIF_SIGN_IN=" + filepath.Join(dir, "in.wbn"), "VERIF_SIGN_OUT=" + out}, "integrity-block")
	c.Transitions(1)
	c.Eval()
	if p.startErr != nil {
		c.Cap("cannot start sign-bundle: " + p.startErr.Error())
		return
	}
	if p.timedOut {
		c.Fail("C07/tool-strategies:hang:"+desc, "sign-bundle did not finish within the deadline", desc, "exit", "killed after 120 s")
		return
	}
	if p.exit == 97 {
		c.Cap("strategy driver could not set up its files: " + clipC07(p.stderr))
		return
	}
	obs := fmt.Sprintf("exit=%d stdout=%q stderr=%q", p.exit, clipC07(p.stdout), clipC07(p.stderr))
	if p.exit != 0 {
		// the signer may refuse (e.g. the signature it obtained does not verify under the key it fetched before);
		// it must then not leave a signed file behind
		got, _ := os.ReadFile(out)
		if vf, verr := refib.Verify(got); verr == nil && len(vf.Block.Stack) > 0 {
			c.Outcome("VIOLATION error but a signed file was written")
			c.Fail("C07/tool-strategies:error-but-signed:"+desc, "the signing routine returned an error and still wrote a signed file", desc, "no signed output", obs)
			return
		}
		c.Outcome(fmt.Sprintf("mode %d: refused (exit != 0), nothing signed", mode))
		if mode == 0 {
			c.Fail("C07/tool-strategies:refused:"+desc, "the signing routine refused an unsigned file under a fixed key", desc, "exit 0", obs)
		}
		return
	}
	got, rerr := os.ReadFile(out)
	if rerr != nil || !bytes.HasSuffix(got, file) || len(got) <= len(file) {
		c.Outcome("VIOLATION layout")
		c.Fail("C07/tool-strategies:layout:"+desc, "output is not a block followed by the untouched input bytes", desc, "block ‖ input", fmt.Sprintf("%v %s", rerr, hx(got)))
		return
	}
	vf, verr := refib.Verify(got)
	if verr != nil {
		c.Outcome("VIOLATION does not verify")
		c.Fail("C07/tool-strategies:verify:"+desc, "signed output does not pass the reference verifier", desc, "every signature verifies under the key in its own attributes", verr.Error()+" "+obs)
		return
	}
	if !bytes.Equal(vf.Bundle, file) || len(vf.Block.Stack) != 1 {
		c.Outcome("VIOLATION layout")
		c.Fail("C07/tool-strategies:layout:"+desc, "bytes after the block differ from the input, or the block does not hold exactly one signature", desc, hx(file), hx(vf.Bundle))
		return
	}
	var recorded []byte
	for _, a := range vf.Block.Stack[0].Attrs {
		if a.Name == refib.KeyAttr {
			recorded = a.Value
		}
	}
	wantID := refib.WebBundleID(recorded)
	if got := c07IDLines(p.stdout); len(got) != 1 || got[0] != wantID {
		c.Outcome("VIOLATION reported ID is not the recorded key's")
		c.Fail("C07/tool-strategies:id:"+desc, "the reported Web Bundle ID is not the ID of the public key recorded in the newest signature", desc, wantID+" (key "+hx(recorded)+")", obs)
		return
	}
	c.Nontrivial([]byte(desc))
	c.Outcome(fmt.Sprintf("mode %d: signed, verifies under the recorded key, ID is that key's", mode))
}

func init() {
	p := props["C07"]
	p.Harnesses = append(p.Harnesses, &mc.Harness{Name: "C07/tool-strategies", Mode: "tool processes: sign-bundle's SignWithIntegrityBlock driven with keyring strategies through a planted driver", Run: c07ToolStrategies})
	p.Rule += " C07/tool-strategies: the tool's signing routine x 3 keyring strategies (fixed, next key after Sign, next key after GetPublicKey) x rings of 1..3 keys x 3 first keys x 3 file sizes."
}
