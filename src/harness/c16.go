package main

// C16 - structured headers (draft-ietf-httpbis-header-structure-09 subset).
//
// Two families of harnesses, all against the independent reference refsh
// (tokenizer + split-based grammar; the implementation is a char-cursor
// recursive descent):
//
// (a) VALUES  C16/values-lol, C16/values-plist: generated Go values of every item
//     type and nesting, valid and invalid, are serialized by the real writer.
//     Oracle: valid (decided by the reference serializer / the generator) =>
//     String() succeeds, its bytes equal the reference serializer's bytes for
//     every insertion permutation of every parameter map and on repeated calls,
//     Parse(String(v)) == v, and the reference parser reads the same value back;
//     invalid => String() returns an error.
//
// (b) STRINGS C16/strings-lol, C16/strings-plist, C16/strings-lf: EVERY string up
//     to a length bound over a 16-character alphabet (one representative per
//     character class the grammar distinguishes) is fed to the real parser and to
//     refsh (strings without LF in the first two harnesses, strings with LF in the
//     third: a partition of one space, see c16LF).
//     Oracle: accept <=> refsh accepts; same value; on every accepted input
//     String() succeeds, equals the reference serialization of the parsed value,
//     and parses back to the same value (parse.serialize.parse = parse).
//     The parameterised-list family is run in two contexts: the bare string, and
//     the string placed where a parameter value goes ("a;a=" + s), so that the
//     item productions are reached with the full length budget in that parser too.
//
// Engine use for (b): one engine execution covers a whole BLOCK of strings (the
// first 3 (quick) / 4 (thorough) characters are chosen with c.Free, every suffix
// is looped over inside Run), inputs are distinct by construction
// (c.StatesByConstruction).  Violation keys are per input:
//
//	C16/string:<class>:<lol|pl>:<quoted input>
//
// with class = accepts-<reference's reason code> | refuses-valid | value |
// roundtrip | panic, so that a known finding can be matched by key_prefix on its
// cause (e.g. "C16/string:accepts-b64char:") without hiding any other class.

import (
	"bytes"
	"fmt"
	"math"
	"strconv"
	"strings"

	sh "github.com/WICG/webpackage/go/signedexchange/structuredheader"
	"github.com/WICG/webpackage/go/signedexchange/zverif/mc"
	"github.com/WICG/webpackage/go/signedexchange/zverif/refsh"
)

// ------------------------------------------------------------ conversions

func c16RefItem(i sh.Item) (refsh.Item, bool) {
	switch v := i.(type) {
	case int64:
		return refsh.Item{Kind: refsh.Int, Int: v}, true
	case string:
		return refsh.Item{Kind: refsh.String, Text: v}, true
	case sh.Token:
		return refsh.Item{Kind: refsh.Token, Text: string(v)}, true
	case []byte:
		return refsh.Item{Kind: refsh.Bytes, Bytes: v}, true
	}
	return refsh.Item{}, false
}

// c16RefLol converts a parser result; ok=false if it holds anything that is not
// one of the four documented Go item types.
func c16RefLol(ll sh.ListOfLists) (refsh.ListOfLists, bool) {
	out := make(refsh.ListOfLists, len(ll))
	for i, inner := range ll {
		out[i] = make([]refsh.Item, len(inner))
		for j, it := range inner {
			r, ok := c16RefItem(it)
			if !ok {
				return nil, false
			}
			out[i][j] = r
		}
	}
	return out, true
}

func c16RefPl(pl sh.ParameterisedList) (refsh.ParamList, bool) {
	out := make(refsh.ParamList, len(pl))
	for i, pi := range pl {
		out[i].ID = string(pi.Label)
		for k, v := range pi.Params {
			p := refsh.Param{Key: string(k)}
			if v != nil {
				r, ok := c16RefItem(v)
				if !ok {
					return nil, false
				}
				p.Value = &r
			}
			out[i].Params = append(out[i].Params, p)
		}
	}
	refsh.SortParams(out) // keys of a Go map are unique, so the order is total
	return out, true
}

func c16ImplItem(r refsh.Item) sh.Item {
	switch r.Kind {
	case refsh.Int:
		return r.Int
	case refsh.String:
		return r.Text
	case refsh.Token:
		return sh.Token(r.Text)
	case refsh.Bytes:
		return r.Bytes
	}
	panic("c16: bad generated item")
}

// calls into the code under test, panics captured
func c16ParseLol(in string) (v sh.ListOfLists, err error, pan interface{}) {
	defer func() { pan = recover() }()
	v, err = sh.ParseListOfLists(in)
	return
}

func c16ParsePl(in string) (v sh.ParameterisedList, err error, pan interface{}) {
	defer func() { pan = recover() }()
	v, err = sh.ParseParameterisedList(in)
	return
}

func c16StringLol(v sh.ListOfLists) (s string, err error, pan interface{}) {
	defer func() { pan = recover() }()
	s, err = v.String()
	return
}

func c16StringPl(v sh.ParameterisedList) (s string, err error, pan interface{}) {
	defer func() { pan = recover() }()
	s, err = v.String()
	return
}

func c16StringPi(v *sh.ParameterisedIdentifier) (s string, err error, pan interface{}) {
	defer func() { pan = recover() }()
	s, err = v.String()
	return
}

// ------------------------------------------------------------ (b) STRINGS

// One representative per character class the grammar distinguishes: lcalpha,
// upper alpha, digit, sign (also key/token punctuation), key-and-token punctuation,
// token-only punctuation, token-and-base64 punctuation, quote, escape, byte-sequence
// delimiter (also a token character), the three separators, OWS x2, and LF: a
// control character that lenient base64 decoders skip.
var c16Alphabet = []byte{'a', 'A', '1', '-', '_', '.', '/', '"', '\\', '*', ';', ',', '=', ' ', '\t', '\n'}

// characters of a block chosen by the engine (blocks of 273 / 4369 strings: small
// enough that re-executing a block to confirm a violation costs milliseconds)
func c16Prefix(c *mc.Ctx) int { return c.Pick(3, 4) }

func c16MaxLen(c *mc.Ctx) int { return c.Pick(5, 7) }

// The space is partitioned into strings without LF (harnesses C16/strings-lol and
// C16/strings-plist, enumerated directly over the first 15 characters) and
// strings with at least one LF (harness C16/strings-lf, enumerated over all 16
// characters, LF-free strings skipped).  Together they are every string over the
// 16 characters; the split only keeps the inputs of the one known defect (LF
// inside a byte sequence, thousands of inputs) in a harness of their own, so that
// they cannot crowd any other finding out of the engine's per-harness list of
// reported violations.
const c16LF = '\n'

// number of strings of length <= n over an alphabet of k characters
func c16CountUpTo(k, n int) int64 {
	var t, p int64 = 0, 1
	for l := 0; l <= n; l++ {
		t += p
		p *= int64(k)
	}
	return t
}

type c16Block struct {
	strings, accepted, nontrivial, implOps int64
	classes                                map[string]string
}

// rejectClass returns the outcome class of an input refused by both sides
// (memoised per block: hundreds of millions of inputs are refused).
func (b *c16Block) rejectClass(code string) string {
	if s, ok := b.classes[code]; ok {
		return s
	}
	if b.classes == nil {
		b.classes = map[string]string{}
	}
	s := "both reject: " + code
	b.classes[code] = s
	return s
}

var c16KindNames = func() [16]string {
	var t [16]string
	for m := 0; m < 16; m++ {
		var p []string
		for k := refsh.Int; k <= refsh.Bytes; k++ {
			if m&(1<<uint(k-1)) != 0 {
				p = append(p, k.String())
			}
		}
		t[m] = strings.Join(p, "+")
	}
	return t
}()

func c16Cnt(n int) string {
	if n >= 2 {
		return "2+"
	}
	return strconv.Itoa(n)
}

// production classes of an accepted input, from the reference's value
func c16LolShape(v refsh.ListOfLists) string {
	m, maxInner := 0, 0
	for _, inner := range v {
		if len(inner) > maxInner {
			maxInner = len(inner)
		}
		for _, it := range inner {
			m |= 1 << uint(it.Kind-1)
		}
	}
	return "lists=" + c16Cnt(len(v)) + " members=" + c16Cnt(maxInner) + " items=" + c16KindNames[m]
}

func c16PlShape(v refsh.ParamList) string {
	m, maxP, bare := 0, 0, false
	for _, mem := range v {
		if len(mem.Params) > maxP {
			maxP = len(mem.Params)
		}
		for _, p := range mem.Params {
			if p.Value == nil {
				bare = true
			} else {
				m |= 1 << uint(p.Value.Kind-1)
			}
		}
	}
	s := "ids=" + c16Cnt(len(v)) + " params=" + c16Cnt(maxP)
	if bare {
		s += " bare"
	}
	if m != 0 {
		s += " values=" + c16KindNames[m]
	}
	return s
}

func c16Err(err error, pan interface{}) string {
	if pan != nil {
		return fmt.Sprintf("PANIC %v", pan)
	}
	if err != nil {
		return "error: " + err.Error()
	}
	return "accepted"
}

// c16CheckLol is the oracle for one input string of the list-of-lists parser.
func c16CheckLol(c *mc.Ctx, in string, b *c16Block) {
	b.strings++
	b.implOps++
	c.Eval()
	iv, ierr, pan := c16ParseLol(in)
	rv, rerr := refsh.ParseListOfLists(in)
	if pan != nil {
		q := strconv.Quote(in)
		c.Outcome("MISMATCH impl panics")
		c.Fail("C16/string:panic:lol:"+q, "ParseListOfLists panicked", q, "a value or an error", c16Err(ierr, pan))
		return
	}
	if rerr != nil {
		if rerr.Progress > 0 {
			b.nontrivial++
		}
		if ierr == nil {
			q := strconv.Quote(in)
			c.Outcome("MISMATCH ref rejects " + rerr.Code + ", impl accepts")
			c.Fail("C16/string:accepts-"+rerr.Code+":lol:"+q, "ParseListOfLists accepts an input outside the draft-09 grammar", q, "error ("+rerr.Error()+")", fmt.Sprintf("accepted as %v", iv))
			return
		}
		c.Outcome(b.rejectClass(rerr.Code))
		return
	}
	q := strconv.Quote(in)
	b.accepted++
	b.nontrivial++
	shape := c16LolShape(rv)
	if ierr != nil {
		c.Outcome("MISMATCH ref accepts " + shape + ", impl rejects")
		c.Fail("C16/string:refuses-valid:lol:"+q, "ParseListOfLists refuses an input of the draft-09 grammar subset", q, rv.String(), c16Err(ierr, nil))
		return
	}
	got, ok := c16RefLol(iv)
	if !ok || !refsh.EqualListOfLists(got, rv) {
		c.Outcome("MISMATCH ref accepts " + shape + ", value differs")
		c.Fail("C16/string:value:lol:"+q, "ParseListOfLists returns a different value than the reference parser", q, rv.String(), fmt.Sprintf("%#v", iv))
		return
	}
	// parse . serialize . parse = parse, and the serialization is the canonical one
	b.implOps += 2
	out, serr, pan := c16StringLol(iv)
	want, werr := refsh.SerializeListOfLists(rv)
	if werr != nil {
		c.Fail("C16/refcheck:lol:"+q, "reference model self-inconsistency (harness error): parsed value not serializable", q, "", werr.Error())
		return
	}
	if serr != nil || pan != nil || out != want {
		c.Outcome("MISMATCH ref accepts " + shape + ", reserialization differs")
		c.Fail("C16/string:roundtrip:lol:"+q, "String() of a parsed value fails or is not the canonical serialization", q, strconv.Quote(want), strconv.Quote(out)+" "+c16Err(serr, pan))
		return
	}
	iv2, ierr2, pan2 := c16ParseLol(out)
	got2, ok2 := c16RefLol(iv2)
	if ierr2 != nil || pan2 != nil || !ok2 || !refsh.EqualListOfLists(got2, rv) {
		c.Outcome("MISMATCH ref accepts " + shape + ", reparse differs")
		c.Fail("C16/string:roundtrip:lol:"+q, "parse(serialize(parse(s))) != parse(s)", q+" -> "+strconv.Quote(out), rv.String(), fmt.Sprintf("%#v %s", iv2, c16Err(ierr2, pan2)))
		return
	}
	c.Outcome("both accept: " + shape)
	c.Sample("lol " + q + " -> " + rv.String() + " -> " + strconv.Quote(out))
}

// c16CheckPl is the oracle for one input string of the parameterised-list parser.
func c16CheckPl(c *mc.Ctx, in string, b *c16Block) {
	b.strings++
	b.implOps++
	c.Eval()
	iv, ierr, pan := c16ParsePl(in)
	rv, rerr := refsh.ParseParameterisedList(in)
	if pan != nil {
		q := strconv.Quote(in)
		c.Outcome("MISMATCH impl panics")
		c.Fail("C16/string:panic:pl:"+q, "ParseParameterisedList panicked", q, "a value or an error", c16Err(ierr, pan))
		return
	}
	if rerr != nil {
		if rerr.Progress > 0 {
			b.nontrivial++
		}
		if ierr == nil {
			q := strconv.Quote(in)
			c.Outcome("MISMATCH ref rejects " + rerr.Code + ", impl accepts")
			c.Fail("C16/string:accepts-"+rerr.Code+":pl:"+q, "ParseParameterisedList accepts an input outside the draft-09 grammar", q, "error ("+rerr.Error()+")", fmt.Sprintf("accepted as %v", iv))
			return
		}
		c.Outcome(b.rejectClass(rerr.Code))
		return
	}
	q := strconv.Quote(in)
	b.accepted++
	b.nontrivial++
	shape := c16PlShape(rv)
	if ierr != nil {
		c.Outcome("MISMATCH ref accepts " + shape + ", impl rejects")
		c.Fail("C16/string:refuses-valid:pl:"+q, "ParseParameterisedList refuses an input of the draft-09 grammar subset", q, rv.String(), c16Err(ierr, nil))
		return
	}
	got, ok := c16RefPl(iv)
	if !ok || !refsh.EqualParamList(got, rv) {
		c.Outcome("MISMATCH ref accepts " + shape + ", value differs")
		c.Fail("C16/string:value:pl:"+q, "ParseParameterisedList returns a different value than the reference parser", q, rv.String(), fmt.Sprintf("%#v", iv))
		return
	}
	b.implOps += 2
	out, serr, pan := c16StringPl(iv)
	want, werr := refsh.SerializeParameterisedList(rv)
	if werr != nil {
		c.Fail("C16/refcheck:pl:"+q, "reference model self-inconsistency (harness error): parsed value not serializable", q, "", werr.Error())
		return
	}
	if serr != nil || pan != nil || out != want {
		c.Outcome("MISMATCH ref accepts " + shape + ", reserialization differs")
		c.Fail("C16/string:roundtrip:pl:"+q, "String() of a parsed value fails or is not the canonical serialization", q, strconv.Quote(want), strconv.Quote(out)+" "+c16Err(serr, pan))
		return
	}
	// Parameter maps with two or more keys: the writer's output must not depend on
	// how the map was filled or on where the runtime starts iterating.  Rebuild
	// the value with the keys inserted in descending order (the order least
	// likely to come out sorted by accident) and serialize it repeatedly; same
	// violation key, so the verdict for this input is reproducible.
	for _, m := range rv {
		if len(m.Params) < 2 {
			continue
		}
		alt := make(sh.ParameterisedList, len(iv))
		for i, pi := range iv {
			alt[i] = sh.ParameterisedIdentifier{Label: pi.Label, Params: make(sh.Parameters)}
			for k := len(rv[i].Params) - 1; k >= 0; k-- {
				key := sh.Key(rv[i].Params[k].Key)
				alt[i].Params[key] = pi.Params[key]
			}
		}
		for r := 0; r < c16Reps; r++ {
			b.implOps++
			if o, e, pn := c16StringPl(alt); e != nil || pn != nil || o != want {
				c.Outcome("MISMATCH ref accepts " + shape + ", reserialization differs")
				c.Fail("C16/string:roundtrip:pl:"+q, "String() of a parsed value fails or is not the canonical serialization", q+" (parameters re-inserted in descending key order)", strconv.Quote(want), strconv.Quote(o)+" "+c16Err(e, pn))
				return
			}
		}
		break
	}
	iv2, ierr2, pan2 := c16ParsePl(out)
	got2, ok2 := c16RefPl(iv2)
	if ierr2 != nil || pan2 != nil || !ok2 || !refsh.EqualParamList(got2, rv) {
		c.Outcome("MISMATCH ref accepts " + shape + ", reparse differs")
		c.Fail("C16/string:roundtrip:pl:"+q, "parse(serialize(parse(s))) != parse(s)", q+" -> "+strconv.Quote(out), rv.String(), fmt.Sprintf("%#v %s", iv2, c16Err(ierr2, pan2)))
		return
	}
	c.Outcome("both accept: " + shape)
	c.Sample("pl " + q + " -> " + rv.String() + " -> " + strconv.Quote(out))
}

// c16Sweep calls f on buf[:fixed] + every string of exactly n characters over
// alphabet (odometer, first character slowest).  With onlyLF, strings whose
// part after position from holds no LF are skipped.
func c16Sweep(alphabet, buf []byte, from, fixed, n int, onlyLF bool, f func(s string)) {
	var idx [16]int
	for i := 0; i < n; i++ {
		buf[fixed+i] = alphabet[0]
	}
	for {
		if !onlyLF || bytes.IndexByte(buf[from:fixed+n], c16LF) >= 0 {
			f(string(buf[:fixed+n]))
		}
		i := n - 1
		for ; i >= 0; i-- {
			idx[i]++
			if idx[i] < len(alphabet) {
				buf[fixed+i] = alphabet[idx[i]]
				break
			}
			idx[i] = 0
			buf[fixed+i] = alphabet[0]
		}
		if i < 0 {
			return
		}
	}
}

// c16Context is one way of presenting the enumerated string s to a parser:
// parser(prefix + s).
type c16Context struct {
	name   string
	prefix string
	check  func(c *mc.Ctx, in string, b *c16Block)
}

var (
	c16CtxLol   = c16Context{"lol", "", c16CheckLol}
	c16CtxPl    = c16Context{"pl", "", c16CheckPl}
	c16CtxPlVal = c16Context{"pl-value", "a;a=", c16CheckPl}
)

// c16StringsHarness enumerates every string of length <= maxLen (over the first
// 15 characters, or - onlyLF - every string over all 16 that contains LF):
// execution 0 of a context covers all strings shorter than the prefix; every
// other execution fixes a prefix of 3 (quick) / 4 (thorough) characters, chosen by
// the engine, and loops over all suffixes of length 0..maxLen-prefix.  Each string
// belongs to exactly one block.
func c16StringsHarness(name string, contexts []c16Context, onlyLF bool) *mc.Harness {
	alphabet := c16Alphabet[:len(c16Alphabet)-1]
	if onlyLF {
		alphabet = c16Alphabet
	}
	return &mc.Harness{
		Name: name,
		Run: func(c *mc.Ctx) {
			maxLen, prefix := c16MaxLen(c), c16Prefix(c)
			ctx := contexts[c.Free(len(contexts), "context")]
			var raw [32]byte
			buf := raw[:]
			from := copy(buf, ctx.prefix)
			var b c16Block
			f := func(s string) { ctx.check(c, s, &b) }
			if c.Free(2, "block") == 0 {
				for n := 0; n < prefix; n++ {
					c16Sweep(alphabet, buf, from, from, n, onlyLF, f)
				}
			} else {
				for i := 0; i < prefix; i++ {
					buf[from+i] = alphabet[c.Free(len(alphabet), "ch")]
				}
				for n := 0; n <= maxLen-prefix; n++ {
					c16Sweep(alphabet, buf, from, from+prefix, n, onlyLF, f)
				}
			}
			c.StatesByConstruction(b.strings)
			c.NontrivialByConstruction(b.nontrivial)
			c.Traces(b.strings)
			c.Transitions(b.implOps)
		},
	}
}

// ------------------------------------------------------------- (a) VALUES

// c16Gen is a generated item: either one of the four supported types (held as
// the reference's value, from which the implementation's value is built) or a
// Go value of a type the writer must refuse.
type c16Gen struct {
	ref     refsh.Item
	foreign interface{}
	isF     bool
	isNil   bool // foreign nil: "no value" where a parameter value goes
}

func (g c16Gen) impl() sh.Item {
	if g.isF {
		return g.foreign
	}
	return c16ImplItem(g.ref)
}

func (g c16Gen) String() string {
	if g.isF {
		return fmt.Sprintf("%T(%v)", g.foreign, g.foreign)
	}
	if g.ref.Kind == refsh.Bytes && g.ref.Bytes == nil {
		return "bin(nil)"
	}
	return g.ref.String()
}

func gInt(v int64) c16Gen     { return c16Gen{ref: refsh.Item{Kind: refsh.Int, Int: v}} }
func gStr(s string) c16Gen    { return c16Gen{ref: refsh.Item{Kind: refsh.String, Text: s}} }
func gTok(s string) c16Gen    { return c16Gen{ref: refsh.Item{Kind: refsh.Token, Text: s}} }
func gBin(b []byte) c16Gen    { return c16Gen{ref: refsh.Item{Kind: refsh.Bytes, Bytes: b}} }
func gF(v interface{}) c16Gen { return c16Gen{foreign: v, isF: true, isNil: v == nil} }

// all strings of length <= n over the given symbols
func c16Words(symbols []string, n int) []string {
	out := []string{""}
	last := []string{""}
	for l := 1; l <= n; l++ {
		var next []string
		for _, w := range last {
			for _, s := range symbols {
				next = append(next, w+s)
			}
		}
		out = append(out, next...)
		last = next
	}
	return out
}

var (
	c16Ints = []int64{math.MinInt64, math.MinInt64 + 1, -1, 0, 1, math.MaxInt64 - 1, math.MaxInt64}
	// printable boundaries 0x20 / 0x7e, both escaped characters, the two nearest
	// non-printable neighbours 0x1f / 0x7f and a non-ASCII character
	c16StrPool = append(c16Words([]string{"a", " ", "\"", "\\", "~", "\x1f", "\x7f", "é"}, 3), "a\u0161", "\u0120", "a\u017e")
	// every token punctuation, both alpha cases, a digit (not allowed first)
	c16TokPool = append(c16Words([]string{"a", "A", "1", "_", "-", ".", ":", "%", "*", "/"}, 3),
		"a b", "a,", "a;", "a=", "a\"", "aé", "a\x00", "a+", "é", "a\n", " a", "a ",
		// runes above U+00FF whose LOW BYTE is an allowed token character (a validity check that
		// truncates a rune to a byte would let them through): U+0161 -> 'a', U+0130 -> '0',
		// U+015F -> '_', U+212A -> '*', U+012F -> '/', U+0141 -> 'A' (also in first position)
		"a\u0161", "a\u0130", "a\u015f", "a\u212a", "a\u012f", "a\u0161b", "\u0141", "\u0161a")
	// key characters plus two token-only characters that a key must not contain
	c16KeyPool = append(c16Words([]string{"a", "z", "1", "_", "-", "A", "*"}, 3),
		"a.", "a b", "aé", "a=", "a;", "a,", "a\x00", " a", "a ",
		"a\u0161", "a\u0130", "a\u015f", "a\u012d", "a\u0161b", "\u0161", "\u0161a")
	c16Foreign = []c16Gen{gF(nil), gF(int(5)), gF(int32(5)), gF(uint64(5)), gF(true), gF(false), gF(float64(1.5)), gF(float32(1)),
		gF(sh.Key("k")), gF([]sh.Item{int64(1)}), gF([1]byte{1}), gF('a')}
)

// byte sequences of every length 0..6 (all residues mod 3 twice): nil and empty,
// all-zero, all-ones (base64 "/" and non-zero pad positions), seeded pattern
func c16BytePool(seed int64) []c16Gen {
	out := []c16Gen{gBin(nil), gBin([]byte{})}
	for n := 1; n <= 6; n++ {
		z := make([]byte, n)
		f := make([]byte, n)
		for i := range f {
			f[i] = 0xff
		}
		m := make([]byte, n)
		for i := range m {
			m[i] = byte(0xfb - 4*i) // 0xfb 0xf7 ... : "+" and "/" appear
		}
		out = append(out, gBin(z), gBin(f), gBin(m), gBin(pattern(n, seed+int64(n))))
	}
	return out
}

// c16FullItem chooses one item from the full pools.
func c16FullItem(c *mc.Ctx) c16Gen {
	switch c.Free(5, "type") {
	case 0:
		return gInt(c16Ints[c.Free(len(c16Ints), "int")])
	case 1:
		return gStr(c16StrPool[c.Free(len(c16StrPool), "string")])
	case 2:
		return gTok(c16TokPool[c.Free(len(c16TokPool), "token")])
	case 3:
		p := c16BytePool(c.Seed)
		return p[c.Free(len(p), "bytes")]
	}
	return c16Foreign[c.Free(len(c16Foreign), "foreign")]
}

// reduced pool for nested shapes: a valid representative of every type (two where
// serialization has a special case) and one invalid value of every kind
var c16SmallItems = []c16Gen{
	gInt(-7), gInt(math.MinInt64), gStr("a\"\\ "), gStr(""), gTok("A*/"), gTok("a"), gBin(nil), gBin([]byte{0xfb, 0xff}), gBin([]byte{1, 2, 3, 4}),
	gStr("\x7f"), gTok("1a"), gTok(""), gF(int(5)), gF(nil), gF(true), gF(1.5),
}

// c16LolCase checks one generated list of lists.
func c16LolCase(c *mc.Ctx, g [][]c16Gen) {
	var iv sh.ListOfLists
	var rv refsh.ListOfLists
	foreign := false
	var d []string
	for _, inner := range g {
		var ii []sh.Item
		var ri []refsh.Item
		var dd []string
		for _, it := range inner {
			ii = append(ii, it.impl())
			ri = append(ri, it.ref)
			foreign = foreign || it.isF
			dd = append(dd, it.String())
		}
		iv = append(iv, ii)
		rv = append(rv, ri)
		d = append(d, "["+strings.Join(dd, "; ")+"]")
	}
	desc := "[" + strings.Join(d, ", ") + "]"
	c.Eval()
	c.State([]byte(desc))
	c.Transitions(1)
	out, err, pan := c16StringLol(iv)
	want, werr := refsh.SerializeListOfLists(rv)
	key := "C16/values:lol:" + desc
	if pan != nil {
		c.Fail(key, "ListOfLists.String panicked", desc, "string or error", c16Err(err, pan))
		return
	}
	if foreign || werr != nil {
		reason := "unsupported item type"
		if !foreign {
			reason = werr.Code
		}
		if err == nil {
			c.Outcome("MISMATCH invalid value serialized")
			c.Fail(key, "invalid value ("+reason+") was serialized instead of refused", desc, "error", strconv.Quote(out))
			return
		}
		c.Outcome("invalid refused: " + reason)
		c.Nontrivial([]byte(desc))
		return
	}
	if err != nil || out != want {
		c.Outcome("MISMATCH serialization differs")
		c.Fail(key, "ListOfLists.String differs from the reference serialization", desc, strconv.Quote(want), strconv.Quote(out)+" "+c16Err(err, nil))
		return
	}
	c.Transitions(1)
	back, perr, pan := c16ParseLol(out)
	got, ok := c16RefLol(back)
	if perr != nil || pan != nil || !ok || !refsh.EqualListOfLists(got, rv) {
		c.Outcome("MISMATCH parse(String(v)) != v")
		c.Fail(key, "Parse(String(v)) != v", desc+" -> "+strconv.Quote(out), rv.String(), fmt.Sprintf("%#v %s", back, c16Err(perr, pan)))
		return
	}
	if rb, rerr := refsh.ParseListOfLists(out); rerr != nil || !refsh.EqualListOfLists(rb, rv) {
		c.Fail("C16/refcheck:lol:"+desc, "reference model self-inconsistency (harness error): reference parser does not read back the reference serialization", strconv.Quote(out), rv.String(), fmt.Sprintf("%v %v", rb, rerr))
		return
	}
	c.Outcome("valid round-trip: " + c16LolShape(rv))
	c.Nontrivial([]byte(desc))
	c.Sample(desc + " -> " + strconv.Quote(out))
}

type c16GenParam struct {
	key string
	val c16Gen // isNil: parameter without value
}

type c16GenMember struct {
	label  string
	params []c16GenParam // distinct keys
	orders [][]int       // insertion orders to try; nil = every permutation
}

func (m c16GenMember) insertionOrders() [][]int {
	if m.orders != nil {
		return m.orders
	}
	return perms(len(m.params))
}

// c16Rotations: every rotation of 0..n-1 and of its reversal (2n insertion
// orders), for maps too wide to take every permutation.
func c16Rotations(n int) [][]int {
	var out [][]int
	for r := 0; r < n; r++ {
		a, b := make([]int, n), make([]int, n)
		for i := 0; i < n; i++ {
			a[i] = (i + r) % n
			b[i] = n - 1 - (i+r)%n
		}
		out = append(out, a, b)
	}
	return out
}

const c16Reps = 12 // String() calls per insertion order (map iteration starts at a random slot)

// c16PlCase checks one generated parameterised list under every insertion
// permutation of every parameter map.
func c16PlCase(c *mc.Ctx, g []c16GenMember) {
	var rv refsh.ParamList
	foreign := false
	var d []string
	nperm := 1
	for _, m := range g {
		rm := refsh.Member{ID: m.label}
		var dd []string
		for _, p := range m.params {
			rp := refsh.Param{Key: p.key}
			if !p.val.isNil {
				foreign = foreign || p.val.isF
				v := p.val.ref
				rp.Value = &v
				dd = append(dd, fmt.Sprintf("%q=%s", p.key, p.val))
			} else {
				dd = append(dd, fmt.Sprintf("%q", p.key))
			}
			rm.Params = append(rm.Params, rp)
		}
		refsh.SortParams(refsh.ParamList{rm})
		rv = append(rv, rm)
		d = append(d, fmt.Sprintf("%q{%s}", m.label, strings.Join(dd, " ")))
		nperm *= len(m.insertionOrders())
	}
	desc := "[" + strings.Join(d, ", ") + "]"
	key := "C16/values:pl:" + desc
	c.Eval()
	c.State([]byte(desc))
	want, werr := refsh.SerializeParameterisedList(rv)
	invalid := foreign || werr != nil
	reason := "unsupported item type"
	if !foreign && werr != nil {
		reason = werr.Code
	}
	multi := false
	for pi := 0; pi < nperm; pi++ {
		// build the value with this combination of insertion orders
		iv := make(sh.ParameterisedList, 0, len(g))
		x := pi
		order := ""
		for _, m := range g {
			ps := m.insertionOrders()
			p := ps[x%len(ps)]
			x /= len(ps)
			params := make(sh.Parameters)
			for _, k := range p {
				params[sh.Key(m.params[k].key)] = m.params[k].val.impl()
				order += m.params[k].key + ","
			}
			order += "|"
			if len(p) > 1 {
				multi = true
			}
			iv = append(iv, sh.ParameterisedIdentifier{Label: sh.Token(m.label), Params: params})
		}
		reps := 1
		if multi {
			reps = c16Reps
		}
		for r := 0; r < reps; r++ {
			c.Transitions(1)
			out, err, pan := c16StringPl(iv)
			if pan != nil {
				c.Fail(key, "ParameterisedList.String panicked", desc, "string or error", c16Err(err, pan))
				return
			}
			if invalid {
				if err == nil {
					c.Outcome("MISMATCH invalid value serialized")
					c.Fail(key, "invalid value ("+reason+") was serialized instead of refused", desc, "error", strconv.Quote(out))
					return
				}
				continue
			}
			if err != nil || out != want {
				c.Outcome("MISMATCH serialization differs")
				c.Fail(key, "ParameterisedList.String differs from the reference serialization (parameters must come out in sorted key order whatever the insertion order)", desc+" inserted as "+order+fmt.Sprintf(" call %d", r), strconv.Quote(want), strconv.Quote(out)+" "+c16Err(err, nil))
				return
			}
		}
		if invalid {
			continue
		}
		if len(iv) == 1 {
			c.Transitions(1)
			if out, err, pan := c16StringPi(&iv[0]); err != nil || pan != nil || out != want {
				c.Fail(key, "ParameterisedIdentifier.String differs from the reference serialization", desc, strconv.Quote(want), strconv.Quote(out)+" "+c16Err(err, pan))
				return
			}
		}
		if pi == 0 {
			c.Transitions(1)
			back, perr, pan := c16ParsePl(want)
			got, ok := c16RefPl(back)
			if perr != nil || pan != nil || !ok || !refsh.EqualParamList(got, rv) {
				c.Outcome("MISMATCH parse(String(v)) != v")
				c.Fail(key, "Parse(String(v)) != v", desc+" -> "+strconv.Quote(want), rv.String(), fmt.Sprintf("%#v %s", back, c16Err(perr, pan)))
				return
			}
			if rb, rerr := refsh.ParseParameterisedList(want); rerr != nil || !refsh.EqualParamList(rb, rv) {
				c.Fail("C16/refcheck:pl:"+desc, "reference model self-inconsistency (harness error): reference parser does not read back the reference serialization", strconv.Quote(want), rv.String(), fmt.Sprintf("%v %v", rb, rerr))
				return
			}
		}
	}
	if invalid {
		c.Outcome("invalid refused: " + reason)
	} else {
		c.Outcome(fmt.Sprintf("valid round-trip, %d insertion orders: %s", nperm, c16PlShape(rv)))
		c.Sample(desc + " -> " + strconv.Quote(want))
	}
	c.Nontrivial([]byte(desc))
}

// reduced pools for parameterised-list shapes: "1" = one identifier, "2" = two
var (
	c16Labels1 = []string{"a", "A*/", "a.b:c%", "1a", ""}
	c16Labels2 = []string{"a", "B-_", "1a"}
	c16Keys1   = []string{"a", "b", "a-", "a_1", "z", "A", "", "a."}
	c16Keys2   = []string{"a", "b", "zz", "A"}
	c16Vals1   = []c16Gen{gF(nil), gInt(-1), gInt(math.MaxInt64), gStr("a\""), gStr("\x1f"), gTok("t*"), gTok(""), gBin(nil), gBin([]byte{0xff, 0xfe}), gF(int(5)), gF(true)}
	c16Vals2   = []c16Gen{gF(nil), gInt(1), gStr("s;,"), gF(1.5), gTok("T/"), gBin([]byte{7})} // quick: the first four
)

func c16GenMemberFrom(c *mc.Ctx, labels, keys []string, vals []c16Gen) c16GenMember {
	m := c16GenMember{label: labels[c.Free(len(labels), "label")]}
	n := c.Free(3, "nparams")
	next := 0
	for i := 0; i < n && next < len(keys); i++ {
		// distinct keys, chosen in ascending pool order (the insertion order is
		// permuted separately)
		k := next + c.Free(len(keys)-next, "key")
		next = k + 1
		m.params = append(m.params, c16GenParam{key: keys[k], val: vals[c.Free(len(vals), "value")]})
	}
	return m
}

func init() {
	valuesLol := &mc.Harness{
		Name: "C16/values-lol",
		Run: func(c *mc.Ctx) {
			if c.Free(2, "kind") == 0 {
				// every single item of the full pools, alone in a list of lists
				c16LolCase(c, [][]c16Gen{{c16FullItem(c)}})
				return
			}
			// every shape up to 2 x 2 (including empty outer / inner lists)
			outer := c.Free(3, "lists")
			g := make([][]c16Gen, outer)
			for i := range g {
				inner := c.Free(3, "members")
				for j := 0; j < inner; j++ {
					g[i] = append(g[i], c16SmallItems[c.Free(len(c16SmallItems), "item")])
				}
			}
			c16LolCase(c, g)
		},
	}

	valuesPl := &mc.Harness{
		Name: "C16/values-plist",
		Run: func(c *mc.Ctx) {
			switch c.Free(5, "kind") {
			case 0: // every label of the token pool, no parameters / one bare parameter
				m := c16GenMember{label: c16TokPool[c.Free(len(c16TokPool), "label")]}
				if c.Free(2, "param") == 1 {
					m.params = []c16GenParam{{key: "k", val: gF(nil)}}
				}
				c16PlCase(c, []c16GenMember{m})
			case 1: // every key of the key pool, bare and with a value
				k := c16KeyPool[c.Free(len(c16KeyPool), "key")]
				v := gF(nil)
				if c.Free(2, "value") == 1 {
					v = gInt(1)
				}
				c16PlCase(c, []c16GenMember{{label: "a", params: []c16GenParam{{key: k, val: v}}}})
			case 2: // every item of the full pools as a parameter value
				c16PlCase(c, []c16GenMember{{label: "a", params: []c16GenParam{{key: "k", val: c16FullItem(c)}}}})
			case 3: // every shape up to 2 identifiers x 2 parameters, every insertion order
				n := c.Free(3, "identifiers")
				var g []c16GenMember
				for i := 0; i < n; i++ {
					if n == 1 {
						g = append(g, c16GenMemberFrom(c, c16Labels1, c16Keys1, c16Vals1))
					} else {
						g = append(g, c16GenMemberFrom(c, c16Labels2, c16Keys2, c16Vals2[:c.Pick(4, len(c16Vals2))]))
					}
				}
				c16PlCase(c, g)
			case 4: // one identifier with 3..10 parameters (beyond 8 a Go map leaves its single bucket)
				n := 3 + c.Free(8, "nparams")
				// pool order is deliberately not key order; values cycle through every type
				keys := []string{"m", "b-", "z", "b", "a1", "a", "b_", "a-", "y0", "a_"}
				vals := []c16Gen{gF(nil), gInt(0), gStr("x"), gTok("T"), gBin([]byte{1})}
				m := c16GenMember{label: "a"}
				for i := 0; i < n; i++ {
					m.params = append(m.params, c16GenParam{key: keys[i], val: vals[i%len(vals)]})
				}
				if n > 4 {
					m.orders = c16Rotations(n)
				}
				c16PlCase(c, []c16GenMember{m})
			}
		},
	}

	stringsLol := c16StringsHarness("C16/strings-lol", []c16Context{c16CtxLol}, false)
	stringsPl := c16StringsHarness("C16/strings-plist", []c16Context{c16CtxPl, c16CtxPlVal}, false)
	stringsLF := c16StringsHarness("C16/strings-lf", []c16Context{c16CtxLol, c16CtxPl, c16CtxPlVal}, true)

	sum := func(st *mc.Stats, prefixes ...string) int64 {
		var n int64
		for k, v := range st.Outcomes {
			for _, p := range prefixes {
				if strings.HasPrefix(k, p) {
					n += v
				}
			}
		}
		return n
	}

	register(&mc.Property{
		ID:    "C16",
		Level: "model_checking",
		Rule:  "(a) values: every single item of the pools {7 int64 boundary values; all strings of <=3 symbols over {a,SP,DQUOTE,backslash,~,0x1f,0x7f,e-acute}; all tokens of <=3 symbols over {a,A,1,_,-,.,:,%,*,/} plus 12 with foreign characters; byte sequences of length 0..6 (nil, empty, zeros, ones, two patterns); 12 values of unsupported Go types} alone in a list of lists and as a parameter value; every label of the token pool and every key of <=3 symbols over {a,z,1,_,-,A,*} (+9 with foreign characters); every list of lists of shape <=2x2 (empty lists included) over a 16-item reduced pool; every parameterised list of <=2 identifiers x <=2 parameters over reduced label/key/value pools (two identifiers: 3 labels, 4 keys, 4 (quick) / 6 (thorough) values), and one identifier with 3..10 parameters, each under every insertion permutation of every parameter map (2n rotations/reversals for n>4) and 12 String() calls per permutation. (b) strings: every string of length <=5 (quick) / <=7 (thorough) over the 16 characters a A 1 - _ . / DQUOTE backslash * ; , = SP HTAB LF, fed to ParseListOfLists and to ParseParameterisedList (bare and after the prefix \"a;a=\", i.e. in parameter-value position) and to the reference (strings without LF in C16/strings-lol and C16/strings-plist, strings with LF in C16/strings-lf: a partition of the same space); one engine execution = one block (prefix of 3 / 4 characters chosen by the engine, all suffixes looped inside), inputs distinct by construction. states = distinct generated values (hashed description) + distinct (parser, context, string) inputs (by construction). Non-trivial: a value case whose verdict was compared (valid: bytes and round trip compared with the reference; invalid: refusal required); a string that the reference accepts, or refuses only after recognising at least one complete lexeme / item / identifier or a delimited byte sequence with invalid content.",
		Assumptions: []string{
			"refsh (independent tokenizer + split grammar + serializers written from draft-ietf-httpbis-header-structure-09 sections 3 and 4) is correct; it is cross-checked against itself (parse of its own serialization) on every valid generated value",
			"subset decisions (DESIGN.md C16): integers only, any number of digits that fits int64 (the draft's 19-digit cap is not modelled and not reachable within the string bounds); base64 either correctly padded or unpadded; non-zero pad bits tolerated; nil and empty byte sequences equal",
			"characters outside the 16-character alphabet behave like the representative of their class (small-scope hypothesis); strings longer than the bound are not covered",
			"Go map iteration order is runtime-internal: sorted output is checked for every insertion order and 12 calls each, not for every possible runtime iteration order",
		},
		Harnesses: []*mc.Harness{valuesLol, valuesPl, stringsLol, stringsPl, stringsLF},
		Guard: func(s map[string]*mc.Stats) error {
			// generator / reference-side facts only
			for _, name := range []string{"C16/values-lol", "C16/values-plist"} {
				st := s[name]
				if st == nil {
					return fmt.Errorf("%s did not run", name)
				}
				valid := sum(st, "valid round-trip", "MISMATCH serialization", "MISMATCH parse")
				invalid := sum(st, "invalid refused", "MISMATCH invalid")
				if valid < 1000 || invalid < 1000 {
					return fmt.Errorf("%s: only %d valid and %d invalid generated values", name, valid, invalid)
				}
			}
			k := len(c16Alphabet)
			for _, name := range []string{"C16/strings-lol", "C16/strings-plist", "C16/strings-lf"} {
				st := s[name]
				if st == nil {
					return fmt.Errorf("%s did not run", name)
				}
				acc := sum(st, "both accept", "MISMATCH ref accepts")
				rej := sum(st, "both reject", "MISMATCH ref rejects")
				complete := false
				var want5 int64
				for maxLen := 7; maxLen >= 5; maxLen-- {
					want := c16CountUpTo(k-1, maxLen) // strings without LF, one context
					switch name {
					case "C16/strings-plist":
						want *= 2
					case "C16/strings-lf":
						want = 3 * (c16CountUpTo(k, maxLen) - c16CountUpTo(k-1, maxLen))
					}
					complete = complete || st.States == want
					want5 = want
				}
				if !complete || acc+rej != st.States {
					return fmt.Errorf("%s: %d inputs enumerated (%d classified by the reference), which is not the number of all strings up to a length bound (%d for <=5)", name, st.States, acc+rej, want5)
				}
				if name == "C16/strings-lf" {
					// LF is legal nowhere: the reference must refuse all of them, a good
					// part of them for the character inside a byte sequence
					if b64 := sum(st, "both reject: b64char", "MISMATCH ref rejects b64char"); acc != 0 || b64 < 1000 {
						return fmt.Errorf("%s: reference accepted %d inputs containing LF; %d refused for a non-base64 character", name, acc, b64)
					}
					continue
				}
				if acc < 2000 || rej < 100000 {
					return fmt.Errorf("%s: reference accepted %d and rejected %d inputs", name, acc, rej)
				}
				if acc-sum(st, "both accept: lists=1 members=1 ", "both accept: ids=1 params=0") < 500 {
					return fmt.Errorf("%s: too few accepted inputs with more than one element", name)
				}
			}
			return nil
		},
	})
}
