package main

// C11/map-sizes: the number of map pairs swept through every value 0..40 and the next head-width boundaries
// (255, 256, 257, 65535, 65536 in the thorough tier).  The maps harness stops at 5 pairs; the count of a map is its
// own head, written by code separate from integers, strings and array headers.

import (
	"bytes"
	"fmt"

	"github.com/WICG/webpackage/go/internal/cbor"
	"github.com/WICG/webpackage/go/signedexchange/zverif/mc"
	"github.com/WICG/webpackage/go/signedexchange/zverif/refcbor"
)

func c11MapSizes(c *mc.Ctx) {
	sizes := []int{}
	for n := 0; n <= 40; n++ {
		sizes = append(sizes, n)
	}
	sizes = append(sizes, 255, 256, 257)
	if !c.Quick() {
		sizes = append(sizes, 65535, 65536)
	}
	n := sizes[c.Free(len(sizes), "pairs")]
	keyKind := c.Free(2, "keys: unsigned integers / text strings")
	order := c.Free(2, "insertion order: descending / ascending")
	var mes []*cbor.MapEntryEncoder
	var kvs []refcbor.KV
	for i := 0; i < n; i++ {
		k := i
		if order == 0 {
			k = n - 1 - i
		}
		var rk []byte
		if keyKind == 0 {
			rk = refcbor.EncUint(uint64(k))
		} else {
			rk = refcbor.EncText(fmt.Sprintf("k%d", k))
		}
		kvs = append(kvs, refcbor.KV{K: rk, V: refcbor.EncUint(uint64(k % 7))})
		mes = append(mes, cbor.GenerateMapEntry(func(ke, ve *cbor.Encoder) {
			if keyKind == 0 {
				ke.EncodeUint(uint64(k))
			} else {
				ke.EncodeTextString(fmt.Sprintf("k%d", k))
			}
			ve.EncodeUint(uint64(k % 7))
		}))
	}
	want, rerr := refcbor.EncMap(kvs)
	if rerr != nil {
		panic("c11 map sizes: " + rerr.Error())
	}
	var got bytes.Buffer
	err := cbor.NewEncoder(&got).EncodeMap(mes)
	desc := fmt.Sprintf("EncodeMap of %d pairs (key kind %d, insertion order %d)", n, keyKind, order)
	c.Eval()
	c.Transitions(1)
	c.State([]byte(desc))
	c.Nontrivial([]byte(desc))
	if err != nil || !bytes.Equal(got.Bytes(), want) {
		show := func(b []byte) string {
			if len(b) > 40 {
				return hx(b[:40]) + fmt.Sprintf("... (%d bytes)", len(b))
			}
			return hx(b)
		}
		c.Outcome("VIOLATION map size")
		c.Fail("C11/map-sizes:"+desc, "map output differs from the canonical reference encoding", desc, show(want), fmt.Sprintf("%s err=%v", show(got.Bytes()), err))
		return
	}
	c.Outcome("map encoded canonically")
}

func init() {
	p := props["C11"]
	p.Harnesses = append(p.Harnesses, &mc.Harness{Name: "C11/map-sizes", Run: c11MapSizes})
	p.Rule += " C11/map-sizes: maps of every size 0..40, 255, 256, 257 (thorough: also 65535, 65536) x integer / text keys x ascending / descending insertion."
}
