package main

// C14 — MI encoding round-trips and matches the drafts' definition.
//
// SPACE (choice tree, no deviations: every point is Free and swept completely)
//
//	C14/small-rs-all-lengths      drafts {02,03} x rs in {1,2,3,4,5,7,8,16} x EVERY payload length
//	                              0..3*rs+2 (all residues modulo rs, 0..3 full records, exact
//	                              multiples, one and two bytes past a multiple) x 3 content patterns.
//	C14/all-rs-boundary-lengths   drafts x rs in 1..16384 (thorough: every value; quick: 1..1025, 4095..4097,
//	                              8191..8193, 16383..16384) x length in {0, 1, rs-1, rs, rs+1, 2rs, 2rs+1}
//	                              (de-duplicated) x 3 content patterns.
//	C14/long-chains               drafts x rs in {1,2,3,5} x every length 0..48 (quick) / 0..256 (thorough)
//	                              x 3 content patterns: proof chains of up to 256 records.
//	C14/big-rs-all-lengths        drafts x rs in {16384, 6000} (thorough: + 4097, 10000) x EVERY length 0..rs+33
//	                              (single-record streams of every size, and the first bytes of a second record).
//
// Content patterns: two LCG byte patterns derived from VERIF_SEED (content only, never
// a verdict) and the all-zero payload (record bytes equal to the 0x00 flag byte).
//
// ORACLE (independent reference refmice, written from the drafts' recursive definition)
//
//	1. Encode returns no error, the bytes written equal refmice.Encode byte for byte
//	   (8-byte record size, records interleaved with the proofs of their successors,
//	   both empty-payload special cases) and the returned header value is the same
//	   string (algorithm token, base64 alphabet, padding).
//	2. DigestHeaderName / ContentEncoding equal the draft's names.
//	3. Round trip through the implementation: NewDecoder(stream, digest) + reading to
//	   the end yields exactly the payload and a clean end of stream.
//	4. The reference decoder, given the implementation's stream and digest,
//	   authenticates exactly the payload, finds the stream clean, and does not need
//	   the "empty last record" leniency.
//
// The writer handed to Encode records every Write call, so that the output is the
// concatenation of what was actually written (the writer never fails here; failing
// writers belong to the fault-enumeration properties).

import (
	"bytes"
	"fmt"
	"io"

	"github.com/WICG/webpackage/go/signedexchange/mice"
	"github.com/WICG/webpackage/go/signedexchange/zverif/mc"
	"github.com/WICG/webpackage/go/signedexchange/zverif/refmice"
)

const c14Limit = 16384 // the record size limit the repository's callers pass (maxMIRecordSize)

type miDraft struct {
	ref  refmice.Draft
	impl mice.Encoding
}

var miDrafts = []miDraft{
	{refmice.Draft02, mice.Draft02Encoding},
	{refmice.Draft03, mice.Draft03Encoding},
}

// miContent returns content pattern k (0,1: seeded LCG patterns; 2: all zero).
func miContent(n int, seed int64, k int) []byte {
	switch k {
	case 0:
		return pattern(n, seed)
	case 1:
		return pattern(n, seed*31+7919)
	default:
		return make([]byte, n)
	}
}

// implDecodeAll runs the implementation's decoder over stream with a plain reader.
func implDecodeAll(enc mice.Encoding, stream []byte, digest string, limit uint64) (out []byte, err error, panicked interface{}) {
	defer func() {
		if r := recover(); r != nil {
			panicked = r
		}
	}()
	dec, err := enc.NewDecoder(bytes.NewReader(stream), digest, limit)
	if err != nil {
		return nil, fmt.Errorf("NewDecoder: %v", err), nil
	}
	out, err = io.ReadAll(dec)
	return out, err, nil
}

// c14Consumers are the ways the decoder is drained besides io.ReadAll.
var c14Consumers = []struct {
	name string
	slow bool
}{{"io.Copy", false}, {"io.CopyBuffer(3)", true}, {"Read(1-byte buffer)", true}, {"Read(rs+1 bytes, zero-length reads between)", false}, {"iotest-style OneByteReader source", true}, {"Read(1 byte) then io.Copy", false}}

type c14PlainWriter struct{ b []byte }

func (w *c14PlainWriter) Write(p []byte) (int, error) { w.b = append(w.b, p...); return len(p), nil }

type c14OneByteSource struct{ r io.Reader }

func (s c14OneByteSource) Read(p []byte) (int, error) {
	if len(p) == 0 {
		return 0, nil
	}
	return s.r.Read(p[:1])
}

// implDecodeVia drains the implementation's decoder with the named consumer.
func implDecodeVia(enc mice.Encoding, stream []byte, digest string, limit uint64, via string) (out []byte, err error, panicked interface{}) {
	defer func() {
		if r := recover(); r != nil {
			panicked = r
		}
	}()
	var src io.Reader = bytes.NewReader(stream)
	if via == "iotest-style OneByteReader source" {
		src = c14OneByteSource{src}
	}
	dec, err := enc.NewDecoder(src, digest, limit)
	if err != nil {
		return nil, fmt.Errorf("NewDecoder: %v", err), nil
	}
	switch via {
	case "Read(1 byte) then io.Copy":
		var one [1]byte
		n, e := dec.Read(one[:])
		out = append(out, one[:n]...)
		if e == io.EOF {
			return out, nil, nil
		}
		if e != nil {
			return out, e, nil
		}
		w := &c14PlainWriter{}
		_, err = io.Copy(w, dec)
		return append(out, w.b...), err, nil
	case "io.Copy":
		// a destination without ReadFrom, so that only the decoder's own methods decide the path
		w := &c14PlainWriter{}
		_, err = io.Copy(w, dec)
		return w.b, err, nil
	case "io.CopyBuffer(3)":
		w := &c14PlainWriter{}
		_, err = io.CopyBuffer(w, dec, make([]byte, 3))
		return w.b, err, nil
	case "iotest-style OneByteReader source":
		out, err = io.ReadAll(dec)
		return out, err, nil
	}
	bufLen := 1
	if via != "Read(1-byte buffer)" {
		bufLen = 0 // set from the stream's record size below
		if len(stream) >= 8 {
			var rs uint64
			for _, b := range stream[:8] {
				rs = rs<<8 | uint64(b)
			}
			if rs < 1<<20 {
				bufLen = int(rs) + 1
			}
		}
		if bufLen == 0 {
			bufLen = 5
		}
	}
	buf := make([]byte, bufLen)
	for steps := 0; steps < 1<<22; steps++ {
		if bufLen > 1 {
			if n0, e0 := dec.Read(nil); n0 != 0 || (e0 != nil && e0 != io.EOF) {
				return out, fmt.Errorf("zero-length Read returned (%d, %v)", n0, e0), nil
			}
		}
		n, e := dec.Read(buf)
		if n < 0 || n > len(buf) {
			return out, fmt.Errorf("Read returned n=%d for a %d-byte buffer", n, len(buf)), nil
		}
		out = append(out, buf[:n]...)
		if e == io.EOF {
			return out, nil, nil
		}
		if e != nil {
			return out, e, nil
		}
	}
	return out, fmt.Errorf("decoder never reported the end"), nil
}

func implEncode(enc mice.Encoding, payload []byte, rs int) (stream []byte, digest string, err error, panicked interface{}) {
	defer func() {
		if r := recover(); r != nil {
			panicked = r
		}
	}()
	var w bytes.Buffer
	digest, err = enc.Encode(&w, payload, rs)
	return w.Bytes(), digest, err, nil
}

// c14Case checks one (draft, rs, length, pattern).
func c14Case(c *mc.Ctx, hname string, d miDraft, rs, n, pat int) {
	payload := miContent(n, c.Seed, pat)
	desc := fmt.Sprintf("%s rs=%d len=%d pattern=%d", d.ref, rs, n, pat)
	key := fmt.Sprintf("%s:%s:rs=%d:len=%d:p%d", hname, d.ref, rs, n, pat)

	wantStream, wantDigest := refmice.Encode(d.ref, payload, rs)
	c.StateU64(uint64(d.ref)<<60 | uint64(pat)<<56 | uint64(rs)<<24 | uint64(n))
	nrec := (n + rs - 1) / rs
	shape := "short last record"
	switch {
	case n == 0:
		shape = "empty payload"
	case n%rs == 0:
		shape = "exact multiple of rs"
	}
	recClass := fmt.Sprintf("%d", nrec)
	if nrec > 4 {
		recClass = ">4"
	}
	c.Outcome(fmt.Sprintf("generated %s records=%s %s", d.ref, recClass, shape))
	if nrec >= 2 || n == 0 || n == rs {
		// rule: at least one proof inside the stream, or one of the special shapes
		c.NontrivialByConstruction(1)
	}
	c.Sample(fmt.Sprintf("%s -> stream %s digest %s", desc, hx(wantStream), wantDigest))

	gotStream, gotDigest, err, pn := implEncode(d.impl, payload, rs)
	c.Transitions(1)
	c.Eval()
	if pn != nil {
		c.Outcome("VIOLATION encode panicked")
		c.Fail(key+":encode-panic", "Encode panicked", desc, "stream "+hx(wantStream), fmt.Sprint(pn))
		return
	}
	if err != nil {
		c.Outcome("VIOLATION encode error")
		c.Fail(key+":encode-err", "Encode failed on a plain buffer", desc, "nil error", err.Error())
		return
	}
	if !bytes.Equal(gotStream, wantStream) {
		c.Outcome("VIOLATION stream differs from the drafts' definition")
		c.Fail(key+":stream", "encoded stream differs from the independent implementation of the draft's recursive definition", desc+" payload="+hx(payload), hx(wantStream), hx(gotStream))
		return
	}
	if gotDigest != wantDigest {
		c.Outcome("VIOLATION digest header value differs")
		c.Fail(key+":digest", "digest header value differs from the reference (algorithm token / base64 alphabet / padding / proof)", desc+" payload="+hx(payload), wantDigest, gotDigest)
		return
	}
	if d.impl.DigestHeaderName() != d.ref.HeaderName() || d.impl.ContentEncoding() != d.ref.Algorithm() {
		c.Outcome("VIOLATION header / coding name differs")
		c.Fail(hname+":names:"+d.ref.String(), "header name or content coding name differs from the draft", desc, d.ref.HeaderName()+" / "+d.ref.Algorithm(), d.impl.DigestHeaderName()+" / "+d.impl.ContentEncoding())
		return
	}

	// round trip through the implementation
	out, derr, pn := implDecodeAll(d.impl, gotStream, gotDigest, c14Limit)
	c.Transitions(1)
	c.Traces(1)
	if pn != nil {
		c.Outcome("VIOLATION decode panicked")
		c.Fail(key+":decode-panic", "decoding the encoder's own output panicked", desc, "payload", fmt.Sprint(pn))
		return
	}
	if derr != nil || !bytes.Equal(out, payload) {
		c.Outcome("VIOLATION round trip")
		c.Fail(key+":roundtrip", "decode(encode(payload)) with the returned digest is not the payload", desc+" payload="+hx(payload), hx(payload)+" then clean EOF", fmt.Sprintf("%s err=%v", hx(out), derr))
		return
	}
	// the same round trip through the other ways a consumer drains an io.Reader
	for _, via := range c14Consumers {
		if n > 4096 && via.slow {
			continue
		}
		out, derr, pn := implDecodeVia(d.impl, gotStream, gotDigest, c14Limit, via.name)
		c.Transitions(1)
		if pn != nil || derr != nil || !bytes.Equal(out, payload) {
			c.Outcome("VIOLATION round trip (" + via.name + ")")
			c.Fail(key+":roundtrip-"+via.name, "decode(encode(payload)) drained with "+via.name+" is not the payload followed by a clean end", desc+" payload="+hx(payload), hx(payload)+" then clean EOF", fmt.Sprintf("%s err=%v panic=%v", hx(out), derr, pn))
			return
		}
	}
	// the reference decoder on the implementation's output
	res := refmice.DecodeDetail(d.ref, gotStream, gotDigest, c14Limit)
	if !res.Clean || res.EmptyFinal || res.Refused || !bytes.Equal(res.Authenticated, payload) {
		c.Outcome("VIOLATION reference decoder rejects the output")
		c.Fail(key+":refdecode", "the reference decoder does not authenticate exactly the payload from the encoder's output", desc, hx(payload)+" clean", fmt.Sprintf("%s clean=%v emptyFinal=%v stage=%s", hx(res.Authenticated), res.Clean, res.EmptyFinal, res.Stage))
		return
	}
	c.Outcome(fmt.Sprintf("ok %s records=%s %s", d.ref, recClass, shape))
}

func c14BoundaryRS(quick bool) []int {
	var out []int
	if !quick {
		for rs := 1; rs <= 16384; rs++ {
			out = append(out, rs)
		}
		return out
	}
	for rs := 1; rs <= 1025; rs++ {
		out = append(out, rs)
	}
	return append(out, 4095, 4096, 4097, 8191, 8192, 8193, 16383, 16384)
}

var c14RSQuick, c14RSThorough = c14BoundaryRS(true), c14BoundaryRS(false)

func c14BoundaryLens(rs int) []int {
	var out []int
	for _, n := range []int{0, 1, rs - 1, rs, rs + 1, 2 * rs, 2*rs + 1} {
		dup := n < 0
		for _, m := range out {
			if m == n {
				dup = true
			}
		}
		if !dup {
			out = append(out, n)
		}
	}
	return out
}

func init() {
	smallRS := []int{1, 2, 3, 4, 5, 7, 8, 16}
	small := &mc.Harness{
		Name: "C14/small-rs-all-lengths",
		Run: func(c *mc.Ctx) {
			d := miDrafts[c.Free(len(miDrafts), "draft")]
			rs := smallRS[c.Free(len(smallRS), "rs")]
			n := c.Free(3*rs+3, "len")
			pat := c.Free(3, "pattern")
			c14Case(c, "C14/small", d, rs, n, pat)
		},
	}
	boundary := &mc.Harness{
		Name: "C14/all-rs-boundary-lengths",
		Run: func(c *mc.Ctx) {
			d := miDrafts[c.Free(len(miDrafts), "draft")]
			list := c14RSThorough
			if c.Quick() {
				list = c14RSQuick
			}
			rs := list[c.Free(len(list), "rs")]
			lens := c14BoundaryLens(rs)
			n := lens[c.Free(len(lens), "len")]
			pat := c.Free(3, "pattern")
			c14Case(c, "C14/allrs", d, rs, n, pat)
		},
	}
	longRS := []int{1, 2, 3, 5}
	long := &mc.Harness{
		Name: "C14/long-chains",
		Run: func(c *mc.Ctx) {
			d := miDrafts[c.Free(len(miDrafts), "draft")]
			rs := longRS[c.Free(len(longRS), "rs")]
			n := c.Free(c.Pick(48, 256)+1, "len")
			pat := c.Free(3, "pattern")
			c14Case(c, "C14/long", d, rs, n, pat)
		},
	}
	// every payload length under a LARGE record size: the decoder's working buffer (record + next proof) is then never
	// filled by a multi-record stream of the other harnesses' few lengths, so a buffer that grows in steps, or a reader
	// that treats "exactly full" specially, is first wrong at some single-record length that is not a function of rs
	bigRS := &mc.Harness{
		Name: "C14/big-rs-all-lengths",
		Run: func(c *mc.Ctx) {
			d := miDrafts[c.Free(len(miDrafts), "draft")]
			list := []int{16384, 6000}
			if !c.Quick() {
				list = []int{16384, 6000, 4097, 10000}
			}
			rs := list[c.Free(len(list), "rs")]
			n := c.Free(rs+34, "len")
			pat := 0
			if !c.Quick() {
				pat = c.Free(3, "pattern")
			}
			c14Case(c, "C14/bigrs", d, rs, n, pat)
		},
	}
	register(&mc.Property{
		ID:    "C14",
		Level: "model_checking",
		Rule: "choice-tree enumeration of encoder inputs, all points free (no sampling): drafts 02/03 x rs in {1,2,3,4,5,7,8,16} x every payload length 0..3rs+2 x 3 content patterns; and drafts x every rs in 1..16384 (quick: 1..1025, 4095..4097, 8191..8193, 16383, 16384) x length in {0,1,rs-1,rs,rs+1,2rs,2rs+1} x 3 content patterns; and drafts x rs in {1,2,3,5} x every length 0..48 (quick) / 0..256 (thorough) x 3 patterns (long proof chains); and drafts x rs in {16384, 6000} (thorough: + 4097, 10000) x EVERY length 0..rs+33 x 1 (thorough: 3) content pattern. " +
			"Each case runs the real Encode, compares stream bytes and digest string with refmice (recursive definition), decodes the implementation's output with the real decoder and with the reference decoder. " +
			"A case is non-trivial when the stream contains at least one proof (two or more records) or is one of the special shapes (empty payload, payload exactly one record); cases are distinct by construction (draft, rs, length, pattern).",
		Assumptions: []string{
			"refmice (independent encoder/decoder written from the recursive definition of draft-thomson-http-mice-02/03) is correct; crypto/sha256 is trusted",
			"payload lengths beyond 3rs+2 (small rs) / 2rs+1 (all rs) / 256 bytes (rs 1,2,3,5) behave like the enumerated ones (more records of the same kinds); record sizes above 16384 are not enumerated",
			"content bytes are three fixed patterns (two seeded pseudo-random, one all-zero); the encoder is assumed not to branch on content",
			"the io.Writer given to Encode never fails (writer failures are outside C14)",
		},
		Harnesses: []*mc.Harness{small, boundary, long, bigRS},
		Guard: func(s map[string]*mc.Stats) error {
			a, b := s["C14/small-rs-all-lengths"], s["C14/all-rs-boundary-lengths"]
			if a == nil || b == nil {
				return fmt.Errorf("harness missing")
			}
			// generator-side facts only: how many cases of each shape were generated
			need := []string{
				"generated draft02 records=0 empty payload", "generated draft03 records=0 empty payload",
				"generated draft02 records=1 exact multiple of rs", "generated draft03 records=3 exact multiple of rs",
				"generated draft02 records=4 short last record", "generated draft03 records=2 short last record",
			}
			for _, k := range need {
				if a.Outcomes[k] == 0 {
					return fmt.Errorf("small-rs sweep generated no case %q", k)
				}
			}
			if a.Executions != 2*3*int64(3*(1+2+3+4+5+7+8+16)+3*8) {
				return fmt.Errorf("small-rs sweep has %d executions, expected the full product", a.Executions)
			}
			if l := s["C14/long-chains"]; l == nil || l.Outcomes["generated draft03 records=>4 exact multiple of rs"] == 0 || l.Outcomes["generated draft02 records=>4 short last record"] == 0 {
				return fmt.Errorf("long-chain sweep generated no chain of more than 4 records")
			}
			if b.Executions < 2000 {
				return fmt.Errorf("all-rs sweep too small (%d)", b.Executions)
			}
			return nil
		},
	})
}
