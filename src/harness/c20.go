package main

// C20 - the command-line tools compose: each tool's output is accepted downstream.
//
// Mode 2 (explicit-state search over tool invocation pipelines).  One execution =
// one pipeline of real tool PROCESSES (the seven binaries vcheck builds from the
// working tree into $VERIF_TOOLS) run with os/exec inside a private temporary
// directory.  The state is the set of files in that directory with their hashes
// (c.State over the sorted (name, sha256) list, recorded after every process run);
// a transition is one process run (c.Transitions(1)).
//
// Judgement "the downstream tool accepts" always comes from the downstream BINARY:
// its exit status and its output.  The repository's library packages (bundle.Read,
// signature.NewVerifier, signedexchange.ReadExchange, structuredheader) are used only
// to INSPECT artifacts (which URL / body / record size / date a tool wrote).  The
// expected content comes from reference-side models that import nothing from the
// repository: refurl (file path -> URL, RFC 3986), refcert (cert-chain+cbor, RFC 6962
// SCT lists), refcbor (integrity block), crypto/ed25519, and small models written here
// (which HAR entries survive, which exchanges a certificate covers, the Web Bundle ID).
//
// Harnesses (spaces are stated next to each):
//   C20/dir      directory trees -> gen-bundle -dir -> dump-bundle -> sign-bundle ... -> dump-bundle
//   C20/har      HAR captures -> gen-bundle -har -> dump-bundle [-> sign-bundle -> dump-bundle]
//   C20/pipe     all sequences of signing operations on three base bundles
//   C20/certurl  gen-certurl -> dump-certurl
//   C20/sxg      gen-signedexchange -> dump-signedexchange -verify -cert
//   C20/sxgpipe  gen-signedexchange -o - | dump-signedexchange -verify -cert
//   C20/dumpid   sign-bundle dump-id for every key form
//
// time.Now(): dump-bundle and dump-signedexchange verify at the current time; all
// artifacts are generated with the default date ("now") or an explicit date ten
// minutes in the past, and at least one hour of validity, so no verdict sits near a
// time boundary.  ECDSA nonces and dates make file hashes differ between runs (the
// states counter is therefore not reproducible to the unit); verdicts do not depend
// on them.

import (
	"bytes"
	"context"
	"crypto/ed25519"
	"crypto/sha256"
	"crypto/sha512"
	"encoding/base32"
	"encoding/base64"
	"encoding/binary"
	"encoding/json"
	"fmt"
	"net/http"
	"os"
	"os/exec"
	"path/filepath"
	"sort"
	"strconv"
	"strings"
	"time"

	"github.com/WICG/webpackage/go/bundle"
	"github.com/WICG/webpackage/go/bundle/signature"
	"github.com/WICG/webpackage/go/signedexchange"
	"github.com/WICG/webpackage/go/signedexchange/structuredheader"
	"github.com/WICG/webpackage/go/signedexchange/zverif/fixtures"
	"github.com/WICG/webpackage/go/signedexchange/zverif/mc"
	"github.com/WICG/webpackage/go/signedexchange/zverif/refcbor"
	"github.com/WICG/webpackage/go/signedexchange/zverif/refcert"
	"github.com/WICG/webpackage/go/signedexchange/zverif/refurl"
)

// ---------------------------------------------------------------------------
// process layer
// ---------------------------------------------------------------------------

var c20ToolsDir = os.Getenv("VERIF_TOOLS")

func c20NeedTools() {
	if c20ToolsDir == "" {
		fmt.Fprintln(os.Stderr, "C20: VERIF_TOOLS is not set; run this check through ./vcheck C20 <tier> (it builds the seven tools)")
		os.Exit(2)
	}
}

type c20Res struct {
	code   int
	stdout []byte
	stderr []byte
	hung   bool
}

func (r c20Res) ok() bool { return r.code == 0 && !r.hung }

func c20Clip(b []byte, n int) string {
	s := strings.TrimSpace(string(b))
	if len(s) > n {
		s = s[:n] + "..."
	}
	return s
}

func (r c20Res) brief() string {
	if r.hung {
		return "did not terminate within 60 s"
	}
	return fmt.Sprintf("exit %d; stderr: %s; stdout: %s", r.code, c20Clip(r.stderr, 400), c20Clip(r.stdout, 300))
}

// c20Sess is one execution: a private directory, the command log and the
// first failure (a pipeline stops at its first failure).
type c20Sess struct {
	c      *mc.Ctx
	dir    string
	key    string
	log    []string
	failed bool
}

func c20NewSess(c *mc.Ctx, key string) *c20Sess {
	c20NeedTools()
	dir, err := os.MkdirTemp(os.TempDir(), "verif-c20-")
	if err != nil {
		fmt.Fprintln(os.Stderr, "C20: cannot create a temporary directory:", err)
		os.Exit(2)
	}
	c.Nontrivial([]byte(key))
	return &c20Sess{c: c, dir: dir, key: key}
}

func (s *c20Sess) close() { os.RemoveAll(s.dir) }

func (s *c20Sess) path(name string) string { return filepath.Join(s.dir, filepath.FromSlash(name)) }

func (s *c20Sess) write(name string, data []byte) {
	p := s.path(name)
	if err := os.MkdirAll(filepath.Dir(p), 0755); err == nil {
		err = os.WriteFile(p, data, 0644)
		if err == nil {
			return
		}
	}
	fmt.Fprintln(os.Stderr, "C20: cannot write input file", p)
	os.Exit(2)
}

func (s *c20Sess) read(name string) []byte {
	b, _ := os.ReadFile(s.path(name))
	return b
}

func (s *c20Sess) note(format string, a ...interface{}) {
	s.log = append(s.log, fmt.Sprintf(format, a...))
}

// snapshot records the canonical state: every directory and file below the session
// directory in lexical order, files with the SHA-256 of their content.
func (s *c20Sess) snapshot() {
	var parts [][]byte
	filepath.Walk(s.dir, func(p string, info os.FileInfo, err error) error {
		if err != nil {
			return nil
		}
		rel, _ := filepath.Rel(s.dir, p)
		if info.IsDir() {
			parts = append(parts, []byte(rel+"/"))
			return nil
		}
		b, _ := os.ReadFile(p)
		sum := sha256.Sum256(b)
		parts = append(parts, []byte(rel), sum[:])
		return nil
	})
	s.c.State(parts...)
}

func c20Quote(a string) string {
	if a != "" && strings.IndexFunc(a, func(r rune) bool {
		return !(r >= 'a' && r <= 'z' || r >= 'A' && r <= 'Z' || r >= '0' && r <= '9' || strings.ContainsRune("-_./:=", r))
	}) < 0 {
		return a
	}
	return strconv.Quote(a)
}

// run executes one tool inside the session directory (one transition).
func (s *c20Sess) run(tool string, stdin []byte, env []string, args ...string) c20Res {
	ctx, cancel := context.WithTimeout(context.Background(), 60*time.Second)
	defer cancel()
	// The output path is never pristine: a longer, stale previous output is already there (a tool
	// that does not truncate its output would leave the old tail behind the new artifact).
	for i := 0; i+1 < len(args); i++ {
		if args[i] == "-o" && args[i+1] != "-" {
			p := args[i+1]
			if !filepath.IsAbs(p) {
				p = filepath.Join(s.dir, p)
			}
			if _, err := os.Stat(p); os.IsNotExist(err) {
				os.WriteFile(p, bytes.Repeat([]byte{0xEE}, 200<<10), 0644)
			}
		}
	}
	cmd := exec.CommandContext(ctx, filepath.Join(c20ToolsDir, tool), args...)
	cmd.Dir = s.dir
	cmd.Env = append([]string{"PATH=/usr/bin:/bin", "HOME=" + s.dir, "TMPDIR=" + s.dir, "LANG=C"}, env...)
	if stdin != nil {
		cmd.Stdin = bytes.NewReader(stdin)
	}
	var so, se bytes.Buffer
	cmd.Stdout, cmd.Stderr = &so, &se
	err := cmd.Run()
	r := c20Res{stdout: so.Bytes(), stderr: se.Bytes()}
	if ctx.Err() == context.DeadlineExceeded {
		r.hung, r.code = true, -1
	} else if err != nil {
		if ee, ok := err.(*exec.ExitError); ok {
			r.code = ee.ExitCode()
		} else {
			fmt.Fprintf(os.Stderr, "C20: cannot start %s: %v\n", tool, err)
			os.Exit(2)
		}
	}
	line := "$ "
	if len(env) > 0 {
		line += strings.Join(env, " ") + " "
	}
	line += tool
	for _, a := range args {
		line += " " + c20Quote(a)
	}
	if stdin != nil {
		line += fmt.Sprintf(" < (%d bytes on stdin)", len(stdin))
	}
	if r.hung {
		line += "   -> no exit within 60 s"
	} else {
		line += fmt.Sprintf("   -> exit %d", r.code)
	}
	s.log = append(s.log, line)
	s.c.Transitions(1)
	s.snapshot()
	return r
}

func (s *c20Sess) fail(what, expected, observed string) bool {
	if !s.failed {
		s.failed = true
		s.c.Fail(s.key, what, strings.Join(s.log, "\n"), expected, observed)
	}
	return false
}

// ---------------------------------------------------------------------------
// identities
// ---------------------------------------------------------------------------

type c20Ident struct {
	name string
	x    *fixtures.ECIdentity
	enc  string // encrypted PKCS#8 form (identity A only)
}

var (
	c20IdA  = &c20Ident{"A", fixtures.A, fixtures.AKeyEncPKCS8PEM}
	c20IdA2 = &c20Ident{"A2", fixtures.A2, ""}
	c20IdB  = &c20Ident{"B", fixtures.B, ""}
)

// covers: reference-side decision whether the identity's leaf certificate names host
// (exact dNSName or a single left-most wildcard label).
func (id *c20Ident) covers(host string) bool {
	if host == "" {
		return false
	}
	if i := strings.LastIndexByte(host, ':'); i >= 0 { // strip a port
		host = host[:i]
	}
	for _, n := range id.x.Leaf.DNSNames {
		n = strings.ToLower(n)
		if n == host {
			return true
		}
		if strings.HasPrefix(n, "*.") {
			if i := strings.IndexByte(host, '.'); i > 0 && host[i:] == n[1:] {
				return true
			}
		}
	}
	return false
}

func (id *c20Ident) keyPEM(form string) string {
	switch form {
	case "pkcs8":
		return id.x.PKCS8PEM
	case "encpkcs8":
		return id.enc
	}
	return id.x.SEC1PEM
}

func c20KeyEnv(form string) []string {
	if form == "encpkcs8" {
		return []string{"WEB_BUNDLE_SIGNING_PASSPHRASE=" + fixtures.Passphrase}
	}
	return nil
}

// ---------------------------------------------------------------------------
// expected exchanges and the bundle model carried along a pipeline
// ---------------------------------------------------------------------------

// c20Want is one exchange the bundle must contain.
type c20Want struct {
	what     string        // "file a.txt", "directory URL of s/index.html", ...
	ref      string        // reference spelling of the URL (refurl.Join) - used for -primaryURL
	target   refurl.Target // where the URL must point (compared after parsing)
	status   int
	body     []byte
	alts     [][]byte      // HAR duplicates without Variants: any of these bodies is fine
	redirect bool          // must redirect to redirTo (any 3xx with a Location resolving there)
	redirTo  refurl.Target //
	lenient  bool          // index.html at top level without base URL: may be served directly instead
	nohdr    bool          // banned / pseudo headers must be absent from the response headers
}

type c20SigMeta struct {
	expire   time.Duration
	date     *time.Time
	validity string
}

type c20Signed struct{ auth, rs int }

type c20Model struct {
	ver     string
	base    string // resolution base of the URLs ("" = relative URLs)
	wants   []c20Want
	primary *refurl.Target
	file    string
	hasIB   bool
	auths   int
	subsets []c20SigMeta
	signed  map[int]c20Signed
	nout    int
}

func (m *c20Model) next(prefix string) string {
	m.nout++
	return fmt.Sprintf("%s%d.wbn", prefix, m.nout)
}

func (m *c20Model) wantList() string {
	var l []string
	for _, w := range m.wants {
		x := fmt.Sprintf("%s -> %s", w.what, w.target)
		if w.redirect {
			x += " redirecting to " + w.redirTo.String()
		}
		l = append(l, x)
	}
	return strings.Join(l, "\n")
}

// find returns the not yet matched want at location t; among several wants at one
// location (variants of one URL) the one whose body is `body` is preferred.
func (m *c20Model) find(t refurl.Target, used []bool, body []byte) int {
	first := -1
	for i, w := range m.wants {
		if used[i] || w.target != t {
			continue
		}
		if body != nil && bytes.Equal(w.body, body) {
			return i
		}
		if first < 0 {
			first = i
		}
	}
	return first
}

func (m *c20Model) shared(i int) bool {
	for j, w := range m.wants {
		if j != i && w.target == m.wants[i].target {
			return true
		}
	}
	return false
}

var c20Magic = map[string][]byte{
	"b1": {0x86, 0x48, 0xf0, 0x9f, 0x8c, 0x90, 0xf0, 0x9f, 0x93, 0xa6, 0x44, 'b', '1', 0, 0},
	"b2": {0x85, 0x48, 0xf0, 0x9f, 0x8c, 0x90, 0xf0, 0x9f, 0x93, 0xa6, 0x44, 'b', '2', 0, 0},
}

// checkResponse compares one stored response with what the model wants.
func (s *c20Sess) checkResponse(m *c20Model, w c20Want, url string, status int, hdr http.Header, body []byte) bool {
	if w.nohdr {
		for k := range hdr {
			if strings.HasPrefix(k, ":") || strings.EqualFold(k, "set-cookie") {
				return s.fail("a banned or pseudo header of the HAR entry is stored in the bundle", "no set-cookie and no ':' header for "+w.what, fmt.Sprintf("header %q: %q", k, hdr[k]))
			}
		}
	}
	if w.redirect {
		if status >= 300 && status < 400 && hdr.Get("Location") != "" {
			t, err := refurl.LocateVia(m.base, url, hdr.Get("Location"))
			if err == nil && t == w.redirTo {
				return true
			}
			return s.fail("index.html's own URL does not redirect to its directory URL", w.what+" redirects to "+w.redirTo.String(), fmt.Sprintf("status %d Location %q = %v (err %v)", status, hdr.Get("Location"), t, err))
		}
		if w.lenient && status == 200 && bytes.Equal(body, w.body) {
			s.c.Outcome("observed: top-level index.html without base URL is served directly at index.html (no redirect; not judged)")
			return true
		}
		return s.fail("index.html's own URL does not redirect to its directory URL", w.what+": 3xx with Location -> "+w.redirTo.String(), fmt.Sprintf("status %d Location %q body %d bytes", status, hdr.Get("Location"), len(body)))
	}
	if status != w.status {
		return s.fail("exchange has the wrong status", fmt.Sprintf("%s: status %d", w.what, w.status), fmt.Sprint("status ", status))
	}
	if bytes.Equal(body, w.body) {
		return true
	}
	for _, a := range w.alts {
		if bytes.Equal(body, a) {
			return true
		}
	}
	return s.fail("exchange body differs from the source bytes", fmt.Sprintf("%s: %d bytes %s", w.what, len(w.body), hx(w.body)), fmt.Sprintf("%d bytes %s", len(body), hx(body)))
}

// inspect reads the current bundle file with the library and compares it with the
// model (artifact inspection; acceptance itself is judged by dump-bundle).
func (s *c20Sess) inspect(m *c20Model) bool {
	if m.hasIB {
		return true // the bundle part is byte-identical to the file checked before (stepSignIB)
	}
	s.c.Eval()
	data := s.read(m.file)
	if !bytes.HasPrefix(data, c20Magic[m.ver]) {
		return s.fail("bundle does not start with the magic of the requested version", "version "+m.ver+" magic "+hx(c20Magic[m.ver]), hx(data[:min(len(data), 20)]))
	}
	b, err := bundle.Read(bytes.NewReader(data))
	if err != nil {
		return s.fail("bundle accepted by dump-bundle cannot be read back for inspection", "bundle.Read ok", err.Error())
	}
	if string(b.Version) != m.ver {
		return s.fail("bundle has the wrong version", m.ver, string(b.Version))
	}
	if m.primary != nil {
		if b.PrimaryURL == nil {
			return s.fail("bundle lost its primary URL", m.primary.String(), "none")
		}
		if t, err := refurl.Locate(m.base, b.PrimaryURL.String()); err != nil || t != *m.primary {
			return s.fail("bundle has a different primary URL than requested", m.primary.String(), b.PrimaryURL.String())
		}
	}
	var verifier *signature.Verifier
	if (b.Signatures != nil) != (m.auths > 0) {
		return s.fail("presence of the signatures section differs from the signing history", fmt.Sprint("authorities: ", m.auths), fmt.Sprint("signatures section present: ", b.Signatures != nil))
	}
	if b.Signatures != nil {
		if len(b.Signatures.Authorities) != m.auths || len(b.Signatures.VouchedSubsets) != len(m.subsets) {
			return s.fail("signatures section does not hold one vouched subset and one chain per signing run", fmt.Sprintf("%d authorities, %d subsets", m.auths, len(m.subsets)), fmt.Sprintf("%d authorities, %d subsets", len(b.Signatures.Authorities), len(b.Signatures.VouchedSubsets)))
		}
		verifier, err = signature.NewVerifier(b.Signatures, time.Now(), b.Version)
		if err != nil {
			return s.fail("signatures section written by sign-bundle does not verify", "NewVerifier ok", err.Error())
		}
		for i, meta := range m.subsets {
			ss := verifier.VerifiedSignedSubsets[i]
			if d := ss.Expires.Sub(ss.Date); d != meta.expire {
				return s.fail("sign-bundle -expire is not honoured in the signed subset", meta.expire.String(), d.String())
			}
			if meta.date != nil && !ss.Date.Equal(*meta.date) {
				return s.fail("sign-bundle -date is not honoured in the signed subset", meta.date.String(), ss.Date.String())
			}
			if ss.ValidityUrl == nil || ss.ValidityUrl.String() != meta.validity {
				return s.fail("sign-bundle -validityUrl is not honoured in the signed subset", meta.validity, fmt.Sprint(ss.ValidityUrl))
			}
		}
	}
	used := make([]bool, len(m.wants))
	for _, e := range b.Exchanges {
		u := e.Request.URL.String()
		t, err := refurl.Locate(m.base, u)
		if err != nil {
			return s.fail("an exchange URL is not validly percent-encoded", m.wantList(), u+": "+err.Error())
		}
		idx := m.find(t, used, e.Response.Body)
		if idx < 0 {
			return s.fail("bundle holds an exchange under a URL that is not base + percent-encoded relative path of a file", m.wantList(), fmt.Sprintf("URL %q = %v", u, t))
		}
		used[idx] = true
		w := m.wants[idx]
		body := e.Response.Body
		hdr := e.Response.Header
		if sg, ok := m.signed[idx]; ok {
			res, err := verifier.VerifyExchange(e)
			if err != nil || res == nil {
				return s.fail("an exchange the certificate covers is not verifiably signed", w.what+" signed", fmt.Sprintf("result=%v err=%v", res, err))
			}
			if len(res.VerifiedPayload) > 0 { // (mi-sha256-03 encodes an empty body as an empty body: nothing to observe)
				if len(body) < 8 || binary.BigEndian.Uint64(body[:8]) != uint64(sg.rs) {
					return s.fail("sign-bundle -miRecordSize is not honoured (first bytes of the signed body)", fmt.Sprintf("record size %d for %s", sg.rs, w.what), hx(body[:min(len(body), 8)]))
				}
			}
			if res.Authority != b.Signatures.Authorities[sg.auth] {
				return s.fail("exchange is attributed to the wrong authority", fmt.Sprintf("%s: authority #%d", w.what, sg.auth), "another certificate")
			}
			body = res.VerifiedPayload
			hdr = hdr.Clone()
			hdr.Del("Digest")
			hdr.Del("Content-Encoding")
		} else if verifier != nil {
			if res, err := verifier.VerifyExchange(e); err != nil || res != nil {
				return s.fail("an exchange no signer covers carries a signature", w.what+" not signed", fmt.Sprintf("result=%v err=%v", res, err))
			}
		}
		if !s.checkResponse(m, w, u, e.Response.Status, hdr, body) {
			return false
		}
	}
	for i, w := range m.wants {
		if !used[i] {
			return s.fail("bundle has no exchange for a file / entry", m.wantList(), "missing: "+w.what+" -> "+w.target.String())
		}
	}
	return true
}

type c20DumpEx struct {
	url, marker, status, length string
}

func c20ParseDump(out string) (ver, primary, sigErr string, exs []c20DumpEx) {
	marker := ""
	for _, l := range strings.Split(out, "\n") {
		switch {
		case strings.HasPrefix(l, "Version: "):
			ver = l[len("Version: "):]
		case strings.HasPrefix(l, "Primary URL: "):
			primary = l[len("Primary URL: "):]
		case strings.HasPrefix(l, "Signature verification error"):
			sigErr = l
		case l == "":
			marker = ""
		case strings.HasPrefix(l, "[Signed with certificate") || l == "[Not signed]" || strings.HasPrefix(l, "[Response verification error"):
			marker = l
		case strings.HasPrefix(l, "> :url: "):
			exs = append(exs, c20DumpEx{url: l[len("> :url: "):], marker: marker})
			marker = ""
		case strings.HasPrefix(l, "< :status: ") && len(exs) > 0 && exs[len(exs)-1].status == "":
			exs[len(exs)-1].status = l[len("< :status: "):]
		case strings.HasPrefix(l, "< [len(Body)]: ") && len(exs) > 0:
			exs[len(exs)-1].length = l[len("< [len(Body)]: "):]
		}
	}
	return
}

// stepDump runs dump-bundle on the current file: the downstream judgement.
func (s *c20Sess) stepDump(m *c20Model) bool {
	r := s.run("dump-bundle", nil, nil, "-i", m.file, "-contentText=false")
	s.c.Eval()
	if m.hasIB {
		// dump-bundle declines integrity-block bundles by design: recorded, not judged
		if !r.ok() && strings.Contains(string(r.stderr)+string(r.stdout), "integrity block") {
			s.c.Outcome("dump-bundle: declines an integrity-block bundle (by design)")
		} else {
			s.c.Outcome("dump-bundle: other answer on an integrity-block bundle (not judged)")
		}
		return true
	}
	if !r.ok() {
		s.c.Outcome("dump-bundle: REJECTS the bundle")
		return s.fail("dump-bundle rejects the bundle the upstream tool wrote", "exit 0 and every URL listed", r.brief())
	}
	ver, primary, sigErr, exs := c20ParseDump(string(r.stdout))
	if ver != m.ver {
		return s.fail("dump-bundle reports another version than requested", m.ver, ver)
	}
	if m.primary != nil {
		if t, err := refurl.Locate(m.base, primary); err != nil || t != *m.primary {
			return s.fail("dump-bundle reports another primary URL than requested", m.primary.String(), primary)
		}
	}
	if sigErr != "" {
		s.c.Outcome("dump-bundle: signature verification error")
		return s.fail("dump-bundle cannot verify the signatures section sign-bundle wrote", "signatures verify", sigErr)
	}
	used := make([]bool, len(m.wants))
	for _, d := range exs {
		t, err := refurl.Locate(m.base, d.url)
		idx := -1
		if err == nil {
			idx = m.find(t, used, nil)
		}
		if idx < 0 {
			return s.fail("dump-bundle lists a URL that is not base + percent-encoded relative path of a file", m.wantList(), fmt.Sprintf("URL %q = %v (err %v)", d.url, t, err))
		}
		used[idx] = true
		wantMarker := ""
		if m.auths > 0 {
			wantMarker = "[Not signed]"
			if sg, ok := m.signed[idx]; ok {
				wantMarker = fmt.Sprintf("[Signed with certificate #%d]", sg.auth)
			}
		}
		if d.marker != wantMarker {
			return s.fail("dump-bundle does not confirm the signature state of an exchange", fmt.Sprintf("%s: %q", m.wants[idx].what, wantMarker), fmt.Sprintf("%q", d.marker))
		}
		w := m.wants[idx]
		if _, sg := m.signed[idx]; !sg && !w.redirect && len(w.alts) == 0 && !m.shared(idx) {
			if d.status != strconv.Itoa(w.status) || d.length != strconv.Itoa(len(w.body)) {
				return s.fail("dump-bundle shows another status or body length than the source", fmt.Sprintf("%s: status %d, %d bytes", w.what, w.status, len(w.body)), fmt.Sprintf("status %s, %s bytes", d.status, d.length))
			}
		}
	}
	for i, w := range m.wants {
		if !used[i] {
			return s.fail("dump-bundle does not list the URL of a file / entry", m.wantList(), "missing: "+w.what+" -> "+w.target.String())
		}
	}
	s.c.Outcome("dump-bundle: accepts, every URL listed")
	return true
}

// ---------------------------------------------------------------------------
// signing steps
// ---------------------------------------------------------------------------

type c20SSOpts struct {
	id       *c20Ident
	chain    bool   // certificate file holds leaf + CA
	keyForm  string // sec1 | pkcs8 | encpkcs8
	rs       int    // 0 = flag not given (default 4096)
	expire   string // "" = flag not given (default 1h)
	explicit bool   // explicit -date ten minutes ago
}

func (o c20SSOpts) String() string {
	return fmt.Sprintf("ss(%s,chain=%v,%s,rs=%d,expire=%s,date-explicit=%v)", o.id.name, o.chain, o.keyForm, o.rs, o.expire, o.explicit)
}

// stepSignSS: gen-certurl -> sign-bundle signatures-section -> dump-bundle.
// Returns false when the pipeline cannot be continued (failure or un-modelled state).
func (s *c20Sess) stepSignSS(m *c20Model, o c20SSOpts) bool {
	tag := fmt.Sprintf("%s-%d", o.id.name, m.nout+1)
	pem := o.id.x.CertPEM
	nchain := 1
	if o.chain {
		pem, nchain = o.id.x.ChainPEM, 2
	}
	s.write("chain-"+tag+".pem", []byte(pem))
	s.write("ocsp-"+tag+".der", []byte("ocsp\n"))
	s.write("key-"+tag+".pem", []byte(o.id.keyPEM(o.keyForm)))
	rc := s.run("gen-certurl", nil, nil, "-pem", "chain-"+tag+".pem", "-ocsp", "ocsp-"+tag+".der")
	if !rc.ok() {
		return s.fail("gen-certurl refuses a fixture certificate chain", "exit 0", rc.brief())
	}
	s.write("cert-"+tag+".cbor", rc.stdout)
	out := m.next("signed")
	validity := "https://a.test/resource.validity.msg"
	args := []string{"signatures-section", "-i", m.file, "-o", out, "-certificate", "cert-" + tag + ".cbor", "-privateKey", "key-" + tag + ".pem", "-validityUrl", validity}
	meta := c20SigMeta{expire: time.Hour, validity: validity}
	rs := 4096
	if o.rs != 0 {
		rs = o.rs
		args = append(args, "-miRecordSize", strconv.Itoa(o.rs))
	}
	if o.expire != "" {
		args = append(args, "-expire", o.expire)
		meta.expire, _ = time.ParseDuration(o.expire)
	}
	if o.explicit {
		d := time.Now().Add(-10 * time.Minute).UTC().Truncate(time.Second)
		meta.date = &d
		args = append(args, "-date", d.Format(time.RFC3339))
	}
	r := s.run("sign-bundle", nil, c20KeyEnv(o.keyForm), args...)
	s.c.Eval()
	// reference-side expectation
	var covered []int
	resign, dup := false, false
	seen := map[refurl.Target]bool{}
	for i, w := range m.wants {
		if !o.id.covers(w.target.Host) {
			continue
		}
		covered = append(covered, i)
		if _, ok := m.signed[i]; ok {
			resign = true
		}
		if seen[w.target] {
			dup = true
		}
		seen[w.target] = true
	}
	switch {
	case m.hasIB:
		// a file with an integrity block in front is not a bundle sign-bundle signatures-section documents support for
		s.c.Outcome(fmt.Sprintf("sign-bundle signatures-section on an integrity-block bundle: ok=%d (not judged)", c20Bool(r.ok())))
		return !r.ok() // refused: nothing changed, the pipeline goes on; accepted: a state the model does not describe
	case resign:
		// the covered responses already carry Digest / Content-Encoding of an earlier signer
		s.c.Outcome(fmt.Sprintf("sign-bundle signatures-section, second signer for the same host: ok=%d (not judged)", c20Bool(r.ok())))
		return !r.ok()
	case dup:
		s.c.Outcome(fmt.Sprintf("sign-bundle signatures-section, several variants of one covered URL: ok=%d (not judged)", c20Bool(r.ok())))
		return !r.ok()
	}
	if !r.ok() {
		s.c.Outcome("sign-bundle signatures-section: REFUSES")
		return s.fail("sign-bundle signatures-section refuses a bundle the upstream tool wrote", "exit 0", r.brief())
	}
	s.c.Outcome("sign-bundle signatures-section: ok")
	if m.signed == nil {
		m.signed = map[int]c20Signed{}
	}
	for _, i := range covered {
		m.signed[i] = c20Signed{auth: m.auths, rs: rs}
	}
	m.auths += nchain
	m.subsets = append(m.subsets, meta)
	m.file = out
	return s.stepDump(m) && s.inspect(m)
}

func c20Bool(b bool) int {
	if b {
		return 1
	}
	return 0
}

// c20BundleID: reference Web Bundle ID = lower-case unpadded base32 of key || 00 01 02.
func c20BundleID(pub ed25519.PublicKey) string {
	raw := append(append([]byte{}, pub...), 0, 1, 2)
	return strings.ToLower(base32.StdEncoding.WithPadding(base32.NoPadding).EncodeToString(raw))
}

var c20IBMagic = []byte{0xf0, 0x9f, 0x96, 0x8b, 0xf0, 0x9f, 0x93, 0xa6}

// stepSignIB: sign-bundle integrity-block -> (dump-bundle declines).
func (s *c20Sess) stepSignIB(m *c20Model, ed *fixtures.EdIdentity, encrypted bool) bool {
	keyName := fmt.Sprintf("ed-%s-%d.pem", ed.Name, m.nout+1)
	var env []string
	if encrypted {
		s.write(keyName, []byte(fixtures.Ed1KeyEncPEM))
		env = []string{"WEB_BUNDLE_SIGNING_PASSPHRASE=" + fixtures.Passphrase}
	} else {
		s.write(keyName, []byte(ed.KeyPEM))
	}
	out := m.next("ib")
	before := s.read(m.file)
	r := s.run("sign-bundle", nil, env, "integrity-block", "-i", m.file, "-o", out, "-privateKey", keyName)
	s.c.Eval()
	if m.hasIB {
		if r.ok() {
			s.c.Outcome("sign-bundle integrity-block: ACCEPTS an already signed bundle")
			return s.fail("sign-bundle integrity-block accepts a bundle that already has an integrity block", "refusal (exit != 0)", r.brief())
		}
		s.c.Outcome("sign-bundle integrity-block: refuses an already signed bundle")
		return true
	}
	if !r.ok() {
		s.c.Outcome("sign-bundle integrity-block: REFUSES")
		return s.fail("sign-bundle integrity-block refuses a bundle the upstream tool wrote", "exit 0", r.brief())
	}
	id := c20BundleID(ed.Pub)
	if !strings.Contains(string(r.stdout), "Web Bundle ID: "+id+"\n") {
		return s.fail("sign-bundle integrity-block prints another Web Bundle ID than the key's", id, c20Clip(r.stdout, 300))
	}
	after := s.read(out)
	if !bytes.HasSuffix(after, before) || len(after) <= len(before) {
		return s.fail("integrity-block output is not a block followed by the unchanged bundle", fmt.Sprintf("... || %d original bytes", len(before)), fmt.Sprintf("%d bytes", len(after)))
	}
	ib := after[:len(after)-len(before)]
	it, n, err := refcbor.Decode(ib)
	bad := func(why string) bool {
		return s.fail("integrity block written by sign-bundle is not a valid signed block", "[magic, version, [[{ed25519PublicKey: key}, signature over hash||empty block||attributes]]]", why+": "+hx(ib))
	}
	if err != nil || n != len(ib) || it.Major != refcbor.Array || len(it.Elems) != 3 {
		return bad("shape")
	}
	if !bytes.Equal(it.Elems[0].Str, c20IBMagic) || it.Elems[0].Major != refcbor.Bytes || !bytes.Equal(it.Elems[1].Str, []byte{'1', 'b', 0, 0}) {
		return bad("magic/version")
	}
	st := it.Elems[2]
	if st.Major != refcbor.Array || len(st.Elems) != 1 || st.Elems[0].Major != refcbor.Array || len(st.Elems[0].Elems) != 2 {
		return bad("signature stack")
	}
	attrs, sig := st.Elems[0].Elems[0], st.Elems[0].Elems[1]
	if attrs.Major != refcbor.Map || len(attrs.Elems) != 2 || string(attrs.Elems[0].Str) != "ed25519PublicKey" || !bytes.Equal(attrs.Elems[1].Str, ed.Pub) {
		return bad("attributes")
	}
	if refcbor.Deterministic(ib) != nil {
		return bad("not deterministic CBOR")
	}
	// data to be signed: len||sha512(bundle) || len||block with an empty stack || len||attributes
	h := sha512.Sum512(before)
	empty := refcbor.EncArray(refcbor.EncBytes(c20IBMagic), refcbor.EncBytes([]byte{'1', 'b', 0, 0}), refcbor.EncArray())
	var tbs []byte
	for _, part := range [][]byte{h[:], empty, attrs.Raw} {
		var l [8]byte
		binary.BigEndian.PutUint64(l[:], uint64(len(part)))
		tbs = append(append(tbs, l[:]...), part...)
	}
	if !ed25519.Verify(ed.Pub, tbs, sig.Str) {
		return bad("Ed25519 signature does not verify")
	}
	s.c.Outcome("sign-bundle integrity-block: ok, block verifies")
	m.hasIB = true
	m.file = out
	return s.stepDump(m)
}

// ---------------------------------------------------------------------------
// (a) directory trees
// ---------------------------------------------------------------------------

type c20Name struct {
	rel  string
	size int
}

// one representative per class of the property's quantifier
var c20NamesQuick = []c20Name{
	{"a.txt", 23},        // plain
	{"a b.txt", 24},      // space
	{"h#frag.txt", 25},   // '#'
	{"a?b", 26},          // '?'
	{"p%41", 27},         // '%' followed by hex digits
	{"x:y", 28},          // ':' in a top-level name
	{"d/x:y", 29},        // ':' in a nested name
	{"é.txt", 30},        // non-ASCII (UTF-8)
	{".hidden", 31},      // dot-file
	{"d/e.txt", 32},      // nested directory
	{"index.html", 33},   // index.html at top level
	{"s/index.html", 34}, // index.html in a sub-directory
	{"empty", 0},         // empty file
	// index.html below directories whose names need escaping: the directory URL and the
	// redirect target are built from the directory name, not only from the file name
	{"café/index.html", 40}, // non-ASCII directory
	{"d#x/index.html", 41},  // '#' in the directory name
	{"q r/index.html", 42},  // space in the directory name
	{"p%41/index.html", 43}, // '%41' in the directory name
	{"u?v/index.html", 44},  // '?' in the directory name
}

var c20NamesThorough = append(append([]c20Name{}, c20NamesQuick...),
	c20Name{"x:y/z", 35},       // ':' in a directory name
	c20Name{"%zz", 36},         // '%' not followed by hex digits
	c20Name{"a+b&c=d", 37},     // sub-delims
	c20Name{"q r/s t.txt", 38}, // spaces in directory and file
	c20Name{"a\\b", 39},        // backslash
	c20Name{"big.bin", 5000},   // several MI records when signed
)

type c20DirCfg struct{ ver, base string }

var c20DirCfgs = []c20DirCfg{
	{"b2", ""}, {"b2", "https://a.test/"}, {"b2", "https://a.test/base/"},
	{"b1", "https://a.test/"}, {"b1", "https://a.test/base/"},
}

func c20BaseName(b string) string {
	if b == "" {
		return "none"
	}
	return b
}

// c20DirWants: the exchanges the property prescribes for a tree.
func c20DirWants(base string, rels []string, data map[string][]byte) []c20Want {
	var ws []c20Want
	for _, rel := range rels {
		dir, file := "", rel
		if i := strings.LastIndexByte(rel, '/'); i >= 0 {
			dir, file = rel[:i+1], rel[i+1:]
		}
		if file == "index.html" {
			dt := refurl.Expected(base, dir)
			ws = append(ws,
				c20Want{what: "directory URL of " + rel, ref: refurl.Join(base, dir), target: dt, status: 200, body: data[rel]},
				c20Want{what: "own URL of " + rel, ref: refurl.Join(base, rel), target: refurl.Expected(base, rel), redirect: true, redirTo: dt,
					body: data[rel], lenient: base == "" && dir == ""})
			continue
		}
		ws = append(ws, c20Want{what: "file " + rel, ref: refurl.Join(base, rel), target: refurl.Expected(base, rel), status: 200, body: data[rel]})
	}
	return ws
}

// c20RefSelfCheck: the reference spelling must itself point at the prescribed
// location (a slip in refurl would otherwise go unnoticed).
func (s *c20Sess) refSelfCheck(base string, ws []c20Want) bool {
	for _, w := range ws {
		if t, err := refurl.Locate(base, w.ref); err != nil || t != w.target {
			s.c.Fail(s.key+":ref", "harness error: refurl.Join does not point at refurl.Expected", w.ref, w.target.String(), fmt.Sprint(t, err))
			return false
		}
	}
	return true
}

func c20PathConflict(a, b string) bool {
	return a == b || strings.HasPrefix(a, b+"/") || strings.HasPrefix(b, a+"/")
}

// c20MakeTree writes the files below site/ and returns the model of the bundle
// gen-bundle must produce; "" primary = no unambiguous primary URL available.
func (s *c20Sess) makeTree(names []c20Name, seed int64) (rels []string, data map[string][]byte) {
	data = map[string][]byte{}
	for i, n := range names {
		data[n.rel] = pattern(n.size, seed+int64(i)*7919+int64(n.size))
		s.write("site/"+n.rel, data[n.rel])
		rels = append(rels, n.rel)
	}
	sort.Strings(rels)
	s.note("# tree site/: %q (sizes %v)", rels, func() (l []int) {
		for _, r := range rels {
			l = append(l, len(data[r]))
		}
		return
	}())
	return
}

// c20Primary picks the -primaryURL for b1: the first 200 exchange whose reference
// spelling is unambiguous (no ':' in the path, the one pchar whose escaping is a
// matter of taste - gen-bundle compares the primary URL as a string).
func c20Primary(ws []c20Want) *c20Want {
	for i := range ws {
		if !ws[i].redirect && !strings.Contains(ws[i].target.Path, ":") {
			return &ws[i]
		}
	}
	return nil
}

func c20GenDir(s *c20Sess, cfg c20DirCfg, ws []c20Want) (*c20Model, bool) {
	m := &c20Model{ver: cfg.ver, base: cfg.base, wants: ws, file: "out.wbn"}
	args := []string{"-dir", "site", "-o", "out.wbn", "-version", cfg.ver}
	if cfg.base != "" {
		args = append(args, "-baseURL", cfg.base)
	}
	if cfg.ver == "b1" {
		p := c20Primary(ws)
		args = append(args, "-primaryURL", p.ref)
		t := p.target
		m.primary = &t
	}
	r := s.run("gen-bundle", nil, nil, args...)
	s.c.Eval()
	if !r.ok() {
		s.c.Outcome("gen-bundle -dir: REFUSES")
		return m, s.fail("gen-bundle refuses a directory tree within the documented range", "exit 0 and a bundle with one exchange per file", r.brief())
	}
	s.c.Outcome("gen-bundle -dir: ok")
	return m, true
}

func c20DirRun(c *mc.Ctx) {
	names := c20NamesQuick
	if !c.Quick() {
		names = c20NamesThorough
	}
	i := c.Free(len(names)+2, "name")
	var chosen []c20Name
	if i >= len(names) {
		// a tree with many files: the number of exchanges crosses the one-byte CBOR head of the
		// index map and the responses array (24), thorough also the two-byte one (256)
		n := 30
		if i == len(names)+1 {
			n = 23
			if !c.Quick() {
				n = 260
			}
		}
		for k := 0; k < n; k++ {
			chosen = append(chosen, c20Name{fmt.Sprintf("m%d/f%03d.txt", k%3, k), 1 + k%40})
		}
	} else {
		chosen = []c20Name{names[i]}
	}
	if !c.Quick() && i < len(names) {
		if k := c.Free(len(names)-i, "second"); k > 0 {
			chosen = append(chosen, names[i+k])
		}
	}
	cfg := c20DirCfgs[c.Free(len(c20DirCfgs), "config")]
	var nl []string
	for _, n := range chosen {
		nl = append(nl, n.rel)
	}
	// in the key, names that read differently as a URL reference than as a path ('#', '?', '%',
	// ':' in the first segment) come first: stable key prefixes for known findings
	special := func(n string) bool {
		return strings.ContainsAny(n, "#?%") || strings.Contains(strings.SplitN(n, "/", 2)[0], ":")
	}
	sort.SliceStable(nl, func(a, b int) bool { return special(nl[a]) && !special(nl[b]) })
	key := fmt.Sprintf("C20/dir:name=%s:%s:base=%s", strings.Join(nl, "+"), cfg.ver, c20BaseName(cfg.base))
	if i >= len(names) {
		key = fmt.Sprintf("C20/dir:name=%d-plain-files:%s:base=%s", len(chosen), cfg.ver, c20BaseName(cfg.base))
	}
	if len(chosen) == 2 && c20PathConflict(chosen[0].rel, chosen[1].rel) {
		c.Outcome("skipped: the two names cannot coexist (file vs directory)")
		return
	}
	// generator-side: b1 needs a primary URL whose spelling is not a matter of taste
	{
		var rels []string
		for _, n := range chosen {
			rels = append(rels, n.rel)
		}
		sort.Strings(rels)
		if cfg.ver == "b1" && c20Primary(c20DirWants(cfg.base, rels, map[string][]byte{})) == nil {
			c.Outcome("skipped: b1 tree without an unambiguously spelled primary URL")
			return
		}
	}
	s := c20NewSess(c, key)
	defer s.close()
	rels, data := s.makeTree(chosen, c.Seed)
	ws := c20DirWants(cfg.base, rels, data)
	if !s.refSelfCheck(cfg.base, ws) {
		return
	}
	c.Sample(key)
	m, ok := c20GenDir(s, cfg, ws)
	if !ok || !s.stepDump(m) || !s.inspect(m) {
		return
	}
	// downstream: sign-bundle integrity-block on the unsigned bundle (once ok, twice must fail) ...
	ibm := *m
	if !s.stepSignIB(&ibm, fixtures.Ed1, false) || !s.stepSignIB(&ibm, fixtures.Ed2, false) {
		return
	}
	// ... and sign-bundle signatures-section (record size 16, 7 days) -> dump-bundle
	if !s.stepSignSS(m, c20SSOpts{id: c20IdA, chain: true, keyForm: "sec1", rs: 16, expire: "168h"}) {
		return
	}
	c.Outcome("pipeline complete")
}

// ---------------------------------------------------------------------------
// (b) HAR captures
// ---------------------------------------------------------------------------

type c20HarEntry struct {
	id     string
	method string
	url    string
	reqH   [][2]string
	respH  [][2]string
	status int
	body   []byte
	b64    bool
}

func c20HarMenu(seed int64) []c20HarEntry {
	bin := pattern(40, seed+20)
	bin[0], bin[1] = 0xff, 0x00 // not valid UTF-8: must travel base64-encoded
	return []c20HarEntry{
		{id: "get", method: "GET", url: "https://a.test/", status: 200, respH: [][2]string{{"Content-Type", "text/html"}}, body: []byte("<p>one</p>")},
		{id: "b64", method: "GET", url: "https://a.test/img.bin", status: 404, respH: [][2]string{{"Content-Type", "application/octet-stream"}}, body: bin, b64: true},
		{id: "post", method: "POST", url: "https://a.test/post", status: 200, respH: [][2]string{{"Content-Type", "text/plain"}}, body: []byte("posted")},
		{id: "banned", method: "GET", url: "https://b.test/x?q=1", status: 200,
			reqH:  [][2]string{{":method", "GET"}, {"Cookie", "a=b"}, {"Accept", "*/*"}},
			respH: [][2]string{{":status", "200"}, {"Set-Cookie", "k=v"}, {"Content-Type", "text/plain"}, {"X-Kept", "yes"}}, body: []byte("with banned headers")},
		{id: "dup", method: "GET", url: "https://a.test/", status: 200, respH: [][2]string{{"Content-Type", "text/html"}}, body: []byte("<p>two, same URL</p>")},
		{id: "var-en", method: "GET", url: "https://a.test/v", status: 200, respH: [][2]string{{"Content-Type", "text/plain"}, {"Variants", "Accept-Language;en;fr"}, {"Variant-Key", "en"}}, body: []byte("english")},
		{id: "var-fr", method: "GET", url: "https://a.test/v", status: 200, respH: [][2]string{{"Content-Type", "text/plain"}, {"Variants", "Accept-Language;en;fr"}, {"Variant-Key", "fr"}}, body: []byte("francais")},
		// entries gen-bundle drops (a form POST, the status 0 browsers record for aborted requests) for the SAME URL
		// as the plain GET entry "get": in whichever order they come, the GET stays
		{id: "post-root", method: "POST", url: "https://a.test/", status: 200, respH: [][2]string{{"Content-Type", "text/plain"}}, body: []byte("posted to the root")},
		// HTTP/2 pseudo headers that do NOT lead the header lists (HAR exporters keep the order of the wire or sort by name;
		// proxies append their own): every ':' field is dropped wherever it stands
		{id: "pseudo-late", method: "GET", url: "https://a.test/late", status: 200,
			reqH:  [][2]string{{"Accept", "*/*"}, {":method", "GET"}, {":authority", "a.test"}},
			respH: [][2]string{{"Content-Type", "text/plain"}, {":status", "200"}, {"X-Kept", "yes"}, {":x-proxy-info", "1"}}, body: []byte("pseudo headers after regular ones")},
		{id: "status0-root", method: "GET", url: "https://a.test/", status: 0, respH: [][2]string{{"Content-Type", "text/html"}}, body: []byte("")},
	}
}

func c20HarJSON(es []c20HarEntry) []byte {
	nv := func(h [][2]string) []map[string]string {
		out := []map[string]string{}
		for _, kv := range h {
			out = append(out, map[string]string{"name": kv[0], "value": kv[1]})
		}
		return out
	}
	var entries []interface{}
	for _, e := range es {
		content := map[string]interface{}{"size": len(e.body), "mimeType": "x"}
		if e.b64 {
			content["encoding"] = "base64"
			content["text"] = base64.StdEncoding.EncodeToString(e.body)
		} else {
			content["text"] = string(e.body)
		}
		entries = append(entries, map[string]interface{}{
			"startedDateTime": "2020-01-01T00:00:00.000Z", "time": 1,
			"request":  map[string]interface{}{"method": e.method, "url": e.url, "httpVersion": "HTTP/1.1", "headers": nv(e.reqH), "cookies": []int{}, "queryString": []int{}, "headersSize": -1, "bodySize": 0},
			"response": map[string]interface{}{"status": e.status, "statusText": "", "httpVersion": "HTTP/1.1", "headers": nv(e.respH), "cookies": []int{}, "content": content, "redirectURL": "", "headersSize": -1, "bodySize": len(e.body)},
			"cache":    map[string]interface{}{}, "timings": map[string]interface{}{},
		})
	}
	if entries == nil {
		entries = []interface{}{}
	}
	b, _ := json.MarshalIndent(map[string]interface{}{"log": map[string]interface{}{"version": "1.2", "creator": map[string]string{"name": "verif", "version": "1"}, "entries": entries}}, "", " ")
	return b
}

func c20HasHeader(h [][2]string, name string) bool {
	for _, kv := range h {
		if strings.EqualFold(kv[0], name) {
			return true
		}
	}
	return false
}

// c20HarWants is the reference model of which entries become exchanges:
// non-GET entries are dropped; entries of one URL that all carry a Variants header
// are all kept (variants); otherwise one exchange per URL (which of the duplicates
// wins is not settled by the property: any of their bodies is accepted).
// multi reports that some URL keeps more than one exchange (gen-bundle may then
// legitimately refuse: b2 has no variants, b1 needs complete Variant-Key coverage).
func c20HarWants(es []c20HarEntry) (ws []c20Want, first string, multi bool) {
	type group struct {
		entries []c20HarEntry
		allVar  bool
	}
	groups := map[refurl.Target]*group{}
	var order []refurl.Target
	for _, e := range es {
		if e.method != "GET" {
			continue
		}
		if e.status < 100 || e.status > 999 {
			continue // no three-digit status: not a response a bundle can hold (gen-bundle drops the entry)
		}
		t, _ := refurl.Locate("", e.url)
		g := groups[t]
		if g == nil {
			g = &group{allVar: true}
			groups[t] = g
			order = append(order, t)
			if first == "" {
				first = e.url
			}
		}
		g.entries = append(g.entries, e)
		if !c20HasHeader(e.respH, "Variants") {
			g.allVar = false
		}
	}
	for _, t := range order {
		g := groups[t]
		if g.allVar {
			if len(g.entries) > 1 {
				multi = true
			}
			for _, e := range g.entries {
				ws = append(ws, c20Want{what: "HAR entry " + e.id + " " + e.url, ref: e.url, target: t, status: e.status, body: e.body, nohdr: true})
			}
			continue
		}
		w := c20Want{what: "HAR entry " + g.entries[0].id + " " + g.entries[0].url, ref: g.entries[0].url, target: t, status: g.entries[0].status, body: g.entries[0].body, nohdr: true}
		for _, e := range g.entries[1:] {
			w.alts = append(w.alts, e.body)
		}
		ws = append(ws, w)
	}
	return
}

func c20GenHar(s *c20Sess, ver string, es []c20HarEntry) (*c20Model, bool) {
	ws, first, multi := c20HarWants(es)
	var ids []string
	for _, e := range es {
		ids = append(ids, e.id)
	}
	s.note("# HAR entries: %v", ids)
	s.write("in.har", c20HarJSON(es))
	m := &c20Model{ver: ver, base: "", wants: ws, file: "out.wbn"}
	args := []string{"-har", "in.har", "-o", "out.wbn", "-version", ver}
	if ver == "b1" {
		args = append(args, "-primaryURL", first)
		t, _ := refurl.Locate("", first)
		m.primary = &t
	}
	r := s.run("gen-bundle", nil, nil, args...)
	s.c.Eval()
	if !r.ok() {
		if multi {
			s.c.Outcome("gen-bundle -har: refuses several entries (Variants) for one URL (not judged)")
			return m, false
		}
		s.c.Outcome("gen-bundle -har: REFUSES")
		return m, s.fail("gen-bundle refuses a HAR capture within the documented range", "exit 0 and a bundle", r.brief())
	}
	if multi {
		s.c.Outcome("gen-bundle -har: ok (variants)")
	} else {
		s.c.Outcome("gen-bundle -har: ok")
	}
	return m, true
}

func c20HarRun(c *mc.Ctx) {
	menu := c20HarMenu(c.Seed)
	maxN := c.Pick(2, 3)
	var es []c20HarEntry
	var ids []string
	for len(es) < maxN {
		k := c.Free(len(menu)+1, "entry")
		if k == 0 {
			break
		}
		es = append(es, menu[k-1])
		ids = append(ids, menu[k-1].id)
	}
	ver := []string{"b2", "b1"}[c.Free(2, "version")]
	sign := c.Free(2, "sign") == 1
	key := fmt.Sprintf("C20/har:%s:entries=%s", ver, strings.Join(ids, "+"))
	if sign {
		key += ":signed"
	}
	ws, _, _ := c20HarWants(es)
	if ver == "b1" && len(ws) == 0 {
		c.Outcome("skipped: b1 needs a primary URL and no entry survives")
		return
	}
	s := c20NewSess(c, key)
	defer s.close()
	c.Sample(key)
	m, ok := c20GenHar(s, ver, es)
	if !ok || !s.stepDump(m) || !s.inspect(m) {
		return
	}
	if sign && !s.stepSignSS(m, c20SSOpts{id: c20IdA, keyForm: "pkcs8", rs: 16}) {
		return
	}
	c.Outcome("pipeline complete")
}

// ---------------------------------------------------------------------------
// signing histories on three base bundles
// ---------------------------------------------------------------------------

type c20Op struct {
	name string
	do   func(s *c20Sess, m *c20Model) bool
}

var c20Ops = []c20Op{
	{"ssA", func(s *c20Sess, m *c20Model) bool {
		return s.stepSignSS(m, c20SSOpts{id: c20IdA, chain: true, keyForm: "sec1", rs: 16, expire: "168h"})
	}},
	{"ssB", func(s *c20Sess, m *c20Model) bool {
		return s.stepSignSS(m, c20SSOpts{id: c20IdB, keyForm: "pkcs8"})
	}},
	{"ssA2", func(s *c20Sess, m *c20Model) bool {
		return s.stepSignSS(m, c20SSOpts{id: c20IdA2, keyForm: "sec1", rs: 1, explicit: true})
	}},
	{"ssAenc", func(s *c20Sess, m *c20Model) bool {
		return s.stepSignSS(m, c20SSOpts{id: c20IdA, keyForm: "encpkcs8", rs: 16384, expire: "2h"})
	}},
	{"ibEd1", func(s *c20Sess, m *c20Model) bool { return s.stepSignIB(m, fixtures.Ed1, false) }},
	{"ibEd1enc", func(s *c20Sess, m *c20Model) bool { return s.stepSignIB(m, fixtures.Ed1, true) }},
	{"ibEd2", func(s *c20Sess, m *c20Model) bool { return s.stepSignIB(m, fixtures.Ed2, false) }},
}

var c20PipeTree = []c20Name{{"a.txt", 23}, {"a b.txt", 24}, {"d/e.txt", 5000}, {"s/index.html", 34}, {"empty", 0}, {"é.txt", 30}}

func c20PipeRun(c *mc.Ctx) {
	base := c.Free(3, "base")
	depth := c.Pick(2, 3)
	menu := c20Ops
	if c.Quick() {
		menu = []c20Op{c20Ops[0], c20Ops[1], c20Ops[2], c20Ops[4], c20Ops[5]} // thorough adds ssAenc and ibEd2
	}
	var ops []c20Op
	var names []string
	for len(ops) < depth {
		k := c.Free(len(menu)+1, "op")
		if k == 0 {
			break
		}
		ops = append(ops, menu[k-1])
		names = append(names, menu[k-1].name)
	}
	baseName := []string{"dir-b2", "dir-b1", "har-b2"}[base]
	key := fmt.Sprintf("C20/pipe:%s:%s", baseName, strings.Join(names, ">"))
	s := c20NewSess(c, key)
	defer s.close()
	c.Sample(key)
	var m *c20Model
	ok := false
	switch base {
	case 0, 1:
		cfg := c20DirCfg{"b2", "https://a.test/"}
		if base == 1 {
			cfg = c20DirCfg{"b1", "https://a.test/base/"}
		}
		rels, data := s.makeTree(c20PipeTree, c.Seed)
		ws := c20DirWants(cfg.base, rels, data)
		m, ok = c20GenDir(s, cfg, ws)
	case 2:
		menu := c20HarMenu(c.Seed)
		m, ok = c20GenHar(s, "b2", []c20HarEntry{menu[0], menu[1], menu[3]})
	}
	if !ok || !s.stepDump(m) || !s.inspect(m) {
		return
	}
	for _, op := range ops {
		if !op.do(s, m) {
			if !s.failed {
				c.Outcome("pipeline stopped at a state the model does not continue from")
			}
			return
		}
	}
	c.Outcome("pipeline complete")
}

// ---------------------------------------------------------------------------
// (c) gen-certurl -> dump-certurl
// ---------------------------------------------------------------------------

func c20SPKI(id *c20Ident, which int) string {
	cert := id.x.Leaf
	if which == 1 {
		cert = id.x.CA
	}
	sum := sha256.Sum256(cert.RawSubjectPublicKeyInfo)
	return base64.StdEncoding.EncodeToString(sum[:])
}

func c20CertRun(c *mc.Ctx) {
	id := []*c20Ident{c20IdA, c20IdB}[c.Free(2, "identity")]
	nchain := 1 + c.Free(2, "chainlen")
	nsct := c.Free(4, "sct") - 1 // -1 = no -sctDir
	ocsp := []byte("ocsp\n")
	ocspName := "dummy"
	if c.Free(2, "ocsp") == 1 {
		ocsp, ocspName = pattern(300, c.Seed+5), "300B"
	}
	viaStdin := c.Free(2, "input") == 0
	key := fmt.Sprintf("C20/certurl:%s:chain=%d:sct=%d:ocsp=%s:stdin=%v", id.name, nchain, nsct, ocspName, viaStdin)
	s := c20NewSess(c, key)
	defer s.close()
	c.Sample(key)
	pem := id.x.CertPEM
	ders := [][]byte{id.x.Leaf.Raw}
	if nchain == 2 {
		pem = id.x.ChainPEM
		ders = append(ders, id.x.CA.Raw)
	}
	s.write("chain.pem", []byte(pem))
	s.write("ocsp.der", ocsp)
	args := []string{"-pem", "chain.pem", "-ocsp", "ocsp.der"}
	var scts [][]byte
	if nsct >= 0 {
		os.MkdirAll(s.path("scts"), 0755)
		for i := 0; i < nsct; i++ {
			sct := append([]byte{0}, pattern(32+10+i, c.Seed+int64(40+i))...) // version 0, 32-byte log id, rest
			scts = append(scts, sct)
			s.write(fmt.Sprintf("scts/log%d.sct", i+1), sct)
		}
		if nsct > 0 {
			s.write("scts/README.txt", []byte("not an SCT")) // only *.sct files count
		}
		args = append(args, "-sctDir", "scts")
	}
	s.note("# chain of %d certificate(s) of %s, %d-byte OCSP file, SCT files: %d", nchain, id.name, len(ocsp), nsct)
	r := s.run("gen-certurl", nil, nil, args...)
	c.Eval()
	if !r.ok() {
		c.Outcome("gen-certurl: REFUSES")
		s.fail("gen-certurl refuses a chain / OCSP file / SCT directory within the documented range", "exit 0 and cert-chain+cbor on stdout", r.brief())
		return
	}
	c.Outcome("gen-certurl: ok")
	// inspection with the reference reader: every flag is honoured in the artifact
	entries, err := refcert.Parse(r.stdout)
	if err != nil {
		s.fail("gen-certurl output is not cert-chain+cbor (reference reader)", "parses", err.Error())
		return
	}
	if len(entries) != len(ders) {
		s.fail("gen-certurl output holds another number of certificates than the PEM file", fmt.Sprint(len(ders)), fmt.Sprint(len(entries)))
		return
	}
	for i := range ders {
		if !bytes.Equal(entries[i].Cert, ders[i]) {
			s.fail("gen-certurl output holds other certificate bytes than the PEM file", hx(ders[i]), hx(entries[i].Cert))
			return
		}
	}
	if !bytes.Equal(entries[0].OCSP, ocsp) {
		s.fail("gen-certurl -ocsp content is not what the chain carries", hx(ocsp), hx(entries[0].OCSP))
		return
	}
	var wantSCT []byte
	if nsct >= 0 {
		wantSCT, _ = refcert.SerializeSCTList(scts)
	}
	if !bytes.Equal(entries[0].SCT, wantSCT) || (entries[0].SCT == nil) != (wantSCT == nil) {
		s.fail("gen-certurl -sctDir content is not what the chain carries", fmt.Sprintf("RFC 6962 list of the %d *.sct files: %s", nsct, hx(wantSCT)), hx(entries[0].SCT))
		return
	}
	// downstream
	var d c20Res
	if viaStdin {
		d = s.run("dump-certurl", r.stdout, nil)
	} else {
		s.write("cert.cbor", r.stdout)
		d = s.run("dump-certurl", nil, nil, "-i", "cert.cbor")
	}
	c.Eval()
	if !d.ok() {
		c.Outcome("dump-certurl: REJECTS")
		s.fail("dump-certurl rejects the chain gen-certurl wrote", "exit 0", d.brief())
		return
	}
	out := string(d.stdout)
	pos := 0
	for i := range ders {
		for _, line := range []string{fmt.Sprintf("Certificate #%d:\n", i), "  SubjectPublicKeyInfo hash: " + c20SPKI(id, i) + "\n"} {
			j := strings.Index(out[pos:], line)
			if j < 0 {
				s.fail("dump-certurl does not list every certificate of the chain", strings.TrimSpace(line), c20Clip(d.stdout, 800))
				return
			}
			pos += j + len(line)
		}
	}
	if strings.Contains(out, fmt.Sprintf("Certificate #%d:", len(ders))) {
		s.fail("dump-certurl lists more certificates than the chain has", fmt.Sprint(len(ders)), c20Clip(d.stdout, 800))
		return
	}
	if !strings.Contains(out, "OCSP response:\n") || strings.Contains(out, "SCT:\n") != (nsct >= 0) {
		s.fail("dump-certurl does not show the OCSP / SCT parts the chain was generated with", fmt.Sprintf("OCSP response shown, SCT shown = %v", nsct >= 0), c20Clip(d.stdout, 800))
		return
	}
	pos = 0
	for _, sct := range scts {
		line := "    LogID: " + base64.StdEncoding.EncodeToString(sct[1:33]) + "\n"
		j := strings.Index(out[pos:], line)
		if j < 0 {
			s.fail("dump-certurl does not list every SCT of the -sctDir directory in order", strings.TrimSpace(line), c20Clip(d.stdout, 800))
			return
		}
		pos += j + len(line)
	}
	if strings.Count(out, "    LogID: ") != len(scts) {
		s.fail("dump-certurl lists another number of SCTs than the -sctDir directory has", fmt.Sprint(len(scts)), c20Clip(d.stdout, 800))
		return
	}
	c.Outcome("dump-certurl: accepts, every certificate and SCT listed")
}

// ---------------------------------------------------------------------------
// (d) gen-signedexchange -> dump-signedexchange -verify
// ---------------------------------------------------------------------------

type c20Hdr struct {
	name   string
	values [][2]string
	// mayRefuse: the response is not storable by a shared cache in 1b3, so the
	// generator may (should) refuse it; whatever it emits must still verify.
	mayRefuseB3 bool
}

var c20Hdrs = []c20Hdr{
	{"none", nil, false},
	{"x-multi", [][2]string{{"X-Multi", "a"}, {"X-Multi", "b"}}, false},
	{"cc-public+max-age", [][2]string{{"Cache-Control", "public"}, {"Cache-Control", "max-age=60"}}, false},
	{"cc-public+no-store", [][2]string{{"Cache-Control", "public"}, {"Cache-Control", "no-store"}}, true},
	{"cc-no-store", [][2]string{{"Cache-Control", "no-store"}}, true},
}

type c20SxgKey struct {
	name string
	id   *c20Ident
	form string
}

var c20SxgKeys = []c20SxgKey{
	{"sec1", c20IdA, "sec1"}, {"pkcs8", c20IdA, "pkcs8"}, {"encpkcs8", c20IdA, "encpkcs8"},
	{"p384-sec1", c20IdB, "sec1"}, {"p384-pkcs8", c20IdB, "pkcs8"},
}

type c20SxgCase struct {
	ver      string
	hdr      c20Hdr
	key      c20SxgKey
	rs       int
	expire   string
	status   int
	clen     int
	explicit bool
	defaults bool // no -uri / -validityUrl / -certUrl / -miRecordSize / -expire flags at all
	leafOnly bool
	path     string // "" = /hello.html; otherwise a spelling of the -uri path that url.Parse(..).String() would respell
}

func (k c20SxgCase) String() string {
	s := fmt.Sprintf("%s:hdr=%s:key=%s:rs=%d:expire=%s:status=%d:content=%d:date-explicit=%v:defaults=%v:leaf-only=%v",
		k.ver, k.hdr.name, k.key.name, k.rs, k.expire, k.status, k.clen, k.explicit, k.defaults, k.leafOnly)
	if k.path != "" {
		s += fmt.Sprintf(":uri-path=%q", k.path)
	}
	return s
}

// spellings of the -uri value that are not fixed points of url.Parse(..).String(): the signer signs the bytes it was
// given, so every later tool has to keep exactly those bytes
var c20URIPaths = []string{"", "/caf\u00e9/menu.html", "/hello world.html", "/a%2fb%41.html", "/x{y}|z^.html", "/q?a b=c d", "/e?"}

// c20SxgGen writes the inputs and runs gen-certurl and gen-signedexchange.
// It returns the arguments used, the content and the generator's result.
func c20SxgGen(s *c20Sess, k c20SxgCase, seed int64, out string) (uri string, content []byte, date *time.Time, r c20Res, ok bool) {
	content = []byte("<h1>hi</h1>\n")
	if k.clen != 12 {
		content = pattern(k.clen, seed+int64(k.clen))
	}
	pem := k.key.id.x.ChainPEM
	if k.leafOnly {
		pem = k.key.id.x.CertPEM
	}
	s.write("payload.bin", content)
	s.write("chain.pem", []byte(pem))
	s.write("ocsp.der", []byte("ocsp\n"))
	s.write("priv.key", []byte(k.key.id.keyPEM(k.key.form)))
	rc := s.run("gen-certurl", nil, nil, "-pem", "chain.pem", "-ocsp", "ocsp.der")
	if !rc.ok() {
		s.fail("gen-certurl refuses a fixture certificate chain", "exit 0", rc.brief())
		return
	}
	s.write("cert.cbor", rc.stdout)
	host := "a.test"
	if k.key.id == c20IdB {
		host = "b.test"
	}
	uri = "https://" + host + "/hello.html"
	if k.path != "" {
		uri = "https://" + host + k.path
	}
	args := []string{"-version", k.ver, "-content", "payload.bin", "-certificate", "chain.pem", "-privateKey", "priv.key", "-o", out}
	if k.defaults {
		uri = "https://example.com/index.html" // the documented default of -uri
	} else {
		args = append(args, "-uri", uri, "-validityUrl", "https://"+host+"/resource.validity.msg", "-certUrl", "https://cdn.test/cert.cbor",
			"-miRecordSize", strconv.Itoa(k.rs), "-expire", k.expire)
	}
	if k.status != 200 {
		args = append(args, "-status", strconv.Itoa(k.status))
	}
	for _, kv := range k.hdr.values {
		args = append(args, "-responseHeader", kv[0]+": "+kv[1])
	}
	if k.explicit {
		d := time.Now().Add(-10 * time.Minute).UTC().Truncate(time.Second)
		date = &d
		args = append(args, "-date", d.Format(time.RFC3339))
	}
	r = s.run("gen-signedexchange", nil, c20KeyEnv(k.key.form), args...)
	ok = true
	return
}

func c20SxgRun(c *mc.Ctx) {
	k := c20SxgCase{rs: 4096, expire: "1h", status: 200, clen: 12}
	k.ver = []string{"1b3", "1b2", "1b1"}[c.Free(3, "version")]
	k.hdr = c20Hdrs[c.Free(len(c20Hdrs), "responseHeader")]
	k.key = c20SxgKeys[c.Dev(len(c20SxgKeys), "key")]
	k.rs = []int{4096, 1, 16, 16384}[c.Dev(4, "miRecordSize")]
	k.expire = []string{"1h", "168h", "169h"}[c.Dev(3, "expire")]
	k.status = []int{200, 404}[c.Dev(2, "status")]
	k.clen = []int{12, 0, 40, 5000}[c.Dev(4, "content")]
	k.explicit = c.Dev(2, "date") == 1
	k.leafOnly = c.Dev(2, "chain") == 1
	k.defaults = c.Dev(2, "defaults") == 1
	k.path = c20URIPaths[c.Dev(len(c20URIPaths), "uri spelling")]
	if k.defaults && k.path != "" {
		c.Outcome("skipped: the all-defaults invocation has no -uri to vary")
		return
	}
	if k.defaults && (k.rs != 4096 || k.expire != "1h") {
		c.Outcome("skipped: the all-defaults invocation has no -miRecordSize / -expire to vary")
		return
	}
	key := "C20/sxg:" + k.String()
	s := c20NewSess(c, key)
	defer s.close()
	c.Sample(key)
	uri, content, date, r, started := c20SxgGen(s, k, c.Seed, "out.sxg")
	if !started {
		return
	}
	c.Eval()
	mayRefuse := k.expire == "169h" || (k.hdr.mayRefuseB3 && k.ver == "1b3")
	if !r.ok() {
		if mayRefuse {
			c.Outcome("gen-signedexchange: refuses an exchange that could not verify (169h / no-store)")
			// whatever it left behind must not pass for a valid exchange
			d := s.run("dump-signedexchange", nil, nil, "-i", "out.sxg", "-verify", "-cert", "cert.cbor")
			if d.ok() && strings.Contains(string(d.stdout), "The exchange has a valid signature.") {
				s.fail("gen-signedexchange reports failure but leaves an exchange that verifies", "no valid artifact after exit != 0", d.brief())
			}
			return
		}
		c.Outcome("gen-signedexchange: REFUSES")
		s.fail("gen-signedexchange refuses flag values within the documented range", "exit 0 and an exchange", r.brief())
		return
	}
	c.Outcome("gen-signedexchange: ok")
	d := s.run("dump-signedexchange", nil, nil, "-i", "out.sxg", "-verify", "-cert", "cert.cbor")
	c.Eval()
	if !d.ok() || !strings.Contains(string(d.stdout), "The exchange has a valid signature.\n") {
		c.Outcome("dump-signedexchange -verify: REJECTS")
		s.fail("dump-signedexchange -verify rejects the exchange gen-signedexchange wrote (after its own self-check)", "exit 0 and \"The exchange has a valid signature.\"", d.brief())
		return
	}
	c.Outcome("dump-signedexchange -verify: valid signature")
	out := string(d.stdout)
	for _, line := range []string{"format version: " + k.ver + "\n", "  uri: " + uri + "\n", fmt.Sprintf("  status: %d\n", k.status)} {
		if !strings.Contains(out, line) {
			s.fail("dump-signedexchange shows another version / uri / status than requested", strings.TrimSpace(line), c20Clip(d.stdout, 600))
			return
		}
	}
	if tail := fmt.Sprintf("payload [%d bytes]:\n%s", len(content), content); !strings.HasSuffix(out, tail) {
		s.fail("dump-signedexchange does not print the source content as the verified payload", fmt.Sprintf("... payload [%d bytes]: %s", len(content), hx(content)), c20Clip(d.stdout[len(d.stdout)-min(200, len(d.stdout)):], 400))
		return
	}
	// inspection: flags honoured where observable
	data := s.read("out.sxg")
	if !bytes.HasPrefix(data, []byte("sxg1-b"+k.ver[2:]+"\x00")) {
		s.fail("signed exchange does not start with the magic of the requested version", "sxg1-b"+k.ver[2:], hx(data[:min(8, len(data))]))
		return
	}
	e, err := signedexchange.ReadExchange(bytes.NewReader(data))
	if err != nil {
		s.fail("signed exchange accepted by dump-signedexchange cannot be read back for inspection", "ReadExchange ok", err.Error())
		return
	}
	if e.RequestURI != uri || e.ResponseStatus != k.status {
		s.fail("signed exchange carries another uri / status than requested", fmt.Sprint(uri, " ", k.status), fmt.Sprint(e.RequestURI, " ", e.ResponseStatus))
		return
	}
	if len(content) > 0 || k.ver == "1b1" { // (mi-sha256-03, used by 1b2/1b3, encodes an empty payload as empty)
		if len(e.Payload) < 8 || binary.BigEndian.Uint64(e.Payload[:8]) != uint64(k.rs) {
			s.fail("gen-signedexchange -miRecordSize is not honoured (first bytes of the payload)", fmt.Sprint(k.rs), hx(e.Payload[:min(8, len(e.Payload))]))
			return
		}
	}
	for _, kv := range k.hdr.values {
		var want []string
		for _, kv2 := range k.hdr.values {
			if kv2[0] == kv[0] {
				want = append(want, kv2[1])
			}
		}
		got := strings.ReplaceAll(strings.Join(e.ResponseHeaders.Values(kv[0]), ","), " ", "")
		if got != strings.Join(want, ",") {
			s.fail("a multi-valued -responseHeader is not carried with all its values", kv[0]+": "+strings.Join(want, ","), got)
			return
		}
	}
	sigs, err := structuredheader.ParseParameterisedList(e.SignatureHeaderValue)
	if err != nil || len(sigs) != 1 {
		s.fail("Signature header of the generated exchange does not parse", "one signature", fmt.Sprint(err))
		return
	}
	dv, _ := sigs[0].Params["date"].(int64)
	ev, _ := sigs[0].Params["expires"].(int64)
	exp, _ := time.ParseDuration(k.expire)
	if ev-dv != int64(exp/time.Second) {
		s.fail("gen-signedexchange -expire is not honoured in the Signature header", fmt.Sprint(int64(exp/time.Second), " s"), fmt.Sprint(ev-dv, " s"))
		return
	}
	if date != nil && dv != date.Unix() {
		s.fail("gen-signedexchange -date is not honoured in the Signature header", fmt.Sprint(date.Unix()), fmt.Sprint(dv))
		return
	}
	c.Outcome("flags honoured in the artifact")
}

// gen-signedexchange -o - | dump-signedexchange -verify -cert (documented: "-o -"
// writes the exchange to stdout; dump-signedexchange reads piped input).
func c20SxgPipeRun(c *mc.Ctx) {
	k := c20SxgCase{rs: 4096, expire: "1h", status: 200, clen: 12}
	k.ver = []string{"1b3", "1b2", "1b1"}[c.Free(3, "version")]
	k.hdr = c20Hdrs[0]
	k.key = c20SxgKeys[c.Free(len(c20SxgKeys), "key")]
	key := fmt.Sprintf("C20/sxgpipe:%s:key=%s", k.ver, k.key.name)
	s := c20NewSess(c, key)
	defer s.close()
	c.Sample(key)
	_, content, _, r, started := c20SxgGen(s, k, c.Seed, "-")
	if !started {
		return
	}
	c.Eval()
	if !r.ok() {
		c.Outcome("gen-signedexchange -o -: REFUSES")
		s.fail("gen-signedexchange refuses flag values within the documented range", "exit 0 and an exchange on stdout", r.brief())
		return
	}
	d := s.run("dump-signedexchange", r.stdout, nil, "-verify", "-cert", "cert.cbor")
	c.Eval()
	if !d.ok() || !strings.Contains(string(d.stdout), "The exchange has a valid signature.\n") {
		c.Outcome("dump-signedexchange (piped): REJECTS")
		s.fail("dump-signedexchange rejects what gen-signedexchange -o - wrote to stdout", "exit 0 and \"The exchange has a valid signature.\"", d.brief()+"; first bytes of the generator's stdout: "+strconv.Quote(string(r.stdout[:min(40, len(r.stdout))])))
		return
	}
	if !strings.HasSuffix(string(d.stdout), fmt.Sprintf("payload [%d bytes]:\n%s", len(content), content)) {
		s.fail("dump-signedexchange does not print the source content as the verified payload", hx(content), c20Clip(d.stdout, 400))
		return
	}
	c.Outcome("dump-signedexchange (piped): valid signature")
}

// ---------------------------------------------------------------------------
// sign-bundle dump-id
// ---------------------------------------------------------------------------

func c20DumpIDRun(c *mc.Ctx) {
	ed := []*fixtures.EdIdentity{fixtures.Ed1, fixtures.Ed2, fixtures.Ed3}[c.Free(3, "key")]
	form := []string{"private", "public", "private-encrypted"}[c.Free(3, "form")]
	if form == "private-encrypted" && ed != fixtures.Ed1 {
		c.Outcome("skipped: only Ed1 has an encrypted fixture")
		return
	}
	key := fmt.Sprintf("C20/dumpid:%s:%s", ed.Name, form)
	s := c20NewSess(c, key)
	defer s.close()
	c.Sample(key)
	var r c20Res
	switch form {
	case "private":
		s.write("k.pem", []byte(ed.KeyPEM))
		r = s.run("sign-bundle", nil, nil, "dump-id", "-privateKey", "k.pem")
	case "public":
		s.write("k.pem", []byte(ed.PubPEM))
		r = s.run("sign-bundle", nil, nil, "dump-id", "-publicKey", "k.pem")
	default:
		s.write("k.pem", []byte(fixtures.Ed1KeyEncPEM))
		r = s.run("sign-bundle", nil, []string{"WEB_BUNDLE_SIGNING_PASSPHRASE=" + fixtures.Passphrase}, "dump-id", "-privateKey", "k.pem")
	}
	c.Eval()
	want := "Web Bundle ID: " + c20BundleID(ed.Pub) + "\n"
	if !r.ok() || !strings.HasSuffix(string(r.stdout), want) {
		c.Outcome("dump-id: WRONG")
		s.fail("sign-bundle dump-id does not print the key's Web Bundle ID (lower-case base32 of key || 00 01 02)", strings.TrimSpace(want), r.brief())
		return
	}
	c.Outcome("dump-id: ok")
}

// ---------------------------------------------------------------------------

func init() {
	mode := "explicit-state search over tool invocation pipelines (each execution replays one pipeline on fresh files)"
	hs := []*mc.Harness{
		{Name: "C20/dir", Mode: mode, Run: c20DirRun},
		{Name: "C20/har", Mode: mode, Run: c20HarRun},
		{Name: "C20/pipe", Mode: mode, Run: c20PipeRun},
		{Name: "C20/certurl", Mode: mode, Run: c20CertRun},
		{Name: "C20/sxg", Mode: mode, Run: c20SxgRun, Bound: func(tier string) int {
			if tier == "quick" {
				return 1
			}
			return 2
		}},
		{Name: "C20/sxgpipe", Mode: mode, Run: c20SxgPipeRun},
		{Name: "C20/dumpid", Mode: mode, Run: c20DumpIDRun},
	}
	register(&mc.Property{
		ID:    "C20",
		Level: "model_checking",
		Rule: "one execution = one pipeline of tool processes in a private directory; a transition = one process run; a state = the sorted (name, sha256) list of the files on disk after a run. " +
			"C20/dir: every single file name of 13 classes (quick) / every single name and unordered pair of 19 names (thorough) x {b2 without base URL, b2/b1 x https://a.test/, https://a.test/base/} -> gen-bundle -dir -> dump-bundle -> inspection -> sign-bundle integrity-block twice -> sign-bundle signatures-section -> dump-bundle. " +
			"C20/har: every sequence of <= 2 (quick) / <= 3 (thorough) entries from a 10-entry menu x {b2,b1} x {unsigned, signed}. C20/pipe: every sequence of <= 2 signing operations from a 5-operation menu (quick) / <= 3 from a 7-operation menu (thorough) on 3 base bundles. " +
			"C20/certurl: full product identity x chain length x SCT directory x OCSP file x input channel. C20/sxg: versions x response-header sets (full product) x deviation bound 1 / 2 over key form, record size, expiry, status, content length, date, chain, all-defaults. " +
			"A case is non-trivial when tools were actually run on it (generator-side skips excluded); distinct by pipeline key.",
		Assumptions: []string{
			"acceptance is judged from the exit status and output of the downstream binary; library packages of the repository only read artifacts back for comparison with the reference-side model",
			"dump-bundle and dump-signedexchange verify at time.Now(): artifacts are dated now or ten minutes ago and valid for at least one hour, so no verdict is near a time boundary",
			"the fixtures' hosts a.test / b.test replace the ex.test of the design text, because sign-bundle signatures-section only signs URLs its certificate names",
			"URLs are compared after parsing (RFC 3986 reference model refurl): scheme, host, percent-decoded path, no query, no fragment; relative URLs are compared after resolving against one fixed stand-in base",
			"not judged because the property does not settle them (recorded as outcome classes): top-level index.html without -baseURL served directly instead of redirecting; a second signatures-section signer for an already signed host; several Variants entries of one URL; dump-bundle on integrity-block bundles; signatures-section on integrity-block bundles; which of two HAR duplicates without Variants survives",
			"b1 trees whose only files have a ':' in their path are skipped (gen-bundle matches -primaryURL as a string and the spelling of ':' is a matter of taste)",
		},
		Harnesses: hs,
		Guard: func(st map[string]*mc.Stats) error {
			min := map[string]int64{"C20/dir": 50, "C20/har": 100, "C20/pipe": 90, "C20/certurl": 64, "C20/sxg": 150, "C20/sxgpipe": 15, "C20/dumpid": 7}
			for _, h := range hs {
				x := st[h.Name]
				if x == nil {
					return fmt.Errorf("%s did not run", h.Name)
				}
				if x.Nontrivial < min[h.Name] {
					return fmt.Errorf("%s: only %d pipelines were run, expected at least %d", h.Name, x.Nontrivial, min[h.Name])
				}
			}
			return nil
		},
	})
}
