package main

// C02/histories: second- and third-generation exchanges.  The property is claimed for "every exchange the
// library agrees to sign and write"; the grid of c02.go only ever signs exchanges that were built with
// NewExchange.  Here an exchange is read back from a file, edited through its public fields, signed again,
// written and read again - for every sequence of edits up to a depth - and after every generation the same
// oracle as in C02/roundtrip applies: the file reads back (reference parser and ReadExchange) as exactly the
// edited exchange, and Verify accepts it at exactly the instants of [date, expires], before and after.

import (
	"bytes"
	"fmt"
	"strings"
	"time"

	"github.com/WICG/webpackage/go/signedexchange"
	"github.com/WICG/webpackage/go/signedexchange/zverif/mc"
	"github.com/WICG/webpackage/go/signedexchange/zverif/refsxg"
)

type c02Edit struct {
	name    string
	reqOnly bool // needs a request map (1b1, 1b2)
	apply   func(e *signedexchange.Exchange, x *refsxg.Exchange)
	// failedReads: before signing again, truncated copies of the current file are handed to ReadExchange
	// (which must fail): a reader that keeps state from a failed call shows it in the next generation
	failedReads bool
}

func c02DropField(fs []refsxg.Field, lower string) []refsxg.Field {
	var out []refsxg.Field
	for _, f := range fs {
		if strings.ToLower(f.Name) != lower {
			out = append(out, f)
		}
	}
	return out
}

func c02AddValue(fs []refsxg.Field, name, value string) []refsxg.Field {
	out := append([]refsxg.Field{}, fs...)
	for i, f := range out {
		if strings.EqualFold(f.Name, name) {
			out[i] = refsxg.Field{Name: f.Name, Values: append(append([]string{}, f.Values...), value)}
			return out
		}
	}
	return append(out, refsxg.Field{Name: name, Values: []string{value}})
}

var c02Edits = []c02Edit{
	{name: "sign again unchanged", apply: func(e *signedexchange.Exchange, x *refsxg.Exchange) {}},
	{name: "failed reads of truncated copies, then sign again unchanged", failedReads: true, apply: func(e *signedexchange.Exchange, x *refsxg.Exchange) {}},
	{name: "set response header X-Edited", apply: func(e *signedexchange.Exchange, x *refsxg.Exchange) {
		e.ResponseHeaders.Set("X-Edited", "1")
		x.RespHeaders = append(c02DropField(x.RespHeaders, "x-edited"), c02F("X-Edited", "1"))
	}},
	{name: "add a value to response header X-Edited", apply: func(e *signedexchange.Exchange, x *refsxg.Exchange) {
		e.ResponseHeaders.Add("X-Edited", "2")
		x.RespHeaders = c02AddValue(x.RespHeaders, "X-Edited", "2")
	}},
	{name: "delete response header x-lower", apply: func(e *signedexchange.Exchange, x *refsxg.Exchange) {
		e.ResponseHeaders.Del("x-lower")
		x.RespHeaders = c02DropField(x.RespHeaders, "x-lower")
	}},
	{name: "status 404", apply: func(e *signedexchange.Exchange, x *refsxg.Exchange) {
		e.ResponseStatus = 404
		x.Status = 404
	}},
	{name: "request URL other.html", apply: func(e *signedexchange.Exchange, x *refsxg.Exchange) {
		e.RequestURI = c08Origin + "other.html"
		x.URL = c08Origin + "other.html"
	}},
	{name: "method HEAD", reqOnly: true, apply: func(e *signedexchange.Exchange, x *refsxg.Exchange) {
		e.RequestMethod = "HEAD"
		x.Method = "HEAD"
	}},
	{name: "set request header X-Rq2", reqOnly: true, apply: func(e *signedexchange.Exchange, x *refsxg.Exchange) {
		e.RequestHeaders.Set("X-Rq2", "z")
		x.ReqHeaders = append(c02DropField(x.ReqHeaders, "x-rq2"), c02F("X-Rq2", "z"))
	}},
}

func c02Histories(c *mc.Ctx) {
	ver := c08Vers[c.Free(len(c08Vers), "version")]
	keys := c02Keys()
	k := keys[c.Free(len(keys), "key")]
	plens := []int{17, 0, 16}
	plen := plens[c.Free(len(plens), "payload-len")]
	depth := 2
	if !c.Quick() {
		depth = 3
	}
	// the edit sequence; -1 ends it early
	var seq []int
	for len(seq) < depth {
		j := c.Free(len(c02Edits)+1, "edit")
		if j == len(c02Edits) {
			break
		}
		if c02Edits[j].reqOnly && !ver.ref.HasRequest() {
			c.Outcome("skipped: edit needs a request map")
			return
		}
		seq = append(seq, j)
	}
	var names []string
	for _, j := range seq {
		names = append(names, c02Edits[j].name)
	}
	id := fmt.Sprintf("histories:%s:%s:len=%d:%s", ver.ref, k.name, plen, strings.Join(names, " > "))
	key := "C02/" + id
	c.State([]byte(id))
	if len(seq) > 0 {
		c.Nontrivial([]byte(id))
	}
	fail := func(gen int, class, what, expected, observed string) {
		c.Outcome("VIOLATION " + class)
		c.Fail(key, what, fmt.Sprintf("exchange %s, generation %d", id, gen), expected, observed)
	}

	hs := c02HeaderSets[1] // multi-valued, mixed-case fields in request and response
	payload := pattern(plen, c.Seed+7)
	const rs, window = 16, int64(3600)
	b, err := c02Build(ver, k, c08Origin+"index.html", "GET", hs.req, hs.resp(), 200, payload, rs, c02Date, window, c08Origin+"cert.cbor", nil)
	if err != nil {
		fail(0, "build", "the library refused to build / sign a plain exchange", "nil", err.Error())
		return
	}
	signer := &signedexchange.Signer{
		Date:        time.Unix(c02Date, 0),
		Expires:     time.Unix(c02Date+window, 0),
		Certs:       k.certs,
		CertUrl:     c08MustURL(c08Origin + "cert.cbor"),
		ValidityUrl: c08MustURL(c08Origin + "resource.validity"),
		PrivKey:     k.key,
	}
	times := []int64{c02Date - 1, c02Date, c02Date + window/2, c02Date + window, c02Date + window + 1}
	want := "FTTTF"
	vec := func(e *signedexchange.Exchange) (string, []c02Verdict) {
		s, vs := "", make([]c02Verdict, len(times))
		for i, t := range times {
			vs[i] = c02Verify(e, t, b.chain)
			if vs[i].pan != "" {
				s += "P"
			} else if vs[i].ok {
				s += "T"
			} else {
				s += "F"
			}
		}
		c.Transitions(int64(len(times)))
		return s, vs
	}

	cur := b
	for gen := 0; ; gen++ {
		// the exchange of this generation: verify, write, read back, verify
		bv, bvs := vec(cur.e)
		file, werr, wpan := c02Write(cur.e)
		if werr != nil || wpan != "" {
			fail(gen, "write", "Write failed on an exchange that fits the format", "nil", fmt.Sprintf("err=%v panic=%q", werr, wpan))
			return
		}
		diffs, got := c02Compare(cur, file)
		c.Eval()
		if len(diffs) > 0 {
			fail(gen, "readback", "the written file does not read back as the exchange that was signed and written", "identical version, URL, method, status, folded headers, Signature header, payload", strings.Join(diffs, "; "))
			return
		}
		av, avs := vec(got)
		c.Traces(1)
		if bv != av || bv != want {
			i := 0
			for i < len(want)-1 && bv[i] == want[i] && av[i] == want[i] {
				i++
			}
			fail(gen, "verdict", "Verify does not accept exactly the instants of [date, expires], before and after the write/read round trip", want+" before and after",
				fmt.Sprintf("before=%s after=%s; at t=date%+d before log=%q after log=%q", bv, av, times[i]-c02Date, clipS(bvs[i].log), clipS(avs[i].log)))
			return
		}
		for i := range times {
			if want[i] == 'T' && (!bytes.Equal(bvs[i].payload, payload) || !bytes.Equal(avs[i].payload, payload)) {
				fail(gen, "payload", "Verify does not return the original un-encoded payload", hx(payload), fmt.Sprintf("before=%s after=%s", hx(bvs[i].payload), hx(avs[i].payload)))
				return
			}
		}
		if gen == len(seq) {
			break
		}
		// next generation: edit the exchange that was read back, sign it again
		ed := c02Edits[seq[gen]]
		if ed.failedReads {
			for _, cut := range []int{len(file) - 1, len(file) - len(cur.x.Payload) - 1, len(file) / 3, 9} {
				if cut < 0 || cut >= len(file) {
					continue
				}
				func() {
					defer func() { recover() }() // a panic here is C10's subject
					signedexchange.ReadExchange(bytes.NewReader(file[:cut]))
				}()
				c.Transitions(1)
			}
		}
		nx := *cur.x
		ed.apply(got, &nx)
		if err := got.AddSignatureHeader(signer); err != nil {
			fail(gen+1, "sign", "the library refused to sign an edited exchange", "nil", err.Error())
			return
		}
		nx.Signature = got.SignatureHeaderValue
		cur = &c02Built{e: got, x: &nx, payload: payload, chain: b.chain, date: b.date, expires: b.expires,
			wantResp: refsxg.Fold(nx.RespHeaders), wantReq: refsxg.Fold(nx.ReqHeaders)}
	}
	c.Outcome(fmt.Sprintf("%d generations identical and verified (%s)", len(seq)+1, ver.ref))
	c.Sample(id + " -> ok")
}

func init() {
	p := props["C02"]
	p.Harnesses = append(p.Harnesses, &mc.Harness{Name: "C02/histories", Run: c02Histories,
		Mode: "operation histories: build, sign, write, read, then up to 2 (quick) / 3 (thorough) rounds of {edit a public field, sign again, write, read}"})
	p.Rule += " C02/histories: version x key x payload length {17,0,16} (rs 16, multi-valued mixed-case header set) x every sequence of at most 2 (quick) / 3 (thorough) edits out of 9 (sign again unchanged, the same after failed reads of truncated copies of the file, set / add a value to / delete a response header, status 404, other request URL, HEAD, set a request header; the last two for 1b1/1b2) applied to the exchange ReadExchange returned, each followed by AddSignatureHeader, Write, reference parse + ReadExchange (bytes.Reader, 1-byte and data-with-EOF readers) and Verify at {date-1, date, mid, expires, expires+1} before and after; every generation must read back as exactly the edited exchange and verify at exactly the instants of the window."
}
