package main

// C13/histories: the verdict must be a function of the BYTES, not of what was checked before or where the bytes live.
// Every other C13 harness hands each input to the checker in a fresh slice, once.  Here one backing buffer is reused:
// a history is a sequence of (write item k into the buffer in place, check the buffer) steps, items drawn from pools
// of equally long valid and invalid encodings, plus the operations "check again without change", "check a fresh copy"
// and "check a sub-slice that starts one byte later".  Every sequence up to the depth is run; after every step the
// checker's verdict is compared with the reference's verdict for the bytes the buffer holds at that moment.  A checker
// that remembers a verdict by buffer identity (address, length), by a hash of a prefix, or that keeps a cursor across
// calls is caught by the first history in which a valid item is overwritten by an invalid one of the same length.

import (
	"fmt"

	"github.com/WICG/webpackage/go/signedexchange/zverif/mc"
	"github.com/WICG/webpackage/go/signedexchange/zverif/refcbor"
)

// pools of equally long encodings (5 bytes and 9 bytes), valid and invalid mixed
var c13HistPools = [][][]byte{
	{
		{0xa2, 0x01, 0x02, 0x03, 0x04}, // {1:2, 3:4} valid
		{0xa2, 0x03, 0x04, 0x01, 0x02}, // keys out of order
		{0xa2, 0x01, 0x02, 0x01, 0x04}, // duplicate key
		{0x84, 0x01, 0x02, 0x03, 0x04}, // [1,2,3,4] valid
		{0x85, 0x01, 0x02, 0x03, 0x04}, // truncated array
		{0x44, 0x01, 0x02, 0x03, 0x04}, // bytes(4) valid
		{0x82, 0x18, 0x17, 0x01, 0x02}, // non-shortest uint 23 (and trailing byte)
		{0x1a, 0x00, 0x01, 0x00, 0x00}, // uint 65536 valid
		{0x1a, 0x00, 0x00, 0xff, 0xff}, // uint 65535 in 4 bytes: not shortest
	},
	{
		{0xa2, 0x61, 'a', 0x01, 0x61, 'b', 0x42, 1, 2},         // {"a":1, "b":h'0102'} valid
		{0xa1, 0x66, 'a', 'b', 'c', 'd', 'e', 'f', 0x00},       // valid
		{0xa1, 0x66, 'a', 'b', 'c', 'd', 'e', 0xff, 0x00},      // invalid UTF-8 in a text key
		{0x82, 0x43, 1, 2, 3, 0x43, 4, 5, 6},                   // valid
		{0x82, 0x58, 0x03, 1, 2, 3, 0x42, 5, 6},                // non-shortest length head
		{0xa2, 0x41, 0x02, 0x00, 0x41, 0x01, 0x00, 0x00, 0x00}, // keys out of order + trailing
		{0x1b, 0x00, 0x00, 0x00, 0x01, 0x00, 0x00, 0x00, 0x00}, // uint 2^32 valid
		{0x1b, 0x00, 0x00, 0x00, 0x00, 0xff, 0xff, 0xff, 0xff}, // not shortest
	},
}

func c13Histories(c *mc.Ctx) {
	pool := c13HistPools[c.Free(len(c13HistPools), "pool")]
	n := len(pool[0])
	depth := c.Pick(3, 4)
	backing := make([]byte, n+1, n+16)
	buf := backing[:n]
	hist := ""
	judge := func(step int, what string, in []byte) bool {
		ref := refcbor.Deterministic(in)
		verdict, detail := c13Run(in)
		c.Eval()
		c.Transitions(1)
		c.State([]byte(hist))
		key := "C13/histories:" + hist
		if ref == nil && verdict != "accept" {
			c.Outcome("VALID refused after a history")
			c.Fail(key, "input in core deterministic form was refused after earlier checks of the same buffer", hist+" | now "+hx(in), "nil", verdict+": "+detail)
			return false
		}
		if ref != nil && verdict == "accept" {
			c.Outcome("INVALID accepted after a history")
			c.Fail(key, "input that is not deterministic was accepted after earlier checks of the same buffer", hist+" | now "+hx(in), "error or panic ("+ref.Error()+")", "nil")
			return false
		}
		if ref == nil {
			c.Outcome("valid, accepted")
		} else {
			c.Outcome("invalid, " + verdict)
		}
		return true
	}
	for step := 0; step < depth; step++ {
		k := c.Free(len(pool)+4, "op") // 0 = stop
		if k == 0 {
			break
		}
		switch {
		case k <= len(pool):
			copy(buf, pool[k-1])
			hist += fmt.Sprintf("write#%d,check;", k-1)
			if !judge(step, "same buffer", buf) {
				return
			}
		case k == len(pool)+1:
			hist += "check-again;"
			if !judge(step, "again", buf) {
				return
			}
		case k == len(pool)+2:
			hist += "check-fresh-copy;"
			if !judge(step, "copy", append([]byte{}, buf...)) {
				return
			}
		default:
			hist += "check-from-byte-1;"
			if !judge(step, "subslice", backing[1:n+1]) {
				return
			}
		}
	}
	c.Nontrivial([]byte(hist))
}

func init() {
	p := props["C13"]
	p.Harnesses = append(p.Harnesses, &mc.Harness{Name: "C13/histories", Mode: "explicit-state search over histories of checks on one reused buffer (state = operations so far; observable = verdict per step)", Run: c13Histories})
	p.Rule += " C13/histories: every sequence of up to 3 (thorough 4) steps over {write one of 9 / 8 equally long valid or invalid encodings into one reused buffer in place and check it, check again, check a fresh copy, check the sub-slice starting one byte later}; verdict after every step compared with the reference for the bytes then present."
}
