package main

// C08 - signed-exchange bytes conform to the spec as recomputed independently.
//
// Space.  One DEFAULT exchange (https://a.test/index.html, GET, Accept: */*, 200,
// Content-Type + a probe field + 2 further fields, 40-byte payload MI-encoded with
// record size 16, signed at 2018-01-31 for one hour, chain = [leaf A (P-256)],
// cert-url https://a.test/cert.cbor, validity-url https://a.test/resource.validity)
// and these DEVIATION dimensions (c.Dev: alternative 0 is the default, every other
// alternative costs one deviation; executions with more deviations than the bound
// are not generated):
//
//	request URL length        {1,23,24,255,256,65535}
//	validity-URL length       {1,23,24,255,256,65535} + one with '"' and '\' in the query
//	cert-url                  {data: URL, 300-byte https URL, '"' and '\' in the query}
//	date                      {0,1,2^31,2^32,2^40}        expires-date   {0,1,604800}
//	status                    {100,404,599}               method         {HEAD,POST}
//	further response fields   0..30 (response map sizes 5..35: crosses 23/24)
//	request fields            none at all, 0..30 next to Accept (request map crosses 23/24)
//	probe field value length  {0,23,24,255,256,65535,65536}
//	probe field name length   {1,23,24,255,256}
//	probe field values        {2 values, 3 values one of them empty}
//	probe field letter case   {Canonical-Form, UPPER, mIxEd}   (default lower)
//	certificate chain         {[A,CA], [B (P-384)], [B,CA]}
//	payload length            {0,16}
//
// crossed (c.Free, always swept) with version {1b1,1b2,1b3} x signing mode {mock,
// real ECDSA}.  Bound 2 in quick, 3 in thorough.
//
// Oracle.  refsxg recomputes from the generator's own description of the exchange
// (never from the implementation's objects, except the MI digest value and the MI
// body, which belong to C14): the header block (DumpExchangeHeaders), the
// header-integrity string (ComputeHeaderIntegrity), the signed message
// (DumpSignedMessage), the file (Write) - all compared byte for byte - and the file
// is read back by the reference parser.  Mock mode (MockSigningAlgorithm through the
// exported Signer.Algorithm, sig = SHA-256(message)): the complete Signature header
// equals the reference string.  Real mode: the header is parsed by the reference
// parser, every parameter compared, the signature verified with crypto/ecdsa over
// the REFERENCE message, and the header must equal the reference serialization with
// that signature plugged in; vice versa, a signature made with crypto/ecdsa over
// the reference message, put into a reference-built header and a reference-built
// file, must verify in the implementation (Exchange.Verify at t = date, in memory
// and after ReadExchange of the reference file) and return the original payload -
// judged only where the generator knows the exchange meets the acceptance policy
// (GET/HEAD in b1/b2, status 200/404 in b3, https URLs, window <= 7 days); policy
// itself is C09's subject.  Empty chains (no cert-sha256) are outside the quantifier.

import (
	"bytes"
	"crypto/ecdsa"
	"crypto/sha256"
	"crypto/x509"
	"errors"
	"fmt"
	"log"
	"net/http"
	"net/url"
	"strings"
	"time"

	"github.com/WICG/webpackage/go/internal/signingalgorithm"
	"github.com/WICG/webpackage/go/signedexchange"
	"github.com/WICG/webpackage/go/signedexchange/certurl"
	sxgversion "github.com/WICG/webpackage/go/signedexchange/version"
	"github.com/WICG/webpackage/go/signedexchange/zverif/fixtures"
	"github.com/WICG/webpackage/go/signedexchange/zverif/mc"
	"github.com/WICG/webpackage/go/signedexchange/zverif/refsxg"
)

type c08Ver struct {
	impl sxgversion.Version
	ref  refsxg.Version
}

var c08Vers = []c08Ver{
	{sxgversion.Version1b1, refsxg.B1},
	{sxgversion.Version1b2, refsxg.B2},
	{sxgversion.Version1b3, refsxg.B3},
}

type c08Chain struct {
	name  string
	certs []*x509.Certificate
	key   *ecdsa.PrivateKey
}

func c08Chains() []c08Chain {
	return []c08Chain{
		{"A", []*x509.Certificate{fixtures.A.Leaf}, fixtures.A.Key},
		{"A+CA", []*x509.Certificate{fixtures.A.Leaf, fixtures.A.CA}, fixtures.A.Key},
		{"B", []*x509.Certificate{fixtures.B.Leaf}, fixtures.B.Key},
		{"B+CA", []*x509.Certificate{fixtures.B.Leaf, fixtures.B.CA}, fixtures.B.Key},
	}
}

const c08Origin = "https://a.test/"

// c08PadURL returns a URL of exactly n bytes (n < len(origin): a relative
// reference made of the pad character only).
func c08PadURL(n int, pad string) string {
	if n < len(c08Origin) {
		return strings.Repeat(pad, n)
	}
	return c08Origin + strings.Repeat(pad, n-len(c08Origin))
}

// c08MustURL parses s and insists that it survives URL.String() unchanged (the
// implementation takes *url.URL and serializes u.String(); the reference is given s).
func c08MustURL(s string) *url.URL {
	u, err := url.Parse(s)
	if err != nil {
		panic("c08: harness URL does not parse: " + err.Error())
	}
	if u.String() != s {
		panic(fmt.Sprintf("c08: harness URL %q does not survive url.URL.String(): %q", clipS(s), clipS(u.String())))
	}
	return u
}

func clipS(s string) string {
	if len(s) > 80 {
		return fmt.Sprintf("%s...(%d bytes)", s[:80], len(s))
	}
	return s
}

var c08LenAlphabet = []int{1, 23, 24, 255, 256, 65535, 65536}

// c08ChainCBOR is what the certificate fetcher returns for a chain.
func c08ChainCBOR(certs []*x509.Certificate) []byte {
	cc, err := certurl.NewCertChain(certs, []byte("ocsp-dummy"), nil)
	if err != nil {
		panic(err)
	}
	var b bytes.Buffer
	if err := cc.Write(&b); err != nil {
		panic(err)
	}
	return b.Bytes()
}

func c08CaseName(name string, style int) string {
	switch style {
	case 1:
		return http.CanonicalHeaderKey(name)
	case 2:
		return strings.ToUpper(name)
	case 3:
		b := []byte(name)
		for i := range b {
			if i%2 == 1 {
				b[i] = strings.ToUpper(string(b[i]))[0]
			}
		}
		return string(b)
	}
	return name
}

// c08Fields converts reference fields into an http.Header with exactly the given
// names as map keys (no canonicalisation by the harness).
func c08Header(fs []refsxg.Field) http.Header {
	h := http.Header{}
	for _, f := range fs {
		h[f.Name] = append([]string{}, f.Values...)
	}
	return h
}

func c08Run(c *mc.Ctx) {
	vi := c.Free(len(c08Vers), "version")
	real := c.Free(2, "sign:mock/ecdsa") == 1
	ver := c08Vers[vi]

	var devs []string
	dev := c.Dev
	note := func(s string) { devs = append(devs, s) }

	// --- URLs
	reqURL := c08Origin + "index.html"
	if k := dev(len(c08LenAlphabet)+1, "url-len"); k > 0 {
		reqURL = c08PadURL(c08LenAlphabet[k-1], "u")
		note(fmt.Sprintf("url=%d", len(reqURL)))
	}
	vURL := c08Origin + "resource.validity"
	if k := dev(len(c08LenAlphabet)+2, "validity-url"); k > 0 {
		if k <= len(c08LenAlphabet) {
			vURL = c08PadURL(c08LenAlphabet[k-1], "v")
			note(fmt.Sprintf("vurl=%d", len(vURL)))
		} else {
			vURL = c08Origin + `v?q="x\y"`
			note("vurl=quoted")
		}
	}
	foreignK := 0
	if real {
		if foreignK = dev(len(c08ForeignVURL), "foreign-validity-url-spelling"); foreignK > 0 {
			note("foreign-vurl=" + c08ForeignVURL[foreignK])
		}
	}
	certURL := c08Origin + "cert.cbor"
	switch dev(4, "cert-url") {
	case 1:
		certURL = "data:application/cert-chain+cbor;base64,AAAA"
		note("certurl=data")
	case 2:
		certURL = c08PadURL(300, "c")
		note("certurl=300")
	case 3:
		certURL = c08Origin + `c?a="\"`
		note("certurl=quoted")
	}
	// --- times
	date := int64(1517418800)
	if k := dev(6, "date"); k > 0 {
		date = []int64{0, 1, 1 << 31, 1 << 32, 1 << 40}[k-1]
		note(fmt.Sprintf("date=%d", date))
	}
	window := int64(3600)
	if k := dev(4, "window"); k > 0 {
		window = []int64{0, 1, 604800}[k-1]
		note(fmt.Sprintf("window=%d", window))
	}
	expires := date + window
	// sub-second parts of the Signer's Date / Expires: the format carries whole seconds (the floor, time.Unix()),
	// each timestamp on its own - in the signed message and in the Signature header alike
	var dateNs, expNs int64
	if k := dev(4, "sub-second parts"); k > 0 {
		dateNs, expNs = []int64{700000000, 200000000, 999999999}[k-1], []int64{200000000, 700000000, 1}[k-1]
		note(fmt.Sprintf("subsec=%d/%d", dateNs, expNs))
	}
	// --- status, method
	status := 200
	if k := dev(4, "status"); k > 0 {
		status = []int{100, 404, 599}[k-1]
		note(fmt.Sprintf("status=%d", status))
	}
	method := "GET"
	if k := dev(3, "method"); k > 0 {
		method = []string{"HEAD", "POST"}[k-1]
		note("method=" + method)
	}
	// --- header sets
	nResp := 2
	if k := dev(31, "resp-fields"); k > 0 {
		// alternatives 1..30 -> 0,1,3,4,...,30 (2 is the default)
		nResp = k - 1
		if nResp >= 2 {
			nResp++
		}
		note(fmt.Sprintf("nresp=%d", nResp))
	}
	reqMode := dev(32, "req-fields") // 0: Accept only; 1: no request headers at all; k>=2: Accept + (k-1) fields... up to 30
	nReq := 0
	if reqMode >= 2 {
		nReq = reqMode - 1
		note(fmt.Sprintf("nreq=%d", nReq))
	} else if reqMode == 1 {
		note("req=nil")
	}
	probeName := "x-probe"
	if k := dev(6, "probe-name-len"); k > 0 {
		n := []int{1, 23, 24, 255, 256}[k-1]
		if n == 1 {
			probeName = "p"
		} else {
			probeName = "x-probe" + strings.Repeat("n", n-len("x-probe"))
		}
		note(fmt.Sprintf("namelen=%d", n))
	}
	if k := dev(4, "probe-name-case"); k > 0 {
		probeName = c08CaseName(probeName, k)
		note(fmt.Sprintf("case=%d", k))
	}
	// field names the format itself or a typical HTTP library gives a meaning to: as RESPONSE header fields they are
	// ordinary fields and must be signed and written like any other
	if k := dev(5, "probe-name-special"); k > 0 {
		probeName = []string{"Signature", "Date", "Variants", "Accept-Signature"}[k-1]
		note("name=" + probeName)
	}
	probeVal := "v"
	if k := dev(8, "probe-value-len"); k > 0 {
		n := []int{0, 23, 24, 255, 256, 65535, 65536}[k-1]
		probeVal = strings.Repeat("w", n)
		note(fmt.Sprintf("vallen=%d", n))
	}
	probeVals := []string{probeVal}
	switch dev(3, "probe-values") {
	case 1:
		probeVals = []string{probeVal, "b"}
		note("values=2")
	case 2:
		probeVals = []string{probeVal, "", "c, d"}
		note("values=3")
	}
	chains := c08Chains()
	chain := chains[0]
	if k := dev(len(chains), "chain"); k > 0 {
		chain = chains[k]
		note("chain=" + chain.name)
	}
	payloadLen := 40
	if k := dev(3, "payload-len"); k > 0 {
		payloadLen = []int{0, 16}[k-1]
		note(fmt.Sprintf("payload=%d", payloadLen))
	}

	mode := "mock"
	if real {
		mode = "ecdsa"
	}
	devDesc := strings.Join(devs, "+")
	if devDesc == "" {
		devDesc = "default"
	}
	id := fmt.Sprintf("%s:%s:%s", ver.ref, mode, devDesc)
	c.State([]byte(id))

	// --- the exchange, once as reference fields and once as the implementation's object
	respFields := []refsxg.Field{
		{Name: "Content-Type", Values: []string{"text/html; charset=utf-8"}},
		{Name: probeName, Values: probeVals},
	}
	for i := 0; i < nResp; i++ {
		respFields = append(respFields, refsxg.Field{Name: fmt.Sprintf("X-H%02d", i), Values: []string{fmt.Sprintf("a%d", i)}})
	}
	var reqFields []refsxg.Field
	if reqMode != 1 {
		reqFields = append(reqFields, refsxg.Field{Name: "Accept", Values: []string{"*/*"}})
		for i := 0; i < nReq; i++ {
			reqFields = append(reqFields, refsxg.Field{Name: fmt.Sprintf("X-Rq%02d", i), Values: []string{fmt.Sprintf("r%d", i)}})
		}
	}
	var reqH http.Header
	if reqMode != 1 {
		reqH = c08Header(reqFields)
	}
	payload := pattern(payloadLen, c.Seed)
	e := signedexchange.NewExchange(ver.impl, reqURL, method, reqH, status, c08Header(respFields), append([]byte{}, payload...))

	fail := func(art, what, expected, observed string) {
		c.Outcome("VIOLATION " + art)
		c.Fail("C08/"+art+":"+id, what, "exchange "+id+" url="+clipS(reqURL)+" validity-url="+clipS(vURL), expected, observed)
	}
	var pan string
	guard := func(f func()) (ok bool) {
		defer func() {
			if r := recover(); r != nil {
				pan = fmt.Sprint(r)
				ok = false
			}
		}()
		f()
		return true
	}

	var miErr error
	if !guard(func() { miErr = e.MiEncodePayload(16) }) || miErr != nil {
		fail("miencode", "MiEncodePayload failed on a plain exchange", "nil", fmt.Sprintf("err=%v panic=%q", miErr, pan))
		return
	}
	digest := e.ResponseHeaders.Get(refsxg.DigestHeaderName(ver.ref))
	respFields = append(respFields,
		refsxg.Field{Name: "Content-Encoding", Values: []string{refsxg.ContentEncodingName(ver.ref)}},
		refsxg.Field{Name: refsxg.DigestHeaderName(ver.ref), Values: []string{digest}})
	x := &refsxg.Exchange{Version: ver.ref, URL: reqURL, Method: method, ReqHeaders: reqFields, Status: status, RespHeaders: respFields, Payload: e.Payload}

	certSha := sha256.Sum256(chain.certs[0].Raw)
	refHdr, err := refsxg.HeaderBlock(x)
	if err != nil {
		panic("c08: reference header block: " + err.Error())
	}
	refMsg, err := refsxg.SignedMessage(x, certSha[:], vURL, date, expires)
	if err != nil {
		panic("c08: reference message: " + err.Error())
	}
	refIntegrity, _ := refsxg.HeaderIntegrity(x)

	s := &signedexchange.Signer{
		Date:        time.Unix(date, dateNs),
		Expires:     time.Unix(expires, expNs),
		Certs:       chain.certs,
		CertUrl:     c08MustURL(certURL),
		ValidityUrl: c08MustURL(vURL),
		PrivKey:     chain.key,
	}
	if !real {
		s.Algorithm = &signingalgorithm.MockSigningAlgorithm{}
	}

	// 1. header block
	var hb bytes.Buffer
	var herr error
	if !guard(func() { herr = e.DumpExchangeHeaders(&hb) }) || herr != nil || !bytes.Equal(hb.Bytes(), refHdr) {
		fail("headers", "DumpExchangeHeaders differs from the reference header block", hx(refHdr), fmt.Sprintf("%s err=%v panic=%q", hx(hb.Bytes()), herr, pan))
		return
	}
	c.Eval()
	// 2. header integrity
	var integ string
	if !guard(func() { integ, herr = e.ComputeHeaderIntegrity() }) || herr != nil || integ != refIntegrity {
		fail("integrity", "ComputeHeaderIntegrity is not sha256-<base64> of the reference header block", refIntegrity, fmt.Sprintf("%q err=%v panic=%q", integ, herr, pan))
		return
	}
	c.Eval()
	// 3. signed message
	var mb bytes.Buffer
	if !guard(func() { herr = e.DumpSignedMessage(&mb, s) }) || herr != nil || !bytes.Equal(mb.Bytes(), refMsg) {
		fail("message", "DumpSignedMessage differs from the reference signed message", c08Diff(refMsg, mb.Bytes()), fmt.Sprintf("%s err=%v panic=%q", c08Diff(mb.Bytes(), refMsg), herr, pan))
		return
	}
	c.Eval()
	// 4. Signature header
	if !guard(func() { herr = e.AddSignatureHeader(s) }) || herr != nil {
		fail("sign", "AddSignatureHeader failed on a plain exchange", "nil", fmt.Sprintf("err=%v panic=%q", herr, pan))
		return
	}
	implSig := e.SignatureHeaderValue
	want := refsxg.SignatureParams{Integrity: refsxg.IntegrityID(ver.ref), CertURL: certURL, CertSha256: certSha[:], ValidityURL: vURL, Date: date, Expires: expires}
	if !real {
		sum := sha256.Sum256(refMsg)
		want.Sig = sum[:]
		refSig, err := refsxg.SignatureHeader("label", want)
		if err != nil {
			panic("c08: reference signature header: " + err.Error())
		}
		if implSig != refSig {
			fail("sigheader", "Signature header differs from the reference serialization", clipS(refSig), clipS(implSig))
			return
		}
	} else {
		label, got, err := refsxg.ParseSignature(implSig)
		if err != nil {
			fail("sigheader", "Signature header is not parsable by the reference structured-header parser", "one parameterised identifier with the seven parameters", err.Error()+" in "+clipS(implSig))
			return
		}
		if label != "label" || got.Integrity != want.Integrity || got.CertURL != want.CertURL || !bytes.Equal(got.CertSha256, want.CertSha256) ||
			got.ValidityURL != want.ValidityURL || got.Date != want.Date || got.Expires != want.Expires {
			fail("sigheader", "Signature header parameters differ from what was signed", fmt.Sprintf("%+v", want), fmt.Sprintf("label=%q %+v", label, got))
			return
		}
		if err := refsxg.VerifyECDSA(&chain.key.PublicKey, refMsg, got.Sig); err != nil {
			fail("sigverify", "the implementation's signature does not verify over the reference message with crypto/ecdsa", "valid signature", err.Error())
			return
		}
		want.Sig = got.Sig
		refSig, _ := refsxg.SignatureHeader("label", want)
		if implSig != refSig {
			fail("sigheader", "Signature header differs from the reference serialization", clipS(refSig), clipS(implSig))
			return
		}
	}
	c.Eval()
	// 5. file layout
	x.Signature = implSig
	refFile, err := refsxg.File(x)
	fits := err == nil
	if err != nil && !errors.Is(err, refsxg.ErrTooLong) {
		panic("c08: reference file: " + err.Error())
	}
	var fb bytes.Buffer
	if !fits {
		// e.g. a 65535-byte validity URL makes the Signature header longer than the
		// 16384 bytes b2/b3 allow: there is no file to compare, Write has to refuse
		if guard(func() { herr = e.Write(&fb) }) && herr == nil {
			fail("file-overlimit", "Write emitted a file although a component exceeds the format's limits", "error ("+err.Error()+")", fmt.Sprintf("nil error, %d bytes written", fb.Len()))
			return
		}
		if pan != "" {
			fail("file-overlimit", "Write panicked on an over-limit exchange", "error", pan)
			return
		}
	} else {
		if !guard(func() { herr = e.Write(&fb) }) || herr != nil || !bytes.Equal(fb.Bytes(), refFile) {
			fail("file", "Write differs from the reference file layout", c08Diff(refFile, fb.Bytes()), fmt.Sprintf("%s err=%v panic=%q", c08Diff(fb.Bytes(), refFile), herr, pan))
			return
		}
		p, err := refsxg.ParseFile(fb.Bytes())
		if err != nil {
			fail("file", "the reference parser cannot read the written file", "a well-formed file", err.Error())
			return
		}
		wantReq := refsxg.Fold(reqFields)
		if !ver.ref.HasRequest() {
			wantReq = nil
		}
		if p.Version != ver.ref || p.FallbackURL != reqURL || p.Signature != implSig || p.Status != status || !bytes.Equal(p.Payload, e.Payload) ||
			!refsxg.EqualPairs(p.RespHeaders, refsxg.Fold(respFields)) || !refsxg.EqualPairs(p.ReqHeaders, wantReq) || (ver.ref.HasRequest() && p.Method != method) {
			fail("file", "the reference parser reads back something else than was written", id, fmt.Sprintf("version=%v url=%s status=%d method=%q nresp=%d nreq=%d", p.Version, clipS(p.FallbackURL), p.Status, p.Method, len(p.RespHeaders), len(p.ReqHeaders)))
			return
		}
	}
	c.Eval()
	c.Traces(5)
	c.Nontrivial([]byte(id))
	fileNote := "file"
	if !fits {
		fileNote = "over-limit file refused by Write"
	}
	if !real {
		c.Outcome("mock: headers, integrity, message, Signature header, " + fileNote + " byte-equal (" + ver.ref.String() + ")")
		c.Sample(id + " -> " + clipS(implSig))
		return
	}

	// 6. vice versa: a signature made by the reference side must verify in the implementation
	clean := len(reqURL) >= len(c08Origin) && len(vURL) >= len(c08Origin) && window <= 604800
	if ver.ref.HasRequest() {
		clean = clean && (method == "GET" || method == "HEAD")
	} else {
		clean = clean && (status == 200 || status == 404)
	}
	// A conforming foreign signer may spell the validity URL in any way; the bytes in the
	// Signature header are what is signed (they need not be a fixed point of Go's
	// url.Parse(...).String()).  The implementation's own signer can only emit normalised
	// spellings, so these are exercised in this direction only.
	if foreignK > 0 && clean {
		rawV := c08ForeignVURL[foreignK]
		m2, merr := refsxg.SignedMessage(x, certSha[:], rawV, date, expires)
		if merr != nil {
			panic("c08: reference message: " + merr.Error())
		}
		refMsg = m2
		want.ValidityURL = rawV
	}
	rsig, err := refsxg.SignECDSA(chain.key, refMsg)
	if err != nil {
		panic("c08: reference signing: " + err.Error())
	}
	want.Sig = rsig
	refSig, _ := refsxg.SignatureHeader("label", want)
	x.Signature = refSig
	refFile2, ferr := refsxg.File(x)
	chainCBOR := c08ChainCBOR(chain.certs)
	fetched := ""
	fetch := func(u string) ([]byte, error) { fetched = u; return chainCBOR, nil }
	var logb bytes.Buffer
	lg := log.New(&logb, "", 0)
	t := time.Unix(date, 0)

	e.SignatureHeaderValue = refSig
	var out []byte
	var ok bool
	if !guard(func() { out, ok = e.Verify(t, fetch, lg) }) {
		fail("verify-mem", "Verify panicked", "a verdict", pan)
		return
	}
	var e2 *signedexchange.Exchange
	var rerr error
	var out2 []byte
	ok2 := false
	readable := len(reqURL) >= len(c08Origin) && ferr == nil
	if readable {
		if !guard(func() { e2, rerr = signedexchange.ReadExchange(bytes.NewReader(refFile2)) }) || rerr != nil {
			fail("read-ref-file", "ReadExchange refuses a file built by the reference serializer", "exchange", fmt.Sprintf("err=%v panic=%q", rerr, pan))
			return
		}
		if !guard(func() { out2, ok2 = e2.Verify(t, fetch, lg) }) {
			fail("verify-file", "Verify panicked", "a verdict", pan)
			return
		}
	}
	c.Eval()
	c.Traces(2)
	if !clean {
		c.Outcome(fmt.Sprintf("ecdsa: all artefacts byte-equal, impl signature verified by reference; exchange outside the acceptance policy, Verify verdict recorded only (mem=%v file=%v)", ok, ok2))
		return
	}
	if !ok || !bytes.Equal(out, payload) {
		fail("verify-mem", "a signature made with crypto/ecdsa over the reference message is refused by Exchange.Verify", "valid, original payload", fmt.Sprintf("ok=%v payload=%s log=%s", ok, hx(out), clipS(logb.String())))
		return
	}
	if readable && (!ok2 || !bytes.Equal(out2, payload)) {
		fail("verify-file", "a reference-built file with a reference-made signature is refused after ReadExchange", "valid, original payload", fmt.Sprintf("ok=%v payload=%s log=%s", ok2, hx(out2), clipS(logb.String())))
		return
	}
	if fetched != certURL {
		fail("verify-certurl", "Verify fetched another cert-url than the header carries", certURL, fetched)
		return
	}
	c.Outcome("ecdsa: all artefacts byte-equal, impl signature verified by reference, reference signature verified by impl (" + ver.ref.String() + " " + chain.key.Curve.Params().Name + ")")
	c.Sample(id + " -> " + clipS(implSig))
}

// c08Diff describes a (long) byte string by its length and the neighbourhood of
// the first difference from other.
func c08Diff(a, other []byte) string {
	i := 0
	for i < len(a) && i < len(other) && a[i] == other[i] {
		i++
	}
	lo := i - 16
	if lo < 0 {
		lo = 0
	}
	hi := i + 32
	if hi > len(a) {
		hi = len(a)
	}
	return fmt.Sprintf("len=%d first difference at offset %d: ...%x|%x...", len(a), i, a[lo:i], a[i:hi])
}

// spellings of the validity URL a foreign signer may use (reference-signed direction only)
var c08ForeignVURL = []string{"", "HTTPS://a.test/resource.validity", c08Origin + "v|x^{y}", c08Origin + "resource.validity#", c08Origin + "a b<c>"}

func init() {
	// harness-side sanity: every URL of the alphabet survives url.URL.String()
	for _, n := range c08LenAlphabet {
		c08MustURL(c08PadURL(n, "u"))
		c08MustURL(c08PadURL(n, "v"))
	}
	c08MustURL(c08Origin + `v?q="x\y"`)
	c08MustURL(c08Origin + `c?a="\"`)
	c08MustURL("data:application/cert-chain+cbor;base64,AAAA")

	h := &mc.Harness{
		Name: "C08/conformance",
		Bound: func(tier string) int {
			if tier == "quick" {
				return 2
			}
			return 3
		},
		Run: c08Run,
	}
	register(&mc.Property{
		ID:    "C08",
		Level: "model_checking",
		Rule:  "choice-tree enumeration: version {1b1,1b2,1b3} x signing {MockSigningAlgorithm, real ECDSA} swept completely, crossed with every combination of at most 2 (quick) / 3 (thorough) deviations from a default exchange over 15 dimensions (request-URL / validity-URL lengths {1,23,24,255,256,65535} and a validity URL with quote and backslash, cert-url {data:, 300 bytes, quote+backslash}, date {0,1,2^31,2^32,2^40}, expires-date {0,1,604800}, status {100,404,599}, method {HEAD,POST}, 0..30 further response fields, none/0..30 further request fields, probe field name length {1,23,24,255,256}, name letter case x3, value length {0,23,24,255,256,65535,65536}, 2/3 values, chains {A+CA, B, B+CA}, payload length {0,16}). Every execution compares DumpExchangeHeaders, ComputeHeaderIntegrity, DumpSignedMessage, the Signature header and Write byte-for-byte with refsxg and parses the file with the reference parser; ECDSA executions also verify the implementation's signature with crypto/ecdsa over the reference message and let the implementation verify a reference-made signature (in memory and from a reference-built file). A case is non-trivial when all five artefacts were compared; distinct by (version, mode, deviation set).",
		Assumptions: []string{
			"refsxg / refcbor (independent re-implementations of the drafts' text) are correct",
			"the MI digest value and MI-encoded body are taken from the implementation (C14 checks them); C08 judges layout only",
			"values between the enumerated length classes behave like their neighbours in the same class (small-scope hypothesis); at most 2/3 simultaneous deviations",
			"certificate chains are non-empty (cert-sha256 always set); the label is the implementation's fixed token \"label\"; parameters are emitted in ascending key order (the draft leaves the order open, the repository documents sorting)",
			"P-384 keys sign with ecdsa_secp384r1_sha384 (the draft allows any non-legacy TLS 1.3 algorithm for non-P-256 keys)",
		},
		Harnesses: []*mc.Harness{h},
		Guard: func(s map[string]*mc.Stats) error {
			st := s["C08/conformance"]
			if st == nil {
				return fmt.Errorf("C08/conformance did not run")
			}
			if st.Executions < 6*150 {
				return fmt.Errorf("only %d executions: fewer than the single-deviation sweep", st.Executions)
			}
			if st.States < st.Executions {
				return fmt.Errorf("%d distinct cases for %d executions: deviation descriptions collide", st.States, st.Executions)
			}
			return nil
		},
	})
}
