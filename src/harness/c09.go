package main

// C09 — the signed-exchange acceptance policy is enforced exactly.
//
// Code under test: signedexchange.Exchange.Verify (verifier.go: same-origin check,
// verifyTimestamps, Content-Type and integrity-identifier checks, request-method
// check, IsCacheable / parseCacheControlDirectives, verifyHeaders) and
// stateful_headers.go (IsStatefulRequestHeader, IsUncachedHeader,
// VerifyUncachedHeader), driven exactly the way TestVerify drives them: an Exchange is
// built, MI-encoded, signed with signedexchange.Signer (real ECDSA P-256, fixture
// identity A) and verified with a cert fetcher that returns A's cert-chain+cbor.
//
// Oracle: refpolicy.Accept, a pure predicate written from the spec text.
// Verify ok <=> refpolicy accepts, BOTH directions (a violating exchange accepted and
// a conforming exchange rejected are both violations).  Signature validity and payload
// integrity hold by construction: the exchange is given its final method / headers /
// status FIRST, is MI-encoded and signed afterwards, and the signature parameters
// (date, expires, validity-url) are the Signer's input.  The only post-signing edit is
// the "integrity" parameter of the Signature header, which is not covered by the
// signature.
//
// Harnesses:
//
//	C09/single    every dimension swept COMPLETELY with all others at their default
//	              (deviation bound 1, full alphabets), for each version (1b1, 1b2, 1b3)
//	              x each form (the in-memory Exchange as built / the Exchange obtained
//	              by Exchange.Write + ReadExchange).
//	C09/pairs     every PAIR of dimensions (deviation bound 2) over boundary alphabets
//	              (quick) / nearly full alphabets (thorough), same versions x forms.
//	C09/storable  the RFC 7234 section 3 sub-predicate as a FULL PRODUCT straight against
//	              Exchange.IsCacheable (1b3 only: IsCacheable panics for 1b1/1b2 by
//	              design): status 100..599 x every subset of the 7 directives x Expires
//	              present/absent x 3 spellings x single-/multi-valued x both orders x
//	              19 look-alike extension tokens (7 with a quoted-string argument, 4 of those with commas inside).  No signing.
//	C09/twosig    Signature headers with two signatures: "valid" iff some signature is
//	              valid and passes the policy (spec: run the algorithm for each
//	              signature, stop at the first that returns valid).
//
// Dimensions of C09/single and C09/pairs (index 0 = default = an exchange that meets
// every condition; all are c.Dev points, version and form are c.Free):
//
//	request URL   https://a.test/a/page.html | https://a.test:8443/a/page.html
//	time          (t-date, expires-t): {-1,0,1} x {-1,0,1}; t-date in {-1,0,1} with
//	              expires-date in {604799,604800,604801}; expires-t in {-1,0,1} with the
//	              same lifetimes; sub-second instants 1 ns before date / after expires;
//	              a lifetime of 2^40 s.  (37 alternatives, all mutually consistent;
//	              t is fixed, date = t-(t-date), expires = t+(expires-t).)
//	method        GET HEAD POST PUT get ""                       (1b1/1b2 only)
//	request hdr   harmless | none | 5 stateful names x {lower, Canonical-Case, UPPER,
//	              mIxEd, spec spelling} | look-alikes            (1b1/1b2 only)
//	response hdr  harmless | 19 uncached names x the same spellings | look-alikes
//	Cache-Control absent | every non-empty subset of {no-store, private, max-age=1,
//	              s-maxage=1, public, no-cache, x-ext=1} x 3 spellings (case of the
//	              directive name and list separator ", " / "," / " , ") x forward /
//	              reverse order x one field value / one value per directive (Header.Add)
//	Expires       absent | present
//	status        200 | every other code of 100..599 (quick tier of C09/pairs: 48
//	              boundary codes)
//	Content-Type  present | absent
//	integrity     right | the other version's | final-RFC name | right+"x" | ""
//	validity URL  same origin | other scheme | sub-domain | suffix host | prefix host |
//	              other explicit port | port dropped/other | other path+query (accept) |
//	              userinfo (accept) | 3 unparsable | relative
//
// Deliberately OUT of the alphabet, because the property text does not settle them
// (claimed neither way): an explicit default port (":443") and host letter case in
// the validity URL (RFC 6454 equality vs. the byte-wise comparison in the code);
// qualified `private="field"` / `no-cache="field"` and quoted-string directive
// arguments (the code has a TODO), directives with white space around "=", bare
// `max-age` without argument; empty Expires / Content-Type values; request headers or
// a non-GET method on an in-memory 1b3 exchange (the 1b3 format has neither);
// Cache-Control / Expires / Content-Type stored under a non-canonical map key of an
// in-memory http.Header (only the uncached and stateful NAME lists are claimed "in any
// letter case"); a fragment in the validity URL; validity URLs whose parse verdict
// differs between net/url and the WHATWG parser (e.g. "%zz"); more than two signatures.

import (
	"bytes"
	"crypto/x509"
	"fmt"
	"io"
	"log"
	"math"
	"math/big"
	"net/http"
	"net/url"
	"sort"
	"strconv"
	"strings"
	"time"

	"github.com/WICG/webpackage/go/signedexchange"
	"github.com/WICG/webpackage/go/signedexchange/certurl"
	"github.com/WICG/webpackage/go/signedexchange/version"
	"github.com/WICG/webpackage/go/signedexchange/zverif/fixtures"
	"github.com/WICG/webpackage/go/signedexchange/zverif/mc"
	"github.com/WICG/webpackage/go/signedexchange/zverif/refcbor"
	"github.com/WICG/webpackage/go/signedexchange/zverif/refpolicy"
	"github.com/WICG/webpackage/go/signedexchange/zverif/refsxg"
)

var c09Versions = []version.Version{version.Version1b1, version.Version1b2, version.Version1b3}

const (
	c09T0          = int64(1600000000) // verification instant (seconds)
	c09ExpiresLine = "Mon, 07 Jan 2019 07:29:39 GMT"
)

var c09ReqURLs = []string{"https://a.test/a/page.html", "https://a.test:8443/a/page.html"}

// ---- time ------------------------------------------------------------------

type c09Time struct {
	name string
	d, x int64 // t - date, expires - t
	nsec int64 // >= 0: nanoseconds of the verification instant; < 0: respell() = -nsec, instant on the second
	// respell != 0: AFTER signing, the decimal text of the date (1, 3) / expires (2) parameter in the Signature header is
	// replaced by that of the value plus 2^64 (1, 2) or 2^65 (3).  Nobody needs the key for that; the parameter as
	// written is far outside the window (and outside the range of a structured-header integer), so the exchange must be
	// refused - a parser whose accumulator wraps reads the honest value back and the signature still matches.
}

func (t c09Time) ns() int64 {
	if t.nsec < 0 {
		return 0
	}
	return t.nsec
}

func (t c09Time) respell() int {
	if t.nsec < 0 {
		return int(-t.nsec)
	}
	return 0
}

func c09Times() []c09Time {
	out := []c09Time{{"default", 1000, 1000, 0}}
	near := []int64{-1, 0, 1}
	life := []int64{604799, 604800, 604801}
	for _, d := range near {
		for _, x := range near {
			out = append(out, c09Time{fmt.Sprintf("t-date=%d,expires-t=%d", d, x), d, x, 0})
		}
	}
	for _, d := range near {
		for _, l := range life {
			out = append(out, c09Time{fmt.Sprintf("t-date=%d,expires-date=%d", d, l), d, l - d, 0})
		}
	}
	for _, x := range near {
		for _, l := range life {
			out = append(out, c09Time{fmt.Sprintf("expires-t=%d,expires-date=%d", x, l), l - x, x, 0})
		}
	}
	out = append(out,
		c09Time{"t=date+1ns", 0, 5, 1},
		c09Time{"t=date-1ns", -1, 5, 999999999},
		c09Time{"t=expires+1ns", 5, 0, 1},
		c09Time{"t=expires-1ns", 5, 1, 999999999},
		c09Time{"lifetime=2^40", 1000, 1 << 40, 0},
		c09Time{"lifetime=604800,middle", 302400, 302400, 0},
		c09Time{"lifetime=604801,middle", 302400, 302401, 0},
		c09Time{"lifetime=0,t=date=expires", 0, 0, 0},
	)
	// extreme absolute values of the date / expires parameters themselves (every one of them a reject: t is outside the
	// window or the window is longer than 7 days).  time.Unix wraps for seconds above MaxInt64-62135596800, and
	// expires-date wraps in int64 when the two have opposite signs and large magnitudes: a check written with plain
	// int64 arithmetic or with wrapped time.Time values turns these into accepts.  d and x are stored modulo 2^64
	// (c09T0-d and c09T0+x give the absolute values back exactly).
	const maxI, minI, internal = int64(math.MaxInt64), int64(math.MinInt64), int64(62135596800)
	abs := func(name string, date, expires int64) c09Time {
		return c09Time{name, c09T0 - date, expires - c09T0, 0}
	}
	out = append(out,
		abs("date=MaxInt64,expires=t+1000", maxI, c09T0+1000),
		abs("date=first second time.Unix wraps at,expires=t+1000", maxI-internal+1, c09T0+1000),
		abs("date=last second time.Unix represents,expires=t+1000", maxI-internal, c09T0+1000),
		abs("date=MaxInt64,expires=MaxInt64", maxI, maxI),
		abs("date=t-1000,expires=MaxInt64", c09T0-1000, maxI),
		abs("date=MinInt64,expires=t+1000", minI, c09T0+1000),
		abs("date=-2^62,expires=t+1000", -(1<<62), c09T0+1000),
		abs("date=-1000,expires=MaxInt64", -1000, maxI),
		abs("date=MinInt64,expires=MaxInt64", minI, maxI),
	)
	out = append(out,
		c09Time{"date written as date+2^64 after signing", 1000, 1000, -1},
		c09Time{"expires written as expires+2^64 after signing", 1000, 1000, -2},
		c09Time{"date written as date+2^65 after signing", 1000, 1000, -3},
	)
	// de-duplicate by (d, x, nsec), keep first
	seen := map[[3]int64]bool{}
	var ded []c09Time
	for _, t := range out {
		k := [3]int64{t.d, t.x, t.nsec}
		if !seen[k] {
			seen[k] = true
			ded = append(ded, t)
		}
	}
	return ded
}

// ---- header names ----------------------------------------------------------

func c09Mixed(s string) string {
	b := []byte(strings.ToLower(s))
	up := false
	for i, ch := range b {
		if 'a' <= ch && ch <= 'z' {
			if up {
				b[i] = ch - 'a' + 'A'
			}
			up = !up
		}
	}
	return string(b)
}

// c09Spellings: lower, Canonical-Case, UPPER, mIxEd and the spec's spelling.
func c09Spellings(spec string) []string {
	lo := strings.ToLower(spec)
	cand := []string{lo, http.CanonicalHeaderKey(lo), strings.ToUpper(lo), c09Mixed(lo), spec}
	var out []string
	for _, c := range cand {
		dup := false
		for _, o := range out {
			if o == c {
				dup = true
			}
		}
		if !dup {
			out = append(out, c)
		}
	}
	return out
}

// header alternatives: "" = only the harmless default header, "-" = no header at all
// (request side only), otherwise the extra field name added next to the default one.
func c09ReqHeaderAlts(full bool) []string {
	out := []string{"", "-"}
	for i, n := range refpolicy.StatefulRequestNames() {
		sp := c09Spellings(n)
		if full {
			out = append(out, sp...)
		} else {
			out = append(out, sp[i%len(sp)], sp[(i+2)%len(sp)])
		}
	}
	out = append(out, "Cookies", "X-Cookie", "authorizations", "Sec-WebSocket-Key1")
	// names that are banned only as RESPONSE headers, in exactly the spellings the response side uses: harmless in a
	// request, and a verdict remembered by name alone would carry over from one role to the other
	st := map[string]bool{}
	for _, n := range refpolicy.StatefulRequestNames() {
		st[strings.ToLower(n)] = true
	}
	for i, n := range refpolicy.UncachedNames() {
		if sp := c09Spellings(n); !st[strings.ToLower(n)] && (full || i%3 == 0) {
			out = append(out, sp[i%len(sp)])
		}
	}
	return out
}

func c09RespHeaderAlts(full bool) []string {
	out := []string{""}
	for i, n := range refpolicy.UncachedNames() {
		sp := c09Spellings(n)
		if full {
			out = append(out, sp...)
		} else {
			out = append(out, sp[i%len(sp)])
		}
	}
	out = append(out, "Set-Cookie3", "x-upgrade", "Connections", "TRAILERS", "Keep-Alive-X", "Authentication")
	// ... and the names banned only as REQUEST headers, in the request side's spellings: harmless in a response
	un := map[string]bool{}
	for _, n := range refpolicy.UncachedNames() {
		un[strings.ToLower(n)] = true
	}
	for i, n := range refpolicy.StatefulRequestNames() {
		if sp := c09Spellings(n); !un[strings.ToLower(n)] {
			out = append(out, sp[i%len(sp)])
			if full {
				out = append(out, sp[(i+2)%len(sp)])
			}
		}
	}
	return out
}

// ---- Cache-Control -----------------------------------------------------------

var c09Tokens = []string{"no-store", "private", "max-age=1", "s-maxage=1", "public", "no-cache", "x-ext=1"}

// look-alike extension tokens for C09/storable (replace the 7th token)
// (the last three carry a quoted-string argument without a comma inside: RFC 7234 allows both argument forms)
var c09ExtTokens = []string{"x-ext=1", "ext", "xno-store", "no-storex", "privately", "xprivate", "max-age-x=1", "xmax-age=1", "s-maxagex=1", "xs-maxage=1", "publicx", "xpublic", `x-ext="v"`, `x-ext=""`, `x-ext="no-store"`, `x-ext="a, no-store, b"`, `x-ext="a,private"`, `x-ext="a, max-age=1"`, `x-ext="q\", no-store, \"r"`}

var c09Seps = []string{", ", ",", " , "}

func c09SpellToken(tok string, style int) string {
	name, arg := tok, ""
	if i := strings.IndexByte(tok, '='); i >= 0 {
		name, arg = tok[:i], tok[i:]
	}
	switch style {
	case 1:
		parts := strings.Split(name, "-")
		for i, p := range parts {
			if p != "" {
				parts[i] = strings.ToUpper(p[:1]) + p[1:]
			}
		}
		name = strings.Join(parts, "-")
	case 2:
		name = strings.ToUpper(name)
	}
	return name + arg
}

// c09CC builds the Cache-Control field values for a subset of tokens.
func c09CC(tokens []string, mask, style int, reverse, multi bool) []string {
	var toks []string
	for i, t := range tokens {
		if mask&(1<<uint(i)) != 0 {
			toks = append(toks, c09SpellToken(t, style))
		}
	}
	if reverse {
		for i, j := 0, len(toks)-1; i < j; i, j = i+1, j-1 {
			toks[i], toks[j] = toks[j], toks[i]
		}
	}
	if len(toks) == 0 {
		return nil
	}
	if multi {
		return toks
	}
	return []string{strings.Join(toks, c09Seps[style])}
}

func c09CCKey(v []string) string { return "[" + strings.Join(v, "|") + "]" }

func c09PopCount(m int) int {
	n := 0
	for ; m != 0; m &= m - 1 {
		n++
	}
	return n
}

// c09CCAlts: level 2 = full (every subset x 3 spellings x order x single/multi),
// level 1 = every subset (lower, single) + every 2-subset multi-valued in both orders
// + spelled singletons + all seven, level 0 = subsets of size <= 2 only of level 1.
func c09CCAlts(level int) [][]string {
	out := [][]string{nil}
	seen := map[string]bool{c09CCKey(nil): true}
	add := func(v []string) {
		k := c09CCKey(v)
		if !seen[k] {
			seen[k] = true
			out = append(out, v)
		}
	}
	for mask := 1; mask < 128; mask++ {
		n := c09PopCount(mask)
		switch level {
		case 2:
			for style := 0; style < 3; style++ {
				for _, rev := range []bool{false, true} {
					for _, multi := range []bool{false, true} {
						add(c09CC(c09Tokens, mask, style, rev, multi))
					}
				}
			}
		default:
			if level == 1 || n <= 2 || n == 7 {
				add(c09CC(c09Tokens, mask, 0, false, false))
			}
			if n == 1 {
				add(c09CC(c09Tokens, mask, 1, false, false))
				add(c09CC(c09Tokens, mask, 2, false, false))
			}
			if n == 2 || n == 7 {
				add(c09CC(c09Tokens, mask, 0, false, true))
				add(c09CC(c09Tokens, mask, 0, true, true))
				add(c09CC(c09Tokens, mask, n%3, true, false))
			}
		}
	}
	// an extension directive with a quoted-string argument directly followed by / following a decisive directive
	for _, v := range [][]string{{`x-ext="v",no-store`}, {`no-store,x-ext="v"`}, {`x-ext="v",private`}, {`x-ext="v",max-age=1`}, {`x-ext="v", s-maxage=1`},
		{`public,x-ext="v",no-cache`}, {`x-ext="v"`, `no-store`}, {`x-ext="v"`, `public`}, {`x-ext="no-store"`}, {`x-ext="v",public`},
		// quoted-string arguments that contain commas: the text between the quotes is not a directive
		{`x-ext="a, no-store, b"`}, {`x-ext="a,private"`}, {`x-ext="a, public"`}, {`max-age=1, x-ext="a, no-store"`}, {`x-ext="q\", no-store, \"r"`}, {`x-ext="a, no-store, b", private`}} {
		add(v)
	}
	return out
}

// ---- status ------------------------------------------------------------------

func c09Statuses() []int {
	out := []int{200}
	for s := 100; s <= 599; s++ {
		if s != 200 {
			out = append(out, s)
		}
	}
	return out
}

// c09BoundaryStatuses: the codes that are cacheable by default and both neighbours
// of each, the edges of every class, and common codes with and without a reason
// phrase in net/http (quick tier of C09/pairs; C09/single and the thorough tier use
// all of 100..599).
func c09BoundaryStatuses() []int {
	seen := map[int]bool{200: true}
	out := []int{200}
	add := func(s int) {
		if s >= 100 && s <= 599 && !seen[s] {
			seen[s] = true
			out = append(out, s)
		}
	}
	for _, s := range []int{200, 203, 204, 206, 300, 301, 404, 405, 410, 414, 501} {
		add(s - 1)
		add(s)
		add(s + 1)
	}
	for _, s := range []int{100, 101, 103, 104, 199, 299, 302, 304, 306, 307, 308, 309, 399, 400, 401, 403, 418, 419, 429, 451, 499, 500, 503, 511, 512, 598, 599} {
		add(s)
	}
	return out
}

// ---- integrity / validity ------------------------------------------------------

func c09IntegrityAlts(ver string) []string {
	right, _ := refpolicy.IntegrityFor(ver)
	other := "mi-draft2"
	if ver == "1b1" {
		other = "digest/mi-sha256-03"
	}
	final := "digest/mi-sha256"
	if ver == "1b1" {
		final = "mi-draft"
	}
	// structured look-alikes of the right identifier: its guard-header part alone, with an empty algorithm
	// part, with the algorithm spelled twice, with another letter case, one character short
	head := right
	if i := strings.IndexByte(right, '/'); i >= 0 {
		head = right[:i]
	}
	algo := "mi-sha256-03"
	if ver == "1b1" {
		algo = "mi-sha256-draft2"
	}
	alts := []string{right, other, final, right + "x", "", head + "/", head + "/" + algo + "/" + algo, strings.ToUpper(right[:1]) + right[1:], right[:len(right)-1], right + "/", "/" + algo}
	if head != right {
		alts = append(alts, head)
	} else {
		alts = append(alts, head+"/"+algo)
	}
	return alts
}

type c09Validity struct{ name, url string }

func c09ValidityAlts(reqURL string) []c09Validity {
	u, _ := url.Parse(reqURL)
	host, port := u.Hostname(), u.Port()
	hp := func(h, p string) string {
		if p == "" {
			return h
		}
		return h + ":" + p
	}
	otherPort, dropped := "8443", "4430"
	if port != "" {
		otherPort, dropped = "8444", ""
	}
	const p = "/resource.validity"
	return []c09Validity{
		{"same-origin", "https://" + hp(host, port) + p},
		{"other-scheme", "http://" + hp(host, port) + p},
		{"sub-domain", "https://" + hp("sub."+host, port) + p},
		{"suffix-host", "https://" + hp(host+".evil.example", port) + p},
		{"prefix-host", "https://" + hp(host+"ing", port) + p},
		{"other-port", "https://" + hp(host, otherPort) + p},
		{"port-dropped-or-other", "https://" + hp(host, dropped) + p},
		{"other-path", "https://" + hp(host, port) + "/other/dir/v.validity?x=1"},
		{"userinfo", "https://user@" + hp(host, port) + p},
		{"unparsable-port", "https://" + host + ":bad" + p},
		{"unparsable-bracket", "https://[::1" + p},
		{"unparsable-space", "https://a b.test" + p},
		{"relative", p},
	}
}

// ---- alphabets -----------------------------------------------------------------

type c09Alphabet struct {
	times    []c09Time
	methods  []string
	reqHdrs  []string
	respHdrs []string
	ccs      [][]string
	statuses []int
}

var (
	c09Full, c09PairsQuick, c09PairsThorough *c09Alphabet
	c09CertBytes                             []byte
	c09Discard                               = log.New(io.Discard, "", 0)
)

func init() {
	methods := []string{"GET", "HEAD", "POST", "PUT", "get", "", c09MethodAbsent}
	c09Full = &c09Alphabet{c09Times(), methods, c09ReqHeaderAlts(true), c09RespHeaderAlts(true), c09CCAlts(2), c09Statuses()}
	c09PairsQuick = &c09Alphabet{c09Times(), methods, c09ReqHeaderAlts(false), c09RespHeaderAlts(false), c09CCAlts(0), c09BoundaryStatuses()}
	c09PairsThorough = &c09Alphabet{c09Times(), methods, c09ReqHeaderAlts(true), c09RespHeaderAlts(true), c09CCAlts(1), c09Statuses()}

	chain, err := certurl.NewCertChain([]*x509.Certificate{fixtures.A.Leaf}, []byte("ocsp"), nil)
	if err != nil {
		panic(err)
	}
	var buf bytes.Buffer
	if err := chain.Write(&buf); err != nil {
		panic(err)
	}
	c09CertBytes = buf.Bytes()
	// the Opaque trick used to hand arbitrary validity-url strings to the Signer
	for _, r := range c09ReqURLs {
		for _, v := range c09ValidityAlts(r) {
			if (&url.URL{Opaque: v.url}).String() != v.url {
				panic("c09: validity URL does not survive url.URL.String(): " + v.url)
			}
		}
	}
}

// ---- one case ------------------------------------------------------------------

type c09Sig struct {
	tm        c09Time
	validity  string
	integrity string
	wrongKey  bool // signed with another key than the certificate's (twosig only)
}

type c09Case struct {
	ver       int
	wire      bool
	reqURL    string
	method    string
	reqExtra  string
	respExtra string
	cc        []string
	expires   bool
	expEmpty  bool // the Expires field is present with an empty value (RFC 7234 section 5.3: an invalid date still is an Expires field)
	status    int
	ctype     bool
	sigs      []c09Sig
}

func (cs *c09Case) input(i int, respNames []string) refpolicy.Input {
	s := cs.sigs[i]
	in := refpolicy.Input{
		Version: string(c09Versions[cs.ver]),
		TSec:    c09T0, TNsec: s.tm.ns(),
		Date: c09T0 - s.tm.d, Expires: c09T0 + s.tm.x,
		Status: cs.status, ResponseHeaders: respNames, CacheControl: cs.cc,
		ExpiresPresent: cs.expires, ContentType: cs.ctype,
		ValidityURL: s.validity, RequestURL: cs.reqURL, Integrity: s.integrity,
	}
	if cs.ver < 2 {
		in.Method = cs.method
		if cs.method == c09MethodAbsent {
			in.Method = ""
		}
		if cs.reqExtra != "-" {
			in.RequestHeaders = []string{"Accept"}
			if cs.reqExtra != "" {
				in.RequestHeaders = append(in.RequestHeaders, cs.reqExtra)
			}
		}
	}
	return in
}

// c09MethodAbsent: the request map carries no ':method' entry at all.  In memory that is the empty
// method; on the wire the exchange is signed and written as a GET and the ':method' entry is then
// removed from the request map of the file (the repository's writer always emits one).
const c09MethodAbsent = "<no :method entry>"

// c09DropMethod rewrites a b1/b2 file so that its request map has no ':method' entry.
func c09DropMethod(file []byte) ([]byte, error) {
	p, err := refsxg.ParseFile(file)
	if err != nil {
		return nil, err
	}
	hdr, n, err := refcbor.Decode(p.HeaderBytes)
	if err != nil || n != len(p.HeaderBytes) || len(hdr.Elems) != 2 {
		return nil, fmt.Errorf("header block is not an array of two maps (%v)", err)
	}
	req := hdr.Elems[0]
	var kvs []refcbor.KV
	dropped := 0
	for i := 0; i+1 < len(req.Elems); i += 2 {
		if string(req.Elems[i].Str) == ":method" {
			dropped++
			continue
		}
		kvs = append(kvs, refcbor.KV{K: req.Elems[i].Raw, V: req.Elems[i+1].Raw})
	}
	if dropped != 1 {
		return nil, fmt.Errorf("request map has %d ':method' entries", dropped)
	}
	newReq, err := refcbor.EncMap(kvs)
	if err != nil {
		return nil, err
	}
	newHdr := refcbor.EncArray(newReq, hdr.Elems[1].Raw)
	be := func(v, w int) []byte {
		b := make([]byte, w)
		for i := w - 1; i >= 0; i-- {
			b[i] = byte(v)
			v >>= 8
		}
		return b
	}
	out := append([]byte{}, refsxg.Magic(p.Version)...)
	if p.Version != refsxg.B1 {
		out = append(out, be(len(p.FallbackURL), 2)...)
		out = append(out, p.FallbackURL...)
	}
	out = append(out, be(len(p.Signature), 3)...)
	out = append(out, be(len(newHdr), 3)...)
	out = append(out, p.Signature...)
	out = append(out, newHdr...)
	out = append(out, p.Payload...)
	// self-check: the only thing the reference parser objects to is the missing ':method'
	if _, err := refsxg.ParseFile(out); err == nil || !strings.Contains(err.Error(), "request map without ':method'") {
		return nil, fmt.Errorf("rewritten file does not parse as intended (%v)", err)
	}
	return out, nil
}

// c09Build constructs the exchange with its final headers, then MI-encodes and signs
// it.  It returns the exchange to verify (in-memory or re-read from its wire form) and
// the response field names present.
func c09Build(cs *c09Case, seed int64) (*signedexchange.Exchange, []string, error) {
	ver := c09Versions[cs.ver]
	var reqH http.Header
	method := "GET"
	if cs.ver < 2 {
		method = cs.method
		if method == c09MethodAbsent {
			method = ""
			if cs.wire {
				method = "GET"
			}
		}
		if cs.reqExtra != "-" {
			reqH = http.Header{"Accept": {"*/*"}}
			if cs.reqExtra != "" {
				reqH[cs.reqExtra] = []string{"v"} // stored under exactly this spelling
			}
		}
	}
	respH := http.Header{"Foo": {"bar"}}
	if cs.ctype {
		respH["Content-Type"] = []string{"text/html; charset=utf-8"}
	}
	if cs.respExtra != "" {
		respH[cs.respExtra] = []string{"v"}
	}
	for _, v := range cs.cc {
		respH.Add("Cache-Control", v)
	}
	if cs.expires && cs.expEmpty {
		respH["Expires"] = []string{""}
	} else if cs.expires {
		respH.Set("Expires", c09ExpiresLine)
	}
	e := signedexchange.NewExchange(ver, cs.reqURL, method, reqH, cs.status, respH, pattern(40, seed))
	if err := e.MiEncodePayload(16); err != nil {
		return nil, nil, fmt.Errorf("MiEncodePayload: %v", err)
	}
	var names []string
	for n := range e.ResponseHeaders {
		names = append(names, n)
	}
	sort.Strings(names)

	right, _ := refpolicy.IntegrityFor(string(ver))
	var parts []string
	for _, sg := range cs.sigs {
		key := fixtures.A.Key
		if sg.wrongKey {
			key = fixtures.A2.Key
		}
		s := &signedexchange.Signer{
			Date:        time.Unix(c09T0-sg.tm.d, 0),
			Expires:     time.Unix(c09T0+sg.tm.x, 0),
			Certs:       []*x509.Certificate{fixtures.A.Leaf},
			CertUrl:     &url.URL{Scheme: "https", Host: "a.test", Path: "/cert.cbor"},
			ValidityUrl: &url.URL{Opaque: sg.validity},
			PrivKey:     key,
		}
		if err := e.AddSignatureHeader(s); err != nil {
			return nil, nil, fmt.Errorf("AddSignatureHeader: %v", err)
		}
		hv := e.SignatureHeaderValue
		if sg.integrity != right {
			old := `integrity="` + right + `"`
			if strings.Count(hv, old) != 1 {
				return nil, nil, fmt.Errorf("integrity parameter not found once in %q", hv)
			}
			hv = strings.Replace(hv, old, `integrity="`+sg.integrity+`"`, 1)
		}
		if r := sg.tm.respell(); r != 0 {
			name, val, shift := "date", c09T0-sg.tm.d, uint(64)
			if r == 2 {
				name, val = "expires", c09T0+sg.tm.x
			}
			if r == 3 {
				shift = 65
			}
			old := fmt.Sprintf("%s=%d", name, val)
			if strings.Count(hv, old) != 1 {
				return nil, nil, fmt.Errorf("%s parameter not found once in %q", name, hv)
			}
			written := new(big.Int).Add(new(big.Int).Lsh(bigOne, shift), bigInt(val))
			hv = strings.Replace(hv, old, name+"="+written.String(), 1)
		}
		parts = append(parts, hv)
	}
	e.SignatureHeaderValue = strings.Join(parts, ",")
	if !cs.wire {
		return e, names, nil
	}
	var buf bytes.Buffer
	if err := e.Write(&buf); err != nil {
		return nil, names, fmt.Errorf("Exchange.Write: %v", err)
	}
	file := buf.Bytes()
	if cs.ver < 2 && cs.method == c09MethodAbsent {
		var err error
		if file, err = c09DropMethod(file); err != nil {
			panic("c09: cannot remove ':method' from the written file: " + err.Error())
		}
	}
	e2, err := signedexchange.ReadExchange(bytes.NewReader(file))
	if err != nil {
		return nil, names, fmt.Errorf("ReadExchange: %v", err)
	}
	return e2, names, nil
}

func c09Verify(e *signedexchange.Exchange, t time.Time) (ok bool, logs string, pan interface{}) {
	defer func() {
		if p := recover(); p != nil {
			pan = p
		}
	}()
	var lb bytes.Buffer
	fetch := func(string) ([]byte, error) { return c09CertBytes, nil }
	_, ok = e.Verify(t, fetch, log.New(&lb, "", 0))
	return ok, lb.String(), nil
}

// c09Stage names the implementation's rejection stage from its log (outcome classes
// only; the verdict is never derived from the log).
func c09Stage(ok bool, logs string) string {
	if ok {
		return "accept"
	}
	table := []struct{ sub, name string }{
		{"Could not parse signature header", "signature-header-parse"},
		{"Invalid signature:", "signature-fields"},
		{"Cannot parse validity-url", "validity-url-parse"},
		{"is not same-origin", "same-origin"},
		{"more than 7 days", "lifetime"},
		{"not yet valid", "not-yet-valid"},
		{"signature is expired", "expired"},
		{"cert-sha256 mismatch", "CERT-SHA256"},
		{"signature verification failed", "SIGNATURE"},
		{"Content-Type response header is absent", "content-type"},
		{"unsupported integrity scheme", "integrity"},
		{"mice:", "PAYLOAD"},
		{"Request method", "method"},
		{"Unknown response status", "storable:status"},
		{"\"no-store\"", "storable:no-store"},
		{"\"private\"", "storable:private"},
		{"not cacheable by a shared cache", "storable:nothing"},
		{"stateful request header", "stateful-request-header"},
		{"uncached header", "uncached-response-header"},
	}
	var got []string
	for _, line := range strings.Split(logs, "\n") {
		for _, t := range table {
			if strings.Contains(line, t.sub) {
				got = append(got, t.name)
				break
			}
		}
	}
	if len(got) == 0 {
		return "reject(unclassified)"
	}
	return "reject:" + strings.Join(got, "+")
}

func c09Describe(cs *c09Case) string {
	var b strings.Builder
	fmt.Fprintf(&b, "version=%s form=%s url=%s", c09Versions[cs.ver], map[bool]string{false: "memory", true: "wire"}[cs.wire], cs.reqURL)
	if cs.ver < 2 {
		fmt.Fprintf(&b, " method=%q request-headers=", cs.method)
		switch cs.reqExtra {
		case "-":
			b.WriteString("none")
		case "":
			b.WriteString("[Accept]")
		default:
			fmt.Fprintf(&b, "[Accept %s]", cs.reqExtra)
		}
	}
	fmt.Fprintf(&b, " status=%d content-type=%v expires-header=%v (empty value: %v) cache-control=%q extra-response-header=%q", cs.status, cs.ctype, cs.expires, cs.expEmpty, cs.cc, cs.respExtra)
	for i, s := range cs.sigs {
		fmt.Fprintf(&b, " | sig%d: t=%d.%09d date=%d expires=%d (%s) validity-url=%q integrity=%q", i, c09T0, s.tm.ns(), c09T0-s.tm.d, c09T0+s.tm.x, s.tm.name, s.validity, s.integrity)
		if s.wrongKey {
			b.WriteString(" SIGNED-WITH-ANOTHER-KEY")
		}
	}
	return b.String()
}

// c09Judge runs the case on the real code and compares with the reference.
// devs is the short stable description of the non-default dimensions (part of the key).
func c09Judge(c *mc.Ctx, cs *c09Case, devs string) {
	verS := string(c09Versions[cs.ver])
	form := "memory"
	if cs.wire {
		form = "wire"
	}
	e, names, err := c09Build(cs, c.Seed)
	// reference verdict: some signature is valid by construction and passes the policy
	want, reason := false, ""
	for i := range cs.sigs {
		if cs.sigs[i].wrongKey {
			if reason == "" {
				reason = "signature-invalid"
			}
			continue
		}
		if cs.sigs[i].tm.respell() != 0 {
			if reason == "" || reason == "signature-invalid" {
				reason = "parameter-out-of-range"
			}
			continue
		}
		ok, why := refpolicy.Accept(cs.input(i, names))
		if ok {
			want, reason = true, refpolicy.OK
			break
		}
		if reason == "" || reason == "signature-invalid" {
			reason = why
		}
	}
	c.Eval()
	desc := c09Describe(cs)
	base := verS + ":" + form + ":" + devs
	c.State([]byte(base))
	if devs != "" {
		c.Nontrivial([]byte(base))
	}
	if err != nil {
		c.Outcome(fmt.Sprintf("%s %s ref=%s impl=CONSTRUCTION-FAILED", verS, form, reason))
		if want {
			c.Fail("C09/construct:"+base, "a conforming exchange could not be signed / written / read back", desc, "accepted", err.Error())
		}
		return
	}
	t := time.Unix(c09T0, cs.sigs[0].tm.ns())
	got, logs, pan := c09Verify(e, t)
	c.Traces(1)
	if pan != nil {
		c.Outcome(fmt.Sprintf("%s %s ref=%s impl=PANIC", verS, form, reason))
		c.Fail("C09/panic:"+base, "Exchange.Verify panicked", desc, fmt.Sprintf("accept=%v (%s)", want, reason), fmt.Sprint(pan))
		return
	}
	stage := c09Stage(got, logs)
	if len(cs.sigs) > 1 && !got {
		stage = "reject"
	}
	c.Outcome(fmt.Sprintf("%s %s ref=%s impl=%s", verS, form, reason, stage))
	c.Sample(fmt.Sprintf("%s => reference %s, Verify=%v (%s)", desc, reason, got, stage))
	if got == want {
		return
	}
	key := "C09/verify:" + base
	what := "Verify accepted an exchange that violates an acceptance condition"
	if want {
		what = "Verify rejected an exchange that meets every acceptance condition"
	}
	// Diagnosis (key only): the disagreement is explained by looking at the first
	// Cache-Control field value only.
	if len(cs.cc) > 1 && len(cs.sigs) == 1 {
		in := cs.input(0, names)
		in.CacheControl = cs.cc[:1]
		if first, _ := refpolicy.Accept(in); first == got {
			key = fmt.Sprintf("C09/cachecontrol-multivalue:%s:status=%d:expires=%v:verify:%s", c09CCKey(cs.cc), cs.status, cs.expires, base)
			what = "multi-valued Cache-Control: the verdict follows the first field value only"
		}
	}
	c.Fail(key, what, desc, fmt.Sprintf("accept=%v (%s)", want, reason), fmt.Sprintf("Verify=%v; log: %s", got, strings.TrimSpace(logs)))
}

func c09VerifyRun(alpha func(c *mc.Ctx) *c09Alphabet) func(c *mc.Ctx) {
	return func(c *mc.Ctx) {
		a := alpha(c)
		cs := &c09Case{}
		cs.ver = c.Free(3, "version")
		cs.wire = c.Free(2, "form") == 1
		verS := string(c09Versions[cs.ver])
		var devs []string
		dev := c.Dev
		note := func(k int, s string) {
			if k != 0 {
				devs = append(devs, s)
			}
		}
		k := dev(len(c09ReqURLs), "request-url")
		cs.reqURL = c09ReqURLs[k]
		note(k, "url=port8443")
		k = dev(len(a.times), "time")
		tm := a.times[k]
		note(k, "time="+tm.name)
		cs.method, cs.reqExtra = "GET", ""
		if cs.ver < 2 {
			k = dev(len(a.methods), "method")
			cs.method = a.methods[k]
			note(k, "method="+strconv.Quote(cs.method))
			k = dev(len(a.reqHdrs), "request-header")
			cs.reqExtra = a.reqHdrs[k]
			note(k, "reqhdr="+cs.reqExtra)
		}
		k = dev(len(a.respHdrs), "response-header")
		cs.respExtra = a.respHdrs[k]
		note(k, "resphdr="+cs.respExtra)
		k = dev(len(a.ccs), "cache-control")
		cs.cc = a.ccs[k]
		note(k, "cc="+c09CCKey(cs.cc))
		k = dev(3, "expires-header")
		cs.expires, cs.expEmpty = k >= 1, k == 2
		note(k, []string{"", "expires-header", "expires-header-empty"}[k])
		k = dev(len(a.statuses), "status")
		cs.status = a.statuses[k]
		note(k, "status="+strconv.Itoa(cs.status))
		k = dev(2, "content-type")
		cs.ctype = k == 0
		note(k, "no-content-type")
		ints := c09IntegrityAlts(verS)
		k = dev(len(ints), "integrity")
		note(k, "integrity="+strconv.Quote(ints[k]))
		integrity := ints[k]
		vals := c09ValidityAlts(cs.reqURL)
		k = dev(len(vals), "validity-url")
		note(k, "validity="+vals[k].name)
		cs.sigs = []c09Sig{{tm: tm, validity: vals[k].url, integrity: integrity}}
		c09Judge(c, cs, strings.Join(devs, ";"))
	}
}

// ---- C09/storable ------------------------------------------------------------------

func c09IsCacheable(e *signedexchange.Exchange) (ok bool, pan interface{}) {
	defer func() {
		if p := recover(); p != nil {
			pan = p
		}
	}()
	return e.IsCacheable(c09Discard), nil
}

func c09StorableRun(c *mc.Ctx) {
	mask := c.Free(128, "directive-subset")
	tokens := c09Tokens
	if mask&64 != 0 {
		tokens = append(append([]string{}, c09Tokens[:6]...), c09ExtTokens[c.Free(len(c09ExtTokens), "extension-token")])
	}
	style, rev, multi := 0, false, false
	n := c09PopCount(mask)
	if n >= 1 {
		style = c.Free(3, "spelling")
	}
	if n >= 2 {
		rev = c.Free(2, "order") == 1
		multi = c.Free(2, "multi-valued") == 1
	}
	cc := c09CC(tokens, mask, style, rev, multi)
	ccKey := c09CCKey(cc)
	c.State([]byte(ccKey))
	for _, expState := range []string{"false", "true", "empty-value"} {
		exp := expState != "false"
		h := http.Header{"Content-Type": {"text/html"}}
		for _, v := range cc {
			h.Add("Cache-Control", v)
		}
		if expState == "true" {
			h.Set("Expires", c09ExpiresLine)
		} else if exp {
			h["Expires"] = []string{""} // present, invalid date: still "contains an Expires header field"
		}
		for status := 100; status <= 599; status++ {
			e := &signedexchange.Exchange{Version: version.Version1b3, RequestURI: c09ReqURLs[0], RequestMethod: "GET", ResponseStatus: status, ResponseHeaders: h}
			want, why := refpolicy.Storable(status, cc, exp)
			got, pan := c09IsCacheable(e)
			c.Eval()
			c.Traces(1)
			c.Outcome("ref=" + why + " impl=" + strconv.FormatBool(got))
			input := fmt.Sprintf("1b3 status=%d Cache-Control=%q (%d field value(s)) Expires-present=%v", status, cc, len(cc), exp)
			if pan != nil {
				c.Fail(fmt.Sprintf("C09/storable-panic:%s:status=%d:expires=%v", ccKey, status, expState), "IsCacheable panicked", input, fmt.Sprintf("storable=%v (%s)", want, why), fmt.Sprint(pan))
				continue
			}
			if got == want {
				continue
			}
			key := fmt.Sprintf("C09/storable:%s:status=%d:expires=%v", ccKey, status, expState)
			what := "IsCacheable judges a response storable by a shared cache that RFC 7234 section 3 forbids to store"
			if want {
				what = "IsCacheable judges a response not storable that RFC 7234 section 3 allows a shared cache to store"
			}
			if len(cc) > 1 {
				if first, _ := refpolicy.Storable(status, cc[:1], exp); first == got {
					key = fmt.Sprintf("C09/cachecontrol-multivalue:%s:status=%d:expires=%v", ccKey, status, expState)
					what = "multi-valued Cache-Control: the verdict follows the first field value only"
				}
			}
			c.Fail(key, what, input, fmt.Sprintf("storable=%v (%s)", want, why), fmt.Sprintf("IsCacheable=%v", got))
		}
	}
	c.StatesByConstruction(1000)
	c.NontrivialByConstruction(1000)
	c.Sample(fmt.Sprintf("Cache-Control=%q x status 100..599 x Expires absent/present", cc))
}

// ---- C09/twosig ----------------------------------------------------------------------

type c09SigAlt struct {
	name string
	mk   func(ver, reqURL string) c09Sig
}

func c09SigAlts() []c09SigAlt {
	ok := func(ver, reqURL string) c09Sig {
		right, _ := refpolicy.IntegrityFor(ver)
		return c09Sig{tm: c09Time{"default", 1000, 1000, 0}, validity: c09ValidityAlts(reqURL)[0].url, integrity: right}
	}
	with := func(name string, f func(s *c09Sig, ver, reqURL string)) c09SigAlt {
		return c09SigAlt{name, func(ver, reqURL string) c09Sig { s := ok(ver, reqURL); f(&s, ver, reqURL); return s }}
	}
	return []c09SigAlt{
		with("ok", func(s *c09Sig, ver, r string) {}),
		with("not-yet-valid", func(s *c09Sig, ver, r string) { s.tm = c09Time{"t-date=-1", -1, 1000, 0} }),
		with("expired", func(s *c09Sig, ver, r string) { s.tm = c09Time{"expires-t=-1", 1000, -1, 0} }),
		with("too-long", func(s *c09Sig, ver, r string) { s.tm = c09Time{"expires-date=604801", 1000, 603801, 0} }),
		with("wrong-integrity", func(s *c09Sig, ver, r string) { s.integrity = c09IntegrityAlts(ver)[1] }),
		with("other-host", func(s *c09Sig, ver, r string) { s.validity = c09ValidityAlts(r)[2].url }),
		with("unparsable-validity", func(s *c09Sig, ver, r string) { s.validity = c09ValidityAlts(r)[9].url }),
		with("wrong-key", func(s *c09Sig, ver, r string) { s.wrongKey = true }),
	}
}

func c09TwoSigRun(c *mc.Ctx) {
	alts := c09SigAlts()
	cs := &c09Case{reqURL: c09ReqURLs[0], method: "GET", status: 200, ctype: true}
	cs.ver = c.Free(3, "version")
	cs.wire = c.Free(2, "form") == 1
	verS := string(c09Versions[cs.ver])
	a := c.Free(len(alts), "signature-1")
	b := c.Free(len(alts), "signature-2")
	x := c.Free(4, "exchange-level")
	xs := []string{"ok", "set-cookie", "no-store", "status-201"}[x]
	switch x {
	case 1:
		cs.respExtra = "sEt-CoOkIe"
	case 2:
		cs.cc = []string{"no-store"}
	case 3:
		cs.status = 201
	}
	cs.sigs = []c09Sig{alts[a].mk(verS, cs.reqURL), alts[b].mk(verS, cs.reqURL)}
	// one verification instant for both signatures
	cs.sigs[1].tm.nsec = cs.sigs[0].tm.nsec
	c09Judge(c, cs, fmt.Sprintf("twosig=%s+%s;exchange=%s", alts[a].name, alts[b].name, xs))
}

// ---- registration ----------------------------------------------------------------------

func init() {
	single := &mc.Harness{
		Name:  "C09/single",
		Mode:  "choice-tree DFS, deviation bound 1: every dimension swept completely, the others at their default",
		Bound: func(string) int { return 1 },
		Run:   c09VerifyRun(func(c *mc.Ctx) *c09Alphabet { return c09Full }),
	}
	pairs := &mc.Harness{
		Name:  "C09/pairs",
		Mode:  "choice-tree DFS, deviation bound 2: every pair of dimensions",
		Bound: func(string) int { return 2 },
		Run: c09VerifyRun(func(c *mc.Ctx) *c09Alphabet {
			if c.Quick() {
				return c09PairsQuick
			}
			return c09PairsThorough
		}),
	}
	storable := &mc.Harness{
		Name: "C09/storable",
		Mode: "full product straight against Exchange.IsCacheable (1000 calls per execution: status 100..599 x Expires)",
		Run:  c09StorableRun,
	}
	twosig := &mc.Harness{
		Name: "C09/twosig",
		Mode: "full product of two signatures x exchange-level condition",
		Run:  c09TwoSigRun,
	}
	refReasons := func(st *mc.Stats) map[string]int64 {
		m := map[string]int64{}
		for k, v := range st.Outcomes {
			i := strings.Index(k, "ref=")
			if i < 0 {
				continue
			}
			r := k[i+4:]
			if j := strings.IndexByte(r, ' '); j >= 0 {
				r = r[:j]
			}
			m[r] += v
		}
		return m
	}
	register(&mc.Property{
		ID:    "C09",
		Level: "model_checking",
		Rule: "choice-tree enumeration over (version x form x request URL x time offsets x method x request header x response header x Cache-Control x Expires x status x Content-Type x integrity x validity URL): " +
			"C09/single sweeps every dimension completely with the others default, C09/pairs every pair (quick: boundary Cache-Control/header alphabets, thorough: all 127 directive subsets and all header spellings), " +
			"C09/storable the full product status 100..599 x 128 directive subsets (x 19 look-alike extension tokens, 7 of them with a quoted-string argument, 4 of those with commas inside the quotes) x Expires x 3 spellings x order x single/multi-valued against IsCacheable, C09/twosig all pairs of 8 signature variants x 4 exchange-level variants. " +
			"Every exchange is really signed (ECDSA P-256) after its headers are final, so signature and payload integrity hold by construction. A case is non-trivial when it deviates from the default (all-conditions-met) exchange in at least one dimension; distinct by (version, form, deviations). For C09/storable every (directives, status, Expires) triple is distinct by construction.",
		Assumptions: []string{
			"refpolicy (written from the drafts and RFC 7234 section 3) is correct; 'status code understood by the cache' = net/http.StatusText knows it (same reading as the code)",
			"signedexchange.Signer and MiEncodePayload produce a valid signature and payload for the headers they are given (C01/C02/C08 judge that); the harness edits nothing signed afterwards (except the ':method' entry removed from the file in the method-absent wire form, whose absence is the condition under test)",
			"outside the alphabet (see file comment): explicit default port / host case in validity URLs, quoted or qualified directive arguments, empty Expires/Content-Type values, request side of in-memory 1b3 exchanges, non-canonical map keys for Cache-Control/Expires/Content-Type, three simultaneous deviations",
		},
		Harnesses: []*mc.Harness{single, pairs, storable, twosig},
		Guard: func(s map[string]*mc.Stats) error {
			for _, hn := range []string{"C09/single", "C09/pairs"} {
				st := s[hn]
				if st == nil {
					return fmt.Errorf("%s did not run", hn)
				}
				r := refReasons(st)
				for _, want := range []string{refpolicy.OK, refpolicy.NotSameOrigin, refpolicy.TooLong, refpolicy.NotYetValid, refpolicy.Expired,
					refpolicy.BadIntegrity, refpolicy.BadMethod, refpolicy.StatefulRequest, refpolicy.NoContentType, refpolicy.UncachedResponse,
					refpolicy.NotStorableStatus, refpolicy.NotStorableNoStore, refpolicy.NotStorablePrivate, refpolicy.NotStorableNothing} {
					if r[want] == 0 {
						return fmt.Errorf("%s: the reference never answered %q", hn, want)
					}
				}
				if st.Executions < 5000 {
					return fmt.Errorf("%s: only %d executions", hn, st.Executions)
				}
			}
			st := s["C09/storable"]
			if st == nil {
				return fmt.Errorf("C09/storable did not run")
			}
			r := refReasons(st)
			for _, want := range []string{refpolicy.OK, refpolicy.NotStorableStatus, refpolicy.NotStorableNoStore, refpolicy.NotStorablePrivate, refpolicy.NotStorableNothing} {
				if r[want] == 0 {
					return fmt.Errorf("C09/storable: the reference never answered %q", want)
				}
			}
			if st.Evals < 400000 {
				return fmt.Errorf("C09/storable: only %d evaluations", st.Evals)
			}
			st = s["C09/twosig"]
			if st == nil {
				return fmt.Errorf("C09/twosig did not run")
			}
			r = refReasons(st)
			if r[refpolicy.OK] == 0 || r["signature-invalid"] == 0 || r[refpolicy.Expired] == 0 {
				return fmt.Errorf("C09/twosig: reference verdicts too uniform: %v", r)
			}
			return nil
		},
	})
}

var bigOne = big.NewInt(1)

func bigInt(v int64) *big.Int { return big.NewInt(v) }
