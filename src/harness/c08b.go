package main

// C08/signer-reuse: one signedexchange.Signer value signs a sequence of exchanges while the caller changes its
// public fields between the calls (a renewed certificate for the same key, another cert-url / validity-url, a
// later validity window).  The conformance grid of c08.go builds a fresh Signer per exchange; anything a Signer
// remembers from an earlier call (lazily cached algorithm, digests, serialized prefixes) is only visible in a
// history.  After every step the signed message must equal the reference's message for the CURRENT field values,
// the Signature header must carry the current parameters, and the signature must verify over the reference
// message with crypto/ecdsa.

import (
	"bytes"
	"crypto/rand"
	"crypto/sha256"
	"crypto/x509"
	"crypto/x509/pkix"
	"fmt"
	"math/big"
	"strings"
	"sync"
	"time"

	"github.com/WICG/webpackage/go/signedexchange"
	"github.com/WICG/webpackage/go/signedexchange/zverif/fixtures"
	"github.com/WICG/webpackage/go/signedexchange/zverif/mc"
	"github.com/WICG/webpackage/go/signedexchange/zverif/refsxg"
)

var (
	c08RenewedOnce sync.Once
	c08Renewed     *x509.Certificate
)

// c08RenewedCert is a second certificate for identity A's key (a renewal: same key, other serial and dates).
func c08RenewedCert() *x509.Certificate {
	c08RenewedOnce.Do(func() {
		tmpl := &x509.Certificate{
			SerialNumber: big.NewInt(20260929),
			Subject:      pkix.Name{CommonName: "a.test (renewed)"},
			DNSNames:     []string{"a.test", "www.a.test"},
			NotBefore:    time.Unix(1500000000, 0),
			NotAfter:     time.Unix(1900000000, 0),
			KeyUsage:     x509.KeyUsageDigitalSignature,
		}
		der, err := x509.CreateCertificate(rand.Reader, tmpl, tmpl, &fixtures.A.Key.PublicKey, fixtures.A.Key)
		if err != nil {
			panic("c08: cannot create the renewed certificate: " + err.Error())
		}
		c08Renewed, err = x509.ParseCertificate(der)
		if err != nil {
			panic("c08: " + err.Error())
		}
	})
	return c08Renewed
}

type c08SignerState struct {
	certs   []*x509.Certificate
	certURL string
	vURL    string
	date    int64
	window  int64
}

var c08SignerEdits = []struct {
	name  string
	apply func(st *c08SignerState)
}{
	{"no change", func(st *c08SignerState) {}},
	{"renewed certificate for the same key", func(st *c08SignerState) { st.certs = []*x509.Certificate{c08RenewedCert()} }},
	{"original certificate with its CA", func(st *c08SignerState) { st.certs = []*x509.Certificate{fixtures.A.Leaf, fixtures.A.CA} }},
	{"other cert-url", func(st *c08SignerState) { st.certURL = c08Origin + "cert2.cbor" }},
	{"other validity-url", func(st *c08SignerState) { st.vURL = c08Origin + "other.validity" }},
	{"window one day later, 7 days long", func(st *c08SignerState) { st.date += 86400; st.window = 604800 }},
}

func c08SignerReuse(c *mc.Ctx) {
	ver := c08Vers[c.Free(len(c08Vers), "version")]
	depth := c.Pick(3, 4)
	var seq []int
	for len(seq) < depth {
		j := c.Free(len(c08SignerEdits)+1, "change before the next signing")
		if j == len(c08SignerEdits) {
			break
		}
		seq = append(seq, j)
	}
	if len(seq) == 0 {
		c.Outcome("empty history")
		return
	}
	var names []string
	for _, j := range seq {
		names = append(names, c08SignerEdits[j].name)
	}
	hist := strings.Join(names, " > ")
	id := fmt.Sprintf("%s:%s", ver.ref, hist)
	c.State([]byte(id))
	if len(seq) >= 2 {
		c.Nontrivial([]byte(id))
	}
	st := &c08SignerState{certs: []*x509.Certificate{fixtures.A.Leaf}, certURL: c08Origin + "cert.cbor", vURL: c08Origin + "resource.validity", date: 1517418800, window: 3600}
	s := &signedexchange.Signer{PrivKey: fixtures.A.Key}
	for step, j := range seq {
		c08SignerEdits[j].apply(st)
		// the caller assigns every public field it means to use; nothing else is touched
		s.Date, s.Expires = time.Unix(st.date, 0), time.Unix(st.date+st.window, 0)
		s.Certs, s.CertUrl, s.ValidityUrl = st.certs, c08MustURL(st.certURL), c08MustURL(st.vURL)
		key := fmt.Sprintf("C08/signer-reuse:%s:step%d", id, step)
		desc := fmt.Sprintf("one Signer, history [%s], signing #%d (version %s)", hist, step+1, ver.ref)
		fail := func(what, expected, observed string) {
			c.Outcome("VIOLATION signer reuse")
			c.Fail(key, what, desc, expected, observed)
		}
		respFields := []refsxg.Field{{Name: "Content-Type", Values: []string{"text/html"}}, {Name: "X-Step", Values: []string{fmt.Sprint(step)}}}
		var reqFields []refsxg.Field
		if ver.ref.HasRequest() {
			reqFields = []refsxg.Field{{Name: "Accept", Values: []string{"*/*"}}}
		}
		payload := pattern(20+step, c.Seed+int64(step))
		e := signedexchange.NewExchange(ver.impl, c08Origin+"index.html", "GET", c08Header(reqFields), 200, c08Header(respFields), append([]byte{}, payload...))
		if err := e.MiEncodePayload(16); err != nil {
			fail("MiEncodePayload failed", "nil", err.Error())
			return
		}
		respFields = append(respFields,
			refsxg.Field{Name: "Content-Encoding", Values: []string{refsxg.ContentEncodingName(ver.ref)}},
			refsxg.Field{Name: refsxg.DigestHeaderName(ver.ref), Values: []string{e.ResponseHeaders.Get(refsxg.DigestHeaderName(ver.ref))}})
		x := &refsxg.Exchange{Version: ver.ref, URL: c08Origin + "index.html", Method: "GET", ReqHeaders: reqFields, Status: 200, RespHeaders: respFields, Payload: e.Payload}
		certSha := sha256.Sum256(st.certs[0].Raw)
		refMsg, err := refsxg.SignedMessage(x, certSha[:], st.vURL, st.date, st.date+st.window)
		if err != nil {
			panic("c08 signer reuse: reference message: " + err.Error())
		}
		c.Transitions(2)
		c.Eval()
		var mb bytes.Buffer
		if err := e.DumpSignedMessage(&mb, s); err != nil || !bytes.Equal(mb.Bytes(), refMsg) {
			fail("the signed message is not the reference message for the Signer's current fields", c08Diff(refMsg, mb.Bytes()), fmt.Sprintf("%s err=%v", c08Diff(mb.Bytes(), refMsg), err))
			return
		}
		if err := e.AddSignatureHeader(s); err != nil {
			fail("AddSignatureHeader failed", "nil", err.Error())
			return
		}
		_, got, err := refsxg.ParseSignature(e.SignatureHeaderValue)
		if err != nil {
			fail("Signature header not parsable by the reference", "parsable", err.Error())
			return
		}
		if got.CertURL != st.certURL || !bytes.Equal(got.CertSha256, certSha[:]) || got.ValidityURL != st.vURL || got.Date != st.date || got.Expires != st.date+st.window || got.Integrity != refsxg.IntegrityID(ver.ref) {
			fail("Signature header parameters are not the Signer's current field values", fmt.Sprintf("cert-url=%s cert-sha256=%x validity-url=%s date=%d expires=%d", st.certURL, certSha[:], st.vURL, st.date, st.date+st.window), fmt.Sprintf("%+v", got))
			return
		}
		if err := refsxg.VerifyECDSA(&fixtures.A.Key.PublicKey, refMsg, got.Sig); err != nil {
			fail("the signature does not verify over the reference message for the current fields", "valid signature", err.Error())
			return
		}
		// and the library's own verifier, given the chain the Signer currently holds, accepts it inside the window
		chainCBOR := c08ChainCBOR(st.certs)
		if v := c02Verify(e, st.date+1, chainCBOR); !v.ok {
			fail("Exchange.Verify rejects the exchange just signed, given the Signer's current chain", "accepted at date+1", "rejected: "+clipS(v.log)+v.pan)
			return
		}
	}
	c.Outcome(fmt.Sprintf("%d signings conform (%s)", len(seq), ver.ref))
}

func init() {
	p := props["C08"]
	p.Harnesses = append(p.Harnesses, &mc.Harness{Name: "C08/signer-reuse", Run: c08SignerReuse,
		Mode: "operation histories: one Signer value, its public fields changed between signings"})
	p.Rule += " C08/signer-reuse: versions x every sequence of <= 3 (quick) / 4 (thorough) signings by ONE Signer value whose public fields the caller changes before each signing (no change, renewed certificate for the same key, original certificate with its CA, other cert-url, other validity-url, later and longer window); after every signing the signed message, the Signature parameters and the ECDSA signature are checked against the reference for the CURRENT field values, and Exchange.Verify must accept the exchange given the current chain."
}
