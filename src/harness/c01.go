package main

// C01 - a verified signed exchange is exactly what the key holder signed.
//
// Space.  Base exchanges: versions {1b1,1b2,1b3} x identities {A: P-256, B: P-384} x
// payload layouts {len 0; len = rs, 2rs, 2rs+1 for rs in {1,16}} x header sets
// {minimal (short URL, Content-Type only); multi (49-byte URL, multi-valued and
// mixed-case response headers, two request headers in b1/b2, status 404, HEAD)}
// = 84 bases (quick: 6 of them), each signed FOR REAL (ECDSA with the fixture key,
// through signedexchange.Signer; the nonce is derived deterministically so that
// every run explores byte-identical artifacts) and serialized with Exchange.Write.
//
// C01/file: one byte-level mutation of the serialized file, swept over EVERY site:
//   flip each bit; delete each byte; insert 00 / FF / a copy of the neighbour at
//   each offset (incl. the end); truncate at each length.  The mutant goes through
//   ReadExchange and, when that succeeds, Verify at six times.
// C01/edit: semantic edits of the parsed (in-memory) exchange, every site of every
//   operator once (bound 1), and in the thorough tier every unordered PAIR of a
//   reduced set of semantic edits (bound 2; not pairs of bit flips):
//   URL (each byte, suffix, host), method, status, every request/response header
//   (each value byte, value appended/emptied/split/joined/swapped, name case,
//   renamed, removed, added, duplicated under another case), every bit / every
//   truncation of the MI-encoded payload, every Signature parameter (sig: every
//   bit of the first and last 4 bytes + one bit per byte, s -> n-s, trailing bytes,
//   another exchange's signature, base64 variants; every bit of cert-sha256; date
//   and expires +-1 and more; validity-url; integrity; cert-url; label; parameter
//   removed / duplicated / valueless / unknown parameter; list members copied or
//   garbage before/after the good one; whitespace and parameter order), certificate
//   substitution (fetcher returns another identity's chain; the same plus
//   cert-sha256 rewritten - the forgery recipe; signature re-made with another key
//   with and without matching cert-sha256 / chain; fetch error; garbage chain).
//   The edited object is verified in memory AND after Write + ReadExchange.
// Every verification is run at t in {date-1s, date-1ns, date, expires,
// expires+1ns, expires+1s}.
//
// Oracle (no reference model: the oracle is the signed ORIGINAL).  The harness
// keeps the set of genuinely signed statements: the original (identity, tuple,
// window, signed message) plus one entry for every re-signing the attacker model
// performed with a key it holds.  Whenever Verify returns ok with the fetcher
// having answered identity X's chain, some entry of X must exist with
//   (a) the same tuple: URL, status, normalised response headers (names
//       case-folded, values comma-joined, order-free), and method + request
//       headers in 1b1/1b2;
//   (b) the payload handed back equal to the signed payload;
//   (c) date <= t <= expires of that entry (the ORIGINAL signed window);
//   (d) parameter binding (the mechanisms the property record anchors): some
//       member of the accepted Signature header carries cert-sha256 equal to
//       SHA-256 of X's leaf and a sig that is a strict DER Ecdsa-Sig-Value (no
//       trailing bytes) valid under X's key over the entry's signed message
//       (checked with crypto/ecdsa and a hand-written DER reader).
// Mutations that leave the tuple intact (label, cert-url, base64 padding bits,
// whitespace, header order / name case / value splitting, s -> n-s, extra list
// members) may legitimately verify; they are counted in "verified, tuple intact"
// outcome classes.  Every rejection is classified by stage from the logger output.

import (
	"bytes"
	"crypto/ecdsa"
	"crypto/elliptic"
	"crypto/sha256"
	"crypto/sha512"
	"crypto/x509"
	"encoding/asn1"
	"encoding/base64"
	"encoding/binary"
	"errors"
	"fmt"
	"log"
	"math/big"
	"net/http"
	"net/url"
	"os"
	"sort"
	"strconv"
	"strings"
	"sync"
	"time"

	"github.com/WICG/webpackage/go/signedexchange"
	"github.com/WICG/webpackage/go/signedexchange/certurl"
	"github.com/WICG/webpackage/go/signedexchange/version"
	"github.com/WICG/webpackage/go/signedexchange/zverif/fixtures"
	"github.com/WICG/webpackage/go/signedexchange/zverif/mc"
)

// ---------------------------------------------------------------------------
// deterministic ECDSA (generator side): a real ECDSA signature with the fixture
// key whose nonce is a hash of (key, digest), so that artifacts are reproducible.
// The hash per curve follows the draft: P-256/SHA-256, P-384/SHA-384.

type c01Det struct{ key *ecdsa.PrivateKey }

func c01Digest(curve elliptic.Curve, m []byte) []byte {
	if curve.Params().BitSize == 384 {
		h := sha512.Sum384(m)
		return h[:]
	}
	h := sha256.Sum256(m)
	return h[:]
}

func (d *c01Det) Sign(m []byte) ([]byte, error) {
	curve := d.key.Curve
	n := curve.Params().N
	z := c01Digest(curve, m)
	e := new(big.Int).SetBytes(z) // digest length == order length on both curves
	nm1 := new(big.Int).Sub(n, big.NewInt(1))
	for ctr := 0; ctr < 256; ctr++ {
		h := sha512.New()
		h.Write(d.key.D.Bytes())
		h.Write(z)
		h.Write([]byte{byte(ctr)})
		k := new(big.Int).SetBytes(h.Sum(nil))
		k.Mod(k, nm1)
		k.Add(k, big.NewInt(1))
		kb := make([]byte, (curve.Params().BitSize+7)/8)
		k.FillBytes(kb)
		x, _ := curve.ScalarBaseMult(kb)
		r := new(big.Int).Mod(x, n)
		if r.Sign() == 0 {
			continue
		}
		s := new(big.Int).Mul(r, d.key.D)
		s.Add(s, e)
		s.Mul(s, new(big.Int).ModInverse(k, n))
		s.Mod(s, n)
		if s.Sign() == 0 {
			continue
		}
		return asn1.Marshal(struct{ R, S *big.Int }{r, s})
	}
	return nil, errors.New("c01: no nonce")
}

// c01ParseSigValue is the oracle's reader of an Ecdsa-Sig-Value: SEQUENCE of two
// INTEGERs with definite minimal lengths and minimal non-negative integers.
// form: "strict" (exactly that), "inner-extra" (r and s are well-formed but more
// bytes follow them INSIDE the SEQUENCE), "trailing" (bytes after the end of the
// SEQUENCE element; r, s returned when the element itself is well-formed),
// "invalid".
func c01ParseSigValue(sig []byte) (r, s *big.Int, form string) {
	rdLen := func(b []byte) (l, used int, ok bool) {
		if len(b) == 0 {
			return
		}
		switch {
		case b[0] < 0x80:
			return int(b[0]), 1, true
		case b[0] == 0x81 && len(b) >= 2 && b[1] >= 0x80:
			return int(b[1]), 2, true
		case b[0] == 0x82 && len(b) >= 3 && b[1] != 0:
			return int(b[1])<<8 | int(b[2]), 3, true
		}
		return
	}
	rdInt := func(b []byte) (v *big.Int, rest []byte, ok bool) {
		if len(b) < 2 || b[0] != 0x02 {
			return
		}
		l, u, lok := rdLen(b[1:])
		if !lok || l == 0 || 1+u+l > len(b) {
			return
		}
		body := b[1+u : 1+u+l]
		if body[0]&0x80 != 0 {
			return // negative
		}
		if len(body) > 1 && body[0] == 0 && body[1]&0x80 == 0 {
			return // not minimal
		}
		return new(big.Int).SetBytes(body), b[1+u+l:], true
	}
	if len(sig) < 2 || sig[0] != 0x30 {
		return nil, nil, "invalid"
	}
	l, u, lok := rdLen(sig[1:])
	if !lok || 1+u+l > len(sig) {
		return nil, nil, "invalid"
	}
	form = "strict"
	if 1+u+l < len(sig) {
		form = "trailing"
	}
	body := sig[1+u : 1+u+l]
	var ok bool
	r, body, ok = rdInt(body)
	if !ok {
		return nil, nil, "invalid"
	}
	s, body, ok = rdInt(body)
	if !ok {
		return nil, nil, "invalid"
	}
	if len(body) != 0 && form == "strict" {
		form = "inner-extra"
	}
	return r, s, form
}

func c01StrictSig(sig []byte) (r, s *big.Int, ok bool) {
	r, s, form := c01ParseSigValue(sig)
	return r, s, form == "strict"
}

// c01SigForm classifies a sig value against a message and key: "strict" = strict
// DER and ECDSA-valid; "inner-extra" = ECDSA-valid r, s followed by more bytes
// inside the SEQUENCE; anything else = "invalid" (incl. bytes after the SEQUENCE).
func c01SigForm(pub *ecdsa.PublicKey, msg, sig []byte) string {
	r, s, form := c01ParseSigValue(sig)
	if form != "strict" && form != "inner-extra" {
		return "invalid"
	}
	if !ecdsa.Verify(pub, c01Digest(pub.Curve, msg), r, s) {
		return "invalid"
	}
	return form
}

func c01SigValid(pub *ecdsa.PublicKey, msg, sig []byte) bool {
	return c01SigForm(pub, msg, sig) == "strict"
}

// c01InnerExtraIsViolation: encoding/asn1.Unmarshal deliberately tolerates extra
// bytes at the end of a SEQUENCE it decodes into a struct, so the implementation
// accepts sig = 30 len+k r s <k junk bytes>.  The signed tuple is intact and the
// property record only names "trailing data refused", so this is recorded as an
// outcome class ("sig not strict DER ...") and not failed; set to true to fail it.
const c01InnerExtraIsViolation = false

// ---------------------------------------------------------------------------
// Signature header: a tiny independent reader of the Parameterised List grammar
// (draft-ietf-httpbis-header-structure-09, the subset the Signature header uses).
// Used to split the genuine header at build time and, after a successful
// verification, to evaluate oracle clause (d).

type c01Item struct {
	kind byte // 'n' number, 's' string, 't' token, 'b' byte sequence, 0 absent
	n    int64
	s    string
	b    []byte
	raw  string
}

type c01PM struct {
	label string
	order []string
	p     map[string]c01Item
}

func c01ParseSig(in string) ([]c01PM, error) {
	i := 0
	ows := func() {
		for i < len(in) && (in[i] == ' ' || in[i] == '\t') {
			i++
		}
	}
	alpha := func(c byte) bool { return c >= 'a' && c <= 'z' || c >= 'A' && c <= 'Z' }
	digit := func(c byte) bool { return c >= '0' && c <= '9' }
	lc := func(c byte) bool { return c >= 'a' && c <= 'z' }
	tokc := func(c byte) bool {
		return alpha(c) || digit(c) || strings.IndexByte("_-.:%*/", c) >= 0
	}
	token := func() (string, error) {
		if i >= len(in) || !alpha(in[i]) {
			return "", errors.New("token expected")
		}
		st := i
		for i < len(in) && tokc(in[i]) {
			i++
		}
		return in[st:i], nil
	}
	item := func() (c01Item, error) {
		if i >= len(in) {
			return c01Item{}, errors.New("item expected")
		}
		st := i
		c := in[i]
		switch {
		case c == '-' || digit(c):
			i++
			for i < len(in) && digit(in[i]) {
				i++
			}
			n, err := strconv.ParseInt(in[st:i], 10, 64)
			if err != nil {
				return c01Item{}, err
			}
			return c01Item{kind: 'n', n: n, raw: in[st:i]}, nil
		case c == '"':
			i++
			var sb strings.Builder
			for i < len(in) {
				ch := in[i]
				i++
				switch {
				case ch == '\\':
					if i >= len(in) || (in[i] != '"' && in[i] != '\\') {
						return c01Item{}, errors.New("bad escape")
					}
					sb.WriteByte(in[i])
					i++
				case ch == '"':
					return c01Item{kind: 's', s: sb.String(), raw: in[st:i]}, nil
				case ch < ' ' || ch > '~':
					return c01Item{}, errors.New("bad character in string")
				default:
					sb.WriteByte(ch)
				}
			}
			return c01Item{}, errors.New("unterminated string")
		case c == '*':
			i++
			j := strings.IndexByte(in[i:], '*')
			if j < 0 {
				return c01Item{}, errors.New("unterminated byte sequence")
			}
			txt := in[i : i+j]
			i += j + 1
			enc := base64.StdEncoding
			if len(txt)%4 != 0 {
				enc = base64.RawStdEncoding
			}
			b, err := enc.DecodeString(txt)
			if err != nil {
				return c01Item{}, err
			}
			return c01Item{kind: 'b', b: b, raw: in[st:i]}, nil
		case alpha(c):
			t, err := token()
			if err != nil {
				return c01Item{}, err
			}
			return c01Item{kind: 't', s: t, raw: t}, nil
		}
		return c01Item{}, errors.New("item expected")
	}
	var out []c01PM
	ows()
	for {
		lab, err := token()
		if err != nil {
			return nil, err
		}
		m := c01PM{label: lab, p: map[string]c01Item{}}
		for {
			ows()
			if i >= len(in) || in[i] != ';' {
				break
			}
			i++
			ows()
			if i >= len(in) || !lc(in[i]) {
				return nil, errors.New("key expected")
			}
			st := i
			for i < len(in) && (lc(in[i]) || digit(in[i]) || in[i] == '_' || in[i] == '-') {
				i++
			}
			k := in[st:i]
			if _, dup := m.p[k]; dup {
				return nil, errors.New("duplicate parameter")
			}
			var it c01Item
			if i < len(in) && in[i] == '=' {
				i++
				it, err = item()
				if err != nil {
					return nil, err
				}
			}
			m.p[k] = it
			m.order = append(m.order, k)
		}
		out = append(out, m)
		ows()
		if i >= len(in) {
			return out, nil
		}
		if in[i] != ',' {
			return nil, errors.New("',' expected")
		}
		i++
		ows()
		if i >= len(in) {
			return nil, errors.New("trailing comma")
		}
	}
}

// editable form of the header
type c01Param struct {
	key, val string
	has      bool
}

type c01Member struct {
	label  string
	params []c01Param
}

func (m *c01Member) idx(k string) int {
	for i := range m.params {
		if m.params[i].key == k {
			return i
		}
	}
	return -1
}

func (m *c01Member) get(k string) (string, bool) {
	if i := m.idx(k); i >= 0 && m.params[i].has {
		return m.params[i].val, true
	}
	return "", false
}

func (m *c01Member) set(k, v string) {
	if i := m.idx(k); i >= 0 {
		m.params[i].val, m.params[i].has = v, true
		return
	}
	m.params = append(m.params, c01Param{k, v, true})
}

func (m *c01Member) del(k string) {
	if i := m.idx(k); i >= 0 {
		m.params = append(append([]c01Param{}, m.params[:i]...), m.params[i+1:]...)
	}
}

func (m c01Member) clone() c01Member {
	return c01Member{m.label, append([]c01Param{}, m.params...)}
}

func c01B64(b []byte) string { return "*" + base64.StdEncoding.EncodeToString(b) + "*" }

func c01Q(s string) string {
	return `"` + strings.NewReplacer(`\`, `\\`, `"`, `\"`).Replace(s) + `"`
}

func c01UnB64(v string) []byte {
	if len(v) < 2 || v[0] != '*' || v[len(v)-1] != '*' {
		return nil
	}
	t := v[1 : len(v)-1]
	enc := base64.StdEncoding
	if len(t)%4 != 0 {
		enc = base64.RawStdEncoding
	}
	b, err := enc.DecodeString(t)
	if err != nil {
		return nil
	}
	return b
}

// ---------------------------------------------------------------------------
// bases

type c01Signed struct {
	id      *fixtures.ECIdentity
	head    string
	payload []byte // nil: bound only through the digest header the signer chose
	date    int64
	expires int64
	msg     []byte
	orig    bool
}

type c01Edit struct {
	name    string
	kind    string
	reduced bool
	apply   func(s *c01State)
}

type c01Base struct {
	name     string
	ver      version.Version
	id       *fixtures.ECIdentity
	url      string
	method   string
	status   int
	reqH     http.Header
	respH    http.Header // after MiEncodePayload
	raw, enc []byte
	rs       int
	date     int64
	expires  int64
	certURL  string
	vURL     string
	header   string
	member   c01Member
	sig      []byte
	certSha  []byte
	file     []byte
	regions  []c01Region
	msg      []byte
	head     string
	edits    []c01Edit
	reduced  []int // indexes into edits
	quick    bool
	sibling  *c01Base
	longURL  bool
	lastRec1 bool
}

type c01Region struct {
	name string
	end  int
}

func (b *c01Base) region(off int) string {
	for _, r := range b.regions {
		if off < r.end {
			return r.name
		}
	}
	return "end of file"
}

var c01IDs = []*fixtures.ECIdentity{fixtures.A, fixtures.A2, fixtures.B, fixtures.C}

func c01Others(id *fixtures.ECIdentity) []*fixtures.ECIdentity {
	var o []*fixtures.ECIdentity
	for _, x := range c01IDs {
		if x != id {
			o = append(o, x)
		}
	}
	return o
}

var (
	c01Once      sync.Once
	c01AllBases  []*c01Base
	c01QuickIdx  []int
	c01ChainsTbl map[string][]byte // immutable after the Once
)

func c01IsB12(v version.Version) bool { return v == version.Version1b1 || v == version.Version1b2 }

func c01CloneH(h http.Header) http.Header {
	if h == nil {
		return nil
	}
	o := make(http.Header, len(h))
	for k, v := range h {
		o[k] = append([]string{}, v...)
	}
	return o
}

func c01CanonH(h http.Header) string {
	type kv struct{ k, v string }
	var ps []kv
	for k, v := range h {
		ps = append(ps, kv{strings.ToLower(k), strings.Join(v, ",")})
	}
	sort.Slice(ps, func(i, j int) bool {
		if ps[i].k != ps[j].k {
			return ps[i].k < ps[j].k
		}
		return ps[i].v < ps[j].v
	})
	var sb strings.Builder
	sb.WriteByte('{')
	for _, p := range ps {
		fmt.Fprintf(&sb, "%q:%q ", p.k, p.v)
	}
	sb.WriteByte('}')
	return sb.String()
}

// c01Head is the signed tuple without the payload.
func c01Head(ver version.Version, u, method string, status int, reqH, respH http.Header) string {
	s := fmt.Sprintf("version=%s url=%q status=%d resp=%s", ver, u, status, c01CanonH(respH))
	if c01IsB12(ver) {
		s += fmt.Sprintf(" method=%q req=%s", method, c01CanonH(reqH))
	}
	return s
}

func c01Chain(certs []*x509.Certificate) []byte {
	ch, err := certurl.NewCertChain(certs, []byte("ocsp"), nil)
	if err != nil {
		panic(err)
	}
	var buf bytes.Buffer
	if err := ch.Write(&buf); err != nil {
		panic(err)
	}
	return buf.Bytes()
}

func c01Sha(c *x509.Certificate) []byte {
	s := sha256.Sum256(c.Raw)
	return s[:]
}

const c01Date = int64(1700000000)

func c01Build() {
	seed, _ := strconv.ParseInt(os.Getenv("VERIF_SEED"), 10, 64)
	c01ChainsTbl = map[string][]byte{}
	for _, id := range c01IDs {
		c01ChainsTbl[id.Name] = c01Chain([]*x509.Certificate{id.Leaf})
		c01ChainsTbl[id.Name+"+CA"] = c01Chain([]*x509.Certificate{id.Leaf, id.CA})
	}
	c01ChainsTbl["CA-as-leaf"] = c01Chain([]*x509.Certificate{fixtures.A.CA})
	type layout struct {
		name    string
		rs, len int
	}
	layouts := []layout{{"len0", 16, 0}, {"rs1-len1", 1, 1}, {"rs1-len2", 1, 2}, {"rs1-len3", 1, 3}, {"rs16-len16", 16, 16}, {"rs16-len32", 16, 32}, {"rs16-len33", 16, 33}}
	quick := map[string]bool{
		"1b3/A/rs16-len33/multi": true, "1b2/B/rs1-len3/multi": true, "1b1/A/rs16-len16/minimal": true,
		"1b3/B/len0/minimal": true, "1b2/A/rs16-len32/minimal": true, "1b1/B/rs1-len1/multi": true,
	}
	for _, ver := range version.AllVersions {
		for _, id := range []*fixtures.ECIdentity{fixtures.A, fixtures.B} {
			for li, lay := range layouts {
				for hs := 0; hs < 2; hs++ {
					host := "a.test"
					if id == fixtures.B {
						host = "b.test"
					}
					b := &c01Base{ver: ver, id: id, rs: lay.rs, date: c01Date, expires: c01Date + 3600}
					b.certURL = "https://" + host + "/c"
					b.vURL = "https://" + host + "/v"
					b.raw = pattern(lay.len, seed+int64(li)+1)
					resp := http.Header{}
					var req http.Header
					hsName := "minimal"
					if hs == 0 {
						b.url = "https://" + host + "/"
						b.method = http.MethodGet
						b.status = 200
						resp["Content-Type"] = []string{"text/html"}
					} else {
						hsName = "multi"
						b.url = "https://" + host + "/dir/sub/page.html?query=value&k=v2"
						b.longURL = true
						b.method = http.MethodHead
						b.status = 404
						resp["Content-Type"] = []string{"text/html; charset=utf-8"}
						resp["Foo"] = []string{"Bar", "Baz"}
						resp["x-MiXed"] = []string{"V,w"}
						if c01IsB12(ver) {
							req = http.Header{"Accept": []string{"*/*"}, "accept-language": []string{"en", "fr"}}
						}
					}
					if ver == version.Version1b3 {
						b.method = http.MethodGet
					}
					b.name = fmt.Sprintf("%s/%s/%s/%s", ver, id.Name, lay.name, hsName)
					b.quick = quick[b.name]
					b.lastRec1 = lay.len > 0 && (lay.rs == 1 || lay.len%lay.rs == 1)
					e := signedexchange.NewExchange(ver, b.url, b.method, c01CloneH(req), b.status, resp, append([]byte{}, b.raw...))
					if err := e.MiEncodePayload(lay.rs); err != nil {
						panic(err)
					}
					cu, _ := url.Parse(b.certURL)
					vu, _ := url.Parse(b.vURL)
					signer := &signedexchange.Signer{Date: time.Unix(b.date, 0), Expires: time.Unix(b.expires, 0), Certs: []*x509.Certificate{id.Leaf},
						CertUrl: cu, ValidityUrl: vu, PrivKey: id.Key, Algorithm: &c01Det{id.Key}}
					if err := e.AddSignatureHeader(signer); err != nil {
						panic(err)
					}
					var fb, mb bytes.Buffer
					if err := e.Write(&fb); err != nil {
						panic(err)
					}
					if err := e.DumpSignedMessage(&mb, signer); err != nil {
						panic(err)
					}
					b.file, b.msg = fb.Bytes(), mb.Bytes()
					b.reqH, b.respH = c01CloneH(req), c01CloneH(e.ResponseHeaders)
					b.enc = append([]byte{}, e.Payload...)
					b.header = e.SignatureHeaderValue
					pm, err := c01ParseSig(b.header)
					if err != nil || len(pm) != 1 {
						panic(fmt.Sprintf("c01: cannot split genuine Signature header %q: %v", b.header, err))
					}
					b.member = c01Member{label: pm[0].label}
					for _, k := range pm[0].order {
						b.member.params = append(b.member.params, c01Param{k, pm[0].p[k].raw, pm[0].p[k].kind != 0})
					}
					st := c01NewState(b)
					if st.header() != b.header {
						panic("c01: Signature header does not round-trip through the harness renderer")
					}
					b.sig, b.certSha = pm[0].p["sig"].b, pm[0].p["cert-sha256"].b
					// generator-side sanity, independent of the verifier under test
					if !c01SigValid(&id.Key.PublicKey, b.msg, b.sig) {
						panic("c01: base signature does not verify with crypto/ecdsa: " + b.name)
					}
					if !bytes.Equal(b.certSha, c01Sha(id.Leaf)) {
						panic("c01: base cert-sha256 is not the leaf's hash: " + b.name)
					}
					b.head = c01Head(ver, b.url, b.method, b.status, b.reqH, b.respH)
					// file layout
					off := 8
					b.regions = append(b.regions, c01Region{"magic", off})
					if ver != version.Version1b1 {
						b.regions = append(b.regions, c01Region{"url length", off + 2})
						off += 2 + len(b.url)
						b.regions = append(b.regions, c01Region{"fallback url", off})
					}
					off += 6
					b.regions = append(b.regions, c01Region{"sig/header lengths", off})
					off += len(b.header)
					b.regions = append(b.regions, c01Region{"signature header", off})
					b.regions = append(b.regions, c01Region{"signed headers", len(b.file) - len(b.enc)})
					b.regions = append(b.regions, c01Region{"payload", len(b.file)})
					c01AllBases = append(c01AllBases, b)
				}
			}
		}
	}
	for i, b := range c01AllBases {
		// sibling: another base signed by the same identity (another message)
		for j := 1; j < len(c01AllBases); j++ {
			o := c01AllBases[(i+j)%len(c01AllBases)]
			if o.id == b.id && !bytes.Equal(o.msg, b.msg) && len(o.enc) > 0 && !bytes.Equal(o.enc, b.enc) {
				b.sibling = o
				break
			}
		}
		if b.quick {
			c01QuickIdx = append(c01QuickIdx, i)
		}
	}
	for _, b := range c01AllBases {
		c01MakeEdits(b)
	}
	if len(c01QuickIdx) != 6 {
		panic("c01: quick base selection")
	}
}

func c01Bases(quick bool) []*c01Base {
	c01Once.Do(c01Build)
	if !quick {
		return c01AllBases
	}
	out := make([]*c01Base, len(c01QuickIdx))
	for i, k := range c01QuickIdx {
		out[i] = c01AllBases[k]
	}
	return out
}

// ---------------------------------------------------------------------------
// attack state (in-memory edits)

type c01Resign struct {
	id      *fixtures.ECIdentity
	certSha bool // rewrite cert-sha256 to the re-signing identity's leaf
}

type c01State struct {
	b         *c01Base
	ver       version.Version
	url       string
	method    string
	status    int
	reqH      http.Header
	respH     http.Header
	payload   []byte
	members   []c01Member
	lead      string
	trail     string
	paramSep  string
	memberSep string
	fetch     string // name in c01ChainsTbl, "!error", "!garbage"
	resign    *c01Resign
}

func c01NewState(b *c01Base) *c01State {
	return &c01State{b: b, ver: b.ver, url: b.url, method: b.method, status: b.status, reqH: c01CloneH(b.reqH), respH: c01CloneH(b.respH),
		payload: append([]byte{}, b.enc...), members: []c01Member{b.member.clone()}, paramSep: ";", memberSep: ", ", fetch: b.id.Name}
}

func (s *c01State) header() string {
	var sb strings.Builder
	sb.WriteString(s.lead)
	for mi, m := range s.members {
		if mi > 0 {
			sb.WriteString(s.memberSep)
		}
		sb.WriteString(m.label)
		for _, p := range m.params {
			sb.WriteString(s.paramSep)
			sb.WriteString(p.key)
			if p.has {
				sb.WriteByte('=')
				sb.WriteString(p.val)
			}
		}
	}
	sb.WriteString(s.trail)
	return sb.String()
}

func (s *c01State) exchange() *signedexchange.Exchange {
	return &signedexchange.Exchange{Version: s.ver, RequestURI: s.url, RequestMethod: s.method, RequestHeaders: c01CloneH(s.reqH),
		ResponseStatus: s.status, ResponseHeaders: c01CloneH(s.respH), SignatureHeaderValue: s.header(), Payload: append([]byte{}, s.payload...)}
}

func (s *c01State) fetchID() *fixtures.ECIdentity {
	for _, id := range c01IDs {
		if s.fetch == id.Name || s.fetch == id.Name+"+CA" {
			return id
		}
	}
	return nil // error, garbage, or a chain nobody signed with (CA-as-leaf)
}

func (s *c01State) fetcher() signedexchange.CertFetcher {
	f := s.fetch
	return func(string) ([]byte, error) {
		switch f {
		case "!error":
			return nil, errors.New("fetch failed")
		case "!garbage":
			return []byte{0x82, 0x00, 0x01}, nil
		}
		return c01ChainsTbl[f], nil
	}
}

// doResign models an attacker (or the owner) holding identity X's key who signs
// the exchange as it now stands, with the date/expires/validity-url currently in
// the first list member.  Returns the statement X thereby genuinely signed.
func (s *c01State) doResign() *c01Signed {
	if s.resign == nil || len(s.members) == 0 {
		return nil
	}
	m := &s.members[0]
	ds, ok1 := m.get("date")
	es, ok2 := m.get("expires")
	vs, ok3 := m.get("validity-url")
	if !ok1 || !ok2 || !ok3 {
		return nil
	}
	d, err1 := strconv.ParseInt(ds, 10, 64)
	x, err2 := strconv.ParseInt(es, 10, 64)
	pv, err3 := c01ParseSig("l;v=" + vs)
	if err1 != nil || err2 != nil || err3 != nil || pv[0].p["v"].kind != 's' {
		return nil
	}
	vu, err := url.Parse(pv[0].p["v"].s)
	if err != nil || vu.String() != pv[0].p["v"].s {
		return nil
	}
	id := s.resign.id
	signer := &signedexchange.Signer{Date: time.Unix(d, 0), Expires: time.Unix(x, 0), Certs: []*x509.Certificate{id.Leaf}, ValidityUrl: vu}
	e := s.exchange()
	var mb bytes.Buffer
	if err := e.DumpSignedMessage(&mb, signer); err != nil {
		return nil
	}
	sig, err := (&c01Det{id.Key}).Sign(mb.Bytes())
	if err != nil {
		return nil
	}
	m.set("sig", c01B64(sig))
	if s.resign.certSha {
		m.set("cert-sha256", c01B64(c01Sha(id.Leaf)))
	}
	en := &c01Signed{id: id, head: c01Head(s.ver, s.url, s.method, s.status, s.reqH, s.respH), date: d, expires: x, msg: mb.Bytes()}
	// the payload is bound through the digest header: if that is still the
	// original's, the signer vouches for the original payload
	dn := s.ver.MiceEncoding().DigestHeaderName()
	if c01CanonH(http.Header{"d": s.respH[dn]}) == c01CanonH(http.Header{"d": s.b.respH[dn]}) && len(s.b.respH[dn]) > 0 {
		en.payload = s.b.raw
		if en.payload == nil {
			en.payload = []byte{}
		}
	}
	return en
}

// ---------------------------------------------------------------------------
// edit tables (built once per base; closures only capture immutable values)

func c01MakeEdits(b *c01Base) {
	add := func(name, kind string, reduced bool, f func(s *c01State)) {
		if reduced {
			b.reduced = append(b.reduced, len(b.edits))
		}
		b.edits = append(b.edits, c01Edit{name, kind, reduced, f})
	}
	alt := func(c byte) byte {
		if c == 'x' {
			return 'y'
		}
		return 'x'
	}
	// --- URL
	for i := 0; i < len(b.url); i++ {
		i := i
		add(fmt.Sprintf("url[%d] changed", i), "url byte", i == len(b.url)-1 || i == len(b.url)/2, func(s *c01State) {
			if i < len(s.url) {
				bs := []byte(s.url)
				bs[i] = alt(bs[i])
				s.url = string(bs)
			}
		})
	}
	add("url + suffix", "url", true, func(s *c01State) { s.url += "x" })
	add("url - last byte", "url", false, func(s *c01State) {
		if len(s.url) > 0 {
			s.url = s.url[:len(s.url)-1]
		}
	})
	add("url host -> c.test", "url", true, func(s *c01State) { s.url = "https://c.test" + s.url[len("https://a.test"):] })
	add("url host upper-cased", "url", false, func(s *c01State) { s.url = "https://" + strings.ToUpper(s.url[8:14]) + s.url[14:] })
	add("url scheme http", "url", false, func(s *c01State) { s.url = "http" + s.url[5:] })
	// --- version (bound into the signature through the context string)
	for _, v := range version.AllVersions {
		v := v
		if v != b.ver {
			add(fmt.Sprintf("version -> %s", v), "version", true, func(s *c01State) { s.ver = v })
		}
	}
	// --- method
	for _, m := range []string{"GET", "HEAD", "POST", "get", ""} {
		m := m
		if m == b.method {
			continue
		}
		add(fmt.Sprintf("method -> %q", m), "method", m == "POST" || m == "HEAD" || (m == "GET" && b.method == "HEAD"), func(s *c01State) { s.method = m })
	}
	// --- status
	other := 404
	if b.status == 404 {
		other = 200
	}
	// (values congruent to the signed status modulo 1000 / 256 / 65536 / 2^32: a serializer that formats three digits or
	// narrows the integer signs the same bytes for them)
	for k, st := range []int{b.status + 1, other, b.status + 1000, 0, b.status / 10, b.status * 10, -b.status, b.status + 2000, b.status + 10000, b.status + 91000,
		b.status + 100, b.status + 256, b.status + 65536, b.status + 1<<32, b.status - 1000} {
		st := st
		add(fmt.Sprintf("status -> %d", st), "status", k < 3, func(s *c01State) { s.status = st })
	}
	// --- headers
	hdr := func(which string, base http.Header, sel func(s *c01State) *http.Header) {
		ensure := func(s *c01State) http.Header {
			p := sel(s)
			if *p == nil {
				*p = http.Header{}
			}
			return *p
		}
		var keys []string
		for k := range base {
			keys = append(keys, k)
		}
		sort.Strings(keys)
		for _, k := range keys {
			k := k
			vs := base[k]
			for vi, v := range vs {
				vi := vi
				for p := 0; p < len(v); p++ {
					p := p
					add(fmt.Sprintf("%s[%s][%d][%d] changed", which, k, vi, p), which+" header value byte", p == len(v)-1 && vi == len(vs)-1, func(s *c01State) {
						h := ensure(s)
						if vi < len(h[k]) && p < len(h[k][vi]) {
							bs := []byte(h[k][vi])
							bs[p] = alt(bs[p])
							h[k][vi] = string(bs)
						}
					})
				}
			}
			for p := 0; p < len(k); p++ {
				p := p
				add(fmt.Sprintf("%s[%s] name byte %d changed", which, k, p), which+" header name byte", false, func(s *c01State) {
					h := ensure(s)
					if v, ok := h[k]; ok {
						bs := []byte(k)
						bs[p] = alt(bs[p])
						delete(h, k)
						h[string(bs)] = v
					}
				})
			}
			last := len(vs) - 1
			add(fmt.Sprintf("%s[%s] value + space", which, k), which+" header value", strings.EqualFold(k, "content-type"), func(s *c01State) {
				if h := ensure(s); len(h[k]) > last {
					h[k][last] += " "
				}
			})
			add(fmt.Sprintf("%s[%s] space + value", which, k), which+" header value", false, func(s *c01State) {
				if h := ensure(s); len(h[k]) > 0 {
					h[k][0] = " " + h[k][0]
				}
			})
			add(fmt.Sprintf("%s[%s] value + ',x'", which, k), which+" header value", false, func(s *c01State) {
				if h := ensure(s); len(h[k]) > last {
					h[k][last] += ",x"
				}
			})
			add(fmt.Sprintf("%s[%s] extra value appended", which, k), which+" header value", false, func(s *c01State) {
				if h := ensure(s); h[k] != nil {
					h[k] = append(h[k], "x")
				}
			})
			add(fmt.Sprintf("%s[%s] value emptied", which, k), which+" header value", false, func(s *c01State) {
				if h := ensure(s); h[k] != nil {
					h[k] = []string{""}
				}
			})
			add(fmt.Sprintf("%s[%s] removed", which, k), which+" header removed", true, func(s *c01State) { delete(ensure(s), k) })
			seen := map[string]bool{k: true}
			for ci, nk := range []string{strings.ToLower(k), strings.ToUpper(k), http.CanonicalHeaderKey(k)} {
				nk := nk
				if seen[nk] {
					continue
				}
				seen[nk] = true
				add(fmt.Sprintf("%s[%s] name case -> %s", which, k, nk), which+" header name case", ci == 0 || ci == 2, func(s *c01State) {
					h := ensure(s)
					if v, ok := h[k]; ok {
						delete(h, k)
						h[nk] = v
					}
				})
				add(fmt.Sprintf("%s[%s] duplicated as %s", which, k, nk), which+" header duplicated under another case", false, func(s *c01State) {
					h := ensure(s)
					if v, ok := h[k]; ok {
						h[nk] = append([]string{}, v...)
					}
				})
			}
			add(fmt.Sprintf("%s[%s] renamed", which, k), which+" header renamed", false, func(s *c01State) {
				h := ensure(s)
				if v, ok := h[k]; ok {
					delete(h, k)
					h[k+"x"] = v
				}
			})
			if len(vs) > 1 {
				add(fmt.Sprintf("%s[%s] values swapped", which, k), which+" header values swapped", true, func(s *c01State) {
					if h := ensure(s); len(h[k]) > 1 {
						h[k][0], h[k][1] = h[k][1], h[k][0]
					}
				})
				add(fmt.Sprintf("%s[%s] values joined with ','", which, k), which+" header values joined", true, func(s *c01State) {
					if h := ensure(s); len(h[k]) > 1 {
						h[k] = []string{strings.Join(h[k], ",")}
					}
				})
				add(fmt.Sprintf("%s[%s] values joined with ', '", which, k), which+" header value", false, func(s *c01State) {
					if h := ensure(s); len(h[k]) > 1 {
						h[k] = []string{strings.Join(h[k], ", ")}
					}
				})
				add(fmt.Sprintf("%s[%s] first value dropped", which, k), which+" header value", false, func(s *c01State) {
					if h := ensure(s); len(h[k]) > 1 {
						h[k] = h[k][1:]
					}
				})
			}
			if len(vs) == 1 && strings.Contains(vs[0], ",") {
				add(fmt.Sprintf("%s[%s] value split at ','", which, k), which+" header value split", true, func(s *c01State) {
					if h := ensure(s); len(h[k]) == 1 {
						h[k] = strings.Split(h[k][0], ",")
					}
				})
			}
		}
		add(which+" + X-New: 1", which+" header added", true, func(s *c01State) { ensure(s)["X-New"] = []string{"1"} })
		add(which+" + x-empty (no values)", which+" header added", false, func(s *c01State) { ensure(s)["x-empty"] = []string{} })
		if which == "req" {
			add("req + Cookie", "req header added", false, func(s *c01State) { ensure(s)["Cookie"] = []string{"a=b"} })
		} else {
			add("resp + Set-Cookie", "resp header added", false, func(s *c01State) { ensure(s)["Set-Cookie"] = []string{"a=b"} })
			add("resp + Cache-Control: no-store", "resp header added", false, func(s *c01State) { ensure(s)["Cache-Control"] = []string{"no-store"} })
		}
	}
	hdr("resp", b.respH, func(s *c01State) *http.Header { return &s.respH })
	hdr("req", b.reqH, func(s *c01State) *http.Header { return &s.reqH })
	// --- payload (MI-encoded bytes)
	n := len(b.enc)
	for i := 0; i < n*8; i++ {
		i := i
		add(fmt.Sprintf("payload bit %d flipped", i), "payload bit", i == 8*8 || i == n*8-1 || i == 7, func(s *c01State) {
			if i/8 < len(s.payload) {
				s.payload[i/8] ^= 0x80 >> uint(i%8)
			}
		})
	}
	for k := 0; k < n; k++ {
		k := k
		add(fmt.Sprintf("payload truncated to %d", k), "payload truncated", k == 0 || k == n-1, func(s *c01State) {
			if k < len(s.payload) {
				s.payload = s.payload[:k]
			}
		})
	}
	// the 8-byte record-size field in front of the MI stream is not signed itself; it is bound through the
	// proofs only.  Every value from 0 to payload length + 33 and the extremes: a decoder that validates more
	// bytes than it hands back accepts a shortened payload for a record size just below the payload length
	if n >= 8 {
		vals := []uint64{1 << 16, 1 << 32, 1<<63 - 1, 1 << 63, 1<<64 - 1}
		for v := 0; v <= len(b.raw)+33 && v <= 120; v++ {
			vals = append(vals, uint64(v))
		}
		for _, v := range vals {
			v := v
			add(fmt.Sprintf("payload record-size field = %d", v), "payload record size", v+1 == uint64(len(b.raw)), func(s *c01State) {
				if len(s.payload) >= 8 {
					binary.BigEndian.PutUint64(s.payload[:8], v)
				}
			})
		}
	}
	add("payload + 1 byte", "payload extended", true, func(s *c01State) { s.payload = append(s.payload, 0x41) })
	add("payload + 33 bytes", "payload extended", false, func(s *c01State) { s.payload = append(s.payload, bytes.Repeat([]byte{0x42}, 33)...) })
	if n > 0 {
		add("payload = sibling's", "payload replaced", false, func(s *c01State) { s.payload = append([]byte{}, b.sibling.enc...) })
	}
	// --- Signature parameters (first member)
	m0 := func(s *c01State) *c01Member {
		if len(s.members) == 0 {
			s.members = []c01Member{{label: "label"}}
		}
		return &s.members[0]
	}
	sigEdit := func(name, kind string, reduced bool, f func(sig []byte) []byte) {
		add(name, kind, reduced, func(s *c01State) {
			m := m0(s)
			v, _ := m.get("sig")
			cur := c01UnB64(v)
			if cur == nil {
				cur = append([]byte{}, b.sig...)
			}
			m.set("sig", c01B64(f(append([]byte{}, cur...))))
		})
	}
	ns := len(b.sig)
	bits := map[int]bool{}
	for by := 0; by < ns; by++ {
		if by < 4 || by >= ns-4 {
			for bi := 0; bi < 8; bi++ {
				bits[by*8+bi] = true
			}
		}
		bits[by*8+by%8] = true
	}
	var bl []int
	for k := range bits {
		bl = append(bl, k)
	}
	sort.Ints(bl)
	for _, i := range bl {
		i := i
		sigEdit(fmt.Sprintf("sig bit %d flipped", i), "sig bit", i == ns*8-1, func(sig []byte) []byte {
			if i/8 < len(sig) {
				sig[i/8] ^= 0x80 >> uint(i%8)
			}
			return sig
		})
	}
	sigEdit("sig s -> n-s", "sig replaced by the other valid signature (n-s)", true, func(sig []byte) []byte {
		r, s, ok := c01StrictSig(sig)
		if !ok {
			return sig
		}
		s = new(big.Int).Sub(b.id.Key.Curve.Params().N, s)
		o, _ := asn1.Marshal(struct{ R, S *big.Int }{r, s})
		return o
	})
	sigEdit("sig + trailing 00", "sig with trailing bytes", true, func(sig []byte) []byte { return append(sig, 0) })
	sigEdit("sig + trailing 3 bytes", "sig with trailing bytes", false, func(sig []byte) []byte { return append(sig, 0x30, 0x00, 0xff) })
	sigEdit("sig + trailing copy of itself", "sig with trailing bytes", false, func(sig []byte) []byte { return append(sig, sig...) })
	sigEdit("sig + byte inside SEQUENCE (length fixed up)", "sig DER altered", false, func(sig []byte) []byte {
		if len(sig) > 2 && sig[1] < 0x7f {
			sig[1]++
			return append(sig, 0)
		}
		return sig
	})
	sigEdit("sig truncated by 1", "sig DER altered", false, func(sig []byte) []byte {
		if len(sig) > 0 {
			return sig[:len(sig)-1]
		}
		return sig
	})
	sigEdit("sig emptied", "sig DER altered", false, func(sig []byte) []byte { return nil })
	sigEdit("sig = signature of another exchange by the same key", "sig of another exchange", true, func(sig []byte) []byte { return append([]byte{}, b.sibling.sig...) })
	add("sig base64 without padding", "base64 form", false, func(s *c01State) {
		m := m0(s)
		if v, ok := m.get("sig"); ok {
			m.set("sig", "*"+strings.TrimRight(strings.Trim(v, "*"), "=")+"*")
		}
	})
	if len(b.sig)%3 != 0 {
		add("sig base64 unused trailing bits set", "base64 form", true, func(s *c01State) {
			m := m0(s)
			v, ok := m.get("sig")
			if !ok {
				return
			}
			t := []byte(strings.Trim(v, "*"))
			k := len(t) - 1
			for k >= 0 && t[k] == '=' {
				k--
			}
			if k < 0 {
				return
			}
			const alpha = "ABCDEFGHIJKLMNOPQRSTUVWXYZabcdefghijklmnopqrstuvwxyz0123456789+/"
			if p := strings.IndexByte(alpha, t[k]); p >= 0 {
				t[k] = alpha[p|1]
				if p|1 == p {
					t[k] = alpha[p^1]
				}
			}
			m.set("sig", "*"+string(t)+"*")
		})
	}
	add("sig as string", "parameter type changed", false, func(s *c01State) {
		m := m0(s)
		if v, ok := m.get("sig"); ok {
			m.set("sig", `"`+strings.Trim(v, "*")+`"`)
		}
	})
	for i := 0; i < 256; i++ {
		i := i
		add(fmt.Sprintf("cert-sha256 bit %d flipped", i), "cert-sha256 bit", i == 7 || i == 255, func(s *c01State) {
			m := m0(s)
			v, _ := m.get("cert-sha256")
			cur := c01UnB64(v)
			if i/8 < len(cur) {
				cur[i/8] ^= 0x80 >> uint(i%8)
				m.set("cert-sha256", c01B64(cur))
			}
		})
	}
	add("cert-sha256 truncated to 16 bytes", "cert-sha256 length", false, func(s *c01State) { m0(s).set("cert-sha256", c01B64(b.certSha[:16])) })
	add("cert-sha256 + 1 byte", "cert-sha256 length", false, func(s *c01State) { m0(s).set("cert-sha256", c01B64(append(append([]byte{}, b.certSha...), 0))) })
	add("cert-sha256 emptied", "cert-sha256 length", false, func(s *c01State) { m0(s).set("cert-sha256", "**") })
	for k, x := range c01Others(b.id) {
		x := x
		add("cert-sha256 = hash of "+x.Name+"'s leaf", "cert-sha256 of another certificate", k == 0, func(s *c01State) { m0(s).set("cert-sha256", c01B64(c01Sha(x.Leaf))) })
	}
	intEdit := func(key string, name string, reduced bool, f func(v int64) int64) {
		add(name, key+" edited", reduced, func(s *c01State) {
			m := m0(s)
			v, ok := m.get(key)
			if !ok {
				return
			}
			n, err := strconv.ParseInt(v, 10, 64)
			if err != nil {
				return
			}
			m.set(key, strconv.FormatInt(f(n), 10))
		})
	}
	intEdit("date", "date + 1", true, func(v int64) int64 { return v + 1 })
	intEdit("date", "date - 1", true, func(v int64) int64 { return v - 1 })
	intEdit("date", "date = 0", false, func(v int64) int64 { return 0 })
	intEdit("date", "date = expires", false, func(v int64) int64 { return b.expires })
	intEdit("date", "date - 8 days", false, func(v int64) int64 { return v - 8*86400 })
	intEdit("date", "date negative", false, func(v int64) int64 { return -v })
	intEdit("expires", "expires + 1", true, func(v int64) int64 { return v + 1 })
	intEdit("expires", "expires - 1", true, func(v int64) int64 { return v - 1 })
	intEdit("expires", "expires = date - 1", false, func(v int64) int64 { return b.date - 1 })
	intEdit("expires", "expires + 8 days", false, func(v int64) int64 { return v + 8*86400 })
	intEdit("expires", "expires + 7 days", false, func(v int64) int64 { return v + 7*86400 - 3600 })
	add("date as string", "parameter type changed", false, func(s *c01State) {
		m := m0(s)
		if v, ok := m.get("date"); ok {
			m.set("date", `"`+v+`"`)
		}
	})
	strEdit := func(key, name, kind string, reduced bool, nv string) {
		add(name, kind, reduced, func(s *c01State) { m0(s).set(key, c01Q(nv)) })
	}
	strEdit("validity-url", "validity-url path changed", "validity-url edited", true, b.vURL+"2")
	strEdit("validity-url", "validity-url other origin", "validity-url edited", false, "https://c.test/v")
	strEdit("validity-url", "validity-url empty", "validity-url edited", false, "")
	strEdit("validity-url", "validity-url relative", "validity-url edited", false, "/v")
	strEdit("validity-url", "validity-url unparsable", "validity-url edited", false, "https://a.test/%zz")
	otherInt := "mi-draft2"
	if b.ver == version.Version1b1 {
		otherInt = "digest/mi-sha256-03"
	}
	strEdit("integrity", "integrity = other scheme", "integrity edited", true, otherInt)
	strEdit("integrity", "integrity empty", "integrity edited", false, "")
	strEdit("cert-url", "cert-url changed", "cert-url edited", true, b.certURL+"2")
	strEdit("cert-url", "cert-url empty", "cert-url edited", false, "")
	strEdit("cert-url", "cert-url data:", "cert-url edited", false, "data:application/cert-chain+cbor,x")
	add("label changed", "label edited", true, func(s *c01State) { m0(s).label = "sig1" })
	add("label = other token chars", "label edited", false, func(s *c01State) { m0(s).label = "A*/b:c" })
	for _, k := range []string{"sig", "cert-sha256", "cert-url", "date", "expires", "integrity", "validity-url"} {
		k := k
		add("parameter "+k+" removed", "parameter removed", k == "sig" || k == "cert-sha256" || k == "date", func(s *c01State) { m0(s).del(k) })
		add("parameter "+k+" duplicated", "parameter duplicated", k == "sig", func(s *c01State) {
			m := m0(s)
			if i := m.idx(k); i >= 0 {
				m.params = append(m.params, m.params[i])
			}
		})
		add("parameter "+k+" without value", "parameter valueless", false, func(s *c01State) {
			m := m0(s)
			if i := m.idx(k); i >= 0 {
				m.params[i].has = false
			}
		})
	}
	add("unknown parameter added", "unknown parameter", true, func(s *c01State) { m0(s).set("zzz", "1") })
	// --- list members
	add("list: copy appended", "list member copy appended", true, func(s *c01State) { s.members = append(s.members, m0(s).clone()) })
	add("list: label-only member first", "list garbage member first", true, func(s *c01State) {
		s.members = append([]c01Member{{label: "junk"}}, s.members...)
	})
	add("list: broken-sig copy first", "list garbage member first", false, func(s *c01State) {
		g := m0(s).clone()
		g.set("sig", c01B64([]byte{0x30, 0x00}))
		s.members = append([]c01Member{g}, s.members...)
	})
	add("list: garbage member last", "list garbage member last", false, func(s *c01State) {
		m0(s)
		s.members = append(s.members, c01Member{label: "junk", params: []c01Param{{"sig", "**", true}}})
	})
	add("list: sibling's member first", "list foreign member first", false, func(s *c01State) {
		s.members = append([]c01Member{b.sibling.member.clone()}, s.members...)
	})
	add("list: emptied", "list emptied", false, func(s *c01State) { s.members = []c01Member{} })
	// every arrangement of the genuine member G with a label-only member J and/or a copy M of G whose
	// date/expires were moved to surround every instant of the time alphabet (its signature no longer
	// matches): a verifier that pairs one member's window with another member's signature accepts G
	// outside its own window
	for _, arr := range []string{"MG", "GM", "JMG", "JGM", "MJG", "MGJ", "GJM", "GMJ"} {
		arr := arr
		add("list: arrangement "+arr+" (J label-only, M window-moved copy, G genuine)", "list arrangement with a window-moved copy", arr == "JMG", func(s *c01State) {
			g := m0(s).clone()
			mv := g.clone()
			mv.set("date", strconv.FormatInt(b.date-3600, 10))
			mv.set("expires", strconv.FormatInt(b.expires+3600, 10))
			var out []c01Member
			for _, ch := range arr {
				switch ch {
				case 'G':
					out = append(out, g.clone())
				case 'M':
					out = append(out, mv.clone())
				default:
					out = append(out, c01Member{label: "junk"})
				}
			}
			s.members = out
		})
	}
	// --- formatting
	add("format: leading and trailing whitespace", "whitespace", true, func(s *c01State) { s.lead, s.trail = " \t", "  " })
	add("format: '; ' between parameters", "whitespace", false, func(s *c01State) { s.paramSep = " ; " })
	add("format: ',' without space between members", "whitespace", false, func(s *c01State) { s.memberSep = "," })
	add("format: parameters reversed", "parameter order", false, func(s *c01State) {
		m := m0(s)
		for i, j := 0, len(m.params)-1; i < j; i, j = i+1, j-1 {
			m.params[i], m.params[j] = m.params[j], m.params[i]
		}
	})
	add("format: trailing comma", "header syntax broken", false, func(s *c01State) { s.trail = "," })
	add("format: NUL appended", "header syntax broken", false, func(s *c01State) { s.trail = "\x00" })
	// --- certificate substitution / keys
	for k, x := range c01Others(b.id) {
		x := x
		first := k == 0
		add("fetcher returns "+x.Name+"'s chain", "certificate substituted", first, func(s *c01State) { s.fetch = x.Name })
		add("forgery recipe: "+x.Name+"'s chain + cert-sha256 rewritten", "certificate substituted, cert-sha256 rewritten", true, func(s *c01State) {
			s.fetch = x.Name
			m0(s).set("cert-sha256", c01B64(c01Sha(x.Leaf)))
		})
		add("re-signed with "+x.Name+"'s key only", "signature re-made with another key", first, func(s *c01State) { s.resign = &c01Resign{x, false} })
		add("re-signed with "+x.Name+"'s key + cert-sha256", "signature re-made with another key, cert-sha256 rewritten", false, func(s *c01State) { s.resign = &c01Resign{x, true} })
		add("re-signed with "+x.Name+"'s key + chain", "signature re-made with another key, chain substituted", false, func(s *c01State) {
			s.resign = &c01Resign{x, false}
			s.fetch = x.Name
		})
		add("fully re-signed as "+x.Name, "fully re-signed as another identity", first, func(s *c01State) {
			s.resign = &c01Resign{x, true}
			s.fetch = x.Name
		})
	}
	add("re-signed with the own key", "re-signed with the own key", true, func(s *c01State) { s.resign = &c01Resign{b.id, true} })
	add("fetcher returns leaf + CA chain", "longer chain of the same leaf", false, func(s *c01State) { s.fetch = b.id.Name + "+CA" })
	add("fetcher returns the CA as leaf", "certificate substituted", false, func(s *c01State) { s.fetch = "CA-as-leaf" })
	add("fetcher fails", "no certificate", false, func(s *c01State) { s.fetch = "!error" })
	add("fetcher returns garbage", "no certificate", false, func(s *c01State) { s.fetch = "!garbage" })
}

// ---------------------------------------------------------------------------
// running the verifier and the oracle

type c01Time struct {
	name string
	t    time.Time
	in   bool // inside the ORIGINAL window
}

func c01Times(b *c01Base) []c01Time {
	d, x := time.Unix(b.date, 0), time.Unix(b.expires, 0)
	return []c01Time{
		{"date-1s", d.Add(-time.Second), false}, {"date-1ns", d.Add(-time.Nanosecond), false}, {"date", d, true},
		{"expires", x, true}, {"expires+1ns", x.Add(time.Nanosecond), false}, {"expires+1s", x.Add(time.Second), false},
	}
}

func c01Verify(e *signedexchange.Exchange, t time.Time, f signedexchange.CertFetcher) (pl []byte, ok bool, logs string, pan interface{}) {
	var buf bytes.Buffer
	defer func() {
		if r := recover(); r != nil {
			pl, ok, logs, pan = nil, false, buf.String(), r
		}
	}()
	pl, ok = e.Verify(t, f, log.New(&buf, "", 0))
	return pl, ok, buf.String(), nil
}

func c01Read(data []byte) (e *signedexchange.Exchange, err error) {
	defer func() {
		if r := recover(); r != nil {
			e, err = nil, fmt.Errorf("panic: %v", r)
		}
	}()
	return signedexchange.ReadExchange(bytes.NewReader(data))
}

var c01StageTable = []struct{ sub, stage string }{
	{"Could not parse signature header", "Signature header unparsable"},
	{"Invalid signature:", "Signature parameter missing or ill-typed"},
	{"Cannot parse validity-url", "validity-url unparsable"},
	{"Cannot parse request URI", "request URL unparsable"},
	{"is not same-origin", "validity-url not same-origin"},
	{"failed to fetch", "certificate fetch failed"},
	{"could not parse certificate CBOR", "certificate chain unparsable"},
	{"unsupported main certificate public key", "certificate key unsupported"},
	{"is more than 7 days", "timestamps: window longer than 7 days"},
	{"not yet valid", "timestamps: before date"},
	{"is expired", "timestamps: after expires"},
	{"cannot reconstruct signed message", "signed message not reconstructible"},
	{"cert-sha256 mismatch", "cert-sha256 mismatch"},
	{"failed to ASN.1 decode", "sig not DER"},
	{"extra data at the signature end", "sig has trailing data"},
	{"signature verification failed", "ECDSA signature invalid"},
	{"Content-Type response header is absent", "Content-Type absent"},
	{"unsupported integrity scheme", "integrity scheme"},
	{"not present", "digest header absent"},
	{"mice: failed to validate record", "payload integrity: record proof mismatch"},
	{"mice:", "payload integrity: malformed MI stream or digest"},
	{"Request method", "policy: method"},
	{"Unknown response status", "policy: status"},
	{"cache directive", "policy: cache-control"},
	{"response directive", "policy: cache-control"},
	{"not cacheable", "policy: not cacheable"},
	{"Header validation failed", "policy: stateful/uncached header"},
}

func c01Stage(logs string) string {
	// the stage named by the LAST log entry (a message may itself contain a newline
	// when a mutated byte is echoed, so match on the position of the known phrases)
	best, at := "", -1
	for _, e := range c01StageTable {
		if i := strings.LastIndex(logs, e.sub); i > at {
			best, at = e.stage, i
		}
	}
	if at >= 0 {
		return best
	}
	if strings.TrimSpace(logs) == "" {
		return "no log line"
	}
	return "other: " + c01Clip(strings.TrimSpace(logs))
}

func c01Clip(s string) string {
	if len(s) > 60 {
		s = s[:60]
	}
	return s
}

// stages at or beyond which the mutant got past all syntactic / timestamp checks
var c01Deep = map[string]bool{"cert-sha256 mismatch": true, "sig not DER": true, "sig has trailing data": true, "ECDSA signature invalid": true,
	"Content-Type absent": true, "integrity scheme": true, "digest header absent": true, "payload integrity: record proof mismatch": true,
	"payload integrity: malformed MI stream or digest": true, "policy: method": true, "policy: status": true, "policy: cache-control": true,
	"policy: not cacheable": true, "policy: stateful/uncached header": true, "signed message not reconstructible": true}

type c01Run struct {
	c      *mc.Ctx
	b      *c01Base
	key    string
	input  string
	kind   string // "" for the unmodified control
	fetch  *fixtures.ECIdentity
	signed []*c01Signed
	failed bool
}

// verifyAll runs Verify on e at every time of the alphabet and applies the oracle.
func (r *c01Run) verifyAll(e *signedexchange.Exchange, f signedexchange.CertFetcher, path string, stateKey []byte) {
	c, b := r.c, r.b
	for _, tm := range c01Times(b) {
		pl, ok, logs, pan := c01Verify(e, tm.t, f)
		c.Transitions(1)
		c.Traces(1)
		c.Eval()
		tc := "t outside the signed window"
		if tm.in {
			tc = "t in the signed window"
		}
		if pan != nil {
			// not a verification success: a C10 matter, recorded only
			c.Outcome(path + " | " + tc + " | rejected: PANIC in Verify")
			continue
		}
		if !ok {
			st := c01Stage(logs)
			c.Outcome(path + " | " + tc + " | rejected: " + st)
			if c01Deep[st] {
				c.Nontrivial(stateKey, []byte(path), []byte(tm.name))
			}
			continue
		}
		c.Nontrivial(stateKey, []byte(path), []byte(tm.name))
		cls := r.judge(e, tm, pl, path)
		if cls != "" {
			c.Outcome(path + " | " + tc + " | " + cls)
		}
		if r.failed {
			return
		}
	}
}

func (r *c01Run) fail(what, tname, expected, observed string) {
	if r.failed {
		return
	}
	r.failed = true
	r.c.Fail(r.key, what, r.input+" | t="+tname, expected, observed)
}

// judge applies the oracle to one successful verification.
func (r *c01Run) judge(e *signedexchange.Exchange, tm c01Time, pl []byte, path string) string {
	if r.fetch == nil {
		r.fail("verification succeeded although the fetcher supplied no certificate of a signing identity", tm.name, "rejection", "ok")
		return "VIOLATION"
	}
	head := c01Head(e.Version, e.RequestURI, e.RequestMethod, e.ResponseStatus, e.RequestHeaders, e.ResponseHeaders)
	var mine, sameHead []*c01Signed
	for _, en := range r.signed {
		if en.id == r.fetch {
			mine = append(mine, en)
			if en.head == head {
				sameHead = append(sameHead, en)
			}
		}
	}
	if len(mine) == 0 {
		r.fail("verification succeeded under a certificate whose key never signed this exchange", tm.name, "rejection (fetched identity "+r.fetch.Name+" signed nothing)", "ok; "+head)
		return "VIOLATION"
	}
	if len(sameHead) == 0 {
		r.fail("verification succeeded although URL/status/headers/method differ from what the certificate's key signed", tm.name, mine[0].head, head)
		return "VIOLATION"
	}
	// an entry must match on everything: tuple, payload and window
	var samePl, full []*c01Signed
	for _, x := range sameHead {
		if x.payload == nil || bytes.Equal(x.payload, pl) {
			samePl = append(samePl, x)
			if !tm.t.Before(time.Unix(x.date, 0)) && !tm.t.After(time.Unix(x.expires, 0)) {
				full = append(full, x)
			}
		}
	}
	if len(samePl) == 0 {
		r.fail("verification succeeded but the payload handed back is not the signed payload", tm.name, hx(sameHead[0].payload), hx(pl))
		return "VIOLATION"
	}
	if len(full) == 0 {
		r.fail("verification succeeded at a time outside the signed [date, expires] window", tm.name, fmt.Sprintf("rejection: window [%d, %d]", samePl[0].date, samePl[0].expires), "ok at "+tm.t.UTC().Format(time.RFC3339Nano))
		return "VIOLATION"
	}
	// clause (d): parameter binding
	pms, err := c01ParseSig(e.SignatureHeaderValue)
	if err != nil {
		return "verified, tuple intact; Signature header not readable by the harness (binding not evaluated)"
	}
	leafSha := c01Sha(r.fetch.Leaf)
	bound, sigOK, lax := false, false, false
	var en *c01Signed
	for _, m := range pms {
		sg, cs := m.p["sig"], m.p["cert-sha256"]
		if sg.kind != 'b' || cs.kind != 'b' {
			continue
		}
		form := "invalid"
		var by *c01Signed
		for _, x := range full {
			switch c01SigForm(&r.fetch.Key.PublicKey, x.msg, sg.b) {
			case "strict":
				if form != "strict" {
					form, by = "strict", x
				}
			case "inner-extra":
				if form == "invalid" {
					form, by = "inner-extra", x
				}
			}
		}
		if form == "invalid" || (form == "inner-extra" && c01InnerExtraIsViolation) {
			continue
		}
		sigOK = true
		if bytes.Equal(cs.b, leafSha) && !bound {
			bound = true
			lax = form == "inner-extra"
			en = by
		}
	}
	if !sigOK {
		r.fail("verification succeeded although no Signature member carries a DER ECDSA signature (nothing after the SEQUENCE) by the certificate's key over the signed message", tm.name,
			"sig = DER Ecdsa-Sig-Value without trailing bytes, valid under "+r.fetch.Name+"'s key", e.SignatureHeaderValue)
		return "VIOLATION"
	}
	if !bound {
		r.fail("verification succeeded although the cert-sha256 parameter is not the SHA-256 of the certificate used", tm.name, hx(leafSha), e.SignatureHeaderValue)
		return "VIOLATION"
	}
	if lax {
		return "verified, tuple intact, sig NOT strict DER (extra bytes inside the SEQUENCE tolerated): " + r.kind
	}
	switch {
	case r.kind == "":
		return "verified: unmodified control"
	case !en.orig:
		return "verified: tuple legitimately re-signed by " + en.id.Name + " (" + r.kind + ")"
	}
	return "verified, tuple intact: " + r.kind
}

// ---------------------------------------------------------------------------

func c01FileMutant(b *c01Base, op, site int) ([]byte, string, int) {
	f := b.file
	switch op {
	case 1:
		d := append([]byte{}, f...)
		d[site/8] ^= 0x80 >> uint(site%8)
		return d, fmt.Sprintf("flip bit %d of byte %d", site%8, site/8), site / 8
	case 2:
		d := append(append([]byte{}, f[:site]...), f[site+1:]...)
		return d, fmt.Sprintf("delete byte %d", site), site
	case 3, 4, 5:
		v := byte(0)
		nm := "00"
		if op == 4 {
			v, nm = 0xff, "ff"
		}
		if op == 5 {
			nm = "copy of neighbour"
			if site > 0 {
				v = f[site-1]
			} else {
				v = f[0]
			}
		}
		d := append(append(append([]byte{}, f[:site]...), v), f[site:]...)
		return d, fmt.Sprintf("insert %s at offset %d", nm, site), site
	case 6:
		return append([]byte{}, f[:site]...), fmt.Sprintf("truncate to %d bytes", site), site
	}
	return append([]byte{}, f...), "unmodified", 0
}

var c01OpNames = []string{"none", "bit flip", "byte deleted", "00 inserted", "ff inserted", "neighbour copy inserted", "truncated"}

func init() {
	fileH := &mc.Harness{
		Name:  "C01/file",
		Mode:  "choice-tree DFS over (base, byte-level operator, site); one mutation per execution",
		Bound: func(string) int { return 1 },
		Run: func(c *mc.Ctx) {
			bases := c01Bases(c.Quick())
			b := bases[c.Free(len(bases), "base")]
			op := c.Dev(7, "operator")
			site := 0
			if op > 0 {
				n := len(b.file)
				switch op {
				case 1:
					n *= 8
				case 3, 4, 5:
					n++
				}
				site = c.Free(n, "site")
			}
			data, desc, off := c01FileMutant(b, op, site)
			c.Outcome("gen: " + c01OpNames[op])
			c.State(data)
			region := b.region(off)
			if op == 6 {
				region = "cut in " + region
			}
			e, err := c01Read(data)
			c.Transitions(1)
			if err != nil {
				c.Eval()
				c.Outcome("file | rejected by ReadExchange (mutation in " + region + ")")
				return
			}
			r := &c01Run{c: c, b: b, key: fmt.Sprintf("C01/file/%s/%s", b.name, desc), input: fmt.Sprintf("base %s (%d bytes), %s [%s]; file=%s", b.name, len(b.file), desc, region, hx(data)),
				kind: c01OpNames[op] + " in " + region, fetch: b.id,
				signed: []*c01Signed{{id: b.id, head: b.head, payload: append([]byte{}, b.raw...), date: b.date, expires: b.expires, msg: b.msg, orig: true}}}
			if op == 0 {
				r.kind = ""
			}
			chain := c01ChainsTbl[b.id.Name]
			r.verifyAll(e, func(string) ([]byte, error) { return chain, nil }, "file", data)
			c.Sample(map[string]string{"base": b.name, "mutation": desc, "region": region})
		},
	}
	editH := &mc.Harness{
		Name: "C01/edit",
		Mode: "choice-tree DFS over (base, semantic edit[, second semantic edit]); each edited object verified in memory and after Write+ReadExchange",
		Bound: func(tier string) int {
			if tier == "thorough" {
				return 2
			}
			return 1
		},
		Run: func(c *mc.Ctx) {
			bases := c01Bases(c.Quick())
			b := bases[c.Free(len(bases), "base")]
			i := c.Dev(len(b.edits)+1, "edit")
			var chosen []*c01Edit
			if i > 0 {
				e1 := &b.edits[i-1]
				chosen = append(chosen, e1)
				if e1.reduced {
					// second edit: only reduced edits that come later in the table
					var later []int
					for _, k := range b.reduced {
						if k > i-1 {
							later = append(later, k)
						}
					}
					j := c.Dev(len(later)+1, "second edit")
					if j > 0 {
						chosen = append(chosen, &b.edits[later[j-1]])
					}
				}
			}
			s := c01NewState(b)
			var names, kinds []string
			for _, ed := range chosen {
				ed.apply(s)
				names = append(names, ed.name)
				kinds = append(kinds, ed.kind)
			}
			c.Outcome(fmt.Sprintf("gen: %d edit(s)", len(chosen)))
			signed := []*c01Signed{{id: b.id, head: b.head, payload: append([]byte{}, b.raw...), date: b.date, expires: b.expires, msg: b.msg, orig: true}}
			if en := s.doResign(); en != nil {
				signed = append(signed, en)
			}
			e := s.exchange()
			desc := strings.Join(names, " + ")
			if desc == "" {
				desc = "unmodified"
			}
			stateKey := []byte(fmt.Sprintf("%s|%q|%q|%d|%s|%s|%x|%q|%s", e.Version, e.RequestURI, e.RequestMethod, e.ResponseStatus, c01CanonH(e.RequestHeaders), c01CanonH(e.ResponseHeaders), e.Payload, e.SignatureHeaderValue, s.fetch))
			c.State(stateKey)
			r := &c01Run{c: c, b: b, key: fmt.Sprintf("C01/edit/%s/%s", b.name, desc), kind: strings.Join(kinds, " + "), fetch: s.fetchID(), signed: signed}
			r.input = fmt.Sprintf("base %s, edits: %s; fetcher: %s; url=%q method=%q status=%d req=%s resp=%s payload=%s signature=%q", b.name, desc, s.fetch, e.RequestURI, e.RequestMethod, e.ResponseStatus,
				c01CanonH(e.RequestHeaders), c01CanonH(e.ResponseHeaders), hx(e.Payload), e.SignatureHeaderValue)
			f := s.fetcher()
			r.verifyAll(e, f, "memory", stateKey)
			if r.failed {
				return
			}
			// the same edit on the serialized form: Write the edited object, read it back
			var buf bytes.Buffer
			werr := func() (err error) {
				defer func() {
					if p := recover(); p != nil {
						err = fmt.Errorf("panic: %v", p)
					}
				}()
				return s.exchange().Write(&buf)
			}()
			c.Transitions(1)
			if werr != nil {
				c.Outcome("written | edited object not serializable")
			} else if e2, err := c01Read(buf.Bytes()); err != nil {
				c.Outcome("written | rejected by ReadExchange")
			} else {
				r.key += " (written+read)"
				r.verifyAll(e2, f, "written", stateKey)
			}
			// the same edit applied to an object that came out of ReadExchange (it may carry state the
			// reader attached - cached header bytes, parsed forms - that a fresh object does not have):
			// read the ORIGINAL file, then overwrite every exported field with the edited values
			if e3, err := c01Read(b.file); err == nil {
				ed := s.exchange()
				e3.Version, e3.RequestURI, e3.RequestMethod, e3.RequestHeaders = ed.Version, ed.RequestURI, ed.RequestMethod, ed.RequestHeaders
				e3.ResponseStatus, e3.ResponseHeaders, e3.SignatureHeaderValue, e3.Payload = ed.ResponseStatus, ed.ResponseHeaders, ed.SignatureHeaderValue, ed.Payload
				r.key = fmt.Sprintf("C01/edit/%s/%s (read, then edited)", b.name, desc)
				r.verifyAll(e3, f, "read-then-edited", stateKey)
			}
			c.Sample(map[string]string{"base": b.name, "edits": desc})
		},
	}
	register(&mc.Property{
		ID:    "C01",
		Level: "model_checking",
		Rule: "Bases: versions {1b1,1b2,1b3} x {P-256 identity A, P-384 identity B} x payload layouts {len 0; rs 1: len 1,2,3; rs 16: len 16,32,33} x header sets {minimal, multi} = 84 really-signed exchanges (quick: 6). " +
			"C01/file: every bit flip, byte deletion, insertion of 00/ff/neighbour copy at every offset and truncation at every length of each serialized base (one mutation per execution). " +
			"C01/edit: every site of every semantic edit operator on the parsed exchange (bound 1) and, thorough, every unordered pair of the reduced semantic edit set (bound 2); each edited object is verified in memory and after Write+ReadExchange. " +
			"Every verification runs at t in {date-1s, date-1ns, date, expires, expires+1ns, expires+1s}. states = distinct mutated files / edited objects; a (mutant, path, t) is non-trivial when it got past parsing, parameter extraction, origin, certificate and timestamp checks (reached cert-sha256 / ECDSA / payload / policy) or verified.",
		Assumptions: []string{
			"crypto/ecdsa, crypto/sha256/sha512, crypto/x509, encoding/base64 of the Go standard library are correct; SHA-256 is collision resistant and ECDSA unforgeable (a mutant that would need a forged signature is assumed rejected by any correct verifier, and is in fact executed)",
			"the signed message of the ORIGINAL is taken from Exchange.DumpSignedMessage at signing time (its byte layout is C08's subject); the base signature is re-verified over it with crypto/ecdsa by the harness",
			"oracle clause (d) (cert-sha256 = SHA-256 of the leaf used; sig a strict DER signature without trailing bytes) reads the property through the mechanisms its record anchors; a second valid signature for the same message (s -> n-s) is accepted",
			"panics inside Verify/ReadExchange are recorded as rejections (robustness is C10's subject)",
			"single mutations (pairs for the reduced semantic set); exchanges of a few hundred bytes; six verification times per mutant",
		},
		Harnesses: []*mc.Harness{fileH, editH},
		Guard: func(s map[string]*mc.Stats) error {
			f, e := s["C01/file"], s["C01/edit"]
			if f == nil || e == nil {
				return fmt.Errorf("harness missing")
			}
			nb := f.Outcomes["gen: none"]
			if nb < 6 {
				return fmt.Errorf("only %d bases", nb)
			}
			for _, op := range c01OpNames[1:] {
				if f.Outcomes["gen: "+op] < nb*100 {
					return fmt.Errorf("operator %q swept over too few sites (%d)", op, f.Outcomes["gen: "+op])
				}
			}
			if e.Outcomes["gen: 0 edit(s)"] != nb || e.Outcomes["gen: 1 edit(s)"] < nb*500 {
				return fmt.Errorf("semantic edit sweep too small (%d controls, %d single edits)", e.Outcomes["gen: 0 edit(s)"], e.Outcomes["gen: 1 edit(s)"])
			}
			if e.Bound >= 2 && e.Outcomes["gen: 2 edit(s)"] < nb*1000 {
				return fmt.Errorf("pair sweep too small (%d)", e.Outcomes["gen: 2 edit(s)"])
			}
			return nil
		},
	})
}
