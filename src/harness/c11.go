package main

import (
	"bytes"
	"encoding/hex"
	"fmt"
	"math"
	"sort"

	"github.com/WICG/webpackage/go/internal/cbor"
	"github.com/WICG/webpackage/go/signedexchange/zverif/mc"
	"github.com/WICG/webpackage/go/signedexchange/zverif/refcbor"
)

// boundaryU64 returns every uint64 within +-w of each head-size boundary and of
// every power of two.
func boundaryU64(w uint64) []uint64 {
	set := map[uint64]bool{}
	add := func(c uint64) {
		for d := uint64(0); d <= w; d++ {
			set[c+d] = true // wraps around 2^64 on purpose
			set[c-d] = true
		}
	}
	for _, c := range []uint64{0, 24, 1 << 8, 1 << 16, 1 << 32, 1 << 63, math.MaxUint64} {
		add(c)
	}
	for k := uint(0); k < 64; k++ {
		set[1<<k] = true
		set[1<<k+1] = true
		set[1<<k-1] = true
	}
	out := make([]uint64, 0, len(set))
	for v := range set {
		out = append(out, v)
	}
	sort.Slice(out, func(i, j int) bool { return out[i] < out[j] })
	return out
}

var c11U64 = boundaryU64(64)

func c11I64() []int64 {
	set := map[int64]bool{math.MinInt64: true, math.MaxInt64: true}
	for _, u := range c11U64 {
		if u <= math.MaxInt64 {
			set[int64(u)] = true
			set[-int64(u)] = true
			set[-int64(u)-1] = true
		}
	}
	out := make([]int64, 0, len(set))
	for v := range set {
		out = append(out, v)
	}
	sort.Slice(out, func(i, j int) bool { return out[i] < out[j] })
	return out
}

var c11I64s = c11I64()

// (EF BF BD is U+FFFD, a valid character that a rune-based validity shortcut confuses with a decoding error)
var c11TextAlphabet = []byte{0x00, 'a', 0x7F, 0x80, 0xC2, 0xE2, 0x82, 0xAC, 0xF0, 0xFF, 0xED, 0xA0, 0xEF, 0xBF, 0xBD}

func pattern(n int, seed int64) []byte {
	b := make([]byte, n)
	x := uint32(seed*2654435761 + 12345)
	for i := range b {
		x = x*1664525 + 1013904223
		b[i] = byte(x >> 24)
	}
	return b
}

func hx(b []byte) string {
	if len(b) > 96 {
		return hex.EncodeToString(b[:96]) + fmt.Sprintf("...(%d bytes)", len(b))
	}
	return hex.EncodeToString(b)
}

// mapKeyPool: keys of mixed major type and length, chosen so that the order of the
// raw Go values, of the raw strings and of the encoded keys all differ.
type c11Key struct {
	name string
	enc  func(e *cbor.Encoder) error
	ref  []byte
}

func c11KeyPool() []c11Key {
	long24 := "zzzzzzzzzzzzzzzzzzzzzzzz" // 24 bytes: 2-byte head 78 18
	long23 := "aaaaaaaaaaaaaaaaaaaaaaa"  // 23 bytes: head 77
	mk := func(name string, ref []byte, f func(e *cbor.Encoder) error) c11Key { return c11Key{name, f, ref} }
	return []c11Key{
		mk("u1", refcbor.EncUint(1), func(e *cbor.Encoder) error { return e.EncodeUint(1) }),
		mk("u24", refcbor.EncUint(24), func(e *cbor.Encoder) error { return e.EncodeUint(24) }),
		mk("u256", refcbor.EncUint(256), func(e *cbor.Encoder) error { return e.EncodeUint(256) }),
		mk("n-1", refcbor.EncInt(-1), func(e *cbor.Encoder) error { return e.EncodeInt(-1) }),
		mk("b:b", refcbor.EncBytes([]byte("b")), func(e *cbor.Encoder) error { return e.EncodeByteString([]byte("b")) }),
		mk("t:b", refcbor.EncText("b"), func(e *cbor.Encoder) error { return e.EncodeTextString("b") }),
		mk("t:aa", refcbor.EncText("aa"), func(e *cbor.Encoder) error { return e.EncodeTextString("aa") }),
		mk("t:a23", refcbor.EncText(long23), func(e *cbor.Encoder) error { return e.EncodeTextString(long23) }),
		mk("t:z24", refcbor.EncText(long24), func(e *cbor.Encoder) error { return e.EncodeTextString(long24) }),
		mk("b:empty", refcbor.EncBytes(nil), func(e *cbor.Encoder) error { return e.EncodeByteString(nil) }),
	}
}

var c11Keys = c11KeyPool()

// permutations of 0..n-1 in lexicographic order
var permCache = map[int][][]int{}

func init() {
	for n := 0; n <= 6; n++ {
		permCache[n] = mkPerms(n)
	}
}

func perms(n int) [][]int {
	if p, ok := permCache[n]; ok {
		return p
	}
	return mkPerms(n)
}

func mkPerms(n int) [][]int {
	var out [][]int
	p := make([]int, n)
	for i := range p {
		p[i] = i
	}
	var rec func(k int)
	rec = func(k int) {
		if k == n {
			out = append(out, append([]int{}, p...))
			return
		}
		for i := k; i < n; i++ {
			p[k], p[i] = p[i], p[k]
			rec(k + 1)
			p[k], p[i] = p[i], p[k]
		}
	}
	rec(0)
	return out
}

func init() {
	ints := &mc.Harness{
		Name: "C11/integers",
		Run: func(c *mc.Ctx) {
			kind := c.Free(3, "kind")
			var got bytes.Buffer
			var want []byte
			var err error
			var desc string
			enc := cbor.NewEncoder(&got)
			switch kind {
			case 0:
				v := c11U64[c.Free(len(c11U64), "uint")]
				desc = fmt.Sprintf("EncodeUint(%d)", v)
				err = enc.EncodeUint(v)
				want = refcbor.EncUint(v)
			case 1:
				v := c11I64s[c.Free(len(c11I64s), "int")]
				desc = fmt.Sprintf("EncodeInt(%d)", v)
				err = enc.EncodeInt(v)
				want = refcbor.EncInt(v)
			case 2:
				// array headers take an int
				vals := []int{0, 1, 22, 23, 24, 25, 255, 256, 257, 65535, 65536, 65537, 1<<31 - 1, 1 << 31, 1<<32 - 1, 1 << 32, 1<<32 + 1, math.MaxInt64}
				v := vals[c.Free(len(vals), "arraylen")]
				desc = fmt.Sprintf("EncodeArrayHeader(%d)", v)
				err = enc.EncodeArrayHeader(v)
				want = refcbor.AppendHead(nil, refcbor.Array, uint64(v))
			}
			c.Eval()
			c.State(got.Bytes())
			c.Sample(desc + " -> " + hx(got.Bytes()))
			if err != nil || !bytes.Equal(got.Bytes(), want) {
				c.Outcome("mismatch")
				c.Fail("C11/integers:"+desc, "encoder output differs from the canonical reference encoding", desc, hx(want), fmt.Sprintf("%s err=%v", hx(got.Bytes()), err))
				return
			}
			// independent decode: same value, shortest head, whole output consumed
			h, herr := refcbor.ParseHead(got.Bytes())
			if herr != nil || h.Len != got.Len() || !h.Shortest {
				c.Fail("C11/integers:decode:"+desc, "output is not one complete shortest-form head", desc, "one head", fmt.Sprintf("%s headlen=%d err=%v shortest=%v", hx(got.Bytes()), h.Len, herr, h.Shortest))
				return
			}
			c.Outcome(fmt.Sprintf("ok major=%d headlen=%d", h.Major, h.Len))
			c.Nontrivial(got.Bytes())
		},
	}

	strs := &mc.Harness{
		Name: "C11/strings",
		Run: func(c *mc.Ctx) {
			kind := c.Free(3, "kind")
			var got bytes.Buffer
			enc := cbor.NewEncoder(&got)
			switch kind {
			case 0, 1: // byte / text strings of every length class, ASCII pattern content
				lens := []int{}
				for i := 0; i <= 300; i++ {
					lens = append(lens, i)
				}
				lens = append(lens, 65534, 65535, 65536, 65537)
				if !c.Quick() {
					lens = append(lens, 1<<24-1, 1<<24)
				}
				n := lens[c.Free(len(lens), "len")]
				content := pattern(n, c.Seed)
				var err error
				var want []byte
				desc := ""
				if kind == 0 {
					err = enc.EncodeByteString(content)
					want = refcbor.EncBytes(content)
					desc = fmt.Sprintf("EncodeByteString(len %d)", n)
				} else {
					for i := range content {
						content[i] = 'a' + content[i]%26
					}
					err = enc.EncodeTextString(string(content))
					want = refcbor.EncText(string(content))
					desc = fmt.Sprintf("EncodeTextString(len %d)", n)
				}
				c.Eval()
				c.StateU64(uint64(kind)<<32 | uint64(n))
				if err != nil || !bytes.Equal(got.Bytes(), want) {
					c.Outcome("mismatch")
					c.Fail("C11/strings:"+desc, "string encoding differs from the canonical reference encoding", desc, hx(want), fmt.Sprintf("%s err=%v", hx(got.Bytes()), err))
					return
				}
				h, _ := refcbor.ParseHead(got.Bytes())
				c.Outcome(fmt.Sprintf("ok kind=%d headlen=%d", kind, h.Len))
				c.Nontrivial([]byte(desc))
			case 2: // text content: all strings of length <= 3 over the UTF-8 boundary alphabet
				n := c.Free(4, "len")
				s := make([]byte, n)
				for i := range s {
					s[i] = c11TextAlphabet[c.Free(len(c11TextAlphabet), "ch")]
				}
				err := enc.EncodeTextString(string(s))
				valid := refcbor.ValidUTF8(s)
				c.Eval()
				c.State(s)
				desc := fmt.Sprintf("EncodeTextString(%q)", s)
				c.Sample(desc)
				if valid {
					want := refcbor.EncText(string(s))
					if err != nil || !bytes.Equal(got.Bytes(), want) {
						c.Fail("C11/strings:utf8:"+hx(s), "valid UTF-8 text refused or encoded wrongly", desc, hx(want), fmt.Sprintf("%s err=%v", hx(got.Bytes()), err))
						return
					}
					c.Outcome("utf8 valid, encoded")
					c.Nontrivial(s)
				} else {
					if err != cbor.ErrInvalidUTF8 || got.Len() != 0 {
						c.Fail("C11/strings:utf8:"+hx(s), "invalid UTF-8 text must be refused with ErrInvalidUTF8 and nothing written", desc, "ErrInvalidUTF8, no output", fmt.Sprintf("%s err=%v", hx(got.Bytes()), err))
						return
					}
					c.Outcome("utf8 invalid, refused")
					c.Nontrivial(s)
				}
			}
		},
	}

	maps := &mc.Harness{
		Name: "C11/maps",
		Run: func(c *mc.Ctx) {
			// choose a subset of <= 4 keys (as ascending indices), an optional
			// duplicated key, a permutation, and a value style
			maxKeys := c.Pick(4, 5)
			pool := c11Keys
			var idx []int
			next := 0
			for len(idx) < maxKeys {
				// 0 = stop, k>0 = take pool[next+k-1]
				k := c.Free(len(pool)-next+1, "key")
				if k == 0 {
					break
				}
				idx = append(idx, next+k-1)
				next = next + k
				if next >= len(pool) {
					break
				}
			}
			dup := 0
			if len(idx) > 0 {
				dup = c.Free(len(idx)+1, "dup") // 0 = none, k = duplicate idx[k-1]
			}
			entries := append([]int{}, idx...)
			if dup > 0 {
				entries = append(entries, idx[dup-1])
			}
			ps := perms(len(entries))
			perm := ps[c.Free(len(ps), "perm")]
			style := c.Free(4, "valuestyle") // 0 small uint, 1 nested array, 2 nested map, 3 large byte string from a scratch buffer the caller reuses
			// the two encoders of one entry are independent: 0 key first (as every caller in the repository
			// does), 1 value first, 2 value started, then the key, then the rest of the value
			order := c.Free(3, "callback order: key first / value first / interleaved")
			var mes []*cbor.MapEntryEncoder
			var kvs []refcbor.KV
			var desc string
			for pos, pi := range perm {
				k := pool[entries[pi]]
				val := uint64(entries[pi])*10 + uint64(pi)
				desc += k.name + " "
				var refv []byte
				switch style {
				case 0:
					refv = refcbor.EncUint(val)
				case 1:
					refv = refcbor.EncArray(refcbor.EncUint(val), refcbor.EncText("x"))
				case 2:
					refv = refcbor.MustMap(refcbor.KV{K: refcbor.EncText("bb"), V: refcbor.EncUint(val)}, refcbor.KV{K: refcbor.EncText("a"), V: refcbor.EncUint(1)}, refcbor.KV{K: refcbor.EncUint(300), V: refcbor.EncBytes(nil)})
				case 3:
					// sizes around a plausible "large write" threshold; the entry is generated from a scratch
					// buffer that is wiped right after GenerateMapEntry returns, long before EncodeMap runs
					n := []int{4095, 4096, 8192}[int(val)%3]
					big := bytes.Repeat([]byte{byte(val) | 1}, n)
					refv = refcbor.EncBytes(big)
				}
				kvs = append(kvs, refcbor.KV{K: k.ref, V: refv})
				_ = pos
				kk := k
				var scratch []byte
				if style == 3 {
					n := []int{4095, 4096, 8192}[int(val)%3]
					scratch = bytes.Repeat([]byte{byte(val) | 1}, n)
				}
				mes = append(mes, cbor.GenerateMapEntry(func(ke, ve *cbor.Encoder) {
					if style == 3 {
						if order == 0 {
							kk.enc(ke)
						}
						ve.EncodeByteString(scratch)
						if order != 0 {
							kk.enc(ke)
						}
						return
					}
					if order == 0 {
						kk.enc(ke)
					} else {
						defer func() {
							if order == 1 || (order == 2 && style == 0) { // a one-call value has no middle
								kk.enc(ke)
							}
						}()
					}
					switch style {
					case 0:
						ve.EncodeUint(val)
					case 1:
						ve.EncodeArrayHeader(2)
						if order == 2 {
							kk.enc(ke)
						}
						ve.EncodeUint(val)
						ve.EncodeTextString("x")
					case 2:
						if order == 2 {
							kk.enc(ke)
						}
						// nested map supplied in non-canonical order
						ve.EncodeMap([]*cbor.MapEntryEncoder{
							cbor.GenerateMapEntry(func(k2, v2 *cbor.Encoder) { k2.EncodeTextString("bb"); v2.EncodeUint(val) }),
							cbor.GenerateMapEntry(func(k2, v2 *cbor.Encoder) { k2.EncodeUint(300); v2.EncodeByteString(nil) }),
							cbor.GenerateMapEntry(func(k2, v2 *cbor.Encoder) { k2.EncodeTextString("a"); v2.EncodeUint(1) }),
						})
					}
				}))
				for i := range scratch {
					scratch[i] = 0 // the caller's buffer is reused
				}
			}
			var got bytes.Buffer
			err := cbor.NewEncoder(&got).EncodeMap(mes)
			want, rerr := refcbor.EncMap(kvs)
			c.Eval()
			desc = fmt.Sprintf("EncodeMap(keys in caller order: %sstyle=%d callback-order=%d)", desc, style, order)
			c.Sample(desc)
			if rerr != nil {
				c.State([]byte("dup"), []byte(desc))
				if err != cbor.ErrDuplicatedKey {
					c.Fail("C11/maps:dup:"+desc, "map with two equal keys must be refused with ErrDuplicatedKey", desc, "ErrDuplicatedKey", fmt.Sprintf("err=%v out=%s", err, hx(got.Bytes())))
					return
				}
				c.Outcome("duplicate refused")
				c.Nontrivial([]byte(desc))
				return
			}
			c.State(want)
			if err != nil || !bytes.Equal(got.Bytes(), want) {
				c.Fail("C11/maps:"+desc, "map not emitted in bytewise order of encoded keys / differs from reference", desc, hx(want), fmt.Sprintf("%s err=%v", hx(got.Bytes()), err))
				return
			}
			hasNint := false
			for _, e := range entries {
				if pool[e].name == "n-1" {
					hasNint = true
				}
			}
			// (the deterministic recogniser covers majors 0,2,3,4,5 only)
			if derr := refcbor.Deterministic(got.Bytes()); derr != nil && !hasNint {
				c.Fail("C11/maps:det:"+desc, "map output is not core-deterministic CBOR", desc, "deterministic", derr.Error())
				return
			}
			c.Outcome(fmt.Sprintf("ok n=%d", len(entries)))
			if len(entries) >= 2 {
				c.Nontrivial([]byte(desc))
			}
		},
	}

	// Mode 2: all sequences of encoder calls on one encoder up to a depth; the
	// independent decoder must tokenize the output into exactly the called
	// sequence, with the same values.
	type call struct {
		name string
		do   func(e *cbor.Encoder) error
		ref  []byte // expected bytes appended ("" with err for refused calls)
		fail bool
	}
	menu := []call{
		{"uint(0)", func(e *cbor.Encoder) error { return e.EncodeUint(0) }, refcbor.EncUint(0), false},
		{"uint(24)", func(e *cbor.Encoder) error { return e.EncodeUint(24) }, refcbor.EncUint(24), false},
		{"uint(2^32)", func(e *cbor.Encoder) error { return e.EncodeUint(1 << 32) }, refcbor.EncUint(1 << 32), false},
		{"int(-25)", func(e *cbor.Encoder) error { return e.EncodeInt(-25) }, refcbor.EncInt(-25), false},
		{"bytes(nil)", func(e *cbor.Encoder) error { return e.EncodeByteString(nil) }, refcbor.EncBytes(nil), false},
		{"bytes(24)", func(e *cbor.Encoder) error { return e.EncodeByteString(make([]byte, 24)) }, refcbor.EncBytes(make([]byte, 24)), false},
		{"text(é\ufffd)", func(e *cbor.Encoder) error { return e.EncodeTextString("é\ufffd") }, refcbor.EncText("é\ufffd"), false},
		{"text(bad)", func(e *cbor.Encoder) error { return e.EncodeTextString("\xff") }, nil, true},
		{"array(2)", func(e *cbor.Encoder) error { return e.EncodeArrayHeader(2) }, refcbor.AppendHead(nil, refcbor.Array, 2), false},
		{"bool(true)", func(e *cbor.Encoder) error { return e.EncodeBool(true) }, []byte{0xf5}, false},
		{"map{b:1,a:2}", func(e *cbor.Encoder) error {
			return e.EncodeMap([]*cbor.MapEntryEncoder{
				cbor.GenerateMapEntry(func(k, v *cbor.Encoder) { k.EncodeTextString("b"); v.EncodeUint(1) }),
				cbor.GenerateMapEntry(func(k, v *cbor.Encoder) { k.EncodeTextString("a"); v.EncodeUint(2) }),
			})
		}, refcbor.MustMap(refcbor.KV{K: refcbor.EncText("a"), V: refcbor.EncUint(2)}, refcbor.KV{K: refcbor.EncText("b"), V: refcbor.EncUint(1)}), false},
	}
	seqs := &mc.Harness{
		Name: "C11/call-sequences",
		Mode: "explicit-state search over encoder call histories (state = bytes emitted so far)",
		Run: func(c *mc.Ctx) {
			depth := c.Pick(3, 5)
			var got bytes.Buffer
			var want []byte
			enc := cbor.NewEncoder(&got)
			desc := ""
			for d := 0; d < depth; d++ {
				k := c.Free(len(menu)+1, "call")
				if k == 0 {
					break
				}
				m := menu[k-1]
				before := got.Len()
				err := m.do(enc)
				c.Transitions(1)
				desc += m.name + ";"
				if m.fail {
					if err == nil || got.Len() != before {
						c.Fail("C11/seq:"+desc, "refused call must return an error and write nothing", desc, "error, no output", fmt.Sprintf("err=%v wrote %d bytes", err, got.Len()-before))
						return
					}
					continue
				}
				if err != nil {
					c.Fail("C11/seq:"+desc, "encoder call failed on a plain buffer", desc, "nil", err.Error())
					return
				}
				want = append(want, m.ref...)
				c.State(got.Bytes())
			}
			c.Eval()
			c.Sample(desc)
			if !bytes.Equal(got.Bytes(), want) {
				c.Fail("C11/seq:"+desc, "call sequence output differs from the concatenation of the reference encodings", desc, hx(want), hx(got.Bytes()))
				return
			}
			// decoding the stream item by item consumes it exactly (arrays swallow
			// the following items, so use the tokenizer rather than the item decoder)
			pos := 0
			for pos < len(want) {
				h, err := refcbor.ParseHead(want[pos:])
				if err != nil {
					c.Fail("C11/seq:tok:"+desc, "reference tokenizer cannot walk the output", desc, "heads", err.Error())
					return
				}
				pos += h.Len
				if h.Major == refcbor.Bytes || h.Major == refcbor.Text {
					pos += int(h.Arg)
				}
			}
			c.Outcome(fmt.Sprintf("ok nonempty=%v", len(desc) > 0))
			if len(desc) > 0 {
				c.Nontrivial([]byte(desc))
			}
		},
	}

	register(&mc.Property{
		ID:    "C11",
		Level: "model_checking",
		Rule:  "choice-tree enumeration of encoder inputs: every uint64/int64 within +-64 of each head boundary and every 2^k+-1; byte/text strings of every length 0..300 and around 65536; all text contents of length <=3 over a 15-byte UTF-8 boundary alphabet (incl. U+FFFD); every subset of <=4 (quick) / <=5 (thorough) keys from a pool of 10 mixed-type keys in every permutation plus every duplicated key, four value styles (the fourth: a 4095 / 4096 / 8192-byte string taken from a scratch buffer that the caller wipes before EncodeMap runs), the entry callback writing key first / value first / interleaved; all encoder call sequences up to depth 3 (quick) / 5 (thorough) over an 11-call menu. A case is non-trivial when it produced output that was compared byte-for-byte with the independent canonical encoder (or was a refused input); distinct by output/input hash.",
		Assumptions: []string{
			"refcbor (independent canonical encoder/decoder written from RFC 8949) is correct",
			"values between the enumerated boundary windows behave like their neighbours in the same head-size class (small-scope hypothesis)",
		},
		Harnesses: []*mc.Harness{ints, strs, maps, seqs},
		Guard: func(s map[string]*mc.Stats) error {
			if s["C11/maps"].Outcomes["duplicate refused"] == 0 && s["C11/maps"].NViolations == 0 {
				return fmt.Errorf("no duplicate-key case generated")
			}
			if s["C11/integers"].Executions < 1000 {
				return fmt.Errorf("integer sweep too small")
			}
			return nil
		},
	})
}
