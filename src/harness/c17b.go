package main

// C17/long-chains: the number of chain ELEMENTS as the swept quantity.  The top-level item of
// cert-chain+cbor is an array of len(chain)+1 items, so the element count crosses CBOR head classes
// at 22/23 certificates (count 23 | 24: immediate value vs one following byte) and at 254/255
// (count 255 | 256: one vs two following bytes).  C17/roundtrip stops at three certificates; here
// every length in a band around those boundaries is written, compared with the canonical reference
// bytes, read by the reference strict reader and by ReadCertChain in every reader mode.
// Oracle and comparison are those of C17/roundtrip (c17CheckChain).

import (
	"fmt"

	"github.com/WICG/webpackage/go/signedexchange/certurl"
	"github.com/WICG/webpackage/go/signedexchange/zverif/mc"
	"github.com/WICG/webpackage/go/signedexchange/zverif/refcert"
)

func c17LongLens(quick bool) []int {
	var ls []int
	if quick {
		for n := 4; n <= 30; n++ {
			ls = append(ls, n)
		}
		return append(ls, 254, 255, 256)
	}
	for n := 4; n <= 70; n++ {
		ls = append(ls, n)
	}
	for n := 250; n <= 260; n++ {
		ls = append(ls, n)
	}
	return ls
}

func c17LongChains() *mc.Harness {
	return &mc.Harness{
		Name: "C17/long-chains",
		Run: func(c *mc.Ctx) {
			lens := c17LongLens(c.Quick())
			n := lens[c.Free(len(lens), "chainlen")]
			first := c.Free(len(c17Pool), "cert0")
			shape := c.Free(4, "shape") // 0: ocsp only on the leaf, 1: + sct on the leaf, 2: + sct on the last, 3: + sct on every element
			var entries []refcert.Entry
			var chain certurl.CertChain
			for i := 0; i < n; i++ {
				ct := c17Pool[(first+i)%len(c17Pool)]
				e := refcert.Entry{Cert: ct.cert.Raw}
				if i == 0 {
					e.OCSP = c17Own(c17Blob(c.Seed, 0, 5))
				}
				if (shape == 1 && i == 0) || (shape == 2 && (i == 0 || i == n-1)) || shape == 3 {
					e.SCT = c17Own(c17Blob(c.Seed, 1+i%7, 1+i%29))
				}
				entries = append(entries, e)
				chain = append(chain, &certurl.AugmentedCertificate{Cert: ct.cert, OCSPResponse: e.OCSP, SCTList: e.SCT})
			}
			desc := fmt.Sprintf("%d certificates starting at pool[%d], shape %d", n, first, shape)
			c17CheckChain(c, "C17/long-chains", desc, entries, chain, func() int { return c.Free(4, "reader") })
		},
	}
}

// C17/blob-lengths: EVERY length 0..N of the ocsp and of the sct blob of a two-certificate chain (C17/roundtrip takes
// the CBOR head-class boundaries only).  A serializer that stages head and bytes in a fixed scratch area, or a reader
// that reads in blocks, is first wrong at a length that is no boundary of the format.
func c17BlobLengths() *mc.Harness {
	return &mc.Harness{
		Name: "C17/blob-lengths",
		Run: func(c *mc.Ctx) {
			max := c.Pick(700, 5000)
			n := c.Free(max+1, "length")
			which := c.Free(3, "which") // 0: ocsp = n, sct = 5; 1: ocsp = 5, sct = n; 2: both n
			ol, sl := n, 5
			if which == 1 {
				ol, sl = 5, n
			} else if which == 2 {
				sl = n
			}
			first := c.Free(2, "cert0")
			var entries []refcert.Entry
			var chain certurl.CertChain
			for i := 0; i < 2; i++ {
				ct := c17Pool[(first+i)%len(c17Pool)]
				e := refcert.Entry{Cert: ct.cert.Raw}
				if i == 0 {
					e.OCSP, e.SCT = c17Own(c17Blob(c.Seed, 0, ol)), c17Own(c17Blob(c.Seed, 1, sl))
				}
				entries = append(entries, e)
				chain = append(chain, &certurl.AugmentedCertificate{Cert: ct.cert, OCSPResponse: e.OCSP, SCTList: e.SCT})
			}
			desc := fmt.Sprintf("2 certificates starting at pool[%d], ocsp %d bytes, sct %d bytes", first, ol, sl)
			c17CheckChain(c, "C17/blob-lengths", desc, entries, chain, func() int { return c.Free(2, "reader") })
		},
	}
}
