package main

// C03/many, C04/many: the number of exchanges crosses the CBOR head boundaries of the index map and of the
// responses array (23/24, 255/256, thorough: 65535/65536), with small bodies so that the files stay small.
// The grids of c04.go stop at 3 exchanges; offsets in the index depend on the size of the responses array
// head and the index map head, which change exactly at these counts.

import (
	"bytes"
	"fmt"
	"net/url"
	"strings"

	"github.com/WICG/webpackage/go/signedexchange/zverif/mc"
	"github.com/WICG/webpackage/go/signedexchange/zverif/refbundle"
)

var c04ManyCounts = []int{4, 22, 23, 24, 25, 63, 64, 65, 255, 256, 257}
var c04ManyCountsThorough = []int{4, 22, 23, 24, 25, 63, 64, 65, 127, 128, 255, 256, 257, 1000, 1024, 4096, 65535, 65536}

func c04GenMany(c *mc.Ctx) *c04Case {
	cs := &c04Case{}
	cs.Ver = []string{"b1", "b2"}[c.Free(2, "version")]
	counts := c04ManyCounts
	if !c.Quick() {
		counts = c04ManyCountsThorough
	}
	n := counts[c.Free(len(counts), "n")]
	bodyLens := []int{1, 0, 24}
	bl := bodyLens[c.Free(len(bodyLens), "bodylen")]
	order := c.Free(2, "insertion order: ascending / descending URL")
	cs.Primary = &c04PrimaryPool[0]
	for i := 0; i < n; i++ {
		k := i
		if order == 1 {
			k = n - 1 - i
		}
		// URL lengths vary (so that encoded-key order is not insertion order) and bodies differ
		u := fmt.Sprintf("https://a.test/many/%d", k)
		if k%3 == 0 {
			u += "/index.html"
		}
		body := make([]byte, bl)
		for j := range body {
			body[j] = byte(k + 7*j)
		}
		// every response has its own header block (a writer that attributes header blocks to the wrong
		// response is invisible when they are all equal)
		hdr := []refbundle.LHeader{{Name: "Content-Type", Values: []string{"text/plain"}}, {Name: "X-Index", Values: []string{fmt.Sprint(k)}}}
		cs.Exs = append(cs.Exs, c04Ex{URL: u, Status: 200 + k%4, Hdr: hdr, Body: body})
	}
	cs.Big = n >= 65535
	cs.Desc = fmt.Sprintf("%s many n=%d bodylen=%d order=%d", cs.Ver, n, bl, order)
	return cs
}

// c04GenVariantLimit: one b1 URL whose complete variant set sits at the writer's limit of 10000 possible keys
// (100x100 and 10x10x100), just below it (101x99 = 9999); one tiny
// representation per key, inserted in row-major or reverse order.
func c04GenVariantLimit(c *mc.Ctx) *c04Case {
	cs := &c04Case{Ver: "b1", Primary: &c04PrimaryPool[0]}
	shapes := [][]int{{100, 100}, {101, 99}, {10, 10, 100}}
	sh := shapes[c.Free(len(shapes), "axes")]
	order := c.Free(2, "insertion order: row-major / reversed")
	names := []string{"Accept-Language", "Accept-Encoding", "Accept-Charset"}
	var axes [][]string
	var parts []string
	for a, n := range sh {
		vals := make([]string, n)
		for i := range vals {
			vals[i] = fmt.Sprintf("v%d", i)
		}
		axes = append(axes, vals)
		parts = append(parts, names[a]+";"+strings.Join(vals, ";"))
	}
	vv := strings.Join(parts, ", ")
	var keys []string
	var rec func(a int, prefix []string)
	rec = func(a int, prefix []string) {
		if a == len(axes) {
			keys = append(keys, strings.Join(prefix, ";"))
			return
		}
		for _, v := range axes[a] {
			rec(a+1, append(append([]string{}, prefix...), v))
		}
	}
	rec(0, nil)
	for i := range keys {
		k := i
		if order == 1 {
			k = len(keys) - 1 - i
		}
		hdr := []refbundle.LHeader{{Name: "Content-Type", Values: []string{"text/plain"}}, {Name: "Variants", Values: []string{vv}}, {Name: "Variant-Key", Values: []string{keys[k]}}}
		cs.Exs = append(cs.Exs, c04Ex{URL: "https://a.test/v", Status: 200, Hdr: hdr, Body: []byte{byte(k), byte(k >> 8)}})
	}
	cs.Big = true
	cs.Desc = fmt.Sprintf("b1 variant set at the limit axes=%v order=%d", sh, order)
	return cs
}

// c04GenSweep: one quantity of one exchange swept through EVERY value of a range (window bugs - a scratch
// buffer of 64 or 512 bytes, an off-by-one at a table end - sit between the boundary classes of the grids):
// header value length, header name length, body length, URL length 0..N, and every 7-bit byte inside a header
// value.  A second, plain exchange follows so that offsets after the swept one are observed too.
func c04GenSweep(c *mc.Ctx) *c04Case {
	cs := &c04Case{}
	cs.Ver = []string{"b2", "b1"}[c.Free(2, "version")]
	cs.Primary = &c04PrimaryPool[0]
	maxLen := c.Pick(600, 1200)
	dim := c.Free(5, "quantity")
	name, value, body, u := "X-Swept", "v", []byte("body"), "https://a.test/swept"
	var desc string
	switch dim {
	case 0:
		n := c.Free(maxLen+1, "header value length")
		value = strings.Repeat("v", n)
		desc = fmt.Sprintf("header value of %d bytes", n)
	case 1:
		n := 1 + c.Free(300, "header name length")
		name = ("x-" + strings.Repeat("n", n))[:n]
		if n == 1 {
			name = "x"
		}
		desc = fmt.Sprintf("header name of %d bytes", n)
	case 2:
		n := c.Free(maxLen+1, "body length")
		body = bytes.Repeat([]byte{'b'}, n)
		desc = fmt.Sprintf("body of %d bytes", n)
	case 3:
		n := len("https://a.test/") + c.Free(maxLen+1, "URL length")
		u = c04Pad("https://a.test/", n, 'u')
		desc = fmt.Sprintf("URL of %d bytes", n)
	default:
		b := c.Free(128, "byte inside a header value")
		value = "a" + string([]byte{byte(b)}) + "c"
		desc = fmt.Sprintf("header value a<%02x>c", b)
	}
	hdr := []refbundle.LHeader{{Name: "Content-Type", Values: []string{"text/plain"}}, {Name: name, Values: []string{value}}}
	cs.Exs = []c04Ex{{URL: u, Status: 200, Hdr: hdr, Body: body}, {URL: "https://a.test/after", Status: 200, Hdr: c04HeaderSet(0, 1), Body: []byte("after")}}
	cs.Desc = fmt.Sprintf("%s sweep: %s", cs.Ver, desc)
	return cs
}

// c04GenURLBytes: one exchange whose URL carries every byte value 0..255 inside its query (net/url keeps a raw query
// verbatim, so bytes above 0x7f reach the index key unescaped and the key is then not valid UTF-8: not representable),
// listed first among 2 or 6 exchanges.  The writer must refuse such a bundle (error or panic) or emit a well-formed
// one; it must never emit an index that skips the entry.
func c04GenURLBytes(c *mc.Ctx) *c04Case {
	cs := &c04Case{}
	cs.Ver = []string{"b2", "b1"}[c.Free(2, "version")]
	cs.Primary = &c04PrimaryPool[0]
	b := c.Free(256, "byte inside the URL query")
	others := []int{1, 5}[c.Free(2, "further exchanges")]
	pos := c.Free(2, "swept URL first / in the middle")
	u := "https://a.test/q?x=" + string([]byte{byte(b)}) + "y"
	desc := fmt.Sprintf("URL query byte %02x", b)
	if pu, err := url.Parse(u); err != nil || pu.String() != u {
		u = fmt.Sprintf("https://a.test/q?x=%%%02Xy", b)
		desc += " (percent-encoded: net/url refuses or respells the raw byte)"
	}
	sw := c04Ex{URL: u, Status: 200, Hdr: c04HeaderSet(0, 1), Body: []byte("swept")}
	for i := 0; i < others; i++ {
		if pos == 1 && i == others/2 {
			cs.Exs = append(cs.Exs, sw)
		}
		cs.Exs = append(cs.Exs, c04Ex{URL: fmt.Sprintf("https://a.test/other%d", i), Status: 200, Hdr: c04HeaderSet(0, 1), Body: []byte(fmt.Sprintf("other %d", i))})
	}
	if pos == 0 {
		cs.Exs = append([]c04Ex{sw}, cs.Exs...)
	}
	cs.Desc = fmt.Sprintf("%s url-bytes: %s, %d further exchanges, position %d", cs.Ver, desc, others, pos)
	return cs
}

func init() {
	p4 := props["C04"]
	p4.Harnesses = append(p4.Harnesses, &mc.Harness{Name: "C04/url-bytes", Run: func(c *mc.Ctx) { c04Check(c, "C04/url-bytes", c04GenURLBytes(c)) }})
	p4.Rule += " C04/url-bytes: b1/b2 x every byte value 0..255 inside one URL's query (raw where net/url keeps it raw: bytes above 0x7f make the index key invalid UTF-8) x 1 / 5 further exchanges x position; a refusal (error or panic) or a well-formed bundle."
	p4.Harnesses = append(p4.Harnesses, &mc.Harness{Name: "C04/many", Run: func(c *mc.Ctx) { c04Check(c, "C04/many", c04GenMany(c)) }})
	p4.Rule += " C04/many: b1/b2 x exchange count {4,22,23,24,25,63,64,65,255,256,257; thorough also 127,128,1000,1024,4096,65535,65536} (the head-size boundaries of the index map and the responses array) x body length {1,0,24} x insertion in ascending / descending URL order, URLs of varying length."
	p4.Harnesses = append(p4.Harnesses, &mc.Harness{Name: "C04/variant-limit", Run: func(c *mc.Ctx) { c04Check(c, "C04/variant-limit", c04GenVariantLimit(c)) }})
	p4.Rule += " C04/variant-limit: one b1 URL with a complete variant set of 100x100, 10x10x100 and 101x99 keys (at and just below the writer's limit of 10000), row-major and reversed insertion."
	p4.Harnesses = append(p4.Harnesses, &mc.Harness{Name: "C04/sweeps", Run: func(c *mc.Ctx) { c04Check(c, "C04/sweeps", c04GenSweep(c)) }})
	p4.Rule += " C04/sweeps: b1/b2 x one quantity of one exchange through every value of a range: header value length 0..600 (thorough 0..1200), header name length 1..300, body length, URL length, every 7-bit byte inside a header value."
	p3 := props["C03"]
	p3.Harnesses = append(p3.Harnesses, &mc.Harness{Name: "C03/sweeps", Run: func(c *mc.Ctx) { c03Check(c, "C03/sweeps", c04GenSweep(c)) }})
	p3.Rule += " C03/sweeps: the same generator as C04/sweeps."
	p3.Harnesses = append(p3.Harnesses, &mc.Harness{Name: "C03/variant-limit", Run: func(c *mc.Ctx) { c03Check(c, "C03/variant-limit", c04GenVariantLimit(c)) }})
	p3.Rule += " C03/variant-limit: the same generator as C04/variant-limit."
	p3.Harnesses = append(p3.Harnesses, &mc.Harness{Name: "C03/many", Run: func(c *mc.Ctx) { c03Check(c, "C03/many", c04GenMany(c)) }})
	p3.Rule += " C03/many: the same generator as C04/many (exchange counts around 24, 256 and, thorough, 65536)."
}
