//go:build !verif

package main

const c18HooksBuilt = false

// Without the verif tag the repository's hook points are no-ops; only the
// harness-owned writers yield.
func c18InstallHook(f func(string)) {}
