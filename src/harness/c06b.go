package main

// C06/preexisting-headers: a covered exchange that ALREADY carries one of the header fields the signer adds
// (Digest, Content-Encoding, MI-Draft2) before signing.  The signer may refuse such an exchange (today it refuses
// any response that already has a Digest header - then nothing is claimed); but IF the signing sequence succeeds,
// the property applies in full: the exchange verifies inside the window and yields the original body, in memory
// and after writing and re-reading the bundle.  Header fields with several values are folded with ',' by the
// writer, so what the verifier sees after the round trip is not what it saw in memory.

import (
	"bytes"
	"fmt"
	"net/http"
	"time"

	"github.com/WICG/webpackage/go/bundle"
	"github.com/WICG/webpackage/go/bundle/signature"
	bundleversion "github.com/WICG/webpackage/go/bundle/version"
	"github.com/WICG/webpackage/go/signedexchange/certurl"
	"github.com/WICG/webpackage/go/signedexchange/zverif/mc"
)

var c06PreHeaders = []struct {
	name string
	h    http.Header
}{
	{"Digest of another algorithm", http.Header{"Digest": {"sha-256=47DEQpj8HBSa+/TImW+5JCeuQeRkm5NMpJWZG3hSuFU="}}},
	{"Digest of another algorithm, lower-case key", http.Header{"digest": {"sha-256=47DEQpj8HBSa+/TImW+5JCeuQeRkm5NMpJWZG3hSuFU="}}},
	{"two Digest values of other algorithms", http.Header{"Digest": {"sha-256=AAAA", "sha-512=BBBB"}}},
	{"empty Digest value", http.Header{"Digest": {""}}},
	{"Content-Encoding gzip", http.Header{"Content-Encoding": {"gzip"}}},
	{"Content-Encoding of the integrity coding itself", http.Header{"Content-Encoding": {"mi-sha256-03"}}},
	{"MI-Draft2 header", http.Header{"Mi-Draft2": {"mi-sha256-draft2=AAAA"}}},
	{"Want-Digest and a Digest-like name", http.Header{"Want-Digest": {"sha-256"}, "X-Digest": {"mi-sha256-03=AAAA"}}},
}

func c06PreexistingRun(c *mc.Ctx) {
	ver := bundleversion.AllVersions[c.Free(2, "version")]
	pre := c06PreHeaders[c.Free(len(c06PreHeaders), "pre-existing header")]
	id := c06Idents[c.Free(2, "signer")] // A or B
	rs := []int{16, 1, 4096}[c.Free(3, "record size")]
	plen := []int{40, 0, 16}[c.Free(3, "body length")]
	host := id.hosts[0]
	desc := fmt.Sprintf("%s signer=%s rs=%d body=%d pre-existing: %s", ver, id.name, rs, plen, pre.name)
	key := "C06/preexisting:" + desc
	c.State([]byte(desc))

	body := pattern(plen, c.Seed+6)
	plain := pattern(10, c.Seed+7)
	h := http.Header{"Content-Type": {"text/plain"}}
	for k, v := range pre.h {
		h[k] = append([]string{}, v...)
	}
	u1, u2 := "https://"+host+"/with-header", "https://"+host+"/plain"
	b := &bundle.Bundle{Version: ver, PrimaryURL: c19URL(u2), Exchanges: []*bundle.Exchange{
		{Request: bundle.Request{URL: c19URL(u1)}, Response: bundle.Response{Status: 200, Header: h, Body: append([]byte{}, body...)}},
		{Request: bundle.Request{URL: c19URL(u2)}, Response: bundle.Response{Status: 200, Header: http.Header{"Content-Type": {"text/plain"}}, Body: append([]byte{}, plain...)}},
	}}
	date := int64(1517418800)
	chain, err := certurl.NewCertChain(id.certs(), id.ocsp, id.sct)
	if err != nil {
		panic(err)
	}
	signer, err := signature.NewSigner(ver, chain, id.id.Key, c19URL(id.validityURL()), time.Unix(date, 0).UTC(), time.Hour)
	if err != nil {
		c.Fail(key+":newsigner", "NewSigner refused a valid chain", desc, "signer", err.Error())
		return
	}
	var stepErr error
	pan := c06Guarded(func() {
		for _, e := range b.Exchanges {
			if !signer.CanSignForURL(e.Request.URL) {
				continue
			}
			integrity, err := e.AddPayloadIntegrity(ver, rs)
			if err != nil {
				stepErr = err
				return
			}
			if err := signer.AddExchange(e, integrity); err != nil {
				stepErr = err
				return
			}
		}
		b.Signatures, stepErr = signer.UpdateSignatures(b.Signatures)
	})
	c.Transitions(1)
	c.Eval()
	if pan != "" {
		c.Outcome("VIOLATION panic")
		c.Fail(key+":panic", "signing sequence panicked", desc, "error or success", pan)
		return
	}
	if stepErr != nil {
		c.Outcome("signer refuses the exchange (nothing claimed): " + pre.name)
		return
	}
	c.Nontrivial([]byte(desc))
	want := map[string][]byte{u1: body, u2: plain}
	check := func(stage string, mb *bundle.Bundle) bool {
		for _, t := range []int64{date, date + 1800, date + 3600} {
			var v *signature.Verifier
			var verr error
			if pan := c06Guarded(func() { v, verr = signature.NewVerifier(mb.Signatures, time.Unix(t, 0), mb.Version) }); pan != "" || verr != nil {
				c.Outcome("VIOLATION verifier refuses")
				c.Fail(key+":"+stage+":newverifier", "NewVerifier refuses the signatures just made, inside the window", desc+" "+stage, "verifier", fmt.Sprintf("err=%v panic=%q", verr, pan))
				return false
			}
			for _, e := range mb.Exchanges {
				u := e.Request.URL.String()
				var res *signature.VerifyExchangeResult
				var eerr error
				ee := e
				pan := c06Guarded(func() { res, eerr = v.VerifyExchange(ee) })
				c.Transitions(1)
				if pan != "" || eerr != nil || res == nil || !bytes.Equal(res.VerifiedPayload, want[u]) {
					got := "(nil result: reported unsigned)"
					if res != nil {
						got = hx(res.VerifiedPayload)
					}
					c.Outcome("VIOLATION covered exchange does not verify " + stage)
					c.Fail(key+":"+stage+":"+u, "a covered exchange that the signer accepted does not verify inside the window with its original body", desc+" "+stage+" url="+u, hx(want[u]), fmt.Sprintf("%s err=%v panic=%q", got, eerr, pan))
					return false
				}
			}
		}
		return true
	}
	if !check("in memory", b) {
		return
	}
	nb, _, rerr := c06RoundTrip(b)
	if rerr != nil {
		c.Outcome("VIOLATION round trip")
		c.Fail(key+":roundtrip", "the signed bundle cannot be written and read back", desc, "bundle", rerr.Error())
		return
	}
	if !check("after write and re-read", nb) {
		return
	}
	c.Outcome("signer accepts the exchange; verified in memory and after re-read: " + pre.name)
}

func init() {
	p := props["C06"]
	p.Harnesses = append(p.Harnesses, &mc.Harness{Name: "C06/preexisting-headers", Run: c06PreexistingRun})
	p.Rule = "preexisting-headers: b1/b2 x signer {A,B} x record size {16,1,4096} x body length {40,0,16} x a covered exchange that already carries Digest (other algorithm, lower-case key, two values, empty), Content-Encoding (gzip, the integrity coding), MI-Draft2 or look-alike fields before signing: if the signing sequence succeeds, every covered exchange must verify with its original body at date, mid, expires, in memory and after write + re-read (a refusal by the signer is accepted); " + p.Rule
}
