package main

// C15/after-honest-decode: the digest has to be checked on every decode.  A decoder (or anything below it) that
// remembers "this record was fine" under a key weaker than SHA-256 accepts, on a later decode, a different record
// with the same key.  History: decode the honest stream completely, then decode a stream in which one record was
// altered so that every cheap summary of it is unchanged - same length, same XOR of bytes, same CRC-32 (IEEE,
// Castagnoli, Koopman) and same CRC-64 (ISO, ECMA), found as a kernel vector of those linear maps - or in which
// two unequal bytes were swapped (same multiset, same sum).  The altered record must not be released.

import (
	"bytes"
	"fmt"
	"hash/crc32"
	"hash/crc64"
	"io"

	"github.com/WICG/webpackage/go/signedexchange/zverif/mc"
	"github.com/WICG/webpackage/go/signedexchange/zverif/refmice"
)

// c15Summaries returns the concatenation of the cheap, GF(2)-affine summaries of b.
func c15Summaries(b []byte) []byte {
	var out []byte
	put32 := func(v uint32) { out = append(out, byte(v>>24), byte(v>>16), byte(v>>8), byte(v)) }
	put64 := func(v uint64) { put32(uint32(v >> 32)); put32(uint32(v)) }
	put32(crc32.ChecksumIEEE(b))
	put32(crc32.Checksum(b, crc32.MakeTable(crc32.Castagnoli)))
	put32(crc32.Checksum(b, crc32.MakeTable(crc32.Koopman)))
	put64(crc64.Checksum(b, crc64.MakeTable(crc64.ISO)))
	put64(crc64.Checksum(b, crc64.MakeTable(crc64.ECMA)))
	var x byte
	for _, v := range b {
		x ^= v
	}
	return append(out, x)
}

// c15NeutralDelta returns a non-zero D of n bytes with summaries(m xor D) == summaries(m) for every m of n bytes
// (nil if n is too short for the kernel to be non-trivial).
func c15NeutralDelta(n int) []byte {
	zero := c15Summaries(make([]byte, n))
	bits := 8 * len(zero)
	if 8*n <= bits {
		return nil
	}
	// rows: image of each unit vector (linear part), tagged with the unit vector itself
	type row struct{ img, src []byte }
	var basis []row // reduced rows with distinct pivots
	pivot := func(v []byte) int {
		for i, x := range v {
			if x != 0 {
				for j := 0; j < 8; j++ {
					if x&(0x80>>uint(j)) != 0 {
						return 8*i + j
					}
				}
			}
		}
		return -1
	}
	for i := 0; i < 8*n; i++ {
		u := make([]byte, n)
		u[i/8] = 0x80 >> uint(i%8)
		img := c15Summaries(u)
		for k := range img {
			img[k] ^= zero[k]
		}
		r := row{img, u}
		for _, bz := range basis {
			p := pivot(bz.img)
			if r.img[p/8]&(0x80>>uint(p%8)) != 0 {
				for k := range r.img {
					r.img[k] ^= bz.img[k]
				}
				for k := range r.src {
					r.src[k] ^= bz.src[k]
				}
			}
		}
		if pivot(r.img) < 0 {
			return r.src // image is zero: r.src is a kernel vector (non-zero: it contains unit vector i)
		}
		basis = append(basis, r)
	}
	return nil
}

func c15AfterHonest(c *mc.Ctx) {
	d := miDrafts[c.Free(len(miDrafts), "draft")]
	rs := []int{34, 64}[c.Free(2, "record size")]
	tail := []int{0, 7, rs - 1}[c.Free(3, "length of the last record: full / 7 / rs-1")]
	n := 2*rs + tail
	if tail == 0 {
		n = 3 * rs
	}
	payload := pattern(n, c.Seed+15)
	for i := range payload { // make neighbouring bytes differ so that a swap changes the record
		payload[i] ^= byte(i * 7)
	}
	stream, digest := refmice.Encode(d.ref, payload, rs)
	k := c.Free(3, "altered record")
	kind := c.Free(2, "alteration: summary-neutral delta / swap of two bytes")
	desc := fmt.Sprintf("%s rs=%d len=%d record %d %s", d.ref, rs, n, k, []string{"xor with a delta that keeps length, XOR, CRC-32 (3 polynomials) and CRC-64 (2)", "two unequal bytes swapped"}[kind])
	key := "C15/after-honest:" + desc
	c.State([]byte(desc))

	// 1. the honest stream decodes (and whatever the code remembers, it remembers now)
	out, err, pan := implDecodeAll(d.impl, stream, digest, c14Limit)
	c.Transitions(1)
	if pan != nil || err != nil || !bytes.Equal(out, payload) {
		c.Outcome("VIOLATION honest stream")
		c.Fail(key+":honest", "the honest stream does not decode to the payload", desc, "payload, clean end", fmt.Sprintf("%d bytes err=%v panic=%v", len(out), err, pan))
		return
	}
	// 2. alter record k's data bytes
	start := 8 + k*(rs+32)
	end := start + rs
	if end > len(stream) || k == 2 {
		end = len(stream)
	}
	if k < 2 {
		end = start + rs
	}
	rec := stream[start:end]
	altered := append([]byte{}, stream...)
	if kind == 0 {
		delta := c15NeutralDelta(len(rec))
		if delta == nil {
			c.Outcome("skipped: record too short for a summary-neutral delta")
			return
		}
		for i := range delta {
			altered[start+i] ^= delta[i]
		}
		if !bytes.Equal(c15Summaries(altered[start:end]), c15Summaries(rec)) || bytes.Equal(altered[start:end], rec) {
			panic("c15: delta is not summary-neutral")
		}
	} else {
		i, j := 0, -1
		for x := 1; x < len(rec); x++ {
			if rec[x] != rec[0] {
				j = x
				break
			}
		}
		if j < 0 {
			c.Outcome("skipped: record of equal bytes")
			return
		}
		altered[start+i], altered[start+j] = altered[start+j], altered[start+i]
	}
	c.Nontrivial([]byte(desc))
	want := refmice.DecodeDetail(d.ref, altered, digest, c14Limit)
	if want.Clean {
		panic("c15: reference accepts the altered stream")
	}
	// 3. the altered stream, in the same process
	dec, nerr := d.impl.NewDecoder(bytes.NewReader(altered), digest, c14Limit)
	var got []byte
	var derr error
	if nerr != nil {
		derr = nerr
	} else {
		got, derr = io.ReadAll(dec)
	}
	c.Transitions(1)
	c.Traces(1)
	c.Eval()
	if derr == nil {
		c.Outcome("VIOLATION altered stream accepted")
		c.Fail(key, "after an honest decode, a stream with an altered record decodes to a clean end", desc, fmt.Sprintf("error after %d authenticated bytes", len(want.Authenticated)), fmt.Sprintf("clean end after %d bytes: %s", len(got), hx(got)))
		return
	}
	if !bytes.HasPrefix(payload, got) || len(got) > len(want.Authenticated) {
		c.Outcome("VIOLATION unauthenticated bytes released")
		c.Fail(key+":released", "after an honest decode, bytes of an altered record were released before the error", desc, hx(want.Authenticated), hx(got))
		return
	}
	c.Outcome("altered record refused after an honest decode")
}

func init() {
	p := props["C15"]
	p.Harnesses = append(p.Harnesses, &mc.Harness{Name: "C15/after-honest-decode", Run: c15AfterHonest,
		Mode: "operation histories: a complete honest decode, then a decode of a stream with one altered record"})
	p.Rule += " C15/after-honest-decode: drafts x record size {34,64} x last record {full, 7, rs-1 bytes} x altered record {0,1,2} x alteration {XOR with a kernel vector of the summaries length / XOR of bytes / CRC-32 IEEE, Castagnoli, Koopman / CRC-64 ISO, ECMA; swap of two unequal bytes}: after the honest stream has been decoded in the same process, the altered stream must fail without releasing the altered record."
}
