package main

import (
	"bytes"
	"crypto/rand"
	"crypto/sha256"
	"crypto/x509"
	"errors"
	"fmt"
	"io"
	"io/ioutil"
	"log"
	"net/http"
	"os"
	"runtime/metrics"
	"strings"
	"time"

	"github.com/WICG/webpackage/go/bundle"
	"github.com/WICG/webpackage/go/bundle/signature"
	bversion "github.com/WICG/webpackage/go/bundle/version"
	"github.com/WICG/webpackage/go/integrityblock"
	"github.com/WICG/webpackage/go/internal/cbor"
	"github.com/WICG/webpackage/go/internal/signingalgorithm"
	"github.com/WICG/webpackage/go/signedexchange"
	"github.com/WICG/webpackage/go/signedexchange/certurl"
	"github.com/WICG/webpackage/go/signedexchange/mice"
	"github.com/WICG/webpackage/go/signedexchange/structuredheader"
	sxgversion "github.com/WICG/webpackage/go/signedexchange/version"
	"github.com/WICG/webpackage/go/signedexchange/zverif/fixtures"
	"github.com/WICG/webpackage/go/signedexchange/zverif/mc"
	"github.com/WICG/webpackage/go/signedexchange/zverif/refbx"
	"github.com/WICG/webpackage/go/signedexchange/zverif/refcbor"
	"github.com/WICG/webpackage/go/signedexchange/zverif/refpolicy"
)

// c10Walk records every CBOR head of a (sequence of) item(s) in b; byte strings
// whose content is itself well-formed CBOR are descended into as well (header
// maps, section tables and signed subsets are wrapped that way).
func c10Walk(b []byte, base int, depth int, out *[]refbx.Field) {
	pos := 0
	for pos < len(b) && depth < 12 {
		n := c10WalkItem(b[pos:], base+pos, depth, out)
		if n <= 0 {
			return
		}
		pos += n
	}
}

func c10WalkItem(b []byte, base, depth int, out *[]refbx.Field) int {
	h, err := refcbor.ParseHead(b)
	if err != nil {
		return -1
	}
	*out = append(*out, refbx.Field{Off: base, Len: h.Len, Major: h.Major, Value: h.Arg, What: fmt.Sprintf("cbor head major %d", h.Major)})
	switch h.Major {
	case refcbor.Bytes, refcbor.Text:
		if h.Arg > uint64(len(b)-h.Len) {
			return -1
		}
		end := h.Len + int(h.Arg)
		if h.Major == refcbor.Bytes && h.Arg > 2 {
			if _, n, err := refcbor.Decode(b[h.Len:end]); err == nil && n > 0 && (b[h.Len]>>5 == refcbor.Map || b[h.Len]>>5 == refcbor.Array) {
				c10Walk(b[h.Len:end], base+h.Len, depth+1, out)
			}
		}
		return end
	case refcbor.Array, refcbor.Map:
		n := h.Arg
		if h.Major == refcbor.Map {
			n *= 2
		}
		pos := h.Len
		for i := uint64(0); i < n; i++ {
			if pos >= len(b) {
				return -1
			}
			k := c10WalkItem(b[pos:], base+pos, depth+1, out)
			if k <= 0 {
				return -1
			}
			pos += k
		}
		return pos
	default:
		return h.Len
	}
}

// fixed-width big-endian length fields (signed-exchange prologue, MI record size)
type c10Fixed struct {
	off, width int
	what       string
}

type c10Artifact struct {
	name   string
	data   []byte
	fields []refbx.Field
	fixed  []c10Fixed
}

type c10Target struct {
	name      string
	artifacts []*c10Artifact
	run       func(in []byte)
	// gen, when set, replaces the artifact/mutation scheme by an own enumeration of inputs
	gen func(c *mc.Ctx) (in []byte, op string)
}

type c10World struct {
	targets    []*c10Target
	bundleRead *c10Target
}

var c10DiscardLog = log.New(ioutil.Discard, "", 0)

func c10Build() *c10World {
	c18Init()
	w := &c10World{}
	// --- cert chain
	var chainBuf bytes.Buffer
	c18W.chain.Write(&chainBuf)
	chain := chainBuf.Bytes()
	var chainFields []refbx.Field
	c10Walk(chain, 0, 0, &chainFields)
	chainArt := &c10Artifact{name: "certchain", data: chain, fields: chainFields}
	w.targets = append(w.targets, &c10Target{name: "certurl.ReadCertChain", artifacts: []*c10Artifact{chainArt}, run: func(in []byte) {
		certurl.ReadCertChain(bytes.NewReader(in))
	}})
	// --- signed exchanges
	var sxgArts []*c10Artifact
	sxgFiles := map[sxgversion.Version][]byte{}
	for _, v := range sxgversion.AllVersions {
		var buf bytes.Buffer
		c18W.ex[v].Write(&buf)
		f := append([]byte{}, buf.Bytes()...)
		sxgFiles[v] = f
		a := &c10Artifact{name: "sxg-" + string(v), data: f}
		pos := 8
		if v != sxgversion.Version1b1 {
			a.fixed = append(a.fixed, c10Fixed{8, 2, "fallbackUrlLength"})
			pos = 10 + int(f[8])<<8 + int(f[9])
		}
		a.fixed = append(a.fixed, c10Fixed{pos, 3, "sigLength"}, c10Fixed{pos + 3, 3, "headerLength"})
		sigLen := int(f[pos])<<16 | int(f[pos+1])<<8 | int(f[pos+2])
		hdrLen := int(f[pos+3])<<16 | int(f[pos+4])<<8 | int(f[pos+5])
		hstart := pos + 6 + sigLen
		c10Walk(f[hstart:hstart+hdrLen], hstart, 0, &a.fields)
		// MI record size at the start of the payload
		a.fixed = append(a.fixed, c10Fixed{hstart + hdrLen, 8, "MI record size"})
		sxgArts = append(sxgArts, a)
	}
	w.targets = append(w.targets, &c10Target{name: "signedexchange.ReadExchange", artifacts: sxgArts, run: func(in []byte) {
		signedexchange.ReadExchange(bytes.NewReader(in))
	}})
	verifyAt := c18Date.Add(time.Minute)
	w.targets = append(w.targets, &c10Target{name: "Exchange.Verify(hostile exchange file)", artifacts: sxgArts, run: func(in []byte) {
		e, err := signedexchange.ReadExchange(bytes.NewReader(in))
		if err != nil {
			return
		}
		e.Verify(verifyAt, func(string) ([]byte, error) { return chain, nil }, c10DiscardLog)
	}})
	w.targets = append(w.targets, &c10Target{name: "Exchange.Verify(hostile cert chain)", artifacts: []*c10Artifact{chainArt}, run: func(in []byte) {
		e, err := signedexchange.ReadExchange(bytes.NewReader(sxgFiles[sxgversion.Version1b3]))
		if err != nil {
			panic("c10: base exchange does not read: " + err.Error())
		}
		e.Verify(verifyAt, func(string) ([]byte, error) { return in, nil }, c10DiscardLog)
	}})
	// --- bundles
	var bArts []*c10Artifact
	for _, b := range c05BaseList {
		bArts = append(bArts, &c10Artifact{name: "bundle-" + b.name, data: b.file, fields: b.ref.Fields})
	}
	w.bundleRead = &c10Target{name: "bundle.Read", artifacts: bArts, run: func(in []byte) {
		bundle.Read(bytes.NewReader(in))
	}}
	w.targets = append(w.targets, w.bundleRead)
	// --- the variants-value string of a b1 index entry (parsed as a structured list by the reader):
	// string-level mutations with the index and section table re-encoded consistently
	for _, vb := range c05BaseList {
		if vb.name != "b1-var" {
			continue
		}
		vb := vb
		vi := -1
		for i, e := range vb.ref.Index {
			if len(e.Variants) > 0 {
				vi = i
			}
		}
		if vi < 0 {
			panic("c10: base b1-var has no variants-value")
		}
		w.targets = append(w.targets, &c10Target{name: "bundle.Read(hostile variants-value)", artifacts: []*c10Artifact{{name: "variants-value", data: append([]byte{}, vb.ref.Index[vi].Variants...)}}, run: func(in []byte) {
			r := vb.ref
			entries := append([]refbx.IndexEntry{}, r.Index...)
			entries[vi].Variants = in
			var names []string
			var data [][]byte
			for i, sec := range r.Sections {
				names = append(names, sec.Name)
				if sec.Name == "index" {
					data = append(data, refbx.EncodeIndex(r.Version, entries))
				} else {
					data = append(data, r.SectionData[i])
				}
			}
			bundle.Read(bytes.NewReader(refbx.Rebuild(r.Version, r.Prefix, names, data)))
		}})
	}
	// --- dump-bundle's flow on a hostile signed bundle: Read, then NewVerifier on whatever
	// signatures section came back, then VerifyExchange on every exchange
	var sbArts []*c10Artifact
	for _, b := range c05BaseList {
		if b.ref.Signatures != nil {
			sbArts = append(sbArts, &c10Artifact{name: "signed-bundle-" + b.name, data: b.file, fields: b.ref.Fields})
		}
	}
	if real := c10RealSignedBundle(); real != nil {
		if r, err := refbx.Extract(real); err == nil {
			sbArts = append(sbArts, &c10Artifact{name: "signed-bundle-real", data: real, fields: r.Fields})
		}
	}
	w.targets = append(w.targets, &c10Target{name: "bundle.Read+signature.NewVerifier+VerifyExchange", artifacts: sbArts, run: func(in []byte) {
		b, err := bundle.Read(bytes.NewReader(in))
		if err != nil || b.Signatures == nil {
			return
		}
		v, err := signature.NewVerifier(b.Signatures, c18Date.Add(time.Minute), b.Version)
		if err != nil {
			return
		}
		for _, e := range b.Exchanges {
			v.VerifyExchange(e)
		}
	}})
	// --- bundle signatures: hostile signed-subset bytes, properly signed by an authority
	// (auth-sha256 names the authority's certificate, so that an unmutated or harmlessly mutated subset gets past
	// NewVerifier and VerifyExchange runs on it; further artifacts give the exchange's URL 0, 2 and 3 hash pairs)
	goodSubset := *c18W.subset
	leafSum := sha256.Sum256(fixtures.A.Leaf.Raw)
	goodSubset.AuthSha256 = leafSum[:]
	subset, _ := goodSubset.Encode()
	var subFields []refbx.Field
	c10Walk(subset, 0, 0, &subFields)
	subArts := []*c10Artifact{{name: "signed-subset", data: subset, fields: subFields}}
	for _, pairs := range []int{0, 2, 3} {
		v := goodSubset
		rh := &signature.ResponseHashes{}
		for i := 0; i < pairs; i++ {
			rh.Hashes = append(rh.Hashes, &signature.ResourceIntegrity{HeaderSha256: bytes.Repeat([]byte{byte(9 + i)}, 32), PayloadIntegrityHeader: "digest/mi-sha256-03"})
		}
		v.SubsetHashes = map[string]*signature.ResponseHashes{"https://a.test/": rh}
		enc, err := v.Encode()
		if err != nil {
			continue
		}
		var f []refbx.Field
		c10Walk(enc, 0, 0, &f)
		subArts = append(subArts, &c10Artifact{name: fmt.Sprintf("signed-subset-%d-hash-pairs", pairs), data: enc, fields: f})
	}
	alg, _ := signingalgorithm.SigningAlgorithmForPrivateKey(fixtures.A.Key, rand.Reader)
	auth := []*certurl.AugmentedCertificate{{Cert: fixtures.A.Leaf, OCSPResponse: []byte("o")}}
	ex := &bundle.Exchange{Request: bundle.Request{URL: c18MustURL("https://a.test/")}, Response: c18W.bundleB2.Exchanges[0].Response}
	w.targets = append(w.targets, &c10Target{name: "signature.NewVerifier+VerifyExchange(hostile signed subset)", artifacts: subArts, run: func(in []byte) {
		msg := append(bytes.Repeat([]byte{0x20}, 64), []byte(bversion.VersionB2.SignatureContextString())...)
		msg = append(msg, 0)
		msg = append(msg, in...)
		sig, err := alg.Sign(msg)
		if err != nil {
			panic(err)
		}
		sigs := &bundle.Signatures{Authorities: auth, VouchedSubsets: []*bundle.VouchedSubset{{Authority: 0, Sig: sig, Signed: in}}}
		v, err := signature.NewVerifier(sigs, c18Date.Add(time.Minute), bversion.VersionB2)
		if err != nil {
			return
		}
		v.VerifyExchange(ex)
	}})
	// ... and the vouched subset's authority INDEX (attacker-controlled, read from the signatures section as a CBOR
	// unsigned integer) through every head-width and sign boundary, against 0..2 authorities
	authIdx := []uint64{0, 1, 2, 23, 24, 255, 256, 65535, 65536, 1<<31 - 1, 1 << 31, 1<<32 - 1, 1 << 32, 1<<63 - 1, 1 << 63, 1<<63 + 1, 1<<64 - 2, 1<<64 - 1}
	w.targets = append(w.targets, &c10Target{name: "signature.NewVerifier(vouched subset naming authority #i)",
		gen: func(c *mc.Ctx) ([]byte, string) {
			vi := c.Free(len(authIdx), "authority index")
			na := c.Free(3, "authorities")
			return []byte{byte(vi), byte(na)}, fmt.Sprintf("authority=%d of %d", authIdx[vi], na)
		},
		run: func(in []byte) {
			msg := append(bytes.Repeat([]byte{0x20}, 64), []byte(bversion.VersionB2.SignatureContextString())...)
			msg = append(msg, 0)
			msg = append(msg, subset...)
			sig, err := alg.Sign(msg)
			if err != nil {
				panic(err)
			}
			var auths []*certurl.AugmentedCertificate
			for i := 0; i < int(in[1]); i++ {
				auths = append(auths, &certurl.AugmentedCertificate{Cert: fixtures.A.Leaf, OCSPResponse: []byte("o")})
			}
			sigs := &bundle.Signatures{Authorities: auths, VouchedSubsets: []*bundle.VouchedSubset{{Authority: authIdx[in[0]], Sig: sig, Signed: subset}}}
			v, err := signature.NewVerifier(sigs, c18Date.Add(time.Minute), bversion.VersionB2)
			if err != nil {
				return
			}
			v.VerifyExchange(ex)
		}})
	// --- MI streams
	var miArts []*c10Artifact
	miDigest := map[string]string{}
	for _, enc := range []mice.Encoding{mice.Draft02Encoding, mice.Draft03Encoding} {
		var buf bytes.Buffer
		d, _ := enc.Encode(&buf, []byte("0123456789abcdefghijklmnopqrstuvwxyz"), 16)
		name := "mi-" + string(enc)
		miDigest[name] = d
		miArts = append(miArts, &c10Artifact{name: name, data: append([]byte{}, buf.Bytes()...), fixed: []c10Fixed{{0, 8, "record size"}}})
	}
	for i := range miArts {
		a := miArts[i]
		enc := []mice.Encoding{mice.Draft02Encoding, mice.Draft03Encoding}[i]
		w.targets = append(w.targets, &c10Target{name: "mice.NewDecoder+ReadAll(" + string(enc) + ")", artifacts: []*c10Artifact{a}, run: func(in []byte) {
			r, err := enc.NewDecoder(bytes.NewReader(in), miDigest[a.name], 16384)
			if err != nil {
				return
			}
			io.Copy(ioutil.Discard, r)
		}})
	}
	// --- header strings that reach a parser from outside: the Digest / MI-Draft2 value handed to the MI decoder
	// (every truncation - e.g. cut right before its '=' - and every byte), the Signature header of an exchange
	for i := range miArts {
		a := miArts[i]
		enc := []mice.Encoding{mice.Draft02Encoding, mice.Draft03Encoding}[i]
		stream := a.data
		da := &c10Artifact{name: "digest-" + string(enc), data: []byte(miDigest[a.name])}
		w.targets = append(w.targets, &c10Target{name: "mice.NewDecoder(hostile digest header, " + string(enc) + ")", artifacts: []*c10Artifact{da}, run: func(in []byte) {
			r, err := enc.NewDecoder(bytes.NewReader(stream), string(in), 16384)
			if err != nil {
				return
			}
			io.Copy(ioutil.Discard, r)
		}})
	}
	var sigArts []*c10Artifact
	for _, v := range sxgversion.AllVersions {
		sigArts = append(sigArts, &c10Artifact{name: "signature-header-" + string(v), data: []byte(c18W.ex[v].SignatureHeaderValue)})
	}
	w.targets = append(w.targets, &c10Target{name: "Exchange.Verify(hostile Signature header)", artifacts: sigArts, run: func(in []byte) {
		e, err := signedexchange.ReadExchange(bytes.NewReader(sxgFiles[sxgversion.Version1b3]))
		if err != nil {
			panic("c10: base exchange does not read: " + err.Error())
		}
		e.SignatureHeaderValue = string(in)
		e.Verify(verifyAt, func(string) ([]byte, error) { return chain, nil }, c10DiscardLog)
	}})
	// --- the verifier behind a VALID signature: what a hostile but properly signing origin can put into the
	// signed fields reaches code that random mutations never reach (they die at the signature check).
	// Every status code 100..999 x version, really signed (ECDSA), verified inside the window.
	w.targets = append(w.targets, &c10Target{name: "Exchange.Verify(validly signed exchange, any status)",
		gen: func(c *mc.Ctx) ([]byte, string) {
			ver := c.Free(3, "version")
			status := 100 + c.Free(900, "status")
			form := c.Free(2, "memory/wire")
			return []byte{byte(ver), byte(status >> 8), byte(status), byte(form)}, fmt.Sprintf("signed:%s:status=%d:form=%d", c09Versions[ver], status, form)
		},
		run: func(in []byte) {
			verS := string(c09Versions[in[0]])
			right, _ := refpolicy.IntegrityFor(verS)
			cs := &c09Case{ver: int(in[0]), wire: in[3] == 1, reqURL: c09ReqURLs[0], method: "GET", status: int(in[1])<<8 | int(in[2]), ctype: true,
				sigs: []c09Sig{{tm: c09Time{"default", 1000, 1000, 0}, validity: c09ValidityAlts(c09ReqURLs[0])[0].url, integrity: right}}}
			e, _, err := c09Build(cs, 1)
			if err != nil {
				return // the library refused to build / write / read it: no parser ran on it
			}
			fetch := func(string) ([]byte, error) { return c09CertBytes, nil }
			e.Verify(time.Unix(c09T0, 0), fetch, c10DiscardLog)
		}})
	// ... and every Cache-Control value of up to 4 (quick) / 5 (thorough) characters over the characters the
	// directive grammar distinguishes (token character, '=', DQUOTE, ',', SP, backslash) on a really signed 1b3
	// exchange: the storability parser runs only after the signature has been accepted
	ccAlpha := []byte{'a', '=', '"', ',', ' ', '\\'}
	w.targets = append(w.targets, &c10Target{name: "Exchange.Verify(validly signed 1b3 exchange, any Cache-Control value)",
		gen: func(c *mc.Ctx) ([]byte, string) {
			n := c.Free(c.Pick(5, 6), "len")
			v := make([]byte, n)
			for i := range v {
				v[i] = ccAlpha[c.Free(len(ccAlpha), "ch")]
			}
			return v, fmt.Sprintf("signed:1b3:cache-control=%q", v)
		},
		run: func(in []byte) {
			right, _ := refpolicy.IntegrityFor("1b3")
			cs := &c09Case{ver: 2, reqURL: c09ReqURLs[0], method: "GET", status: 200, ctype: true, cc: []string{string(in)},
				sigs: []c09Sig{{tm: c09Time{"default", 1000, 1000, 0}, validity: c09ValidityAlts(c09ReqURLs[0])[0].url, integrity: right}}}
			e, _, err := c09Build(cs, 1)
			if err != nil {
				return
			}
			fetch := func(string) ([]byte, error) { return c09CertBytes, nil }
			e.Verify(time.Unix(c09T0, 0), fetch, c10DiscardLog)
		}})
	// --- raw CBOR decoder methods, structured headers, integrity-block detection: raw strings
	rawArt := []*c10Artifact{{name: "raw", data: nil}}
	w.targets = append(w.targets, &c10Target{name: "cbor.Decoder(all methods)", artifacts: rawArt, run: func(in []byte) {
		for m := 0; m < 5; m++ {
			d := cbor.NewDecoder(bytes.NewReader(in))
			switch m {
			case 0:
				d.DecodeUint()
			case 1:
				d.DecodeArrayHeader()
			case 2:
				d.DecodeMapHeader()
			case 3:
				d.DecodeByteString()
			case 4:
				d.DecodeTextString()
			}
		}
	}})
	w.targets = append(w.targets, &c10Target{name: "structuredheader.Parse*", artifacts: rawArt, run: func(in []byte) {
		structuredheader.ParseListOfLists(string(in))
		structuredheader.ParseParameterisedList(string(in))
	}})
	// ... and every string of up to 5 (quick) / 6 (thorough) characters over the characters the structured-header grammar
	// distinguishes (the raw alphabet above is made of CBOR heads): a cursor that runs off the end needs a particular
	// arrangement of quotes and backslashes, not a particular length
	shAlpha := []byte{'"', '\\', 'a', ';', '=', ',', '*', ' ', '1', '-'}
	w.targets = append(w.targets, &c10Target{name: "structuredheader.Parse*(grammar strings)",
		gen: func(c *mc.Ctx) ([]byte, string) {
			n := c.Free(c.Pick(6, 7), "len")
			in := make([]byte, n)
			for i := range in {
				in[i] = shAlpha[c.Free(len(shAlpha), "char")]
			}
			return in, "sh:" + hx(in)
		},
		run: func(in []byte) {
			structuredheader.ParseListOfLists(string(in))
			structuredheader.ParseParameterisedList(string(in))
			structuredheader.ParseListOfLists("x, " + string(in))
			structuredheader.ParseParameterisedList("l;k=" + string(in))
		}})
	w.targets = append(w.targets, &c10Target{name: "integrityblock.WebBundleHasIntegrityBlock", artifacts: rawArt, run: func(in []byte) {
		integrityblock.WebBundleHasIntegrityBlock(bytes.NewReader(in))
	}})
	w.targets = append(w.targets, &c10Target{name: "integrityblock.ObtainIntegrityBlock(file)", artifacts: rawArt, run: func(in []byte) {
		f, err := os.CreateTemp("", "c10-ib-*")
		if err != nil {
			panic(err)
		}
		defer os.Remove(f.Name())
		defer f.Close()
		f.Write(in)
		integrityblock.ObtainIntegrityBlock(f)
	}})
	return w
}

// c10RealSignedBundle: a b2 bundle really signed for a.test through the library signer.
func c10RealSignedBundle() []byte {
	b := &bundle.Bundle{Version: bversion.VersionB2}
	for i, u := range []string{"https://a.test/", "https://z.test/other"} {
		b.Exchanges = append(b.Exchanges, &bundle.Exchange{Request: bundle.Request{URL: c18MustURL(u)},
			Response: bundle.Response{Status: 200, Header: http.Header{"Content-Type": {"text/plain"}}, Body: []byte(fmt.Sprintf("body %d of a signed bundle", i))}})
	}
	chain, err := certurl.NewCertChain([]*x509.Certificate{fixtures.A.Leaf, fixtures.A.CA}, []byte("ocsp"), nil)
	if err != nil {
		return nil
	}
	sg, err := signature.NewSigner(b.Version, chain, fixtures.A.Key, c18MustURL("https://a.test/validity"), c18Date, time.Hour)
	if err != nil {
		return nil
	}
	for _, e := range b.Exchanges {
		if !sg.CanSignForURL(e.Request.URL) {
			continue
		}
		id, err := e.AddPayloadIntegrity(b.Version, 16)
		if err != nil || sg.AddExchange(e, id) != nil {
			return nil
		}
	}
	if b.Signatures, err = sg.UpdateSignatures(nil); err != nil {
		return nil
	}
	var buf bytes.Buffer
	if _, err := b.WriteTo(&buf); err != nil {
		return nil
	}
	return buf.Bytes()
}

var c10W *c10World

type c10Case struct {
	target *c10Target
	input  []byte
	op     string
}

func (cs *c10Case) CaseKey() string { return "C10/" + cs.target.name + ":" + cs.op }

var c10Sample = []metrics.Sample{{Name: "/gc/heap/allocs:bytes"}}

func c10Allocs() uint64 {
	metrics.Read(c10Sample)
	return c10Sample[0].Value.Uint64()
}

func c10Exec(c *mc.Ctx, v interface{}) {
	cs := v.(*c10Case)
	var pan string
	before := c10Allocs()
	func() {
		defer func() {
			if p := recover(); p != nil {
				pan = fmt.Sprint(p)
			}
		}()
		cs.target.run(cs.input)
	}()
	alloc := c10Allocs() - before
	if alloc > 256<<20 {
		// the address space a huge allocation reserved stays counted against ulimit -v: continue in
		// a fresh worker so that later cases are not blamed for it
		c.RestartWorker()
	}
	c.Eval()
	c.State([]byte(cs.target.name), cs.input)
	c.Nontrivial([]byte(cs.target.name), cs.input)
	key := cs.CaseKey()
	in := fmt.Sprintf("%s: %s (%d bytes) %s", cs.target.name, cs.op, len(cs.input), hx(cs.input))
	c.Sample(key)
	if pan != "" {
		c.Outcome("PANIC " + cs.target.name)
		c.Fail(key, "parser panicked on external input", in, "value or error", "panic: "+pan)
		return
	}
	limit := uint64(64<<20) + 64*uint64(len(cs.input))
	if alloc > limit {
		c.Outcome("ALLOCATION " + cs.target.name)
		c.Fail(key, "parser allocated more than 64 MiB + 64 x input size", in, fmt.Sprintf("<= %d bytes", limit), fmt.Sprintf("%d bytes allocated", alloc))
		return
	}
	c.Outcome("returned: " + cs.target.name)
}

func c10FixedBounds(exact uint64, width int, fileLen int) []uint64 {
	max := uint64(1)<<(8*uint(width)) - 1
	if width == 8 {
		max = 1<<64 - 1
	}
	vals := []uint64{0, 1, exact - 1, exact + 1, uint64(fileLen), max, max - 1, max / 2, max/2 + 1}
	if width == 8 {
		vals = append(vals, 16384, 16385, 1<<32, 1<<63-1, 1<<63)
	}
	return vals
}

func init() {
	rawAlpha := []byte{0x00, 0x01, 0x17, 0x18, 0x1b, 0x1f, '"', '*', '-', '1', ';', '=', 'a', 0x5b, 0x7b, 0x7f, 0x80, 0x9b, 0xbb, 0xf0, 0xff}
	h := &mc.Harness{
		Name:     "C10/parsers",
		Isolated: true,
		Bound: func(tier string) int {
			return 1
		},
		Gen: func(c *mc.Ctx) interface{} {
			if c10W == nil {
				c10W = c10Build()
			}
			ti := c.Free(len(c10W.targets)+1, "target")
			if ti == len(c10W.targets) {
				// the bundle reader once more, on the structure-aware inputs of the C05
				// generator (index locations re-encoded consistently, section-table edits,
				// unknown sections): the monitor here is "returns, bounded allocation"
				cs := c05GenFn(c).(*c05Case)
				return &c10Case{target: c10W.bundleRead, input: cs.input, op: "c05:" + cs.base.name + ":" + cs.op}
			}
			t := c10W.targets[ti]
			if t.gen != nil {
				in, op := t.gen(c)
				return &c10Case{target: t, input: in, op: op}
			}
			a := t.artifacts[c.Free(len(t.artifacts), "artifact")]
			if a.data == nil {
				// raw inputs: all strings <= 2 bytes (thorough) / over the reduced alphabet (quick), 3..4 bytes reduced
				n := c.Free(c.Pick(4, 5), "len")
				in := make([]byte, n)
				for i := range in {
					if n <= 2 && !c.Quick() {
						in[i] = byte(c.Free(256, "byte"))
					} else {
						in[i] = rawAlpha[c.Free(len(rawAlpha), "byte")]
					}
				}
				// integrity-block detection looks at bytes 2..10 and at the last 8 bytes: add a tail
				tail := c.Free(3, "tail")
				switch tail {
				case 1:
					in = append(in, integrityblock.IntegrityBlockMagic...)
				case 2:
					in = append(in, 0xff, 0xff, 0xff, 0xff, 0xff, 0xff, 0xff, 0xff, 0x00)
				}
				return &c10Case{target: t, input: in, op: "raw:" + hx(in)}
			}
			file := a.data
			switch c.Dev(7, "mutation") {
			case 5: // one byte deleted
				off := c.Free(len(file), "delete")
				out := append(append([]byte{}, file[:off]...), file[off+1:]...)
				return &c10Case{target: t, input: out, op: fmt.Sprintf("%s:delete@%d", a.name, off)}
			case 6: // one byte inserted (separators and delimiters of the text grammars, CBOR heads, extremes)
				off := c.Free(len(file)+1, "insert")
				vals := []byte{';', ',', '=', '"', '\\', '*', ' ', 0x00, 0xff, 'a', '1', 0x5b, 0x9b}
				nv := vals[c.Free(len(vals), "value")]
				out := append(append(append([]byte{}, file[:off]...), nv), file[off:]...)
				return &c10Case{target: t, input: out, op: fmt.Sprintf("%s:insert@%d=%02x", a.name, off, nv)}
			case 0:
				return &c10Case{target: t, input: file, op: a.name + ":unmutated"}
			case 1: // CBOR length/count head replaced by a boundary value
				if len(a.fields) == 0 {
					return &c10Case{target: t, input: file, op: a.name + ":unmutated"}
				}
				fi := c.Free(len(a.fields), "field")
				f := a.fields[fi]
				bs := append(c05Bounds(f.Value, len(file)), 1<<31, 1<<24)
				v := bs[c.Free(len(bs), "value")]
				return &c10Case{target: t, input: refbx.ReplaceHead(file, f, v), op: fmt.Sprintf("%s:field[%d]=%d", a.name, fi, v)}
			case 2: // fixed-width big-endian length field replaced
				if len(a.fixed) == 0 {
					return &c10Case{target: t, input: file, op: a.name + ":unmutated"}
				}
				fx := a.fixed[c.Free(len(a.fixed), "fixed")]
				var exact uint64
				for i := 0; i < fx.width; i++ {
					exact = exact<<8 | uint64(file[fx.off+i])
				}
				vals := c10FixedBounds(exact, fx.width, len(file))
				v := vals[c.Free(len(vals), "value")]
				out := append([]byte{}, file...)
				for i := 0; i < fx.width; i++ {
					out[fx.off+i] = byte(v >> uint(8*(fx.width-1-i)))
				}
				return &c10Case{target: t, input: out, op: fmt.Sprintf("%s:%s=%d", a.name, fx.what, v)}
			case 3: // truncation
				off := c.Free(len(file), "truncate")
				return &c10Case{target: t, input: file[:off], op: fmt.Sprintf("%s:truncate@%d", a.name, off)}
			default: // every byte set to boundary values
				off := c.Free(len(file), "offset")
				var nv byte
				if c.Quick() {
					vals := []byte{0x00, 0xff, 0x1b, 0x5b, 0x9b, 0xbb, file[off] ^ 1, file[off] ^ 0x80}
					nv = vals[c.Free(len(vals), "value")]
				} else {
					nv = byte(c.Free(256, "value"))
				}
				out := append([]byte{}, file...)
				out[off] = nv
				return &c10Case{target: t, input: out, op: fmt.Sprintf("%s:byte@%d=%02x", a.name, off, nv)}
			}
		},
		Exec: c10Exec,
		Describe: func(v interface{}) string {
			cs := v.(*c10Case)
			return cs.target.name + " " + cs.op + " " + hx(cs.input)
		},
	}
	register(&mc.Property{
		ID:          "C10",
		Level:       "model_checking",
		Rule:        "choice-tree enumeration of hostile inputs for every parser entry point (bundle.Read, ReadExchange, Exchange.Verify with hostile file / hostile cert chain, ReadCertChain, bundle signature NewVerifier+VerifyExchange on properly signed hostile subsets, both structured-header parsers, MI decoder for both drafts on hostile streams and on hostile digest-header strings, Exchange.Verify with a hostile Signature header string, Exchange.Verify on really signed exchanges of every version with every status 100..999 (in memory and re-read) and, for 1b3, with every Cache-Control value of <= 4 (thorough 5) characters over {a = \" , SP \\}, bundle.Read with a hostile variants-value string in a consistently re-encoded b1 index, every cbor.Decoder method, integrity-block detection on a reader and on a file), executed in watchdog-supervised workers under ulimit -v: valid artifacts of every format with one mutation (every CBOR length/count head x 11 boundary values, every fixed-width length field x boundary values, truncation at every offset, every byte x 8 values quick / 256 thorough, every byte deleted, one of 13 bytes inserted at every position) and all raw strings up to 3 bytes over a 21-byte alphabet (thorough: all strings <= 2 bytes, <= 4 reduced) with integrity-block tails. Monitor: returns (no panic, no crash, no hang) and heap allocation <= 64 MiB + 64 x len(input) (runtime/metrics). Every case is non-trivial (the monitor applies to all); distinct by (entry point, input).",
		Assumptions: []string{"the allocation bound's constant covers the two 3-byte-length prologue buffers (2 x 16 MiB) the signed-exchange format itself allows", "cbor.Deterministic is not an entry point of this property (its refusal-by-panic is judged under C13)"},
		Harnesses:   []*mc.Harness{h},
		Guard: func(s map[string]*mc.Stats) error {
			st := s["C10/parsers"]
			if st.Executions < 20000 {
				return errors.New("sweep too small")
			}
			n := 0
			for k := range st.Outcomes {
				if strings.HasPrefix(k, "returned: ") || strings.HasPrefix(k, "PANIC") || strings.HasPrefix(k, "ALLOC") {
					n++
				}
			}
			if n < 10 {
				return fmt.Errorf("only %d entry points reached", n)
			}
			return nil
		},
	})
}
