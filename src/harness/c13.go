package main

import (
	"bytes"
	"errors"
	"fmt"
	"strings"

	"github.com/WICG/webpackage/go/internal/cbor"
	"github.com/WICG/webpackage/go/signedexchange/zverif/mc"
	"github.com/WICG/webpackage/go/signedexchange/zverif/refcbor"
)

type c13Case struct {
	input  []byte
	family string
	note   string
}

func (cs *c13Case) CaseKey() string { return "C13/" + cs.family + ":" + hx(cs.input) }

// c13Run calls the real checker; a panic is its documented way of refusing
// truncated input (the repository's tests require those panics), so it counts as
// "rejected".  Non-termination is caught by the worker watchdog.
func c13Run(in []byte) (verdict string, detail string) {
	defer func() {
		if p := recover(); p != nil {
			verdict, detail = "panic", fmt.Sprint(p)
		}
	}()
	if err := cbor.Deterministic(in); err != nil {
		return "error", err.Error()
	}
	return "accept", ""
}

func c13Exec(c *mc.Ctx, v interface{}) {
	cs := v.(*c13Case)
	ref := refcbor.Deterministic(cs.input)
	verdict, detail := c13Run(cs.input)
	c.Eval()
	byConstruction := cs.family == "bytes" || cs.family == "alpha" // every string is generated exactly once
	if byConstruction {
		c.StatesByConstruction(1)
	} else {
		c.State(cs.input)
	}
	c.Sample(fmt.Sprintf("%s %s -> impl %s, reference valid=%v", cs.family, hx(cs.input), verdict, ref == nil))
	key := cs.CaseKey()
	nontrivial := func() {
		if byConstruction {
			c.NontrivialByConstruction(1)
		} else {
			c.Nontrivial(cs.input)
		}
	}
	if ref == nil {
		nontrivial()
		if verdict != "accept" {
			c.Outcome("VALID refused")
			c.Fail(key, "input in core deterministic form was refused", hx(cs.input)+" "+cs.note, "nil", verdict+": "+detail)
			return
		}
		c.Outcome("valid, accepted")
		return
	}
	if verdict == "accept" {
		c.Outcome("INVALID accepted")
		c.Fail(key, "input that is not deterministic / not well-formed was accepted", hx(cs.input)+" "+cs.note, "error or panic ("+ref.Error()+")", "nil")
		return
	}
	nontrivial()
	c.Outcome("invalid, " + verdict)
}

// ---- generated nested items ----

type c13Node struct {
	major int
	arg   uint64 // value / declared length / declared count
	str   []byte
	kids  []*c13Node
	width int // -1 = shortest
}

func (n *c13Node) encode(dst []byte, heads *[]int, nodes *[]*c13Node) []byte {
	*heads = append(*heads, len(dst))
	*nodes = append(*nodes, n)
	if n.width < 0 {
		dst = refcbor.AppendHead(dst, n.major, n.arg)
	} else {
		dst = refcbor.AppendHeadWidth(dst, n.major, n.arg, n.width)
	}
	dst = append(dst, n.str...)
	for _, k := range n.kids {
		dst = k.encode(dst, heads, nodes)
	}
	return dst
}

func c13GenItem(c *mc.Ctx, budget *int, depth, maxDepth int) *c13Node {
	*budget--
	kinds := 8
	if *budget <= 0 || depth >= maxDepth {
		kinds = 6 // leaves only
	}
	switch c.Free(kinds, "kind") {
	case 0:
		return &c13Node{major: refcbor.Uint, arg: 0, width: -1}
	case 1:
		return &c13Node{major: refcbor.Uint, arg: 24, width: -1}
	case 2:
		return &c13Node{major: refcbor.Uint, arg: 256, width: -1}
	case 3:
		return &c13Node{major: refcbor.Bytes, arg: 0, width: -1}
	case 4:
		return &c13Node{major: refcbor.Bytes, arg: 1, str: []byte("a"), width: -1}
	case 5:
		return &c13Node{major: refcbor.Text, arg: 1, str: []byte("b"), width: -1}
	case 6:
		maxKids := 3
		if *budget < maxKids {
			maxKids = *budget
		}
		n := c.Free(maxKids+1, "arraylen")
		node := &c13Node{major: refcbor.Array, arg: uint64(n), width: -1}
		for i := 0; i < n; i++ {
			node.kids = append(node.kids, c13GenItem(c, budget, depth+1, maxDepth))
		}
		return node
	default:
		maxPairs := 2
		if *budget/2 < maxPairs {
			maxPairs = *budget / 2
		}
		n := c.Free(maxPairs+1, "mappairs")
		node := &c13Node{major: refcbor.Map, arg: uint64(n), width: -1}
		for i := 0; i < 2*n; i++ {
			node.kids = append(node.kids, c13GenItem(c, budget, depth+1, maxDepth))
		}
		return node
	}
}

// boundary values substituted for a declared length / count
var c13Bounds = func() []uint64 {
	b := []uint64{0, 1, 2, 23, 24, 255, 256, 65535, 65536, 1<<32 - 1, 1 << 32, 1<<62 - 1, 1 << 62, 1<<63 - 1, 1 << 63, 1<<63 + 1}
	for k := uint64(1); k <= 16; k++ {
		b = append(b, -k) // 2^64-k
	}
	return b
}()

func init() {
	alpha := []byte{0x00, 0x01, 0x17, 0x18, 0x19, 0x1A, 0x1B, 0x1C, 0x1F, 0x40, 0x41, 0x5B, 0x61, 0x80, 0x81, 0x82, 0x9B, 0xA0, 0xA1, 0xBB, 0xE0, 0xF6, 0xFF}

	all := &mc.Harness{
		Name:     "C13/all-bytes",
		Isolated: true,
		Gen: func(c *mc.Ctx) interface{} {
			n := c.Free(c.Pick(3, 4), "len") // quick: all strings <= 2; thorough: <= 3 (16.8 M)
			in := make([]byte, n)
			for i := range in {
				in[i] = byte(c.Free(256, "byte"))
			}
			return &c13Case{input: in, family: "bytes"}
		},
		Exec:     c13Exec,
		Describe: func(v interface{}) string { return hx(v.(*c13Case).input) },
	}

	reduced := &mc.Harness{
		Name:     "C13/grammar-alphabet",
		Isolated: true,
		Gen: func(c *mc.Ctx) interface{} {
			n := c.Free(c.Pick(5, 6), "len") // quick: <= 4 over 23 bytes; thorough: <= 5
			in := make([]byte, n)
			for i := range in {
				in[i] = alpha[c.Free(len(alpha), "byte")]
			}
			return &c13Case{input: in, family: "alpha"}
		},
		Exec:     c13Exec,
		Describe: func(v interface{}) string { return hx(v.(*c13Case).input) },
	}

	// 8-byte arguments: every head of the subset with a 64-bit argument from the
	// boundary list, followed by 0..2 bytes of content (where signed conversions
	// of the argument can make a cursor stand still or run backwards), at top
	// level and nested in an array / as a map key / as a map value.
	wide := &mc.Harness{
		Name:     "C13/wide-arguments",
		Isolated: true,
		Gen: func(c *mc.Ctx) interface{} {
			majors := []int{refcbor.Uint, refcbor.Bytes, refcbor.Text, refcbor.Array, refcbor.Map}
			major := majors[c.Free(len(majors), "major")]
			arg := c13Bounds[c.Free(len(c13Bounds), "arg")]
			widths := []int{-1, 1, 2, 4, 8}
			width := widths[c.Free(len(widths), "width")]
			var item []byte
			if width < 0 {
				item = refcbor.AppendHead(nil, major, arg)
			} else {
				item = refcbor.AppendHeadWidth(nil, major, arg, width)
			}
			tail := c.Free(4, "tail")
			for i := 0; i < tail; i++ {
				item = append(item, []byte{0x00, 0xf7, 0x41}[i])
			}
			var in []byte
			switch c.Free(5, "context") {
			case 0:
				in = item
			case 1:
				in = append([]byte{0x81}, item...)
			case 2:
				in = append([]byte{0xa1}, item...)
				in = append(in, 0x00)
			case 3:
				in = append([]byte{0xa1, 0x00}, item...)
			case 4:
				in = append([]byte{0x82, 0x00}, item...)
				in = append(in, 0x00)
			}
			return &c13Case{input: in, family: "wide"}
		},
		Exec:     c13Exec,
		Describe: func(v interface{}) string { return hx(v.(*c13Case).input) },
	}

	// strings with a multi-byte length head (24, 255, 256, 65535, 65536 bytes and their neighbours) in tail and
	// non-tail positions, cut short by 0..10 bytes at the end of the input or declared 1..9 bytes too long /
	// too short: the payload bound has to take the width of the head into account
	long := &mc.Harness{
		Name:     "C13/long-strings",
		Isolated: true,
		Gen: func(c *mc.Ctx) interface{} {
			lens := []int{23, 24, 25, 255, 256, 257, 65535, 65536}
			n := lens[c.Free(len(lens), "len")]
			major := []int{refcbor.Bytes, refcbor.Text}[c.Free(2, "major")]
			payload := bytes.Repeat([]byte{'a'}, n)
			declared := uint64(n)
			cut := 0
			switch c.Free(3, "defect") {
			case 1:
				cut = 1 + c.Free(10, "cut")
			case 2:
				d := []int64{1, 2, 3, 4, 5, 8, 9, -1, -2, -9}[c.Free(10, "declared length off by")]
				declared = uint64(int64(n) + d)
			}
			item := append(refcbor.AppendHead(nil, major, declared), payload...)
			var in []byte
			ctx := c.Free(8, "context")
			switch ctx {
			case 0:
				in = item
			case 1:
				in = append([]byte{0x00}, item...)
			case 2:
				in = append([]byte{0x81}, item...)
			case 3:
				in = append([]byte{0x82, 0x00}, item...)
			case 4:
				in = append([]byte{0xa1, 0x00}, item...)
			case 5:
				in = append([]byte{0x81, 0x81}, item...)
			case 6:
				in = append(append([]byte{0x82}, item...), 0x00)
			default:
				in = append(append([]byte{0xa1}, item...), 0x00)
			}
			if cut > len(in) {
				cut = len(in)
			}
			in = in[:len(in)-cut]
			return &c13Case{input: in, family: "long", note: fmt.Sprintf("%d-byte string, declared %d, context %d, %d bytes cut from the end", n, declared, ctx, cut)}
		},
		Exec: c13Exec,
		Describe: func(v interface{}) string {
			cs := v.(*c13Case)
			if len(cs.input) > 64 {
				return hx(cs.input[:32]) + "..." + hx(cs.input[len(cs.input)-16:]) + " (" + cs.note + ")"
			}
			return hx(cs.input) + " (" + cs.note + ")"
		},
	}

	trees := &mc.Harness{
		Name:     "C13/generated-items",
		Isolated: true,
		Bound:    func(string) int { return 1 },
		Gen: func(c *mc.Ctx) interface{} {
			// quick: trees of <=4 nodes, 9 boundary values per length/count; thorough: trees of <=4
			// nodes with all 32 boundary values, and trees of <=5 nodes unmutated or with a key pair
			// swapped / duplicated or a trailing byte
			budget, fullBounds := 4, false
			if !c.Quick() {
				if c.Free(2, "tree-size/bounds") == 0 {
					fullBounds = true
				} else {
					budget = 5
				}
			}
			budget0 := budget
			root := c13GenItem(c, &budget, 0, 3)
			var heads []int
			var nodes []*c13Node
			enc := root.encode(nil, &heads, &nodes)
			// one mutation (deviation)
			type mut struct {
				note string
				do   func() []byte
			}
			muts := []mut{{"none", func() []byte { return enc }}}
			light := budget0 == 5 // 5-node trees: unmutated, key swaps/duplicates and trailing bytes only
			reenc := func() []byte {
				var h []int
				var ns []*c13Node
				return root.encode(nil, &h, &ns)
			}
			for i := range nodes {
				n := nodes[i]
				idx := i
				for _, w := range []int{1, 2, 4, 8} {
					if light {
						break
					}
					w := w
					muts = append(muts, mut{fmt.Sprintf("head %d widened to %d follow bytes", idx, w), func() []byte {
						n.width = w
						return reenc()
					}})
				}
				if n.major != refcbor.Uint && !light {
					bounds := c13Bounds
					if !fullBounds {
						// (the full boundary list is swept by C13/wide-arguments)
						bounds = []uint64{0, 1, 24, 256, 1 << 32, 1<<63 - 1, 1 << 63, 1<<64 - 9, 1<<64 - 1}
					}
					for _, b := range bounds {
						b := b
						muts = append(muts, mut{fmt.Sprintf("length/count of head %d set to %d", idx, b), func() []byte {
							n.arg = b
							return reenc()
						}})
					}
				}
				if n.major == refcbor.Map && len(n.kids) >= 4 {
					muts = append(muts, mut{fmt.Sprintf("map %d: first two pairs swapped", idx), func() []byte {
						n.kids[0], n.kids[2] = n.kids[2], n.kids[0]
						n.kids[1], n.kids[3] = n.kids[3], n.kids[1]
						return reenc()
					}})
					muts = append(muts, mut{fmt.Sprintf("map %d: first key duplicated", idx), func() []byte {
						n.kids[2] = n.kids[0]
						return reenc()
					}})
				}
			}
			for off := 0; off < len(enc) && !light; off++ {
				off := off
				muts = append(muts, mut{fmt.Sprintf("truncated at %d", off), func() []byte { return enc[:off] }})
			}
			for _, tb := range []byte{0x00, 0x18, 0xff} {
				tb := tb
				muts = append(muts, mut{fmt.Sprintf("trailing byte %02x", tb), func() []byte { return append(append([]byte{}, enc...), tb) }})
			}
			m := muts[c.Dev(len(muts), "mutation")]
			return &c13Case{input: m.do(), family: "tree", note: m.note}
		},
		Exec:     c13Exec,
		Describe: func(v interface{}) string { cs := v.(*c13Case); return hx(cs.input) + " (" + cs.note + ")" },
	}

	// maps of 1..3 pairs with keys drawn (with repetition, in every order) from a pool
	// of encoded keys of different types and lengths: ordering and duplicate rules
	// across length classes, at top level and nested in an array / as a map value.
	keyPool := [][]byte{{0x00}, {0x17}, {0x18, 0x18}, {0x19, 0x01, 0x00}, {0x40}, {0x41, 0x61}, {0x61, 0x62}, {0x63, 0x61, 0x62, 0x63}, {0x80}, {0xa0}, {0x18, 0x17}}
	maps := &mc.Harness{
		Name:     "C13/maps",
		Isolated: true,
		Gen: func(c *mc.Ctx) interface{} {
			n := 1 + c.Free(3, "pairs")
			m := []byte{0xa0 | byte(n)}
			for i := 0; i < n; i++ {
				m = append(m, keyPool[c.Free(len(keyPool), "key")]...)
				vals := [][]byte{{0x00}, {0x18, 0x01}, {0xa2, 0x01, 0x00, 0x00, 0x00}, {0x81, 0x18, 0x18}}
				m = append(m, vals[c.Free(len(vals), "value")]...)
			}
			var in []byte
			switch c.Free(3, "context") {
			case 0:
				in = m
			case 1:
				in = append([]byte{0x82}, m...)
				in = append(in, 0x00)
			case 2:
				in = append([]byte{0xa1, 0x00}, m...)
			}
			return &c13Case{input: in, family: "maps"}
		},
		Exec:     c13Exec,
		Describe: func(v interface{}) string { return hx(v.(*c13Case).input) },
	}

	// everything the real encoder emits in the subset must be accepted
	encOut := &mc.Harness{
		Name: "C13/encoder-output",
		Run: func(c *mc.Ctx) {
			budget := 5
			root := c13GenItem(c, &budget, 0, 3)
			var heads []int
			var nodes []*c13Node
			want := root.encode(nil, &heads, &nodes)
			if refcbor.Deterministic(want) != nil {
				c.Outcome("tree not deterministic (unsorted/duplicate keys): skipped")
				return
			}
			verdict, detail := c13Run(want)
			c.Eval()
			c.State(want)
			if verdict != "accept" {
				c.Fail("C13/encoder-output:"+hx(want), "deterministic item refused", hx(want), "nil", verdict+": "+detail)
				return
			}
			c.Nontrivial(want)
			c.Outcome("deterministic tree accepted")
		},
	}

	// ... including items whose head argument sits at a head-width boundary: the real encoder's output for uints,
	// string lengths, array counts and map sizes of 23, 24, 255, 256, 65535, 65536 (uints also 2^32-1, 2^32) in
	// three contexts must be accepted (and must be what the reference calls deterministic)
	encBound := &mc.Harness{
		Name: "C13/encoder-output-boundaries",
		Run: func(c *mc.Ctx) {
			vals := []uint64{0, 23, 24, 255, 256, 65535, 65536, 1<<32 - 1, 1 << 32}
			v := vals[c.Free(len(vals), "value")]
			kind := c.Free(5, "kind: uint / bytes / text / array / map")
			if kind != 0 && v > 65536 {
				c.Outcome("skipped: container of 2^32 elements")
				return
			}
			var buf bytes.Buffer
			e := cbor.NewEncoder(&buf)
			ctx := c.Free(3, "context: top / array element / map value")
			switch ctx {
			case 1:
				e.EncodeArrayHeader(2)
				e.EncodeUint(1)
			}
			item := func(e *cbor.Encoder) error {
				switch kind {
				case 0:
					return e.EncodeUint(v)
				case 1:
					return e.EncodeByteString(bytes.Repeat([]byte{7}, int(v)))
				case 2:
					return e.EncodeTextString(strings.Repeat("t", int(v)))
				case 3:
					if err := e.EncodeArrayHeader(int(v)); err != nil {
						return err
					}
					for i := uint64(0); i < v; i++ {
						if err := e.EncodeUint(i & 1); err != nil {
							return err
						}
					}
					return nil
				default:
					var mes []*cbor.MapEntryEncoder
					for i := uint64(0); i < v; i++ {
						i := i
						mes = append(mes, cbor.GenerateMapEntry(func(k, val *cbor.Encoder) { k.EncodeUint(i); val.EncodeUint(0) }))
					}
					return e.EncodeMap(mes)
				}
			}
			var err error
			if ctx == 2 {
				err = e.EncodeMap([]*cbor.MapEntryEncoder{cbor.GenerateMapEntry(func(k, val *cbor.Encoder) { k.EncodeUint(1); err = item(val) })})
			} else {
				err = item(e)
			}
			desc := fmt.Sprintf("encoder output: kind %d, value %d, context %d", kind, v, ctx)
			if err != nil {
				c.Fail("C13/encoder-output-boundaries:"+desc+":encode", "the encoder failed on a plain buffer", desc, "nil", err.Error())
				return
			}
			out := buf.Bytes()
			c.Eval()
			c.State([]byte(desc))
			clip := func(b []byte) string {
				if len(b) > 24 {
					return hx(b[:24]) + fmt.Sprintf("... (%d bytes)", len(b))
				}
				return hx(b)
			}
			if rerr := refcbor.Deterministic(out); rerr != nil {
				c.Outcome("encoder output not deterministic by the reference")
				c.Fail("C13/encoder-output-boundaries:"+desc+":ref", "the encoder's output is not in deterministic form according to the reference recogniser", desc, "deterministic", rerr.Error()+" "+clip(out))
				return
			}
			verdict, detail := c13Run(out)
			if verdict != "accept" {
				c.Outcome("encoder output refused")
				c.Fail("C13/encoder-output-boundaries:"+desc, "Deterministic refuses what the encoder emits", desc+" "+clip(out), "nil", verdict+": "+detail)
				return
			}
			c.Nontrivial([]byte(desc))
			c.Outcome("encoder output accepted")
		},
	}

	register(&mc.Property{
		ID:          "C13",
		Level:       "model_checking",
		Rule:        "choice-tree enumeration of inputs to cbor.Deterministic executed in watchdog-supervised workers: all byte strings of length <=2 (quick) / <=3 (thorough, 16.8 M); all strings of length <=4 (quick) / <=5 (thorough) over a 23-byte grammar alphabet; every head of the subset with an argument from a 32-value boundary list (incl. 2^62, 2^63+-1, 2^64-k for k<=16) in every head width, 0..3 content bytes, in 5 nesting contexts; byte and text strings of 23, 24, 25, 255, 256, 257, 65535, 65536 bytes in 8 contexts (alone, after an item, last array element, last map value, nested twice, followed by an item, as a map key), intact, cut short by 1..10 bytes, or with a declared length off by +1..+9 / -1, -2, -9; every map of 1..3 pairs with keys (with repetition, every order) from an 11-key pool of mixed types/lengths and 4 value shapes in 3 contexts; every generated nested item with <=4 nodes (quick; thorough also <=5 nodes, those unmutated or with a key pair swapped / duplicated or a trailing byte), depth <=3, unmutated and with one mutation (head widened, length/count replaced by each of 9 boundary values (thorough: all 32), key pair swapped/duplicated, truncation at every offset, trailing byte). The real encoder's output for uints, string lengths, array counts and map sizes at 0, 23, 24, 255, 256, 65535, 65536 (uints also 2^32-1, 2^32) in three contexts must be accepted. Oracle: reference recogniser refcbor.Deterministic (total, uint64 arithmetic); panic counts as refusal, non-termination (watchdog) is a violation. Non-trivial = reference made a verdict the implementation matched; distinct by input hash.",
		Assumptions: []string{"refcbor.Deterministic implements RFC 8949 section 4.2.1 for major types 0,2,3,4,5 (text is not required to be valid UTF-8: well-formedness, not validity)", "a panic of cbor.Deterministic is its way of refusing truncated input (required by the repository's own tests)"},
		Harnesses:   []*mc.Harness{all, reduced, wide, long, maps, trees, encOut, encBound},
		Guard: func(s map[string]*mc.Stats) error {
			t := s["C13/generated-items"]
			if t.Executions < 10000 {
				return errors.New("generated-items sweep too small")
			}
			return nil
		},
	})
}
