package main

// C16/independence: the value a parser returns belongs to the caller.  Every history of parse calls in which the
// caller scribbles over everything reachable from each returned value (adds a key to every Params map, overwrites
// every parameter value and label, overwrites every inner-list item, flips the bytes of every byte sequence) must
// leave every later parse - of the same or of another header - equal to the reference parser's value, and
// serializing that later value must give the reference's canonical text.  A parser that hands out a shared map,
// slice or memoised result fails here; no single parse call can show it.

import (
	"fmt"
	"strings"

	sh "github.com/WICG/webpackage/go/signedexchange/structuredheader"
	"github.com/WICG/webpackage/go/signedexchange/zverif/mc"
	"github.com/WICG/webpackage/go/signedexchange/zverif/refsh"
)

type c16Hdr struct {
	lol bool
	in  string
}

var c16IndepMenu = []c16Hdr{
	{false, "a"},
	{false, "x, y"},
	{false, "a;k=1"},
	{false, "a;k"},
	{false, "b, c;n=1"},
	{false, `a;k="s";m=*YQ==*, a`},
	{false, "a;k=1, b;k=2;j=t"},
	{true, "a"},
	{true, "a, b; c"},
	{true, `1;2, "s"`},
	{true, "*YQ==*, *YQ==*;*YWI=*"},
}

func c16ScribblePl(v sh.ParameterisedList) {
	for i := range v {
		if v[i].Params != nil {
			for k, it := range v[i].Params {
				if b, ok := it.([]byte); ok {
					for j := range b {
						b[j] ^= 0xff
					}
				}
				v[i].Params[k] = sh.Token("scribbled")
			}
			v[i].Params["zz"] = int64(7)
		}
		v[i].Label = "scribbled"
	}
}

func c16ScribbleLol(v sh.ListOfLists) {
	for i := range v {
		for j := range v[i] {
			if b, ok := v[i][j].([]byte); ok {
				for k := range b {
					b[k] ^= 0xff
				}
			}
			v[i][j] = sh.Token("scribbled")
		}
		// spare capacity of the inner slice, if any
		if c := v[i][:cap(v[i])]; len(c) > len(v[i]) {
			for j := len(v[i]); j < len(c); j++ {
				c[j] = sh.Token("scribbled")
			}
		}
	}
}

func c16Independence(c *mc.Ctx) {
	depth := c.Pick(3, 4)
	var seq []int
	for len(seq) < depth {
		j := c.Free(len(c16IndepMenu)+1, "parse")
		if j == len(c16IndepMenu) {
			break
		}
		seq = append(seq, j)
	}
	if len(seq) == 0 {
		c.Outcome("empty history")
		return
	}
	var names []string
	for _, j := range seq {
		names = append(names, fmt.Sprintf("%q", c16IndepMenu[j].in))
	}
	hist := strings.Join(names, " > ")
	c.State([]byte(hist))
	if len(seq) >= 2 {
		c.Nontrivial([]byte(hist))
	}
	for step, j := range seq {
		h := c16IndepMenu[j]
		key := fmt.Sprintf("C16/independence:%s:step%d", hist, step)
		desc := fmt.Sprintf("history %s (every earlier result scribbled over by the caller); step %d parses %q", hist, step, h.in)
		c.Transitions(1)
		c.Eval()
		if h.lol {
			want, rerr := refsh.ParseListOfLists(h.in)
			if rerr != nil {
				panic("c16 independence: menu entry refused by the reference: " + h.in)
			}
			v, err, pan := c16ParseLol(h.in)
			got, ok := c16RefLol(v)
			if err != nil || pan != nil || !ok || !refsh.EqualListOfLists(got, want) {
				c.Outcome("VIOLATION later parse differs")
				c.Fail(key, "a parse result depends on what the caller did to the values earlier parse calls returned", desc, want.String(), fmt.Sprintf("err=%v panic=%v value=%v", err, pan, v))
				return
			}
			ws, _ := refsh.SerializeListOfLists(want)
			if s, err, pan := c16StringLol(v); err != nil || pan != nil || s != ws {
				c.Outcome("VIOLATION later serialization differs")
				c.Fail(key+":string", "serializing a freshly parsed value does not give the canonical text (after the caller changed earlier results)", desc, ws, fmt.Sprintf("%q err=%v panic=%v", s, err, pan))
				return
			}
			c16ScribbleLol(v)
		} else {
			want, rerr := refsh.ParseParameterisedList(h.in)
			if rerr != nil {
				panic("c16 independence: menu entry refused by the reference: " + h.in)
			}
			refsh.SortParams(want)
			v, err, pan := c16ParsePl(h.in)
			got, ok := c16RefPl(v)
			if err != nil || pan != nil || !ok || !refsh.EqualParamList(got, want) {
				c.Outcome("VIOLATION later parse differs")
				c.Fail(key, "a parse result depends on what the caller did to the values earlier parse calls returned", desc, want.String(), fmt.Sprintf("err=%v panic=%v value=%v", err, pan, v))
				return
			}
			ws, _ := refsh.SerializeParameterisedList(want)
			if s, err, pan := c16StringPl(v); err != nil || pan != nil || s != ws {
				c.Outcome("VIOLATION later serialization differs")
				c.Fail(key+":string", "serializing a freshly parsed value does not give the canonical text (after the caller changed earlier results)", desc, ws, fmt.Sprintf("%q err=%v panic=%v", s, err, pan))
				return
			}
			c16ScribblePl(v)
		}
	}
	c.Outcome(fmt.Sprintf("%d parses independent", len(seq)))
}

func init() {
	p := props["C16"]
	p.Harnesses = append(p.Harnesses, &mc.Harness{Name: "C16/independence", Run: c16Independence,
		Mode: "operation histories: parse calls whose results the caller overwrites before the next call"})
	p.Rule += " C16/independence: every sequence of <= 3 (quick) / 4 (thorough) parse calls over 11 headers (parameterised lists with and without parameters, repeated labels, byte sequences; lists of lists), the caller overwriting everything reachable from each result (new key in every Params map, every value, label and inner item replaced, byte sequences inverted, spare slice capacity filled) before the next call; every later result must equal the reference parser's value and serialize to the reference's canonical text. Sharing between members of ONE result is not judged."
}
