package main

// C16/independence: the value a parser returns belongs to the caller.  Every history of parse calls in which the
// caller scribbles over everything reachable from each returned value (adds a key to every Params map, overwrites
// every parameter value and label, overwrites every inner-list item, flips the bytes of every byte sequence) must
// leave every later parse - of the same or of another header - equal to the reference parser's value, and
// serializing that later value must give the reference's canonical text.  A parser that hands out a shared map,
// slice or memoised result fails here; no single parse call can show it.

import (
	"fmt"
	"math/big"
	"strings"

	sh "github.com/WICG/webpackage/go/signedexchange/structuredheader"
	"github.com/WICG/webpackage/go/signedexchange/zverif/mc"
	"github.com/WICG/webpackage/go/signedexchange/zverif/refsh"
)

type c16Hdr struct {
	lol bool
	in  string
}

var c16IndepMenu = []c16Hdr{
	{false, "a"},
	{false, "x, y"},
	{false, "a;k=1"},
	{false, "a;k"},
	{false, "b, c;n=1"},
	{false, `a;k="s";m=*YQ==*, a`},
	{false, "a;k=1, b;k=2;j=t"},
	{true, "a"},
	{true, "a, b; c"},
	{true, `1;2, "s"`},
	{true, "*YQ==*, *YQ==*;*YWI=*"},
}

func c16ScribblePl(v sh.ParameterisedList) {
	for i := range v {
		if v[i].Params != nil {
			for k, it := range v[i].Params {
				if b, ok := it.([]byte); ok {
					for j := range b {
						b[j] ^= 0xff
					}
				}
				v[i].Params[k] = sh.Token("scribbled")
			}
			v[i].Params["zz"] = int64(7)
		}
		v[i].Label = "scribbled"
	}
}

func c16ScribbleLol(v sh.ListOfLists) {
	for i := range v {
		for j := range v[i] {
			if b, ok := v[i][j].([]byte); ok {
				for k := range b {
					b[k] ^= 0xff
				}
			}
			v[i][j] = sh.Token("scribbled")
		}
		// spare capacity of the inner slice, if any
		if c := v[i][:cap(v[i])]; len(c) > len(v[i]) {
			for j := len(v[i]); j < len(c); j++ {
				c[j] = sh.Token("scribbled")
			}
		}
	}
}

func c16Independence(c *mc.Ctx) {
	depth := c.Pick(3, 4)
	var seq []int
	for len(seq) < depth {
		j := c.Free(len(c16IndepMenu)+1, "parse")
		if j == len(c16IndepMenu) {
			break
		}
		seq = append(seq, j)
	}
	if len(seq) == 0 {
		c.Outcome("empty history")
		return
	}
	var names []string
	for _, j := range seq {
		names = append(names, fmt.Sprintf("%q", c16IndepMenu[j].in))
	}
	hist := strings.Join(names, " > ")
	c.State([]byte(hist))
	if len(seq) >= 2 {
		c.Nontrivial([]byte(hist))
	}
	for step, j := range seq {
		h := c16IndepMenu[j]
		key := fmt.Sprintf("C16/independence:%s:step%d", hist, step)
		desc := fmt.Sprintf("history %s (every earlier result scribbled over by the caller); step %d parses %q", hist, step, h.in)
		c.Transitions(1)
		c.Eval()
		if h.lol {
			want, rerr := refsh.ParseListOfLists(h.in)
			if rerr != nil {
				panic("c16 independence: menu entry refused by the reference: " + h.in)
			}
			v, err, pan := c16ParseLol(h.in)
			got, ok := c16RefLol(v)
			if err != nil || pan != nil || !ok || !refsh.EqualListOfLists(got, want) {
				c.Outcome("VIOLATION later parse differs")
				c.Fail(key, "a parse result depends on what the caller did to the values earlier parse calls returned", desc, want.String(), fmt.Sprintf("err=%v panic=%v value=%v", err, pan, v))
				return
			}
			ws, _ := refsh.SerializeListOfLists(want)
			if s, err, pan := c16StringLol(v); err != nil || pan != nil || s != ws {
				c.Outcome("VIOLATION later serialization differs")
				c.Fail(key+":string", "serializing a freshly parsed value does not give the canonical text (after the caller changed earlier results)", desc, ws, fmt.Sprintf("%q err=%v panic=%v", s, err, pan))
				return
			}
			c16ScribbleLol(v)
		} else {
			want, rerr := refsh.ParseParameterisedList(h.in)
			if rerr != nil {
				panic("c16 independence: menu entry refused by the reference: " + h.in)
			}
			refsh.SortParams(want)
			v, err, pan := c16ParsePl(h.in)
			got, ok := c16RefPl(v)
			if err != nil || pan != nil || !ok || !refsh.EqualParamList(got, want) {
				c.Outcome("VIOLATION later parse differs")
				c.Fail(key, "a parse result depends on what the caller did to the values earlier parse calls returned", desc, want.String(), fmt.Sprintf("err=%v panic=%v value=%v", err, pan, v))
				return
			}
			ws, _ := refsh.SerializeParameterisedList(want)
			if s, err, pan := c16StringPl(v); err != nil || pan != nil || s != ws {
				c.Outcome("VIOLATION later serialization differs")
				c.Fail(key+":string", "serializing a freshly parsed value does not give the canonical text (after the caller changed earlier results)", desc, ws, fmt.Sprintf("%q err=%v panic=%v", s, err, pan))
				return
			}
			c16ScribblePl(v)
		}
	}
	c.Outcome(fmt.Sprintf("%d parses independent", len(seq)))
}

func init() {
	p := props["C16"]
	p.Harnesses = append(p.Harnesses, &mc.Harness{Name: "C16/independence", Run: c16Independence,
		Mode: "operation histories: parse calls whose results the caller overwrites before the next call"})
	p.Rule += " C16/independence: every sequence of <= 3 (quick) / 4 (thorough) parse calls over 11 headers (parameterised lists with and without parameters, repeated labels, byte sequences; lists of lists), the caller overwriting everything reachable from each result (new key in every Params map, every value, label and inner item replaced, byte sequences inverted, spare slice capacity filled) before the next call; every later result must equal the reference parser's value and serialize to the reference's canonical text. Sharing between members of ONE result is not judged."
}

// C16/numbers: integer literals around every place where an accumulator can overflow: 2^63, 2^64, 2^64+2^63,
// 2^65, 2^66, 2^127, 2^128, 10^18..10^22 (each -2..+2), 19..40 digits of 9, with either sign and with leading
// zeros, as a list member and as a parameter value.  The strings harnesses stop at 7 characters.
func c16Numbers(c *mc.Ctx) {
	var lits []string
	add := func(v *big.Int) {
		for d := int64(-2); d <= 2; d++ {
			x := new(big.Int).Add(v, big.NewInt(d))
			lits = append(lits, x.String(), "-"+x.String())
		}
	}
	for _, k := range []uint{31, 32, 62, 63, 64, 65, 66, 127, 128} {
		add(new(big.Int).Lsh(big.NewInt(1), k))
	}
	add(new(big.Int).Add(new(big.Int).Lsh(big.NewInt(1), 64), new(big.Int).Lsh(big.NewInt(1), 63)))
	add(new(big.Int).Add(new(big.Int).Lsh(big.NewInt(1), 64), big.NewInt(42)))
	add(new(big.Int).Add(new(big.Int).Lsh(big.NewInt(3), 64), big.NewInt(7)))
	for e := int64(17); e <= 23; e++ {
		add(new(big.Int).Exp(big.NewInt(10), big.NewInt(e), nil))
		add(new(big.Int).Mul(big.NewInt(2), new(big.Int).Exp(big.NewInt(10), big.NewInt(e), nil)))
	}
	for n := 18; n <= 40; n++ {
		lits = append(lits, strings.Repeat("9", n), "-"+strings.Repeat("9", n), "1"+strings.Repeat("0", n), strings.Repeat("0", n)+"7")
	}
	lit := lits[c.Free(len(lits), "literal")]
	var b c16Block
	switch c.Free(4, "context") {
	case 0:
		c16CheckLol(c, lit, &b)
	case 1:
		c16CheckLol(c, "a, "+lit+"; 1", &b)
	case 2:
		c16CheckPl(c, "a;k="+lit, &b)
	default:
		c16CheckPl(c, "a;k="+lit+";j=t, b;n="+lit, &b)
	}
	c.State([]byte(lit))
	c.NontrivialByConstruction(1)
	c.Traces(b.strings)
	c.Transitions(b.implOps)
}

func init() {
	p := props["C16"]
	p.Harnesses = append(p.Harnesses, &mc.Harness{Name: "C16/numbers", Run: c16Numbers})
	p.Rule += " C16/numbers: integer literals 2^k-2..2^k+2 for k in {31,32,62,63,64,65,66,127,128}, 2^64+2^63, 2^64+42, 3*2^64+7, 10^e and 2*10^e for e in 17..23 (each -2..+2), 18..40 nines, 1 followed by 18..40 zeros, 18..40 leading zeros, both signs, in 4 contexts (list member, inner-list member, parameter value, two parameter values)."
}
