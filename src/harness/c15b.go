package main

import (
	"bytes"
	"fmt"
	"io"

	"github.com/WICG/webpackage/go/signedexchange/mice"
	"github.com/WICG/webpackage/go/signedexchange/zverif/mc"
	"github.com/WICG/webpackage/go/signedexchange/zverif/refmice"
)

// C15/interleaved-decoders: two (or three) decoders alive at the same time, read
// alternately with small caller buffers.  Every decoder must hand out a prefix of
// ITS OWN committed payload whatever the other decoders do in between (a decoder
// that parks validated output in memory another decoder can reach - a shared or
// recycled record buffer - releases bytes that its digest does not authenticate).
// Mode 2: explicit-state search over read histories; state = bytes delivered so
// far by each decoder.

type c15bStream struct {
	name    string
	enc     mice.Encoding
	payload []byte
	stream  []byte
	digest  string
	honest  bool
}

func c15bStreams() []c15bStream {
	mk := func(name string, enc mice.Encoding, draft int, payload []byte, rs int, corrupt int) c15bStream {
		stream, digest := refmice.Encode(refmice.Draft(draft), payload, rs)
		st := c15bStream{name: name, enc: enc, payload: payload, stream: append([]byte{}, stream...), digest: digest, honest: corrupt < 0}
		if corrupt >= 0 {
			st.stream[corrupt] ^= 0x40
		}
		return st
	}
	// Y carries the digest of A's payload but is fed the honest stream of Z's payload: nothing of it is authenticated by
	// its digest, so Y may hand out nothing - also when the process parses Z's digest (creating Z) while Y is alive
	z := mk("Z:d03 rs4 len9", mice.Draft03Encoding, 3, []byte("zzzzZZZZz"), 4, -1)
	a := mk("A", mice.Draft03Encoding, 3, []byte("AAAAaaaaAAA"), 4, -1)
	y := c15bStream{name: "Y:digest of A's payload, honest stream of Z's payload", enc: mice.Draft03Encoding, payload: a.payload, stream: append([]byte{}, z.stream...), digest: a.digest, honest: false}
	return append(c15bBase(mk), z, y)
}

func c15bBase(mk func(name string, enc mice.Encoding, draft int, payload []byte, rs int, corrupt int) c15bStream) []c15bStream {
	return []c15bStream{
		mk("A:d03 rs4 len11", mice.Draft03Encoding, 3, []byte("AAAAaaaaAAA"), 4, -1),
		mk("B:d03 rs3 len7", mice.Draft03Encoding, 3, []byte("bbbBBBb"), 3, -1),
		mk("C:d02 rs2 len5", mice.Draft02Encoding, 2, []byte("ccCCc"), 2, -1),
		mk("X:d03 rs4 len9, last record corrupted", mice.Draft03Encoding, 3, []byte("xxxxXXXXx"), 4, 8+4+32+4+32),
	}
}

var c15bPool = c15bStreams()

func init() {
	h := &mc.Harness{
		Name: "C15/interleaved-decoders",
		Mode: "explicit-state search over read histories of several live decoders",
		Run: func(c *mc.Ctx) {
			// which decoders take part (pairs quick, also triples thorough), creation order = choice order
			n := 2 + c.Free(c.Pick(1, 2), "decoders")
			var ds []int
			for i := 0; i < n; i++ {
				pool := len(c15bPool)
				if n == 3 {
					pool = 3 // triples: the three honest streams only (keeps the thorough tier in budget)
				}
				ds = append(ds, c.Free(pool, "stream"))
			}
			type live struct {
				st   c15bStream
				r    io.Reader
				got  []byte
				done bool
				err  error
			}
			var lv []*live
			desc := ""
			for _, di := range ds {
				st := c15bPool[di]
				r, err := st.enc.NewDecoder(bytes.NewReader(st.stream), st.digest, 16384)
				if err != nil {
					c.Fail("C15/interleaved:newdecoder:"+st.name, "NewDecoder refused an honest size header", st.name, "decoder", err.Error())
					return
				}
				lv = append(lv, &live{st: st, r: r})
				desc += st.name + " | "
			}
			// sizes: pairs have 7 options per step (7^6 x 16 stream pairs ~ 0.9 M histories quick,
			// 7^7 x 16 ~ 13 M thorough), triples 10 options (10^5 x 27 ~ 3 M thorough)
			depth := c.Pick(6, 7)
			if n == 3 {
				depth = 5
			}
			bufs := []int{1, 3, 64}
			for step := 0; step < depth; step++ {
				// 0 = stop; otherwise (decoder, buffer size)
				k := c.Free(1+len(lv)*len(bufs), "read")
				if k == 0 {
					break
				}
				k--
				d := lv[k/len(bufs)]
				bs := bufs[k%len(bufs)]
				desc += fmt.Sprintf("%c.Read(%d) ", d.st.name[0], bs)
				c.Transitions(1)
				if d.done {
					continue
				}
				buf := make([]byte, bs)
				m, err := d.r.Read(buf)
				d.got = append(d.got, buf[:m]...)
				if err != nil {
					d.done, d.err = true, err
				}
				// judge every decoder after every step
				for _, x := range lv {
					if !bytes.HasPrefix(x.st.payload, x.got) {
						c.Outcome("UNAUTHENTICATED OUTPUT")
						c.Fail("C15/interleaved:"+desc, "a decoder handed out bytes that are not a prefix of the payload its digest commits to while another decoder was being read", desc, fmt.Sprintf("prefix of %q", x.st.payload), fmt.Sprintf("decoder %s delivered %q", x.st.name, x.got))
						return
					}
					if x.err == io.EOF && !bytes.Equal(x.got, x.st.payload) {
						c.Outcome("EARLY EOF")
						c.Fail("C15/interleaved:eof:"+desc, "clean end of stream before the committed payload was delivered", desc, fmt.Sprintf("%q", x.st.payload), fmt.Sprintf("%q then EOF", x.got))
						return
					}
					if x.err == io.EOF && !x.st.honest {
						c.Outcome("CORRUPTED STREAM ACCEPTED")
						c.Fail("C15/interleaved:accept:"+desc, "clean end of stream reported for a corrupted stream", desc, "error", "EOF")
						return
					}
				}
				var key []byte
				for _, x := range lv {
					key = append(key, byte(len(x.got)), 0xff)
				}
				c.State([]byte(fmt.Sprint(ds)), key)
			}
			c.Eval()
			c.Sample(desc)
			c.Nontrivial([]byte(desc))
			c.Outcome(fmt.Sprintf("%d decoders: every delivered prefix authenticated", len(lv)))
		},
	}
	// c15.go (initialised before this file) has registered the property already
	props["C15"].Harnesses = append(props["C15"].Harnesses, h)
}
