package main

// C02 - a signed exchange survives sign -> write -> read -> verify unchanged.
//
// Harness C02/roundtrip (all dimensions are c.Free: the grid is a full product).
//
//	version {1b1,1b2,1b3} x key {A: P-256, B: P-384}
//	x MI record size rs {1,2,16,4096,16384}            (thorough adds 3,17,255,256,16383)
//	x payload length {0,1,rs-1,rs,rs+1,2rs,2rs+1}      (thorough adds 3rs-1,3rs,3rs+1), capped at 40000, duplicates removed
//	x header set (c02HeaderSets: minimal; multi-valued + letter-case variants of names in request and response;
//	  multi-valued Cache-Control, benign and with no-store as second / first / only value; a 65536-byte value;
//	  30 fields; empty values and values holding commas; an uncached field; HEAD; POST; 404; 599)
//	x signature window expires-date {3600}             (thorough, and quick on the rs=16 / minimal-header slice, add 2, 604799 and 604800)
//
// Every exchange is built through the library (NewExchange, MiEncodePayload, AddSignatureHeader with the real
// ECDSA signer), verified in memory at t in {date-1, date, date+1, mid, expires-1, expires, expires+1}, written,
// read back by the reference parser and by ReadExchange, and verified again at the same instants.
//
// Oracle (only what the property states).
//   * Write succeeds (every grid exchange fits the format); the reference parser reads back exactly what was passed
//     in: version, URL, method (b1/b2), status, folded headers (names lower-cased, repeated values comma-joined),
//     Signature header, payload.
//   * ReadExchange returns the same fields (header names compared case-folded).
//   * verdict(before, t) == verdict(after, t) for every t - judged for every header set.
//   * where the generator knows the exchange meets the acceptance policy (judge = full): verdict is true exactly for
//     date <= t <= expires and the returned bytes are the original un-encoded payload, before and after.
//     For sets whose acceptability is C09's subject (no-store, Set-Cookie, POST, unknown status) only the equality
//     of the verdicts is demanded.  One set with non-canonical map keys for Content-Type / Cache-Control is recorded
//     only (http.Header.Get does not see such keys; whether that is the caller's fault is not settled by the text).
//
// Harness C02/limits: 18 executions at the length-field boundaries.
//
//	fallback URL length 65535 / 65536           x {1b1 (control: no 2-byte field), 1b2, 1b3}
//	Signature header length 16384 / 16385       x {1b2, 1b3}   (padded through the unsigned cert-url)
//	Signature header length 2^24-1 / 2^24       x {1b1}
//	header block length 524288 / 524289         x {1b2, 1b3}   (one long header value)
//	header block length 2^24-1 / 2^24           x {1b1}
//
// Oracle: refsxg.Fits decides from the three lengths whether the exchange fits the snapshot's length fields and
// limits.  Over-limit => Write must return an error.  Whenever Write returns nil the reference parser must read
// back what was passed in, ReadExchange must agree, and Verify(date) must give the same verdict as before the
// round trip (true, with the original payload).  The signer is the library's ECDSA signer wrapped so that it
// retries until the DER signature has the most common length, which makes the padded header length exact.

import (
	"bytes"
	"crypto/ecdsa"
	"crypto/rand"
	"crypto/x509"
	"fmt"
	"log"
	"net/http"
	"sort"
	"strings"
	"time"

	"github.com/WICG/webpackage/go/internal/signingalgorithm"
	"github.com/WICG/webpackage/go/signedexchange"
	"github.com/WICG/webpackage/go/signedexchange/zverif/fixtures"
	"github.com/WICG/webpackage/go/signedexchange/zverif/mc"
	"github.com/WICG/webpackage/go/signedexchange/zverif/refsxg"
)

const (
	c02JudgeFull = iota // acceptance known: the whole verdict vector and the payload are judged
	c02JudgeSame        // only verdict(before) == verdict(after)
	c02Record           // recorded, not judged
)

type c02HS struct {
	name   string
	resp   func() []refsxg.Field
	req    []refsxg.Field // b1, b2 only
	method string         // b1, b2 only ("" = GET)
	status int            // 0 = 200
	judge  func(v refsxg.Version) int
	// mayRefuse: the library may decline to MI-encode / sign this exchange (then nothing is claimed);
	// if it agrees, the exchange is judged like any other
	mayRefuse   bool
	caseCollide bool
}

func c02Always(j int) func(refsxg.Version) int { return func(refsxg.Version) int { return j } }

// c02B3Only: the set touches cacheability, which only b3 consults.
func c02B3Only(j int) func(refsxg.Version) int {
	return func(v refsxg.Version) int {
		if v == refsxg.B3 {
			return j
		}
		return c02JudgeFull
	}
}

func c02CT() refsxg.Field {
	return refsxg.Field{Name: "Content-Type", Values: []string{"text/html; charset=utf-8"}}
}

func c02Resp(fs ...refsxg.Field) func() []refsxg.Field {
	return func() []refsxg.Field { return append([]refsxg.Field{c02CT()}, fs...) }
}

func c02F(name string, values ...string) refsxg.Field {
	return refsxg.Field{Name: name, Values: values}
}

var c02HeaderSets = []c02HS{
	{name: "minimal", resp: c02Resp(), judge: c02Always(c02JudgeFull)},
	{name: "multivalue-lettercase",
		resp:  c02Resp(c02F("Foo", "Bar", "Baz"), c02F("x-lower", "l"), c02F("X-UPPER-NAME", "U"), c02F("x-MiXeD", "m1", "m2")),
		req:   []refsxg.Field{c02F("Accept", "*/*"), c02F("accept-LANGUAGE", "en", "fr"), c02F("X-RQ", "q")},
		judge: c02Always(c02JudgeFull)},
	{name: "cachecontrol-benign-multivalue", resp: c02Resp(c02F("Cache-Control", "max-age=60", "public")), judge: c02Always(c02JudgeFull)},
	// RFC 7234 section 3: no-store forbids storing, so b3 should refuse this one; what C02 demands is only
	// that the verdict does not change across the round trip
	{name: "cachecontrol-multivalue", resp: c02Resp(c02F("Cache-Control", "public", "no-store")), judge: c02B3Only(c02JudgeSame)},
	{name: "cachecontrol-nostore-first", resp: c02Resp(c02F("Cache-Control", "no-store", "public")), judge: c02B3Only(c02JudgeSame)},
	{name: "cachecontrol-nostore-single", resp: c02Resp(c02F("Cache-Control", "no-store")), judge: c02B3Only(c02JudgeSame)},
	{name: "longvalue-65536", resp: func() []refsxg.Field {
		return []refsxg.Field{c02CT(), c02F("X-Long", strings.Repeat("L", 65536)), c02F("x-long-name-"+strings.Repeat("n", 250), "v")}
	}, judge: c02Always(c02JudgeFull)},
	{name: "30-fields", resp: func() []refsxg.Field {
		fs := []refsxg.Field{c02CT()}
		for i := 0; i < 30; i++ {
			fs = append(fs, c02F(fmt.Sprintf("X-F%02d", i), fmt.Sprintf("value-%d", i)))
		}
		return fs
	}, judge: c02Always(c02JudgeFull)},
	{name: "empty-and-comma-values", resp: c02Resp(c02F("X-Empty", ""), c02F("X-List", "a, b", "c"), c02F("X-Three", "", "", "")),
		req: []refsxg.Field{c02F("X-Empty-Rq", "")}, judge: c02Always(c02JudgeFull)},
	{name: "uncached-set-cookie", resp: c02Resp(c02F("Set-Cookie", "a=b")), judge: c02Always(c02JudgeSame)},
	{name: "method-head", resp: c02Resp(), method: "HEAD", judge: c02Always(c02JudgeFull)},
	{name: "method-post", resp: c02Resp(), method: "POST", judge: func(v refsxg.Version) int {
		if v == refsxg.B3 {
			return c02JudgeFull // b3 has no method: the exchange is built with GET
		}
		return c02JudgeSame
	}},
	{name: "status-404", resp: c02Resp(), status: 404, judge: c02Always(c02JudgeFull)},
	{name: "status-599", resp: c02Resp(), status: 599, judge: c02Always(c02JudgeSame)},
	// responses that already carry one of the header fields MiEncodePayload adds
	{name: "preexisting-digest-other-algorithm", resp: c02Resp(c02F("Digest", "sha-256=47DEQpj8HBSa+/TImW+5JCeuQeRkm5NMpJWZG3hSuFU=")), judge: c02Always(c02JudgeFull), mayRefuse: true},
	{name: "preexisting-empty-digest", resp: c02Resp(c02F("Digest", "")), judge: c02Always(c02JudgeFull), mayRefuse: true},
	{name: "preexisting-empty-mi-draft2", resp: c02Resp(c02F("Mi-Draft2", "")), judge: c02Always(c02JudgeFull), mayRefuse: true},
	{name: "preexisting-content-encoding", resp: c02Resp(c02F("Content-Encoding", "gzip")), judge: c02Always(c02JudgeFull), mayRefuse: true},
	// one field name stored under four letter cases (only possible by direct map assignment); today the library
	// declines (duplicate CBOR key at sign or write time)
	{name: "one-name-four-cases", resp: c02Resp(c02F("X-Trace", "a"), c02F("x-trace", "b"), c02F("X-TRACE", "c"), c02F("x-Trace", "d")),
		req: []refsxg.Field{c02F("X-Rq", "1"), c02F("x-rq", "2")}, judge: c02Always(c02JudgeFull), mayRefuse: true, caseCollide: true},
	{name: "noncanonical-policy-keys", resp: func() []refsxg.Field {
		return []refsxg.Field{c02F("content-type", "text/html")}
	}, judge: c02Always(c02Record)},
}

type c02Key struct {
	name  string
	key   *ecdsa.PrivateKey
	certs []*x509.Certificate
}

func c02Keys() []c02Key {
	return []c02Key{
		{"P-256", fixtures.A.Key, []*x509.Certificate{fixtures.A.Leaf}},
		{"P-384", fixtures.B.Key, []*x509.Certificate{fixtures.B.Leaf, fixtures.B.CA}},
	}
}

func c02Lens(rs int, thorough bool) []int {
	cand := []int{0, 1, rs - 1, rs, rs + 1, 2 * rs, 2*rs + 1}
	if thorough {
		cand = append(cand, 3*rs-1, 3*rs, 3*rs+1)
	}
	set := map[int]bool{}
	for _, n := range cand {
		if n > 40000 {
			n = 40000
		}
		if n >= 0 {
			set[n] = true
		}
	}
	var out []int
	for n := range set {
		out = append(out, n)
	}
	sort.Ints(out)
	return out
}

// c02Fields turns an http.Header into reference fields (order irrelevant: Fold sorts).
func c02Fields(h http.Header) []refsxg.Field {
	var fs []refsxg.Field
	for k, v := range h {
		fs = append(fs, refsxg.Field{Name: k, Values: v})
	}
	return fs
}

func c02Pairs(ps []refsxg.Pair) string {
	var sb strings.Builder
	for i, p := range ps {
		if i > 0 {
			sb.WriteString(" | ")
		}
		fmt.Fprintf(&sb, "%s: %s", clipS(p.Name), clipS(p.Value))
	}
	return sb.String()
}

type c02Verdict struct {
	ok      bool
	payload []byte
	log     string
	pan     string
}

func c02Verify(e *signedexchange.Exchange, t int64, chainCBOR []byte) (v c02Verdict) {
	defer func() {
		if r := recover(); r != nil {
			v.pan = fmt.Sprint(r)
			v.ok = false
		}
	}()
	var lb bytes.Buffer
	v.payload, v.ok = e.Verify(time.Unix(t, 0), func(string) ([]byte, error) { return chainCBOR, nil }, log.New(&lb, "", 0))
	v.log = strings.TrimSpace(lb.String())
	return
}

// c02Built is one exchange built through the library plus its reference description.
type c02Built struct {
	e        *signedexchange.Exchange
	x        *refsxg.Exchange
	payload  []byte // un-encoded
	chain    []byte
	date     int64
	expires  int64
	wantResp []refsxg.Pair
	wantReq  []refsxg.Pair
	// skipHeaders: the header map holds one name under several letter cases; in which order their values are
	// combined is not specified, so header equality is not judged (everything else, and the verdicts, are)
	skipHeaders bool
}

// c02Compare checks what the reference parser and ReadExchange read back from file
// against what was passed in.  It returns a list of differences.
func c02Compare(b *c02Built, file []byte) (diffs []string, got *signedexchange.Exchange) {
	x := b.x
	p, err := refsxg.ParseFile(file)
	if err != nil {
		diffs = append(diffs, "reference parser: "+err.Error()+" (file starts "+hx(file[:min(len(file), 22)])+")")
	} else {
		if p.Version != x.Version {
			diffs = append(diffs, fmt.Sprintf("reference parser: version %v", p.Version))
		}
		if p.FallbackURL != x.URL {
			diffs = append(diffs, fmt.Sprintf("reference parser: URL field length %d holds %q, passed in %d bytes", p.URLLenField, clipS(p.FallbackURL), len(x.URL)))
		}
		if p.Signature != x.Signature {
			diffs = append(diffs, fmt.Sprintf("reference parser: sigLength field %d, Signature header passed in has %d bytes", p.SigLenField, len(x.Signature)))
		}
		if p.Status != x.Status {
			diffs = append(diffs, fmt.Sprintf("reference parser: status %d", p.Status))
		}
		if x.Version.HasRequest() && p.Method != x.Method {
			diffs = append(diffs, fmt.Sprintf("reference parser: method %q", p.Method))
		}
		if !b.skipHeaders && !refsxg.EqualPairs(p.RespHeaders, b.wantResp) {
			diffs = append(diffs, "reference parser: response headers "+c02Pairs(p.RespHeaders))
		}
		if !b.skipHeaders && !refsxg.EqualPairs(p.ReqHeaders, b.wantReq) {
			diffs = append(diffs, "reference parser: request headers "+c02Pairs(p.ReqHeaders))
		}
		if !bytes.Equal(p.Payload, x.Payload) {
			diffs = append(diffs, fmt.Sprintf("reference parser: payload of %d bytes, passed in %d", len(p.Payload), len(x.Payload)))
		}
	}
	var rerr error
	pan := ""
	func() {
		defer func() {
			if r := recover(); r != nil {
				pan = fmt.Sprint(r)
			}
		}()
		// handed over in a *bytes.Buffer whose storage the caller overwrites right after the call
		store := append([]byte{}, file...)
		buf := bytes.NewBuffer(store)
		got, rerr = signedexchange.ReadExchange(buf)
		buf.Reset()
		for i := range store {
			store[i] = 0xEE
		}
	}()
	if pan != "" || rerr != nil {
		return append(diffs, fmt.Sprintf("ReadExchange: err=%v panic=%q", rerr, pan)), nil
	}
	// the same file through readers that return short reads (one byte at a time; data together
	// with io.EOF): the result must not depend on how the bytes arrive
	for _, style := range []mc.ReadStyle{mc.ReadOneByte, mc.ReadEOFWithData} {
		var g2 *signedexchange.Exchange
		var e2 error
		func() {
			defer func() {
				if r := recover(); r != nil {
					e2 = fmt.Errorf("panic: %v", r)
				}
			}()
			g2, e2 = signedexchange.ReadExchange(mc.NewChunkReader(file, style))
		}()
		if e2 != nil {
			return append(diffs, fmt.Sprintf("ReadExchange through a %v reader: %v", style, e2)), nil
		}
		if g2.RequestURI != got.RequestURI || g2.RequestMethod != got.RequestMethod || g2.ResponseStatus != got.ResponseStatus || g2.SignatureHeaderValue != got.SignatureHeaderValue ||
			!bytes.Equal(g2.Payload, got.Payload) || fmt.Sprint(g2.ResponseHeaders) != fmt.Sprint(got.ResponseHeaders) || fmt.Sprint(g2.RequestHeaders) != fmt.Sprint(got.RequestHeaders) {
			return append(diffs, fmt.Sprintf("ReadExchange through a %v reader returns a different exchange than through bytes.Reader", style)), nil
		}
	}
	if string(got.Version) != x.Version.String() {
		diffs = append(diffs, fmt.Sprintf("ReadExchange: version %v", got.Version))
	}
	if got.RequestURI != x.URL {
		diffs = append(diffs, fmt.Sprintf("ReadExchange: URL %q (%d bytes), passed in %d bytes", clipS(got.RequestURI), len(got.RequestURI), len(x.URL)))
	}
	wantMethod := x.Method
	if !x.Version.HasRequest() {
		wantMethod = "GET"
	}
	if got.RequestMethod != wantMethod {
		diffs = append(diffs, fmt.Sprintf("ReadExchange: method %q", got.RequestMethod))
	}
	if got.ResponseStatus != x.Status {
		diffs = append(diffs, fmt.Sprintf("ReadExchange: status %d", got.ResponseStatus))
	}
	if gp := refsxg.Fold(c02Fields(got.ResponseHeaders)); !b.skipHeaders && !refsxg.EqualPairs(gp, b.wantResp) {
		diffs = append(diffs, "ReadExchange: response headers "+c02Pairs(gp)+" WANT "+c02Pairs(b.wantResp))
	}
	if gp := refsxg.Fold(c02Fields(got.RequestHeaders)); !b.skipHeaders && !refsxg.EqualPairs(gp, b.wantReq) {
		diffs = append(diffs, "ReadExchange: request headers "+c02Pairs(gp)+" WANT "+c02Pairs(b.wantReq))
	}
	if got.SignatureHeaderValue != x.Signature {
		diffs = append(diffs, fmt.Sprintf("ReadExchange: Signature header of %d bytes, passed in %d", len(got.SignatureHeaderValue), len(x.Signature)))
	}
	if !bytes.Equal(got.Payload, x.Payload) {
		diffs = append(diffs, fmt.Sprintf("ReadExchange: payload of %d bytes, passed in %d", len(got.Payload), len(x.Payload)))
	}
	return diffs, got
}

// c02Build builds, MI-encodes and signs an exchange through the library.
func c02Build(ver c08Ver, k c02Key, url, method string, req, resp []refsxg.Field, status int, payload []byte, rs int,
	date, window int64, certURL string, alg signingalgorithm.SigningAlgorithm) (*c02Built, error) {
	var reqH http.Header
	if ver.ref.HasRequest() {
		reqH = c08Header(req)
	} else {
		req, method = nil, "GET"
	}
	e := signedexchange.NewExchange(ver.impl, url, method, reqH, status, c08Header(resp), append([]byte{}, payload...))
	if err := e.MiEncodePayload(rs); err != nil {
		return nil, fmt.Errorf("MiEncodePayload: %v", err)
	}
	s := &signedexchange.Signer{
		Date:        time.Unix(date, 0),
		Expires:     time.Unix(date+window, 0),
		Certs:       k.certs,
		CertUrl:     c08MustURL(certURL),
		ValidityUrl: c08MustURL(c08Origin + "resource.validity"),
		PrivKey:     k.key,
		Algorithm:   alg,
	}
	if err := e.AddSignatureHeader(s); err != nil {
		return nil, fmt.Errorf("AddSignatureHeader: %v", err)
	}
	full := append(append([]refsxg.Field{}, resp...),
		refsxg.Field{Name: "Content-Encoding", Values: []string{refsxg.ContentEncodingName(ver.ref)}},
		refsxg.Field{Name: refsxg.DigestHeaderName(ver.ref), Values: []string{c02LastValue(e.ResponseHeaders, refsxg.DigestHeaderName(ver.ref))}})
	b := &c02Built{e: e, payload: payload, chain: c08ChainCBOR(k.certs), date: date, expires: date + window}
	b.x = &refsxg.Exchange{Version: ver.ref, URL: url, Method: method, ReqHeaders: req, Status: status, RespHeaders: full,
		Signature: e.SignatureHeaderValue, Payload: e.Payload}
	b.wantResp = refsxg.Fold(full)
	b.wantReq = refsxg.Fold(req)
	return b, nil
}

// c02LastValue: the digest MiEncodePayload added is the last value of its header field (the only one unless the
// response already carried that field).
func c02LastValue(h http.Header, name string) string {
	vs := h.Values(name)
	if len(vs) == 0 {
		return ""
	}
	return vs[len(vs)-1]
}

func c02Write(e *signedexchange.Exchange) (out []byte, err error, pan string) {
	defer func() {
		if r := recover(); r != nil {
			pan = fmt.Sprint(r)
		}
	}()
	var buf bytes.Buffer
	err = e.Write(&buf)
	return buf.Bytes(), err, pan
}

const c02Date = int64(1517418800)

var c02URLSpellings = []string{
	c08Origin + "index.html",
	"HTTPS://a.test/index.html",    // upper-case scheme
	c08Origin + "p|q^r{s}",         // path bytes Go would percent-encode on output
	c08Origin + "r\u00e9sum\u00e9", // raw UTF-8 in the path
	c08Origin + "a%2fb/%7Euser",    // escapes Go would re-spell
	c08Origin + "search?",          // empty query
	c08Origin + "x y",              // space
}

func c02Roundtrip(c *mc.Ctx) {
	thorough := !c.Quick()
	ver := c08Vers[c.Free(len(c08Vers), "version")]
	keys := c02Keys()
	k := keys[c.Free(len(keys), "key")]
	rss := []int{1, 2, 16, 4096, 16384}
	if thorough {
		rss = []int{1, 2, 3, 16, 17, 255, 256, 4096, 16383, 16384}
	}
	rs := rss[c.Free(len(rss), "rs")]
	lens := c02Lens(rs, thorough)
	plen := lens[c.Free(len(lens), "payload-len")]
	hs := c02HeaderSets[c.Free(len(c02HeaderSets), "header-set")]
	windows := []int64{3600}
	if thorough {
		windows = []int64{3600, 2, 604799, 604800}
	} else if rs == 16 && hs.name == c02HeaderSets[0].name {
		// quick: the longest lifetime the format allows (and its neighbour, and a 2-second one) on one slice of the grid
		windows = []int64{3600, 2, 604799, 604800}
	}
	window := windows[c.Free(len(windows), "window")]
	// Request-URL spellings that are not fixed points of Go's url.Parse(..).String(): the URL is
	// signed and stored as the caller's bytes, so it must come back byte-identical (offered on
	// the rs=16 slice of the grid only, to keep the product small).
	urlSpelling := c08Origin + "index.html"
	if rs == 16 && hs.name == c02HeaderSets[0].name {
		urlSpelling = c02URLSpellings[c.Free(len(c02URLSpellings), "url-spelling")]
	}

	id := fmt.Sprintf("%s:%s:%s:rs=%d:len=%d:w=%d", hs.name, ver.ref, k.name, rs, plen, window)
	if urlSpelling != c08Origin+"index.html" {
		id += ":url=" + urlSpelling
	}
	key := "C02/" + id
	c.State([]byte(id))
	judge := hs.judge(ver.ref)
	fail := func(class, what, expected, observed string) {
		c.Outcome("VIOLATION " + class)
		c.Fail(key, what, "exchange "+id, expected, observed)
	}

	status := hs.status
	if status == 0 {
		status = 200
	}
	method := hs.method
	if method == "" {
		method = "GET"
	}
	payload := pattern(plen, c.Seed+int64(rs))
	url := urlSpelling
	b, err := c02Build(ver, k, url, method, hs.req, hs.resp(), status, payload, rs, c02Date, window, c08Origin+"cert.cbor", nil)
	if err != nil {
		if hs.mayRefuse {
			c.Outcome(fmt.Sprintf("library declines to encode / sign (nothing claimed): %s %s", hs.name, ver.ref))
			return
		}
		fail("build", "the library refused to build / sign a plain exchange", "nil", err.Error())
		return
	}
	date, expires := b.date, b.expires
	times := []int64{date - 1, date, date + 1, date + window/2, expires - 1, expires, expires + 1}
	before := make([]c02Verdict, len(times))
	for i, t := range times {
		before[i] = c02Verify(b.e, t, b.chain)
	}
	c.Transitions(int64(len(times)))

	file, werr, wpan := c02Write(b.e)
	if werr != nil && wpan == "" && hs.mayRefuse {
		c.Outcome(fmt.Sprintf("library declines to write (nothing claimed): %s %s", hs.name, ver.ref))
		return
	}
	if werr != nil || wpan != "" {
		fail("write", "Write failed on an exchange that fits the format", "nil", fmt.Sprintf("err=%v panic=%q", werr, wpan))
		return
	}
	b.skipHeaders = hs.caseCollide
	diffs, got := c02Compare(b, file)
	c.Eval()
	if len(diffs) > 0 {
		fail("readback", "the written file does not read back as what was passed in", "identical version, URL, method, status, folded headers, Signature header, payload", strings.Join(diffs, "; "))
		return
	}
	after := make([]c02Verdict, len(times))
	for i, t := range times {
		after[i] = c02Verify(got, t, b.chain)
	}
	c.Transitions(int64(len(times)) + 2)
	c.Traces(2)
	c.Eval()

	vec := func(vs []c02Verdict) string {
		s := ""
		for _, v := range vs {
			if v.ok {
				s += "T"
			} else {
				s += "F"
			}
		}
		return s
	}
	for i := range times {
		if before[i].pan != "" || after[i].pan != "" {
			fail("panic", "Verify panicked", "a verdict", before[i].pan+" / "+after[i].pan)
			return
		}
	}
	bv, av := vec(before), vec(after)
	if judge == c02Record {
		c.Outcome(fmt.Sprintf("recorded only (%s %s): verdicts before=%s after=%s", hs.name, ver.ref, bv, av))
		return
	}
	if bv != av {
		i := 0
		for bv[i] == av[i] {
			i++
		}
		fail("verdict-changed", "the Verify verdict differs before and after the write/read round trip",
			"same verdict at every t in {date-1,date,date+1,mid,expires-1,expires,expires+1}",
			fmt.Sprintf("before=%s after=%s; at t=date%+d before log=%q after log=%q", bv, av, times[i]-date, clipS(before[i].log), clipS(after[i].log)))
		return
	}
	if judge == c02JudgeSame {
		c.Outcome(fmt.Sprintf("same verdict before and after (acceptance not judged here): %s %s", ver.ref, bv))
		return
	}
	c.Nontrivial([]byte(id))
	want := ""
	for _, t := range times {
		if t >= date && t <= expires {
			want += "T"
		} else {
			want += "F"
		}
	}
	if bv != want {
		i := 0
		for bv[i] == want[i] {
			i++
		}
		fail("verdict", "Verify does not accept exactly the instants of [date, expires]", want, fmt.Sprintf("before=%s after=%s; at t=date%+d log=%q", bv, av, times[i]-date, clipS(before[i].log)))
		return
	}
	for i := range times {
		if want[i] != 'T' {
			continue
		}
		if !bytes.Equal(before[i].payload, payload) || !bytes.Equal(after[i].payload, payload) {
			fail("payload", "Verify does not return the original un-encoded payload", hx(payload), fmt.Sprintf("t=date%+d before=%s after=%s", times[i]-date, hx(before[i].payload), hx(after[i].payload)))
			return
		}
	}
	c.Outcome(fmt.Sprintf("round trip identical, verdicts %s before and after, payload returned (%s %s)", want, ver.ref, k.name))
	c.Sample(id + " -> file of " + fmt.Sprint(len(file)) + " bytes, verdicts " + want)
}

// ---- length-field boundaries ------------------------------------------------------

// c02FixedLenSigner is the library's ECDSA signer, retried until the DER signature
// has the wanted length, so that a padded Signature header has an exact length.
type c02FixedLenSigner struct {
	inner signingalgorithm.SigningAlgorithm
	want  int
}

func (s *c02FixedLenSigner) Sign(m []byte) ([]byte, error) {
	for {
		sig, err := s.inner.Sign(m)
		if err != nil {
			return nil, err
		}
		if len(sig) == s.want {
			return sig, nil
		}
	}
}

type c02Limit struct {
	kind string // urllen | siglen | hdrlen
	ver  int
	n    int
}

func c02LimitCases() []c02Limit {
	var out []c02Limit
	for _, n := range []int{65535, 65536} {
		for v := 0; v < 3; v++ {
			out = append(out, c02Limit{"urllen", v, n})
		}
	}
	for _, v := range []int{1, 2} {
		out = append(out, c02Limit{"siglen", v, 16384}, c02Limit{"siglen", v, 16385}, c02Limit{"hdrlen", v, 524288}, c02Limit{"hdrlen", v, 524289})
	}
	out = append(out, c02Limit{"siglen", 0, 1<<24 - 1}, c02Limit{"siglen", 0, 1 << 24}, c02Limit{"hdrlen", 0, 1<<24 - 1}, c02Limit{"hdrlen", 0, 1 << 24})
	// the payload has no length field and no limit in any version: bodies whose MI encoding stays below / crosses 16 MiB
	// (2^24, the largest value of the 3-byte fields next to it) must round-trip like any other
	out = append(out, c02Limit{"payload", 1, 1<<24 - 40000}, c02Limit{"payload", 2, 1 << 24}, c02Limit{"payload", 0, 1<<24 + 1<<20 + 1})
	return out
}

func c02Limits(c *mc.Ctx) {
	cases := c02LimitCases()
	lc := cases[c.Free(len(cases), "case")]
	ver := c08Vers[lc.ver]
	k := c02Keys()[0]
	key := fmt.Sprintf("C02/%s:%d:%s", lc.kind, lc.n, ver.ref)
	c.State([]byte(key))
	inner, err := signingalgorithm.SigningAlgorithmForPrivateKey(k.key, rand.Reader)
	if err != nil {
		panic(err)
	}
	alg := &c02FixedLenSigner{inner: inner, want: 71}
	payload := pattern(40, c.Seed)
	fail := func(what, expected, observed string) {
		c.Outcome("VIOLATION " + lc.kind + " " + ver.ref.String())
		c.Fail(key, what, fmt.Sprintf("%s exchange whose %s is %d", ver.ref, lc.kind, lc.n), expected, observed)
	}

	url := c08Origin + "index.html"
	certURL := c08Origin + "c?p="
	resp := []refsxg.Field{c02CT()}
	rs := 16
	if lc.kind == "payload" {
		payload = pattern(lc.n, c.Seed)
		rs = 16384
	}
	build := func() *c02Built {
		b, err := c02Build(ver, k, url, "GET", nil, resp, 200, payload, rs, c02Date, 3600, certURL, alg)
		if err != nil {
			panic("c02: building the boundary exchange: " + err.Error())
		}
		return b
	}
	var b *c02Built
	switch lc.kind {
	case "payload":
		b = build()
	case "urllen":
		url = c08PadURL(lc.n, "u")
		b = build()
	case "siglen":
		b = build()
		certURL += strings.Repeat("p", lc.n-len(b.x.Signature))
		b = build()
	case "hdrlen":
		resp = append(resp, c02F("X-Pad", strings.Repeat("h", 70000)))
		b = build()
		h0, _ := refsxg.HeaderBlock(b.x)
		resp[1] = c02F("X-Pad", strings.Repeat("h", 70000+lc.n-len(h0)))
		b = build()
	}
	hdr, err := refsxg.HeaderBlock(b.x)
	if err != nil {
		panic(err)
	}
	actual := map[string]int{"urllen": len(b.x.URL), "siglen": len(b.x.Signature), "hdrlen": len(hdr), "payload": len(payload)}[lc.kind]
	if actual != lc.n {
		panic(fmt.Sprintf("c02: boundary construction missed its target: %s = %d, wanted %d", lc.kind, actual, lc.n))
	}
	fitErr := refsxg.Fits(ver.ref, len(b.x.URL), len(b.x.Signature), len(hdr))
	if fitErr != nil {
		c.Nontrivial([]byte(key))
	}

	before := c02Verify(b.e, b.date, b.chain)
	file, werr, wpan := c02Write(b.e)
	c.Eval()
	c.Transitions(2)
	if wpan != "" {
		fail("Write panicked", "error or success", wpan)
		return
	}
	if fitErr != nil && werr != nil {
		c.Outcome(fmt.Sprintf("over the limit (%s %s): Write refused", lc.kind, ver.ref))
		c.Sample(key + " -> " + werr.Error())
		return
	}
	if fitErr == nil && werr != nil {
		fail("Write refused an exchange that fits the format's length fields and limits", "nil", werr.Error())
		return
	}
	// Write succeeded: the file must read back as what was passed in
	diffs, got := c02Compare(b, file)
	if fitErr != nil {
		fail("Write emitted a file although the "+map[string]string{"urllen": "fallback URL", "siglen": "Signature header", "hdrlen": "header block"}[lc.kind]+" does not fit the format's length field / limit",
			"error ("+fitErr.Error()+")", fmt.Sprintf("nil error, %d bytes written; reading it back: %s", len(file), strings.Join(diffs, "; ")))
		return
	}
	if len(diffs) > 0 {
		fail("the written file does not read back as what was passed in", "identical fields", strings.Join(diffs, "; "))
		return
	}
	if want, _ := refsxg.File(b.x); !bytes.Equal(want, file) {
		fail("the written file differs from the reference layout", c08Diff(want, file), c08Diff(file, want))
		return
	}
	after := c02Verify(got, b.date, b.chain)
	c.Transitions(2)
	if !before.ok || !after.ok || !bytes.Equal(before.payload, payload) || !bytes.Equal(after.payload, payload) {
		fail("Verify verdict or payload differs across the round trip at the boundary", "valid before and after, original payload",
			fmt.Sprintf("before ok=%v log=%q; after ok=%v log=%q", before.ok, clipS(before.log), after.ok, clipS(after.log)))
		return
	}
	c.Outcome(fmt.Sprintf("at the limit (%s %s): written, read back identically, verifies before and after", lc.kind, ver.ref))
	c.Sample(fmt.Sprintf("%s -> file of %d bytes", key, len(file)))
}

func init() {
	rt := &mc.Harness{Name: "C02/roundtrip", Run: c02Roundtrip}
	lim := &mc.Harness{Name: "C02/limits", Run: c02Limits}
	register(&mc.Property{
		ID:    "C02",
		Level: "model_checking",
		Rule:  "C02/roundtrip: full product (no deviation bound) of version {1b1,1b2,1b3} x key {P-256, P-384} x MI record size {1,2,16,4096,16384; thorough +3,17,255,256,16383} x payload length {0,1,rs-1,rs,rs+1,2rs,2rs+1; thorough +3rs-1,3rs,3rs+1} (<= 40000, duplicates removed) x 20 header sets (minimal; one field name stored under four letter cases (the library may decline; if it signs and writes, verdicts and everything but header equality are judged); four responses that already carry Digest (other algorithm / empty), an empty MI-Draft2 or Content-Encoding before MI-encoding: the library may decline, otherwise the full oracle applies; multi-valued fields with lower/UPPER/MiXeD names in request and response; multi-valued Cache-Control benign / no-store second / first / only; 65536-byte value and 262-byte name; 30 fields; empty and comma-holding values; Set-Cookie; HEAD; POST; 404; 599; non-canonical policy keys (recorded only)) x window {3600; on the rs=16 / minimal-header slice and in thorough +2, 604799, 604800}; each exchange is signed with real ECDSA, verified at 7 instants, written, read back by refsxg and by ReadExchange and verified again at the same instants. C02/limits: the 18 length-field boundary exchanges (fallback URL 65535/65536 in all versions, Signature header 16384/16385 and header block 524288/524289 in b2/b3, both 3-byte fields at 2^24-1/2^24 in b1). A round-trip case is non-trivial when the generator knows it meets the acceptance policy, so the whole verdict vector and the returned payload are judged; a limits case is non-trivial when it is over the limit.",
		Assumptions: []string{
			"refsxg (independent parser / serializer of the file layout) and refcbor are correct",
			"the MI digest value is taken from the implementation (C14 checks MI encoding); the round trip is judged on what the library itself produced when signing",
			"acceptance policy is C09's subject: for header sets that touch it (no-store, Set-Cookie, POST, unknown status) only equality of the verdicts before and after is demanded",
			"header names that differ only in letter case within one header map, non-ASCII names, and non-canonical map keys for Content-Type / Cache-Control / Digest are outside the judged alphabet (the last is recorded)",
			"b1 has no writer-side limit other than its 3-byte length fields (the b1 text quoted in the code says \"larger than TBD\")",
			"payloads above 40000 bytes, record sizes other than the listed ones and verification instants other than the seven listed are represented by their neighbours (small-scope hypothesis)",
		},
		Harnesses: []*mc.Harness{rt, lim},
		Guard: func(s map[string]*mc.Stats) error {
			r, l := s["C02/roundtrip"], s["C02/limits"]
			if r != nil {
				if r.Executions < 1000 || r.States != r.Executions {
					return fmt.Errorf("round-trip grid: %d executions, %d distinct cases", r.Executions, r.States)
				}
			}
			if l != nil {
				if l.Executions != int64(len(c02LimitCases())) || l.Nontrivial != 8 {
					return fmt.Errorf("limits: %d executions, %d over-limit cases (want %d / 8)", l.Executions, l.Nontrivial, len(c02LimitCases()))
				}
			}
			if r == nil && l == nil {
				return fmt.Errorf("no harness ran")
			}
			return nil
		},
	})
}
