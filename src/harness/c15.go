package main

// C15 — the MI decoder releases only data authenticated by the digest.
//
// SPACE.  One execution = one ARTIFACT (stream, digest header value, record size
// limit) decoded by the real mice.NewDecoder/Read under one ENVIRONMENT (how the
// caller reads and how the underlying io.Reader answers).
//
// Bases (Free, swept completely): drafts {02,03} x (rs,len) with rs in {1,2,3} and
// every len 0..3rs+1, plus rs=34 with len {33,34,35} (records long enough to be
// re-read as "record+proof" under a smaller declared record size) x shape
// {honest encoding, "empty last record" variant when len is a multiple of rs}.
// The honest stream comes from the REFERENCE encoder (refmice.Chunks) as a chunk
// sequence: size header, record, proof, record, proof, ..., last record.
//
// Deviation points (c.Dev, each non-default answer costs 1; bound 1 quick, 2 thorough):
//
//	limit    maxRecordSize in {16384 (what the repository's callers pass), rs, rs-1}
//	digest   honest | digest of another base (other content, one byte shorter, one byte
//	         longer, record size rs+1) | other draft's header value | other draft's
//	         algorithm token | unknown token | invalid base64 character | other base64
//	         alphabet | padding added/removed | 31- and 33-byte proof | empty value |
//	         no "=" | same proof with non-zero trailing bits (denotes the same proof)
//	edit 1   one edit of the chunk sequence / stream:
//	           structural: delete chunk i, duplicate chunk i, swap chunks i<j, replace chunk
//	             i by {32 fresh bytes, 1 byte, chunk i of a sibling base with other content},
//	             insert {32 fresh bytes, 1 byte, rs bytes} before chunk i, append a suffix of
//	             length {1,rs-1,rs,rs+1,31,32,33,rs+32,rs+33}, size header :=
//	             {0, rs-1, rs+1, rs+-32, rs+-33, "all the rest is one record", 16384, 16385,
//	             2^32+rs, rs<<56, 2^63, 2^64-1};
//	           fine: truncate the stream after EVERY byte, flip EVERY single bit of the stream
//	edit 2   (only after a structural edit 1) any edit again, on the edited sequence; in the
//	         quick tier its bit flips are reduced to every bit of the first 8 bytes plus one
//	         bit (index = offset mod 8) of every other byte
//	reader   (profile 0 only) per call of the underlying Read: all requested bytes (default) |
//	         1 byte | the remaining data together with io.EOF | (0, injected error) |
//	         (1 byte, injected error); the error is transient (later calls continue)
//	buf      (profile 0 only) per decoder Read: caller buffer 4096 (default) | 0 | 1 | 2 | rs | rs+33
//
// Environment profiles (Free): 0 = bulk reads with the deviation points above;
// 1 = caller buffer 1 and a reader that returns one byte per call; 2 = caller
// buffer rs+33 and a reader that returns (n, io.EOF) together at the end;
// 3 = caller buffer 2 and a reader that returns at most 7 bytes per call.
//
// After the first error (or EOF) the harness keeps calling Read three more times.
//
// Harnesses: C15/decoder (all bases; bound 1 quick, 2 thorough), C15/decoder-pairs-small
// (quick tier only: bound 2 over the bases (rs,len) in {(1,0),(1,1),(1,2),(2,2),(2,3),(2,5)}),
// C15/record-size-limit (isolated subprocess sweep of the size field, see below).  Artifacts
// whose declared record size is above 2^20 AND must be refused are not run inside the explorer
// process (a decoder that fails to refuse them dies with an unrecoverable out-of-memory
// error); they are counted under the outcome "not executed in-process" and the clause is
// decided for them by C15/record-size-limit on first-order artifacts only.
//
// ORACLE.  Differential against refmice.DecodeDetail(stream, digest, limit), which
// defines "authenticated" (see package refmice):
//
//	R1  bytes delivered before the first error are a prefix of the authenticated payload;
//	R2  io.EOF as first error only if the reference finds the stream clean and every
//	    authenticated byte was delivered;
//	R3  record size zero / above the limit: NewDecoder returns an error and the harness
//	    reader has handed out at most the 8 bytes of the size field;
//	R4  everything delivered, including what is handed out by the reads AFTER the first
//	    error, is a prefix of the payload the digest commits to (known to the generator:
//	    the payload of the base the digest was taken from; nothing for digests that denote
//	    no proof);
//	R5  no panic.
//
// Deliberately NOT demanded (the property is a safety property; nothing here asks the
// decoder to accept anything): that a clean stream is decoded successfully (C14 checks
// that for honest streams), which error value is returned, what Read returns after the
// first error besides data, behaviour for maxRecordSize above 16384 (a limit of 2^63
// makes the implementation allocate what the stream asks for - a caller
// misconfiguration, outside "above the caller's limit"), readers that return (0, nil).

import (
	"bytes"
	"encoding/binary"
	"errors"
	"fmt"
	"io"
	"runtime/debug"
	"strings"
	"sync"

	"github.com/WICG/webpackage/go/signedexchange/zverif/mc"
	"github.com/WICG/webpackage/go/signedexchange/zverif/refmice"
)

const c15Limit = 16384

// ---- bases -----------------------------------------------------------------

type c15Base struct {
	d       miDraft
	rs, n   int
	emptyFn bool // "empty last record" shape
	payload []byte
	chunks  [][]byte // honest chunk sequence (read-only)
	digest  string
	proof   []byte
}

type c15BaseKey struct {
	seed    int64
	draft   int
	rs, n   int
	content int
	emptyFn bool
}

var c15BaseCache sync.Map

// c15GetBase builds (and caches) a base from the reference encoder.
func c15GetBase(seed int64, di, rs, n, content int, emptyFn bool) *c15Base {
	k := c15BaseKey{seed, di, rs, n, content, emptyFn}
	if v, ok := c15BaseCache.Load(k); ok {
		return v.(*c15Base)
	}
	d := miDrafts[di]
	b := &c15Base{d: d, rs: rs, n: n, emptyFn: emptyFn, payload: miContent(n, seed, content)}
	if emptyFn {
		stream, dg := refmice.EncodeEmptyFinal(d.ref, b.payload, rs)
		// chunk it: header, then units of rs+32
		b.chunks = append(b.chunks, stream[:8])
		rest := stream[8:]
		for len(rest) > 0 {
			b.chunks = append(b.chunks, rest[:rs], rest[rs:rs+32])
			rest = rest[rs+32:]
		}
		b.digest = dg
	} else {
		for _, ch := range refmice.Chunks(d.ref, b.payload, rs) {
			b.chunks = append(b.chunks, ch.Bytes)
		}
		stream, dg := refmice.Encode(d.ref, b.payload, rs)
		if !bytes.Equal(stream, bytes.Join(b.chunks, nil)) {
			panic("refmice: Chunks and Encode disagree")
		}
		b.digest = dg
	}
	p, ok := refmice.ParseDigest(d.ref, b.digest)
	if !ok {
		panic("refmice: cannot parse own digest")
	}
	b.proof = p
	v, _ := c15BaseCache.LoadOrStore(k, b)
	return v.(*c15Base)
}

type c15Shape struct{ rs, n int }

func c15Shapes() []c15Shape {
	var out []c15Shape
	for rs := 1; rs <= 3; rs++ {
		for n := 0; n <= 3*rs+1; n++ {
			out = append(out, c15Shape{rs, n})
		}
	}
	return append(out, c15Shape{34, 33}, c15Shape{34, 34}, c15Shape{34, 35})
}

var c15ShapeList = c15Shapes()

// ---- digest variants --------------------------------------------------------

type c15Digest struct {
	name      string
	value     string
	committed []byte // payload the value commits to; nil with known=false: none
	known     bool
}

func c15OtherAlphabet(s string) string {
	r := strings.NewReplacer("+", "-", "/", "_", "-", "+", "_", "/")
	return r.Replace(s)
}

func c15DigestVariants(seed int64, di int, b *c15Base) []c15Digest {
	d := b.d.ref
	other := miDrafts[1-di].ref
	alg := d.Algorithm()
	b64 := b.digest[len(alg)+1:]
	out := []c15Digest{{"honest", b.digest, b.payload, true}}
	add := func(name string, ob *c15Base) {
		out = append(out, c15Digest{name, ob.digest, ob.payload, true})
	}
	add("other-content", c15GetBase(seed, di, b.rs, b.n, 1, b.emptyFn))
	if b.n > 0 && !b.emptyFn {
		add("one-byte-shorter", c15GetBase(seed, di, b.rs, b.n-1, 0, false))
	}
	if !b.emptyFn {
		add("one-byte-longer", c15GetBase(seed, di, b.rs, b.n+1, 0, false))
		add("rs+1", c15GetBase(seed, di, b.rs+1, b.n, 0, false))
	}
	none := func(name, v string) { out = append(out, c15Digest{name, v, nil, false}) }
	none("other-draft-value", refmice.FormatDigest(other, b.proof))
	none("other-draft-token", other.Algorithm()+"="+b64)
	none("unknown-token", "sha-256="+b64)
	none("bad-base64-char", alg+"="+b64[:5]+"!"+b64[6:])
	otherB64 := refmice.FormatDigest(other, b.proof)[len(other.Algorithm())+1:]
	none("other-alphabet", alg+"="+otherB64)
	if d == refmice.Draft03 {
		none("padding-removed", alg+"="+strings.TrimRight(b64, "="))
	} else {
		none("padding-added", alg+"="+b64+"=")
	}
	short := refmice.FormatDigest(d, b.proof[:31])
	none("31-byte-proof", short)
	none("33-byte-proof", refmice.FormatDigest(d, append(append([]byte{}, b.proof...), 0)))
	none("empty-value", alg+"=")
	none("no-equals", alg)
	// same proof, non-canonical trailing bits in the last significant character:
	// 32 bytes = 43 characters, the last one carries 4 bits + 2 padding bits
	sig := strings.TrimRight(b64, "=")
	const std, url = "ABCDEFGHIJKLMNOPQRSTUVWXYZabcdefghijklmnopqrstuvwxyz0123456789+/", "ABCDEFGHIJKLMNOPQRSTUVWXYZabcdefghijklmnopqrstuvwxyz0123456789-_"
	alpha := std
	if d == refmice.Draft02 {
		alpha = url
	}
	if i := strings.IndexByte(alpha, sig[len(sig)-1]); i >= 0 && i&3 == 0 {
		v := alg + "=" + sig[:len(sig)-1] + string(alpha[i|1]) + b64[len(sig):]
		out = append(out, c15Digest{"trailing-bits", v, b.payload, true})
	}
	return out
}

// ---- edits -----------------------------------------------------------------

func c15Fresh(n int, seed int64) []byte { return pattern(n, seed*131+424243) }

func c15Dedupe(in []uint64, drop uint64) []uint64 {
	var out []uint64
	for _, v := range in {
		dup := v == drop
		for _, w := range out {
			if w == v {
				dup = true
			}
		}
		if !dup {
			out = append(out, v)
		}
	}
	return out
}

func c15Total(ch [][]byte) int {
	t := 0
	for _, x := range ch {
		t += len(x)
	}
	return t
}

type c15EditSpace struct {
	ch      [][]byte
	rs      int
	seed    int64
	sib     [][]byte
	n, L    int
	insLens []uint64
	sufLens []uint64
	hdrVals []uint64
	second  bool // edit 2 in the quick tier: bit flips reduced to all 64 bits of the first 8 bytes + one bit of every other byte
	hdrBits int
	cat     [9]int
	total   int
}

func c15NewEditSpace(ch [][]byte, rs int, seed int64, sib [][]byte, second bool) *c15EditSpace {
	s := &c15EditSpace{ch: ch, rs: rs, seed: seed, sib: sib, n: len(ch), L: c15Total(ch), second: second}
	r := uint64(rs)
	s.insLens = c15Dedupe([]uint64{32, 1, r}, 0)
	s.sufLens = c15Dedupe([]uint64{1, r - 1, r, r + 1, 31, 32, 33, r + 32, r + 33}, 0)
	if s.n > 0 && len(ch[0]) == 8 {
		cur := binary.BigEndian.Uint64(ch[0])
		cand := []uint64{0, r - 1, r + 1, r + 32, r + 33, uint64(s.L - 8), c15Limit, c15Limit + 1, 1<<32 + r, r << 56, 1 << 63, 1<<64 - 1}
		if r > 32 {
			cand = append(cand, r-32)
		}
		if r > 33 {
			cand = append(cand, r-33)
		}
		s.hdrVals = c15Dedupe(cand, cur)
	}
	flips := 8 * s.L
	if second {
		s.hdrBits = 64
		if s.L < 8 {
			s.hdrBits = 8 * s.L
		}
		flips = s.hdrBits + (s.L - s.hdrBits/8)
	}
	s.cat = [9]int{s.n, s.n, s.n * (s.n - 1) / 2, 3 * s.n, s.n * len(s.insLens), len(s.sufLens), len(s.hdrVals), s.L, flips}
	for _, v := range s.cat {
		s.total += v
	}
	return s
}

func c15Clone(ch [][]byte) [][]byte { return append([][]byte{}, ch...) }

// apply performs edit k (0 <= k < total) and returns the new chunk sequence, a
// description, and whether the edit is structural (a second edit may follow).
func (s *c15EditSpace) apply(k int) ([][]byte, string, bool) {
	ch := s.ch
	c := 0
	for c < len(s.cat) && k >= s.cat[c] {
		k -= s.cat[c]
		c++
	}
	switch c {
	case 0:
		out := append(c15Clone(ch[:k]), ch[k+1:]...)
		return out, fmt.Sprintf("del#%d", k), true
	case 1:
		out := append(c15Clone(ch[:k+1]), ch[k:]...)
		return out, fmt.Sprintf("dup#%d", k), true
	case 2:
		i := 0
		for k >= s.n-1-i {
			k -= s.n - 1 - i
			i++
		}
		j := i + 1 + k
		out := c15Clone(ch)
		out[i], out[j] = out[j], out[i]
		return out, fmt.Sprintf("swap#%d,%d", i, j), true
	case 3:
		i, v := k/3, k%3
		out := c15Clone(ch)
		switch v {
		case 0:
			out[i] = c15Fresh(32, s.seed)
			return out, fmt.Sprintf("repl#%d:fresh32", i), true
		case 1:
			out[i] = []byte{0xA5}
			return out, fmt.Sprintf("repl#%d:1byte", i), true
		default:
			if i < len(s.sib) {
				out[i] = s.sib[i]
			} else {
				out[i] = c15Fresh(len(ch[i]), s.seed+1)
			}
			return out, fmt.Sprintf("repl#%d:sibling", i), true
		}
	case 4:
		i, v := k/len(s.insLens), k%len(s.insLens)
		ins := c15Fresh(int(s.insLens[v]), s.seed+2)
		out := append(c15Clone(ch[:i]), ins)
		out = append(out, ch[i:]...)
		return out, fmt.Sprintf("ins@%d:%dbytes", i, len(ins)), true
	case 5:
		suf := c15Fresh(int(s.sufLens[k]), s.seed+3)
		return append(c15Clone(ch), suf), fmt.Sprintf("app+%d", len(suf)), true
	case 6:
		out := c15Clone(ch)
		h := make([]byte, 8)
		binary.BigEndian.PutUint64(h, s.hdrVals[k])
		out[0] = h
		return out, fmt.Sprintf("hdr=%d", s.hdrVals[k]), true
	case 7:
		flat := bytes.Join(ch, nil)
		return [][]byte{flat[:k]}, fmt.Sprintf("trunc@%d", k), false
	default:
		flat := bytes.Join(ch, nil)
		pos, bit := k/8, k%8
		if s.second && k >= s.hdrBits {
			pos = s.hdrBits/8 + (k - s.hdrBits)
			bit = pos % 8
		}
		flat[pos] ^= 1 << uint(bit)
		return [][]byte{flat}, fmt.Sprintf("flip@%d.%d", pos, bit), false
	}
}

// ---- environment -------------------------------------------------------------

var errC15Injected = errors.New("c15: injected reader error")

type c15Reader struct {
	c      *mc.Ctx
	data   []byte
	pos    int
	prof   int
	calls  int
	served int
	faults int
	noDev  bool // Exec of the isolated harness: no choice points, default answers only
	sig    []byte
}

func (r *c15Reader) give(p []byte, n int, err error) (int, error) {
	copy(p, r.data[r.pos:r.pos+n])
	r.pos += n
	r.served += n
	return n, err
}

func (r *c15Reader) Read(p []byte) (int, error) {
	r.calls++
	want, rem := len(p), len(r.data)-r.pos
	avail := want
	if rem < avail {
		avail = rem
	}
	switch r.prof {
	case 1, 3:
		if want == 0 {
			return 0, nil
		}
		if rem == 0 {
			return 0, io.EOF
		}
		max := 1
		if r.prof == 3 {
			max = 7
		}
		if avail > max {
			avail = max
		}
		return r.give(p, avail, nil)
	case 2:
		if rem <= want {
			return r.give(p, rem, io.EOF)
		}
		return r.give(p, want, nil)
	}
	// profile 0: default answer plus deviation alternatives
	const (
		aDefault = iota
		aOne
		aDataEOF
		aErr0
		aErr1
	)
	alts := [5]int{aDefault}
	na := 1
	if avail > 1 {
		alts[na] = aOne
		na++
	}
	if rem > 0 && rem <= want {
		alts[na] = aDataEOF
		na++
	}
	alts[na] = aErr0
	na++
	if avail >= 1 && want > 1 {
		alts[na] = aErr1
		na++
	}
	a := aDefault
	if r.calls <= 24 && !r.noDev {
		a = alts[r.c.Dev(na, "reader")]
	}
	if a != aDefault {
		r.sig = append(r.sig, 'r', byte(r.calls), byte(a))
	}
	switch a {
	case aOne:
		return r.give(p, 1, nil)
	case aDataEOF:
		return r.give(p, rem, io.EOF)
	case aErr0:
		r.faults++
		return 0, errC15Injected
	case aErr1:
		r.faults++
		return r.give(p, 1, errC15Injected)
	}
	if rem == 0 {
		return 0, io.EOF
	}
	return r.give(p, avail, nil)
}

var c15BufPool = sync.Pool{New: func() interface{} { return make([]byte, 4096) }}

type c15Obs struct {
	newErr      error
	servedAtNew int
	pre         []byte
	firstErr    error
	post        []byte
	postErrs    []error
	reads       int
	capHit      bool
	badN        string
	panicked    interface{}
}

// c15Drive runs the real decoder over the artifact in the environment.
func c15Drive(c *mc.Ctx, b *c15Base, stream []byte, digest string, limit uint64, prof int, rd *c15Reader) (o c15Obs) {
	defer func() {
		if r := recover(); r != nil {
			o.panicked = r
		}
	}()
	dec, err := b.d.impl.NewDecoder(rd, digest, limit)
	o.servedAtNew = rd.served
	if err != nil {
		o.newErr = err
		return
	}
	if dec == nil {
		o.badN = "NewDecoder returned (nil, nil)"
		return
	}
	sizes := [6]int{4096}
	ns := 1
	for _, s := range []int{0, 1, 2, b.rs, b.rs + 33} {
		dup := false
		for _, t := range sizes[:ns] {
			if t == s {
				dup = true
			}
		}
		if !dup {
			sizes[ns] = s
			ns++
		}
	}
	defSize := 4096
	switch prof {
	case 1:
		defSize = 1
	case 2:
		defSize = b.rs + 33
	case 3:
		defSize = 2
	case 4:
		defSize = 1
		rd.noDev = true
	}
	buf := c15BufPool.Get().([]byte)
	defer c15BufPool.Put(buf)
	read := func() (int, error) {
		size := defSize
		o.reads++
		if prof == 0 && o.reads <= 16 && !rd.noDev {
			if k := c.Dev(ns, "buf"); k != 0 {
				size = sizes[k]
				rd.sig = append(rd.sig, 'b', byte(o.reads), byte(k))
			}
		}
		for i := 0; i < size && i < 64; i++ {
			buf[i] = 0xEE
		}
		n, err := dec.Read(buf[:size])
		if n < 0 || n > size {
			o.badN = fmt.Sprintf("Read returned n=%d for a buffer of %d", n, size)
			n = 0
		}
		return n, err
	}
	const maxReads = 400
	if prof == 4 {
		// a consumer that peeks with a small Read and hands the rest to io.Copy (which uses the decoder's
		// WriteTo if it has one); io.Copy's nil error is the clean end of the stream
		n, err := read()
		o.pre = append(o.pre, buf[:n]...)
		if err != nil {
			o.firstErr = err
		} else {
			w := &c14PlainWriter{}
			_, cerr := io.Copy(w, dec)
			o.reads++
			o.pre = append(o.pre, w.b...)
			o.firstErr = cerr
			if cerr == nil {
				o.firstErr = io.EOF
			}
		}
		for i := 0; i < 3; i++ {
			n, err := read()
			o.post = append(o.post, buf[:n]...)
			o.postErrs = append(o.postErrs, err)
		}
		return
	}
	for {
		if o.reads >= maxReads {
			o.capHit = true
			return
		}
		n, err := read()
		o.pre = append(o.pre, buf[:n]...)
		if err != nil {
			o.firstErr = err
			break
		}
	}
	for i := 0; i < 3; i++ {
		n, err := read()
		o.post = append(o.post, buf[:n]...)
		o.postErrs = append(o.postErrs, err)
	}
	return
}

// ---- the harness --------------------------------------------------------------

// c15Case is one artifact plus environment profile.
type c15Case struct {
	b       *c15Base
	di      int
	prof    int
	limit   uint64
	dg      c15Digest
	edits   []string
	stream  []byte
	noDev   bool
	harness string
}

func (cs *c15Case) id(rd *c15Reader) string {
	env := ""
	if rd != nil && len(rd.sig) > 0 {
		env = fmt.Sprintf("/env=%x", rd.sig)
	}
	ef := ""
	if cs.b.emptyFn {
		ef = "+emptyfinal"
	}
	return fmt.Sprintf("%s/rs%d/n%d%s/lim%d/dg=%s/e=%s/p%d%s", cs.b.d.ref, cs.b.rs, cs.b.n, ef, cs.limit, cs.dg.name, strings.Join(cs.edits, "+"), cs.prof, env)
}

// CaseKey gives crashes/hangs detected by the parent of an isolated worker a stable key.
func (cs *c15Case) CaseKey() string { return "C15/crash:" + cs.id(nil) }

func (cs *c15Case) input() string {
	return fmt.Sprintf("stream=%s digest=%q limit=%d", hx(cs.stream), cs.dg.value, cs.limit)
}

// c15HugeSize: declared record sizes above this are never handed to the real
// decoder inside the explorer process when the reference says "must refuse": an
// implementation that fails to refuse them allocates what the stream asks for and
// takes the whole process down (fatal out-of-memory cannot be recovered).  Those
// artifacts are executed by C15/record-size-limit in supervised subprocesses.
const c15HugeSize = 1 << 20

var c15MemOnce sync.Once

func c15Run(c *mc.Ctx) { c15RunShapes(c, c15ShapeList, "C15/decoder") }

// c15RunPairs is the bound-2 sweep of the quick tier over the small shapes only; in
// the thorough tier C15/decoder already runs bound 2 over a superset.
func c15RunPairs(c *mc.Ctx) {
	if !c.Quick() {
		// one honest decode so that the counters of this harness stay truthful
		c.Outcome("subsumed by C15/decoder (bound 2 over all shapes) in this tier")
		b := c15GetBase(c.Seed, 1, 2, 5, 0, false)
		c15Check(c, &c15Case{b: b, di: 1, limit: c15Limit, dg: c15Digest{"honest", b.digest, b.payload, true}, stream: bytes.Join(b.chunks, nil), noDev: true, harness: "C15/decoder-pairs-small"})
		return
	}
	c15RunShapes(c, c15ShapeListPairs, "C15/decoder-pairs-small")
}

var c15ShapeListPairs = []c15Shape{{1, 0}, {1, 1}, {1, 2}, {2, 2}, {2, 3}, {2, 5}}

func c15RunShapes(c *mc.Ctx, shapeList []c15Shape, hname string) {
	// The explorer keeps every pending leaf prefix of the bound-2 tree in memory
	// (millions of short slices) and the binary runs with GC percent 400; a soft
	// memory limit keeps the resident size of the thorough tier (19 M executions) around 4 GiB.  This
	// changes no result.
	c15MemOnce.Do(func() { debug.SetMemoryLimit(4 << 30) })
	di := c.Free(len(miDrafts), "draft")
	sh := shapeList[c.Free(len(shapeList), "shape")]
	emptyFn := false
	if sh.n%sh.rs == 0 && !(sh.n == 0 && di == 0) {
		emptyFn = c.Free(2, "emptyfinal") == 1
	}
	prof := c.Free(5, "profile")
	b := c15GetBase(c.Seed, di, sh.rs, sh.n, 0, emptyFn)
	sib := c15GetBase(c.Seed, di, sh.rs, sh.n, 1, emptyFn)

	limits := c15Dedupe([]uint64{c15Limit, uint64(sh.rs), uint64(sh.rs - 1)}, 1<<64-1)
	limit := limits[c.Dev(len(limits), "limit")]
	dvs := c15DigestVariants(c.Seed, di, b)
	dg := dvs[c.Dev(len(dvs), "digest")]

	ch := b.chunks
	var edits []string
	es := c15NewEditSpace(ch, sh.rs, c.Seed, sib.chunks, false)
	if k := c.Dev(es.total+1, "edit1"); k > 0 {
		var d string
		var structural bool
		ch, d, structural = es.apply(k - 1)
		edits = append(edits, d)
		if structural {
			es2 := c15NewEditSpace(ch, sh.rs, c.Seed, sib.chunks, c.Quick())
			if k2 := c.Dev(es2.total+1, "edit2"); k2 > 0 {
				ch, d, _ = es2.apply(k2 - 1)
				edits = append(edits, d)
			}
		}
	}
	cs := &c15Case{b: b, di: di, prof: prof, limit: limit, dg: dg, edits: edits, stream: bytes.Join(ch, nil), harness: hname}
	c15Check(c, cs)
}

// c15Check computes the reference verdict, runs the real decoder and applies R1-R5.
func c15Check(c *mc.Ctx, cs *c15Case) {
	b, stream, dg, limit, prof := cs.b, cs.stream, cs.dg, cs.limit, cs.prof
	tampered := len(cs.edits) > 0 || limit != c15Limit || dg.name != "honest"

	// reference verdict (generator side)
	ref := refmice.DecodeDetail(b.d.ref, stream, dg.value, limit)
	c.Eval()
	c.Outcome("ref: " + ref.Stage)
	partial := !ref.Clean && len(ref.Authenticated) > 0
	if partial {
		c.Outcome("ref: partial release (some records authenticated, stream not clean)")
	}
	if ref.EmptyFinal {
		c.Outcome("ref: clean only through an empty last record (decoder may refuse)")
	}
	input := cs.input
	if !bytes.HasPrefix(dg.committed, ref.Authenticated) {
		// cannot happen short of a SHA-256 collision or an error in refmice / this generator
		c.Fail("C15/HARNESS-SELFCHECK:"+cs.id(nil), "reference authenticated bytes that are not a prefix of the payload the digest was generated from (harness/reference error)", input(), hx(dg.committed), hx(ref.Authenticated))
		return
	}
	if tampered && !ref.Refused && ref.RecordSize != 0 {
		// rule: a tampered artifact whose fate is decided by the hash chain
		c.Nontrivial([]byte{byte(cs.di)}, []byte(dg.value), stream, []byte{byte(limit), byte(limit >> 8)})
	}
	if ref.Refused && ref.RecordSize > c15HugeSize && !cs.noDev {
		c.Outcome("not executed in-process: huge declared record size, delegated to C15/record-size-limit")
		return
	}
	if ref.Refused && cs.noDev {
		c.Nontrivial([]byte{byte(cs.di)}, []byte(dg.value), stream, []byte{byte(limit), byte(limit >> 8)})
	}

	rd := &c15Reader{c: c, data: stream, prof: prof, noDev: cs.noDev}
	o := c15Drive(c, b, stream, dg.value, limit, prof, rd)
	c.Traces(1)
	c.Transitions(int64(o.reads + rd.calls))
	c.State([]byte{byte(cs.di), byte(prof), byte(limit), byte(limit >> 8)}, []byte(dg.value), stream, rd.sig)
	id := cs.id(rd)

	// classify the implementation's behaviour (informative)
	var cls string
	switch {
	case o.panicked != nil:
		cls = "panic"
	case o.newErr != nil:
		cls = "NewDecoder refused"
	case o.capHit:
		cls = "read cap hit"
	case o.firstErr == io.EOF && len(o.pre) == 0:
		cls = "empty payload, clean EOF"
	case o.firstErr == io.EOF:
		cls = "payload delivered, clean EOF"
	case o.firstErr == errC15Injected:
		cls = "injected reader error surfaced"
	case len(o.pre) == 0:
		cls = "error before any data"
	default:
		cls = "some records delivered, then error"
	}
	if len(o.post) > 0 {
		cls += " (+data after the first error)"
	}
	short := "invalid"
	switch {
	case ref.Refused:
		short = "must-refuse"
	case ref.Clean && ref.EmptyFinal:
		short = "clean(empty last record)"
	case ref.Clean:
		short = "clean"
	case partial:
		short = "partial"
	}
	c.Outcome("impl: " + cls + " | ref: " + short)
	if v := c.Vector(); len(v) > 0 && (len(stream)+o.reads+len(v))%7 == 0 {
		c.Sample(fmt.Sprintf("%s: ref stage=%q authenticated=%d clean=%v; impl %s, delivered %d", id, ref.Stage, len(ref.Authenticated), ref.Clean, cls, len(o.pre)))
	}

	expect := func() string {
		return fmt.Sprintf("authenticated=%s clean=%v refused=%v (reference stage: %s)", hx(ref.Authenticated), ref.Clean, ref.Refused, ref.Stage)
	}
	observe := func() string {
		return fmt.Sprintf("NewDecoder err=%v (reader had served %d bytes); delivered=%s firstErr=%v; after the error: data=%s errs=%v", o.newErr, o.servedAtNew, hx(o.pre), o.firstErr, hx(o.post), o.postErrs)
	}
	if o.panicked != nil {
		c.Outcome("VIOLATION panic")
		c.Fail("C15/panic:"+id, "decoder panicked", input(), expect(), fmt.Sprint(o.panicked))
		return
	}
	if o.badN != "" {
		c.Outcome("VIOLATION io.Reader contract")
		c.Fail("C15/contract:"+id, o.badN, input(), expect(), observe())
		return
	}
	if o.capHit {
		c.Cap("decoder made no progress within 400 reads")
		return
	}
	// R3
	if ref.Refused {
		if o.newErr == nil {
			c.Outcome("VIOLATION record size zero/over limit not refused by NewDecoder")
			c.Fail("C15/refuse:"+id, "record size zero or above the limit must be refused by NewDecoder", input(), expect(), observe())
			return
		}
		if o.servedAtNew > 8 {
			c.Outcome("VIOLATION payload read before refusing the record size")
			c.Fail("C15/refuse-read:"+id, "stream refused only after reading beyond the 8-byte record size", input(), "at most 8 bytes read", observe())
			return
		}
	}
	// R1
	if !bytes.HasPrefix(ref.Authenticated, o.pre) {
		c.Outcome("VIOLATION unauthenticated data released")
		c.Fail("C15/unauth:"+id, "decoder released bytes that are not authenticated by the digest", input(), expect(), observe())
		return
	}
	// R2
	if o.newErr == nil && o.firstErr == io.EOF && (!ref.Clean || len(o.pre) != len(ref.Authenticated)) {
		c.Outcome("VIOLATION clean EOF on a stream that is not completely valid")
		c.Fail("C15/eof:"+id, "decoder reported clean end-of-stream although the stream is truncated/invalid or not all of the payload was delivered", input(), expect(), observe())
		return
	}
	// R4
	all := append(append([]byte{}, o.pre...), o.post...)
	if !bytes.HasPrefix(dg.committed, all) {
		c.Outcome("VIOLATION unauthenticated data handed out after the first error")
		c.Fail("C15/post:"+id, "data handed out by Read after the first error is not part of the payload the digest commits to", input(), "prefix of "+hx(dg.committed)+"; "+expect(), observe())
		return
	}
	// R5: a clean end-of-stream may follow an error (a consumer that retries after a transient
	// reader failure sees it) only if the complete committed payload has been delivered
	if o.newErr == nil && o.firstErr != nil && o.firstErr != io.EOF {
		for _, pe := range o.postErrs {
			if pe == io.EOF && !bytes.Equal(all, dg.committed) {
				c.Outcome("VIOLATION clean EOF after an error, payload incomplete")
				c.Fail("C15/eof-after-error:"+id, "after an error a later Read reported clean end-of-stream although the committed payload was not delivered completely", input(), "an error, or the rest of "+hx(dg.committed), observe())
				return
			}
		}
	}
}

// ---- C15/record-size-limit (isolated) ------------------------------------------
//
// The clause "streams whose record size is zero or above the caller's limit are
// refused before any data is read" quantifies over the 8-byte size field.  If it is
// violated the implementation allocates recordSize+32 bytes, which for large values is
// a fatal, unrecoverable out-of-memory error; therefore this sweep runs in
// watchdog-supervised worker subprocesses (Gen/Exec split, no choice points during
// execution) and a crash is attributed to the case and reported as a violation.
//
// Space (all Free): draft x shape (quick: a third of the shapes) x limit {16384, rs,
// rs-1} x size field from the alphabet below x reader profile {bulk, 1 byte per call,
// data+EOF}; the rest of the stream and the digest are the honest ones.
// Alphabet: 0, 1, rs-1, rs, rs+1, limit-1, limit, limit+1, 16383..16385, every 2^k,
// 2^k-1, 2^k+1 (k=1..63), every single-bit flip of rs (rs xor 2^k, k=0..63), rs<<56,
// 2^63+rs, 2^64-2, 2^64-1.

func c15SizeAlphabet(rs, limit uint64) []uint64 {
	set := map[uint64]bool{}
	for _, v := range []uint64{0, 1, rs - 1, rs, rs + 1, limit - 1, limit, limit + 1, 16383, 16384, 16385, rs << 56, 1<<63 + rs, 1<<64 - 2, 1<<64 - 1} {
		set[v] = true
	}
	for k := uint(0); k < 64; k++ {
		set[1<<k] = true
		set[1<<k-1] = true
		set[1<<k+1] = true
		set[rs^(1<<k)] = true
	}
	out := make([]uint64, 0, len(set))
	for v := range set {
		out = append(out, v)
	}
	// deterministic order
	for i := 1; i < len(out); i++ {
		for j := i; j > 0 && out[j-1] > out[j]; j-- {
			out[j-1], out[j] = out[j], out[j-1]
		}
	}
	return out
}

var c15SizeAlphaCache sync.Map

func c15SizeAlphabetCached(rs, limit uint64) []uint64 {
	k := [2]uint64{rs, limit}
	if v, ok := c15SizeAlphaCache.Load(k); ok {
		return v.([]uint64)
	}
	v, _ := c15SizeAlphaCache.LoadOrStore(k, c15SizeAlphabet(rs, limit))
	return v.([]uint64)
}

func c15SizeGen(c *mc.Ctx) interface{} {
	di := c.Free(len(miDrafts), "draft")
	shapes := c15ShapeList
	if c.Quick() {
		shapes = c15ShapeListQuick
	}
	sh := shapes[c.Free(len(shapes), "shape")]
	limits := c15Dedupe([]uint64{c15Limit, uint64(sh.rs), uint64(sh.rs - 1)}, 1<<64-1)
	limit := limits[c.Free(len(limits), "limit")]
	alpha := c15SizeAlphabetCached(uint64(sh.rs), limit)
	v := alpha[c.Free(len(alpha), "sizefield")]
	prof := c.Free(3, "profile")
	b := c15GetBase(c.Seed, di, sh.rs, sh.n, 0, false)
	h := make([]byte, 8)
	binary.BigEndian.PutUint64(h, v)
	var stream []byte
	if len(b.chunks) == 0 {
		// draft-03 empty payload has no size field: the field plus nothing
		stream = h
	} else {
		stream = append(h, bytes.Join(b.chunks[1:], nil)...)
	}
	var edits []string
	if v != uint64(sh.rs) || len(b.chunks) == 0 {
		edits = []string{fmt.Sprintf("hdr=%d", v)}
	}
	return &c15Case{b: b, di: di, prof: prof, limit: limit, dg: c15Digest{"honest", b.digest, b.payload, true}, edits: edits, stream: stream, noDev: true, harness: "C15/record-size-limit"}
}

func c15ShapesQuick() []c15Shape {
	var out []c15Shape
	for rs := 1; rs <= 3; rs++ {
		out = append(out, c15Shape{rs, 0}, c15Shape{rs, rs}, c15Shape{rs, 2*rs + 1})
	}
	return append(out, c15Shape{34, 35})
}

var c15ShapeListQuick = c15ShapesQuick()

func init() {
	h := &mc.Harness{
		Name: "C15/decoder",
		Bound: func(tier string) int {
			if tier == "quick" {
				return 1
			}
			return 2
		},
		Run: c15Run,
	}
	pairs := &mc.Harness{
		Name:  "C15/decoder-pairs-small",
		Bound: func(tier string) int { return 2 },
		Run:   c15RunPairs,
	}
	sizes := &mc.Harness{
		Name:     "C15/record-size-limit",
		Isolated: true,
		Gen:      c15SizeGen,
		Exec:     func(c *mc.Ctx, cs interface{}) { c15Check(c, cs.(*c15Case)) },
		Describe: func(cs interface{}) string { return cs.(*c15Case).id(nil) + " " + cs.(*c15Case).input() },
	}
	register(&mc.Property{
		ID:    "C15",
		Level: "model_checking",
		Rule: "choice-tree enumeration with a deviation bound (C15/decoder: 1 quick, 2 thorough; C15/decoder-pairs-small: 2 in the quick tier over 6 small bases; C15/record-size-limit: all-free sweep of ~190-270 size-field values x limit x reader profile in supervised subprocesses). Free: draft 02/03 x (rs 1..3 x every length 0..3rs+1, rs 34 x length 33..35) x {honest, empty-last-record shape} x 5 environment profiles (the fifth: one 1-byte Read, then io.Copy of the rest into a plain writer). Deviations: record size limit {16384, rs, rs-1}; ~16 digest variants; edit 1 over the chunk sequence of the honest stream (delete/duplicate/swap/replace/insert chunk, append suffix, 12 size-header values, truncation after every byte, every single bit flip); edit 2 after a structural edit 1 (quick tier: its bit flips reduced to the 64 size-field bits plus one bit per other byte); per underlying Read call {all, 1 byte, data+EOF, injected error with 0 or 1 byte}; per decoder Read the caller buffer {4096,0,1,2,rs,rs+33}. " +
			"Every execution decodes with the real decoder, keeps reading 3 times after the first error, and is judged against refmice.DecodeDetail. " +
			"A case is non-trivial when the artifact deviates from the honest one and, per the reference, passes digest-independent header checks so that the hash chain decides (distinct by hash of draft, digest value, stream, limit). States are distinct (artifact, environment) scenarios.",
		Assumptions: []string{
			"refmice (independent decoder written from the recursive definition) defines what is authenticated; SHA-256 collision resistance makes the committed payload unique",
			"record sizes 1..3 and 34 and at most 4 records stand for all record sizes / chain lengths (the decoder's control flow depends on rs only through buffer lengths); three or more simultaneous deviations are not explored",
			"artifacts with a declared record size above 2^20 that must be refused are executed only by the isolated size-field sweep (honest rest of stream, honest digest), not in combination with a second deviation",
			"the underlying reader obeys the io.Reader contract (never (0, nil) for a non-empty buffer); injected errors are transient; maxRecordSize is at most 16384 as in the repository's callers",
			"an empty last record after data (never produced by an encoder) may be accepted or refused; base64 with non-zero trailing bits denotes the same proof",
		},
		Harnesses: []*mc.Harness{h, pairs, sizes},
		Guard: func(s map[string]*mc.Stats) error {
			st := s["C15/decoder"]
			if st == nil {
				return fmt.Errorf("harness missing")
			}
			// reference/generator-side facts only ("ref: ..." outcomes are recorded before the code under test runs)
			for _, k := range []string{
				"ref: clean: last record short", "ref: clean: last record full",
				"ref: clean: empty stream (draft-03 empty payload)", "ref: clean: empty payload (record size + empty record)",
				"ref: clean: empty last record after data",
				"ref: stream ends at a record boundary (truncation): empty last record does not match",
				"ref: stream ends inside a proof", "ref: non-last record does not match its committed proof",
				"ref: last record does not match its committed proof", "ref: record size zero", "ref: record size above the limit",
				"ref: record size truncated", "ref: digest header does not denote a proof", "ref: empty stream, digest is not SHA-256(0x00)",
				"ref: partial release (some records authenticated, stream not clean)",
				"ref: last record authenticated but the stream continues (extension)",
			} {
				if st.Outcomes[k] == 0 {
					return fmt.Errorf("the generator produced no case of class %q", k)
				}
			}
			sz := s["C15/record-size-limit"]
			// (workers that crash on a violating implementation lose their counters, so the
			// sweep is only required to be non-vacuous when it reported nothing)
			if sz == nil {
				return fmt.Errorf("harness missing")
			}
			if sz.NViolations == 0 && (sz.Outcomes["ref: record size zero"] == 0 || sz.Outcomes["ref: record size above the limit"] < 1000 || sz.Outcomes["ref: clean: last record short"] == 0) {
				return fmt.Errorf("record-size sweep did not generate zero / over-limit / accepted sizes")
			}
			if st.Executions < 50000 {
				return fmt.Errorf("only %d executions", st.Executions)
			}
			return nil
		},
	})
}
