package main

// C06 - bundle signatures: covered exchanges verify, any alteration is detected.
//
// The signing loop of sign-bundle (addSignature) lives in package main, so the
// harness performs the same sequence through the library API: for every exchange
// in bundle order, CanSignForURL -> AddPayloadIntegrity(version, recordSize) ->
// Signer.AddExchange(e, integrityId); then Signer.UpdateSignatures(b.Signatures).
// (C20 covers the real binary.)
//
// Space.  One bundle of seven exchanges on hosts www.a.test, a.test (two URLs of
// different length), b.test, sub.b.test, c.test and the uncovered z.test; header
// sets include a multi-valued field, a pre-existing Content-Encoding, a 300-byte
// value, a non-canonical (lower-case) map key and an empty header map; a layout
// choice rotates (status {200,404} x payload length {0,1,rs,rs+1[,2rs+1]}) over the
// exchanges so that every exchange meets every combination.  Signers: fixture
// identities A (a.test+www.a.test, P-256, chain [leaf, CA]), B (b.test+*.b.test,
// P-384, chain [leaf]), A2 (second key for a.test, chain [leaf, CA]), C (c.test,
// P-256, chain [leaf]); the two-certificate chains make the authority index of a
// later signer differ from its position.  Real ECDSA with the fixture keys.
//
//   C06/histories (mode 2): every sequence of 1..2 (quick) / 1..3 (thorough) signers
//     x record size per signer {1,16,4096} x write/read of the bundle before the
//     first signer, after each signer (= between signers and before verification)
//     or not x bundle version {b1,b2} x layout x date {2018, 2^32-3600 (thorough),
//     2^32+5}; one deviation (bound 1): one signer with duration 7d+1s / 1h / a
//     window starting 1h later, or a signer whose signed subset lies about
//     auth-sha256 (another certificate's hash / its own CA's hash) or about the
//     integrity identifier of one exchange.  A signer covering a host that an
//     earlier signer already covered must fail (AddPayloadIntegrity refuses an
//     exchange that already has a Digest header); the history ends there, as the
//     tool would.  Signatures are produced through the default path (crypto/rand).
//     Verification at every time in {date-1s, date, mid, expires, expires+1s} of
//     every signer's window.
//   C06/bitflips (bound 1): on serialized signed bundles (deterministic ECDSA
//     nonces so that the artifact is reproducible), EVERY single bit of the
//     signatures section and of the responses section is flipped, the file is
//     re-read and verified.
//   C06/edits (bound 1 quick / 2 thorough): in-memory edits of a signed bundle:
//     status, every header (value, name, removal, addition, case / split variants
//     that denote the same field), body (record-size field, payload, proof,
//     truncation, extension, re-encoding), Digest rewritten consistently with a
//     re-encoded altered payload, responses swapped, the signed subset re-encoded
//     with an altered hash / URL / integrity id / date / expires / auth-sha256 /
//     validity-url / entry set, sig bytes, authority = every index in
//     0..len(authorities) and two huge values, authorities replaced / swapped /
//     removed / shifted, vouched subsets reordered / mixed / dropped, version
//     switched, verification time moved; optional write/read before the edit and
//     after it.
//
// Oracle.
//   Signing side: after every step the exchanges equal the reference model
//   (status, header set, body = refsig.MIEncode(payload, rs)), the vouched subset's
//   signed bytes equal refsig's independent recomputation, its authority index is
//   the number of certificates present before the signer's chain, the authorities
//   are the concatenated chains, and the signature verifies with crypto/ecdsa over
//   refsig.SignedMessage under the signer's leaf key.  After write/read the
//   signatures section bytes equal refsig.SignaturesSection.
//   Verifying side, unmodified bundle: NewVerifier succeeds iff every signer's
//   window contains t, no window is longer than 7 days and no subset lies about
//   auth-sha256; then a covered exchange yields the original (pre-encoding) payload
//   and an Authority whose DER is its signer's leaf; an uncovered one yields
//   (nil, nil); an exchange vouched for under a foreign integrity id is refused.
//   Modified bundle (the property's "any change ... makes verification fail rather
//   than succeed with altered content"): refusal (error or "unsigned") is always
//   allowed; if NewVerifier succeeds, every vouched subset it was given must be an
//   untouched original (same signed bytes, same sig bytes, authority resolving to a
//   certificate DER-identical to that signer's leaf), t must lie in every such
//   window, and the version must be the signed one; if VerifyExchange returns a
//   result, the exchange must be covered by an untouched subset and its status,
//   header set (names case-insensitively, repeated values folded with ",": the
//   representation HTTP treats as the same field), decoded payload and Authority
//   must equal the signed original.  The encoded body is NOT required to be
//   byte-identical: mi-sha256 does not authenticate the record-size field of a
//   single-record body, so such a change verifies with the identical payload
//   (outcome class "accepted, content identical").
//
// Not covered: ECDSA-level malleability ((r, n-s)), an attacker who signs his own
// subset with his own certificate (the verifier documents that it does not judge
// certificates), record sizes above 16384, variants.

import (
	"bytes"
	"crypto/sha256"
	"crypto/x509"
	"fmt"
	"net/http"
	"regexp"
	"sort"
	"strings"
	"sync"
	"time"

	"github.com/WICG/webpackage/go/bundle"
	"github.com/WICG/webpackage/go/bundle/signature"
	bundleversion "github.com/WICG/webpackage/go/bundle/version"
	"github.com/WICG/webpackage/go/internal/signingalgorithm"
	"github.com/WICG/webpackage/go/signedexchange/certurl"
	"github.com/WICG/webpackage/go/signedexchange/zverif/fixtures"
	"github.com/WICG/webpackage/go/signedexchange/zverif/mc"
	"github.com/WICG/webpackage/go/signedexchange/zverif/refsig"
)

// ---- identities ----------------------------------------------------------------

type c06Ident struct {
	name  string
	id    *fixtures.ECIdentity
	chain int // certificates handed to NewSigner: leaf [+ CA]
	hosts []string
	ocsp  []byte
	sct   []byte
}

var c06Idents = []*c06Ident{
	{name: "A", id: fixtures.A, chain: 2, hosts: []string{"a.test", "www.a.test"}, ocsp: pattern(24, 601)},
	{name: "B", id: fixtures.B, chain: 1, hosts: []string{"b.test", "sub.b.test"}, ocsp: pattern(23, 602), sct: pattern(10, 603)},
	{name: "A2", id: fixtures.A2, chain: 2, hosts: []string{"a.test"}, ocsp: pattern(1, 604)},
	{name: "C", id: fixtures.C, chain: 1, hosts: []string{"c.test"}, ocsp: []byte{}},
}

func (id *c06Ident) covers(host string) bool {
	for _, h := range id.hosts {
		if h == host {
			return true
		}
	}
	return false
}

// c06SanMatch is an own, minimal RFC 6125 matcher (exact name or one left-most
// wildcard label) used only to cross-check the coverage table against the fixtures.
func c06SanMatch(pat, host string) bool {
	if strings.HasPrefix(pat, "*.") {
		i := strings.Index(host, ".")
		return i > 0 && host[i:] == pat[1:]
	}
	return pat == host
}

var c06Hosts = []string{"www.a.test", "a.test", "b.test", "sub.b.test", "c.test", "z.test"}

func init() {
	for _, id := range c06Idents {
		for _, h := range c06Hosts {
			m := false
			for _, san := range id.id.Leaf.DNSNames {
				if c06SanMatch(san, h) {
					m = true
				}
			}
			if m != id.covers(h) {
				panic(fmt.Sprintf("c06: coverage table disagrees with fixture %s for host %s", id.name, h))
			}
		}
	}
}

func (id *c06Ident) certs() []*x509.Certificate {
	if id.chain == 2 {
		return []*x509.Certificate{id.id.Leaf, id.id.CA}
	}
	return []*x509.Certificate{id.id.Leaf}
}

func (id *c06Ident) validityURL() string {
	return "https://" + id.hosts[0] + "/validity/" + id.name + ".msg"
}

// c06Zero is a constant entropy source: with it crypto/ecdsa derives the nonce
// from the key and the message only, so the artifact is reproducible.
type c06Zero struct{}

func (c06Zero) Read(p []byte) (int, error) {
	for i := range p {
		p[i] = 0
	}
	return len(p), nil
}

// ---- plan (all generator choices) --------------------------------------------------

type c06Step struct {
	ident int
	rs    int
	dur   int // 0: 7d, 1: 7d+1s, 2: 1h, 3: 7d starting 1h later
	forge int // 0 none, 1 auth-sha256 of another identity's leaf, 2 auth-sha256 of the CA, 3 foreign integrity id on one exchange
	rt    bool
}

type c06Plan struct {
	ver     bundleversion.Version
	layout  int
	nLen    int // number of payload length classes in use
	dateIdx int
	rt0     bool
	steps   []c06Step
	det     bool // deterministic ECDSA nonces
	drop    int  // 0: all seven exchanges; 1: no exchange on c.test; 2: none on b.test / sub.b.test (a signer for those hosts then vouches for nothing)
}

var c06Dates = []int64{1517418800, 1<<32 + 5, 1<<32 - 3600}
var c06RS = []int{16, 1, 4096}

func (p *c06Plan) String() string {
	var sb strings.Builder
	fmt.Fprintf(&sb, "%s/L%d.%d/D%d", p.ver, p.layout, p.nLen, p.dateIdx)
	if p.rt0 {
		sb.WriteString("/rt")
	}
	if p.drop != 0 {
		fmt.Fprintf(&sb, "/drop%d", p.drop)
	}
	for _, s := range p.steps {
		fmt.Fprintf(&sb, "/%s.rs%d", c06Idents[s.ident].name, s.rs)
		if s.dur != 0 {
			fmt.Fprintf(&sb, ".dur%d", s.dur)
		}
		if s.forge != 0 {
			fmt.Fprintf(&sb, ".forge%d", s.forge)
		}
		if s.rt {
			sb.WriteString(".rt")
		}
	}
	return sb.String()
}

func (s c06Step) window(base int64) (date, expires int64) {
	date = base
	d := int64(7 * 24 * 3600)
	switch s.dur {
	case 1:
		d++
	case 2:
		d = 3600
	case 3:
		date += 3600
	}
	return date, date + d
}

// conflictAt returns the index of the first step whose identity covers a host an
// earlier step already covered (-1 if none): that signer must fail.
func (p *c06Plan) conflictAt() int {
	seen := map[string]bool{}
	for i, s := range p.steps {
		for _, h := range c06Idents[s.ident].hosts {
			if seen[h] {
				return i
			}
		}
		for _, h := range c06Idents[s.ident].hosts {
			seen[h] = true
		}
	}
	return -1
}

// ---- model --------------------------------------------------------------------------

type c06Ex struct {
	url     string
	host    string
	status  int
	payload []byte
	hdr     map[string][]string // current expected header set
	body    []byte              // current expected body
	signer  int                 // index into world.signers, -1 = uncovered
	badID   bool                // vouched for under a foreign integrity id
	loose   bool                // may or may not have been MI-encoded by a failed signer
}

type c06SignerRec struct {
	ident    *c06Ident
	step     c06Step
	date     int64
	expires  int64
	authIdx  int
	leafDER  []byte
	signed   []byte // reference recomputation (== implementation's bytes once checked)
	sig      []byte // as produced by the implementation
	urls     []string
	authLies bool
}

type c06World struct {
	plan    *c06Plan
	b       *bundle.Bundle
	exs     map[string]*c06Ex
	urls    []string // construction order
	signers []*c06SignerRec
	auths   []refsig.Authority
	failed  bool   // the last step was the expected refusal
	file    []byte // last serialization, if any
}

var c06ExSpecs = []struct {
	url string
	hdr func() http.Header
}{
	{"https://www.a.test/x", func() http.Header { return http.Header{"Content-Type": {"text/html"}} }},
	{"https://a.test/", func() http.Header {
		return http.Header{"Content-Type": {"text/html; charset=utf-8"}, "Cache-Control": {"max-age=60", "public"}}
	}},
	{"https://a.test/index.html?q=1", func() http.Header {
		return http.Header{"Content-Type": {"application/octet-stream"}, "Content-Encoding": {"gzip"}}
	}},
	{"https://b.test/", func() http.Header {
		return http.Header{"Content-Type": {"text/plain"}, "X-Long": {strings.Repeat("0123456789", 30)}, "X-Pad": {" leading and trailing "}}
	}},
	{"https://sub.b.test/y", func() http.Header { return http.Header{"x-lower": {"v"}, "Content-Type": {"image/png"}} }},
	{"https://c.test/", func() http.Header { return http.Header{} }},
	{"https://z.test/", func() http.Header { return http.Header{"Content-Type": {"text/html"}} }},
	// covered and uncovered hosts with an explicit port
	{"https://a.test:8443/app.js", func() http.Header { return http.Header{"Content-Type": {"text/javascript"}} }},
	{"https://z.test:8443/app.js", func() http.Header { return http.Header{"Content-Type": {"text/javascript"}} }},
}

func c06HostOf(u string) string {
	s := strings.TrimPrefix(u, "https://")
	s = s[:strings.Index(s, "/")]
	if i := strings.IndexByte(s, ':'); i >= 0 {
		s = s[:i] // a certificate covers host names; the port is not part of one
	}
	return s
}

func c06CopyHdr(h map[string][]string) map[string][]string {
	out := map[string][]string{}
	for k, v := range h {
		out[k] = append([]string{}, v...)
	}
	return out
}

func c06Build(p *c06Plan, seed int64) *c06World {
	w := &c06World{plan: p, exs: map[string]*c06Ex{}}
	// record size of the signer that will cover each host (payload lengths are chosen relative to it)
	rsOf := map[string]int{}
	for _, s := range p.steps {
		for _, h := range c06Idents[s.ident].hosts {
			if _, ok := rsOf[h]; !ok {
				rsOf[h] = s.rs
			}
		}
	}
	b := &bundle.Bundle{Version: p.ver, PrimaryURL: c19URL(c06ExSpecs[1].url)}
	if p.ver == bundleversion.VersionB1 && p.layout%2 == 1 {
		b.ManifestURL = c19URL("https://a.test/manifest.webmanifest")
	}
	for i, sp := range c06ExSpecs {
		host := c06HostOf(sp.url)
		if p.drop == 1 && host == "c.test" || p.drop == 2 && (host == "b.test" || host == "sub.b.test") {
			continue
		}
		rs, ok := rsOf[host]
		if !ok {
			rs = 16
		}
		combo := (i + p.layout) % (2 * p.nLen)
		status := []int{200, 404}[combo&1]
		n := []int{0, 1, rs, rs + 1, 2*rs + 1}[combo>>1]
		payload := pattern(n, seed+int64(100+i))
		h := sp.hdr()
		ex := &c06Ex{url: sp.url, host: host, status: status, payload: payload, hdr: c06CopyHdr(h), body: payload, signer: -1}
		w.exs[sp.url] = ex
		w.urls = append(w.urls, sp.url)
		b.Exchanges = append(b.Exchanges, &bundle.Exchange{
			Request:  bundle.Request{URL: c19URL(sp.url)},
			Response: bundle.Response{Status: status, Header: h, Body: append([]byte{}, payload...)},
		})
	}
	w.b = b
	return w
}

// c06Guarded runs f, turning a panic into a description.
func c06Guarded(f func()) (pan string) {
	defer func() {
		if r := recover(); r != nil {
			pan = fmt.Sprint(r)
		}
	}()
	f()
	return
}

// c06RoundTrip serializes b and reads it back.
func c06RoundTrip(b *bundle.Bundle) (nb *bundle.Bundle, file []byte, err error) {
	var buf bytes.Buffer
	if pan := c06Guarded(func() { _, err = b.WriteTo(&buf) }); pan != "" {
		return nil, nil, fmt.Errorf("WriteTo panicked: %s", pan)
	}
	if err != nil {
		return nil, nil, fmt.Errorf("WriteTo: %v", err)
	}
	file = append([]byte{}, buf.Bytes()...)
	if pan := c06Guarded(func() { nb, err = bundle.Read(bytes.NewReader(file)) }); pan != "" {
		return nil, file, fmt.Errorf("Read panicked: %s", pan)
	}
	if err != nil {
		return nil, file, fmt.Errorf("Read: %v", err)
	}
	return nb, file, nil
}

// c06CheckState compares the implementation's bundle with the model; "" = equal.
func (w *c06World) checkState() string {
	b := w.b
	if len(b.Exchanges) != len(w.exs) {
		return fmt.Sprintf("%d exchanges, model has %d", len(b.Exchanges), len(w.exs))
	}
	seen := map[string]bool{}
	for _, e := range b.Exchanges {
		u := e.Request.URL.String()
		m := w.exs[u]
		if m == nil || seen[u] {
			return "unexpected or repeated URL " + u
		}
		seen[u] = true
		if m.loose {
			continue
		}
		if e.Response.Status != m.status {
			return fmt.Sprintf("%s: status %d, model %d", u, e.Response.Status, m.status)
		}
		if !bytes.Equal(e.Response.Body, m.body) {
			return fmt.Sprintf("%s: body %s, model %s", u, hx(e.Response.Body), hx(m.body))
		}
		if !refsig.SameHeaders(e.Response.Header, m.hdr) {
			return fmt.Sprintf("%s: headers {%s}, model {%s}", u, refsig.DescribeHeaders(e.Response.Header), refsig.DescribeHeaders(m.hdr))
		}
	}
	if len(w.signers) == 0 {
		if b.Signatures != nil && (len(b.Signatures.Authorities) != 0 || len(b.Signatures.VouchedSubsets) != 0) {
			return "signatures present before any signer completed"
		}
		return ""
	}
	if b.Signatures == nil {
		return "no signatures although a signer completed"
	}
	if len(b.Signatures.Authorities) != len(w.auths) {
		return fmt.Sprintf("%d authorities, model %d", len(b.Signatures.Authorities), len(w.auths))
	}
	for i, a := range b.Signatures.Authorities {
		if a == nil || a.Cert == nil || !bytes.Equal(a.Cert.Raw, w.auths[i].Cert) {
			return fmt.Sprintf("authorities[%d] is not the expected certificate", i)
		}
		if !bytes.Equal(a.OCSPResponse, w.auths[i].OCSP) || !bytes.Equal(a.SCTList, w.auths[i].SCT) {
			return fmt.Sprintf("authorities[%d] ocsp/sct differ", i)
		}
	}
	if len(b.Signatures.VouchedSubsets) != len(w.signers) {
		return fmt.Sprintf("%d vouched subsets, model %d", len(b.Signatures.VouchedSubsets), len(w.signers))
	}
	for i, vs := range b.Signatures.VouchedSubsets {
		r := w.signers[i]
		if vs.Authority != uint64(r.authIdx) {
			return fmt.Sprintf("vouched[%d].authority = %d, the signer's leaf is authorities[%d]", i, vs.Authority, r.authIdx)
		}
		if !bytes.Equal(vs.Signed, r.signed) {
			return fmt.Sprintf("vouched[%d].signed = %s, reference recomputation %s", i, hx(vs.Signed), hx(r.signed))
		}
		if r.sig == nil {
			if !refsig.VerifySig(&r.ident.id.Key.PublicKey, string(w.plan.ver), vs.Signed, vs.Sig) {
				return fmt.Sprintf("vouched[%d].sig does not verify under the signer's leaf key over the reference message", i)
			}
			r.sig = append([]byte{}, vs.Sig...)
		} else if !bytes.Equal(vs.Sig, r.sig) {
			return fmt.Sprintf("vouched[%d].sig changed", i)
		}
	}
	return ""
}

// c06Reporter is the part of *mc.Ctx the signing run needs (the cached bases of
// C06/bitflips are built with a collector instead, so that every execution of a
// broken base reports the same thing).
type c06Reporter interface {
	Fail(key, what, input, expected, observed string)
	Transitions(n int64)
	State(parts ...[]byte)
}

type c06Collector struct{ first string }

func (k *c06Collector) Fail(key, what, input, expected, observed string) {
	if k.first == "" {
		k.first = fmt.Sprintf("%s | %s | expected %s | observed %s", key, what, expected, observed)
	}
}
func (k *c06Collector) Transitions(int64) {}
func (k *c06Collector) State(...[]byte)   {}

// c06Run executes the plan against the real code, checking the signing-side oracle
// after every step.  It returns nil after reporting a violation.
func c06Run(c c06Reporter, seed int64, p *c06Plan) *c06World {
	w := c06Build(p, seed)
	key := "C06/sign:" + p.String()
	base := c06Dates[p.dateIdx]
	conflict := p.conflictAt()
	roundTrip := func(site string) bool {
		nb, file, err := c06RoundTrip(w.b)
		c.Transitions(2)
		if err != nil {
			c.Fail(key+":"+site, "writing and re-reading the bundle failed", p.String(), "round trip succeeds", err.Error())
			return false
		}
		w.b, w.file = nb, file
		// signatures section bytes == independent serialization
		secs, serr := refsig.Sections(file)
		if serr != nil {
			c.Fail(key+":"+site+":sections", "reference cannot walk the written bundle", p.String(), "sections", serr.Error())
			return false
		}
		var got []byte
		for _, s := range secs {
			if s.Name == "signatures" {
				got = file[s.Start:s.End]
			}
		}
		if len(w.signers) > 0 {
			var vs []refsig.Vouched
			for _, r := range w.signers {
				vs = append(vs, refsig.Vouched{Authority: uint64(r.authIdx), Sig: r.sig, Signed: r.signed})
			}
			want := refsig.SignaturesSection(w.auths, vs)
			if !bytes.Equal(got, want) {
				c.Fail(key+":"+site+":section", "written signatures section differs from the reference serialization", p.String(), hx(want), hx(got))
				return false
			}
		} else if got != nil {
			c.Fail(key+":"+site+":section", "signatures section written before any signer completed", p.String(), "none", hx(got))
			return false
		}
		if d := w.checkState(); d != "" {
			c.Fail(key+":"+site+":state", "bundle differs from the model after write/read", p.String(), "model state", d)
			return false
		}
		return true
	}
	if p.rt0 && !roundTrip("rt0") {
		return nil
	}
	for si, st := range p.steps {
		id := c06Idents[st.ident]
		site := fmt.Sprintf("step%d", si)
		date, expires := st.window(base)
		chain, err := certurl.NewCertChain(id.certs(), id.ocsp, id.sct)
		if err != nil {
			panic(err)
		}
		signer, err := signature.NewSigner(p.ver, chain, id.id.Key, c19URL(id.validityURL()), time.Unix(date, 0).UTC(), time.Duration(expires-date)*time.Second)
		if err != nil {
			c.Fail(key+":"+site+":newsigner", "NewSigner refused a valid chain", p.String(), "signer", err.Error())
			return nil
		}
		if p.det {
			alg, err := signingalgorithm.SigningAlgorithmForPrivateKey(id.id.Key, c06Zero{})
			if err != nil {
				panic(err)
			}
			signer.Algorithm = alg
		}
		// model of the step
		var covered []string
		for _, u := range w.urls {
			if id.covers(w.exs[u].host) {
				covered = append(covered, u)
			}
		}
		sort.Strings(covered)
		leafDER := id.id.Leaf.Raw
		authHash := sha256.Sum256(leafDER)
		auth := authHash[:]
		switch st.forge {
		case 1:
			o := sha256.Sum256(c06Idents[(st.ident+1)%len(c06Idents)].id.Leaf.Raw)
			auth = o[:]
		case 2:
			o := sha256.Sum256(id.id.CA.Raw)
			auth = o[:]
		}
		if st.forge == 1 || st.forge == 2 {
			signer.AuthSha256 = append([]byte{}, auth...)
		}
		badURL := ""
		if st.forge == 3 && len(covered) > 0 {
			badURL = covered[0]
		}
		// the addSignature sequence
		var stepErr error
		pan := c06Guarded(func() {
			for _, e := range w.b.Exchanges {
				if !signer.CanSignForURL(e.Request.URL) {
					continue
				}
				integrity, err := e.AddPayloadIntegrity(w.b.Version, st.rs)
				if err != nil {
					stepErr = err
					return
				}
				if e.Request.URL.String() == badURL {
					integrity = "mi-draft2"
				}
				if err := signer.AddExchange(e, integrity); err != nil {
					stepErr = err
					return
				}
			}
			ns, err := signer.UpdateSignatures(w.b.Signatures)
			if err != nil {
				stepErr = err
				return
			}
			w.b.Signatures = ns
		})
		c.Transitions(1)
		if pan != "" {
			c.Fail(key+":"+site+":panic", "signing sequence panicked", p.String(), "no panic", pan)
			return nil
		}
		if si == conflict {
			if stepErr == nil {
				c.Fail(key+":"+site+":resign", "a second signer for an already covered host was not refused", p.String(), "error from AddPayloadIntegrity (exchange already has a Digest header)", "nil")
				return nil
			}
			for _, u := range covered {
				if w.exs[u].signer < 0 {
					w.exs[u].loose = true
				}
			}
			w.failed = true
			if d := w.checkState(); d != "" {
				c.Fail(key+":"+site+":state", "refused signer changed covered exchanges or the signatures", p.String(), "model state", d)
				return nil
			}
			break
		}
		if stepErr != nil {
			c.Fail(key+":"+site+":error", "signing sequence failed", p.String(), "nil", stepErr.Error())
			return nil
		}
		rec := &c06SignerRec{ident: id, step: st, date: date, expires: expires, authIdx: len(w.auths), leafDER: leafDER, urls: covered, authLies: st.forge == 1 || st.forge == 2}
		sub := &refsig.Subset{ValidityURL: id.validityURL(), AuthSHA256: auth, Date: uint64(date), Expires: uint64(expires), Hashes: map[string]refsig.Integrity{}}
		for _, u := range covered {
			m := w.exs[u]
			body, digest := refsig.MIEncode(m.payload, st.rs)
			m.body = body
			m.hdr["Content-Encoding"] = append(m.hdr["Content-Encoding"], refsig.ContentEncoding)
			m.hdr["Digest"] = []string{digest}
			m.signer = len(w.signers)
			hh, err := refsig.HeaderSHA256(m.status, m.hdr)
			if err != nil {
				panic(err)
			}
			idn := refsig.IntegrityID
			if u == badURL {
				idn = "mi-draft2"
				m.badID = true
			}
			sub.Hashes[u] = refsig.Integrity{HeaderSHA256: hh, ID: idn}
		}
		rec.signed = sub.Encode()
		w.signers = append(w.signers, rec)
		for i, cert := range id.certs() {
			a := refsig.Authority{Cert: cert.Raw}
			if i == 0 {
				a.OCSP, a.SCT = id.ocsp, id.sct
			}
			w.auths = append(w.auths, a)
		}
		if d := w.checkState(); d != "" {
			c.Fail(key+":"+site+":state", "state after a signer differs from the reference model", p.String(), "model state (exchanges, authorities, authority index, signed-subset bytes, signature)", d)
			return nil
		}
		var parts [][]byte
		parts = append(parts, []byte(p.ver))
		for _, r := range w.signers {
			parts = append(parts, r.signed, []byte{byte(r.authIdx)})
		}
		c.State(parts...)
		if st.rt && !roundTrip(site+":rt") {
			return nil
		}
	}
	return w
}

// ---- verification side ---------------------------------------------------------------

func c06ErrClass(err error) string {
	s := err.Error()
	for _, k := range []struct{ sub, class string }{
		{"signature verification failed", "sig"},
		{"ASN.1", "sig-der"}, {"asn1", "sig-der"}, {"extra data at the signature end", "sig-der"},
		{"auth-sha256", "auth-sha256"},
		{"authority index out of range", "authority-range"},
		{"unsupported certificate public key", "authority-key"},
		{"not yet valid", "not-yet-valid"}, {"is expired", "expired"}, {"more than 7 days", "too-long"},
		{"unknown key in signed-subset", "subset-decode"}, {"incomplete signed-subset", "subset-decode"}, {"unexpected length of subset-hashes", "subset-decode"},
		{"header sha256 mismatch", "header-sha256"},
		{"integrity identifier mismatch", "integrity-id"},
		{"digest response header not present", "no-digest"},
		{"variants-value", "variants"},
		{"mice: failed to validate", "mi-proof"}, {"mice:", "mi-format"},
		{"cbor", "subset-decode"}, {"EOF", "subset-decode"},
	} {
		if strings.Contains(s, k.sub) {
			return k.class
		}
	}
	return "other"
}

// c06Judge verifies a (possibly modified) bundle at time t against the model.
// pristine: nothing was modified, so the positive oracle applies as well.
// It returns the outcome class; violations are reported through c.
func c06Judge(c *mc.Ctx, w *c06World, mb *bundle.Bundle, t int64, pristine bool, key, input string) string {
	c.Eval()
	sigs := mb.Signatures
	if sigs == nil {
		sigs = &bundle.Signatures{}
	}
	// which vouched subsets of mb are untouched originals
	intact := make([]bool, len(w.signers))
	allOriginal := true
	var liveWindows []*c06SignerRec
	for _, vs := range sigs.VouchedSubsets {
		orig := false
		if vs != nil {
			for i, r := range w.signers {
				if bytes.Equal(vs.Signed, r.signed) {
					liveWindows = append(liveWindows, r)
					if bytes.Equal(vs.Sig, r.sig) && vs.Authority < uint64(len(sigs.Authorities)) {
						a := sigs.Authorities[vs.Authority]
						if a != nil && a.Cert != nil && bytes.Equal(a.Cert.Raw, r.leafDER) {
							intact[i] = true
							orig = true
						}
					}
				}
			}
		}
		if !orig {
			allOriginal = false
		}
	}
	wantValid := true
	why := ""
	for _, r := range liveWindows {
		switch {
		case r.authLies:
			wantValid, why = false, "a signed subset names another certificate in auth-sha256"
		case r.expires-r.date > 7*24*3600:
			wantValid, why = false, "a signature window is longer than 7 days"
		case t < r.date:
			wantValid, why = false, "a signature is not yet valid"
		case t > r.expires:
			wantValid, why = false, "a signature is expired"
		}
	}
	var v *signature.Verifier
	var err error
	if pan := c06Guarded(func() { v, err = signature.NewVerifier(sigs, time.Unix(t, 0), mb.Version) }); pan != "" {
		c.Fail(key+":newverifier-panic", "NewVerifier panicked", input, "error or verifier", pan)
		return "panic"
	}
	if err != nil {
		if pristine && wantValid {
			c.Fail(key+":refused", "valid signatures refused inside the validity window", input, fmt.Sprintf("verifier at t=%d", t), err.Error())
			return "valid refused"
		}
		return "refused by NewVerifier: " + c06ErrClass(err)
	}
	if !wantValid {
		c.Fail(key+":window", "NewVerifier accepted signatures that must be refused", input, "error: "+why, fmt.Sprintf("verifier at t=%d", t))
		return "invalid accepted"
	}
	if !allOriginal {
		c.Fail(key+":forged-subset", "NewVerifier accepted a vouched subset whose signed bytes, sig or authority were altered", input, "error", "verifier")
		return "altered subset accepted"
	}
	if len(sigs.VouchedSubsets) > 0 && mb.Version != w.plan.ver {
		c.Fail(key+":version", "signatures made for one bundle version verified under another", input, "error", "verifier")
		return "version confusion"
	}
	accepted, refused, unsigned := 0, 0, 0
	firstRefusal := ""
	for _, e := range mb.Exchanges {
		if e == nil || e.Request.URL == nil {
			continue
		}
		u := e.Request.URL.String()
		var res *signature.VerifyExchangeResult
		var verr error
		ee := e
		if pan := c06Guarded(func() { res, verr = v.VerifyExchange(ee) }); pan != "" {
			c.Fail(key+":verify-panic:"+u, "VerifyExchange panicked", input+" url="+u, "result or error", pan)
			return "panic"
		}
		m := w.exs[u]
		covered := m != nil && m.signer >= 0 && intact[m.signer]
		switch {
		case res != nil && verr == nil:
			accepted++
			r := ""
			switch {
			case !covered:
				r = "the exchange is not covered by any untouched signed subset"
			case m.badID:
				r = "the exchange is vouched for under a foreign integrity identifier"
			case e.Response.Status != m.status:
				r = fmt.Sprintf("status %d, signed %d", e.Response.Status, m.status)
			case !refsig.SameHeaders(e.Response.Header, m.hdr):
				r = fmt.Sprintf("headers {%s}, signed {%s}", refsig.DescribeHeaders(e.Response.Header), refsig.DescribeHeaders(m.hdr))
			case !bytes.Equal(res.VerifiedPayload, m.payload):
				r = fmt.Sprintf("payload %s, original %s", hx(res.VerifiedPayload), hx(m.payload))
			case res.Authority == nil || res.Authority.Cert == nil || !bytes.Equal(res.Authority.Cert.Raw, w.signers[m.signer].leafDER):
				r = "Authority is not the signer's own leaf certificate"
			}
			if r != "" {
				c.Fail(key+":accepted:"+u, "VerifyExchange succeeded with altered or unvouched content", input+" url="+u, "refusal, or the signed original with the signer's leaf", r)
				return "altered content accepted"
			}
		case res == nil && verr == nil:
			unsigned++
			if pristine && covered {
				c.Fail(key+":unsigned:"+u, "covered exchange reported as unsigned", input+" url="+u, "verified payload", "(nil, nil)")
				return "covered reported unsigned"
			}
		default:
			refused++
			if firstRefusal == "" && verr != nil {
				firstRefusal = c06ErrClass(verr)
			}
			if pristine && !covered {
				c.Fail(key+":uncovered-error:"+u, "uncovered exchange must be reported as unsigned", input+" url="+u, "(nil, nil)", fmt.Sprint(verr))
				return "uncovered refused"
			}
			if pristine && covered && !m.badID {
				c.Fail(key+":covered-refused:"+u, "covered exchange refused inside the validity window", input+" url="+u, "original payload and the signer's leaf", fmt.Sprint(verr))
				return "covered refused"
			}
		}
	}
	if refused > 0 {
		return "exchange refused: " + firstRefusal
	}
	if accepted == 0 {
		return "verifier ok, every exchange unsigned"
	}
	return "accepted, content identical"
}

// ---- harness 1: signer histories ---------------------------------------------------------

func c06GenHistory(c *mc.Ctx) *c06Plan {
	p := &c06Plan{}
	p.ver = bundleversion.AllVersions[c.Free(2, "version")]
	p.nLen = c.Pick(4, 5)
	p.layout = c.Free(2*p.nLen, "layout")
	if c.Quick() {
		p.dateIdx = c.Free(2, "date")
	} else {
		p.dateIdx = p.layout % 3 // coupled with the layout to keep the product affordable
	}
	p.rt0 = c.Free(2, "write/read before the first signer") == 1
	depth := c.Pick(2, 3)
	// record sizes: quick rotates {16,1,4096} over the signers starting at layout%3;
	// thorough chooses the first signer's size freely and rotates from there
	rsBase := p.layout % 3
	for s := 0; s < depth; s++ {
		op := c.Free(len(c06Idents)+1, "signer")
		if op == 0 {
			break
		}
		st := c06Step{ident: op - 1}
		p.steps = append(p.steps, st)
		if p.conflictAt() >= 0 {
			p.steps[s].rs = c06RS[(rsBase+s)%3]
			break
		}
		if s == 0 && !c.Quick() {
			rsBase = c.Free(3, "record size of the first signer")
		}
		st.rs = c06RS[(rsBase+s)%3]
		st.dur = c.Dev(4, "window")
		st.forge = c.Dev(4, "signer lies")
		st.rt = c.Free(2, "write/read after the signer") == 1
		p.steps[s] = st
	}
	return p
}

func c06HistoryRun(c *mc.Ctx) { c06HistoryPlan(c, c06GenHistory(c)) }

// c06RecordSizes are MI record sizes at the small end, around one-byte CBOR/length boundaries and in the
// last 33 values below the verifier's limit of 16384 (one record plus the 32-byte proof of the next).
var c06RecordSizes = []int{2, 3, 255, 256, 16351, 16352, 16353, 16383, 16384}

// c06RecordSizeRun: one signer, every record size of c06RecordSizes, every layout of body lengths
// {0, 1, rs, rs+1, 2rs+1} over the exchanges.
func c06RecordSizeRun(c *mc.Ctx) {
	p := &c06Plan{}
	p.ver = bundleversion.AllVersions[c.Free(2, "version")]
	p.nLen = 5
	p.layout = c.Free(2*p.nLen, "layout")
	nid := len(c06Idents)
	if c.Quick() {
		nid = 2
	}
	st := c06Step{ident: c.Free(nid, "signer")}
	st.rs = c06RecordSizes[c.Free(len(c06RecordSizes), "record size")]
	// a bundle without the exchanges of one host: signer B (or C) then vouches for an empty set
	p.drop = c.Free(3, "exchanges: all / none on c.test / none on b.test")
	st.rt = true
	if !c.Quick() {
		st.rt = c.Free(2, "write/read after the signer") == 1
	}
	p.steps = []c06Step{st}
	c06HistoryPlan(c, p)
}

func c06HistoryPlan(c *mc.Ctx, p *c06Plan) {
	desc := p.String()
	if len(p.steps) == 0 {
		c.Outcome("model: empty history")
		return
	}
	conflict := p.conflictAt()
	// model-side classes (generator facts only; the vacuity guard reads these)
	ok := len(p.steps)
	if conflict >= 0 {
		ok = conflict
		c.Outcome("model: history ends with a refused signer")
	}
	c.Outcome(fmt.Sprintf("model: %d signers complete", ok))
	shifted := false
	n := 0
	for i, s := range p.steps[:ok] {
		if n != i {
			shifted = true
		}
		n += c06Idents[s.ident].chain
	}
	if shifted {
		c.Outcome("model: a later signer's authority index differs from its position")
	}
	w := c06Run(c, c.Seed, p)
	if w == nil {
		c.Outcome("signing-side violation")
		return
	}
	c.Sample(desc)
	// verification times: around every signer's window
	tset := map[int64]bool{}
	for _, r := range w.signers {
		for _, t := range []int64{r.date - 1, r.date, (r.date + r.expires) / 2, r.expires, r.expires + 1} {
			tset[t] = true
		}
	}
	var times []int64
	for t := range tset {
		times = append(times, t)
	}
	sort.Slice(times, func(i, j int) bool { return times[i] < times[j] })
	for _, t := range times {
		out := c06Judge(c, w, w.b, t, true, fmt.Sprintf("C06/hist:%s:t%+d", desc, t-w.signers[0].date), fmt.Sprintf("%s verify at t=%d", desc, t))
		c.Traces(1)
		c.Outcome(out)
	}
	c.State([]byte(desc))
	if ok >= 2 || conflict >= 0 || p.steps[0].dur != 0 || p.steps[0].forge != 0 || p.steps[0].rs > 4096 || (p.steps[0].rs > 1 && p.steps[0].rs < 16) {
		c.Nontrivial([]byte(desc))
	}
}

// ---- bases for the mutation harnesses -------------------------------------------------------

type c06BaseSpec struct {
	ver    bundleversion.Version
	layout int
	idents []int
	rs     []int
}

func c06Bases(tier string, forBits bool) []c06BaseSpec {
	b1, b2 := bundleversion.VersionB1, bundleversion.VersionB2
	const A, B, A2, C = 0, 1, 2, 3
	if tier != "thorough" {
		if forBits {
			return []c06BaseSpec{
				{b2, 0, []int{A, B}, []int{16, 1}},
				{b1, 3, []int{B, A2}, []int{1, 16}},
			}
		}
		return []c06BaseSpec{
			{b2, 0, []int{A, B}, []int{16, 1}},
			{b1, 3, []int{B, A2}, []int{1, 16}},
			{b2, 5, []int{A}, []int{4096}},
			{b1, 6, []int{C, A, B}, []int{16, 16, 16}},
		}
	}
	var out []c06BaseSpec
	hist := [][]int{{A}, {B}, {A, B}, {B, A}, {A2, B}, {A, B, C}, {C, A2, B}}
	if !forBits {
		hist = [][]int{{A}, {A, B}, {B, A2}, {C, A2, B}} // pairs of edits are expensive
	}
	for _, v := range []bundleversion.Version{b1, b2} {
		for hi, h := range hist {
			layouts := []int{0, 3}
			if !forBits {
				layouts = []int{1, 5}
			}
			for _, l := range layouts {
				rs := make([]int, len(h))
				for i := range rs {
					rs[i] = []int{16, 1}[(i+l+hi)%2]
					if !forBits && (l+i)%3 == 2 {
						rs[i] = 4096
					}
				}
				out = append(out, c06BaseSpec{v, l, h, rs})
			}
		}
	}
	return out
}

func (s c06BaseSpec) plan(rtLast bool) *c06Plan {
	p := &c06Plan{ver: s.ver, layout: s.layout, nLen: 5, dateIdx: 0, det: true}
	for i, id := range s.idents {
		p.steps = append(p.steps, c06Step{ident: id, rs: s.rs[i], rt: rtLast && i == len(s.idents)-1})
	}
	return p
}

type c06CachedBase struct {
	once   sync.Once
	w      *c06World
	fields []refsig.Field
	lo, hi [2]int // [signatures, responses] section ranges
	broken string
}

var c06BaseCache sync.Map

func c06MidTime(w *c06World) int64 {
	r := w.signers[0]
	return (r.date + r.expires) / 2
}

// ---- harness 2: every bit of the signatures and responses sections ---------------------------

func c06BitRun(c *mc.Ctx) {
	bases := c06Bases(c.Tier, true)
	bi := c.Free(len(bases), "base")
	p := bases[bi].plan(true)
	desc := p.String()
	ck := fmt.Sprintf("%s|%d|%s", c.Tier, c.Seed, desc)
	v, _ := c06BaseCache.LoadOrStore(ck, &c06CachedBase{})
	cb := v.(*c06CachedBase)
	cb.once.Do(func() {
		col := &c06Collector{}
		w := c06Run(col, c.Seed, p)
		if w == nil {
			cb.broken = "signing-side violation while building the base: " + col.first
			return
		}
		w2 := c06Run(col, c.Seed, p)
		if w2 == nil || !bytes.Equal(w.file, w2.file) {
			cb.broken = "base artifact is not reproducible"
			return
		}
		secs, err := refsig.Sections(w.file)
		if err != nil {
			cb.broken = err.Error()
			return
		}
		for _, s := range secs {
			var fs []refsig.Field
			switch s.Name {
			case "signatures":
				cb.lo[0], cb.hi[0] = s.Start, s.End
				fs, err = refsig.SignatureFields(w.file, s)
			case "responses":
				cb.lo[1], cb.hi[1] = s.Start, s.End
				fs, err = refsig.ResponseFields(w.file, s)
			}
			if err != nil {
				cb.broken = err.Error()
				return
			}
			cb.fields = append(cb.fields, fs...)
		}
		if cb.hi[0] == 0 || cb.hi[1] == 0 {
			cb.broken = "sections not found"
			return
		}
		w.b = nil // the cached world is shared read-only: keep only immutable data
		cb.w = w
	})
	if cb.broken != "" {
		c.Outcome("base broken")
		c.Fail("C06/bit:"+desc+":base", "cannot build the signed base bundle", desc, "signed bundle", cb.broken)
		return
	}
	w := cb.w
	nSig := 8 * (cb.hi[0] - cb.lo[0])
	nResp := 8 * (cb.hi[1] - cb.lo[1])
	k := c.Dev(nSig+nResp+1, "bit")
	file := append([]byte{}, w.file...)
	region := "control"
	key := "C06/bit:" + desc + ":control"
	if k > 0 {
		bit := k - 1
		var off int
		if bit < nSig {
			off = cb.lo[0] + bit/8
		} else {
			off = cb.lo[1] + (bit-nSig)/8
		}
		file[off] ^= 1 << uint(bit%8)
		region = digitsRe06.ReplaceAllString(refsig.FieldAt(cb.fields, off), "[]")
		key = fmt.Sprintf("C06/bit:%s:off%d.%d", desc, off, bit%8)
		c.StatesByConstruction(1)
		if region != "structure" && !strings.HasSuffix(region, ".ocsp") && !strings.HasSuffix(region, ".sct") {
			c.NontrivialByConstruction(1)
		}
	}
	var mb *bundle.Bundle
	var err error
	if pan := c06Guarded(func() { mb, err = bundle.Read(bytes.NewReader(file)) }); pan != "" {
		// totality of the parser is C05/C10's subject; a crash is still not an acceptance
		c.Outcome(region + " -> bundle.Read panicked")
		return
	}
	if err != nil {
		if k == 0 {
			c.Fail(key, "the unmodified signed bundle cannot be read back", desc, "bundle", err.Error())
		}
		c.Outcome(region + " -> refused by bundle.Read")
		return
	}
	out := c06Judge(c, w, mb, c06MidTime(w), k == 0, key, fmt.Sprintf("%s, %s, file %d bytes", desc, key, len(file)))
	c.Outcome(region + " -> " + out)
	if k%997 == 1 {
		c.Sample(key + " (" + region + ") -> " + out)
	}
}

// ---- harness 3: semantic edits ---------------------------------------------------------------------

func c06FindEx(b *bundle.Bundle, u string) *bundle.Exchange {
	for _, e := range b.Exchanges {
		if e.Request.URL.String() == u {
			return e
		}
	}
	return nil
}

func c06EditRun(c *mc.Ctx) {
	bases := c06Bases(c.Tier, false)
	bi := c.Free(len(bases), "base")
	rtBefore := c.Free(2, "write/read before the edit") == 1
	p := bases[bi].plan(rtBefore)
	desc := p.String()
	w := c06Run(c, c.Seed, p)
	if w == nil {
		c.Outcome("base broken")
		return
	}
	mb := w.b
	var coveredURLs []string
	for _, u := range w.urls {
		if w.exs[u].signer >= 0 {
			coveredURLs = append(coveredURLs, u)
		}
	}
	tgtURL := coveredURLs[c.Free(len(coveredURLs), "target exchange")]
	m := w.exs[tgtURL]
	si := m.signer
	rec := w.signers[si]
	e := c06FindEx(mb, tgtURL)
	// partner exchange: another covered one, preferably of the same signer
	var other *bundle.Exchange
	for _, u := range coveredURLs {
		if u != tgtURL && w.exs[u].signer == si {
			other = c06FindEx(mb, u)
			break
		}
	}
	if other == nil {
		for _, u := range coveredURLs {
			if u != tgtURL {
				other = c06FindEx(mb, u)
				break
			}
		}
	}
	if other == nil {
		other = c06FindEx(mb, "https://z.test/")
	}
	var edits []string
	note := func(f string, a ...interface{}) { edits = append(edits, fmt.Sprintf(f, a...)) }

	// ---- choice points (fixed order; every one is a deviation) ----
	dSwap := c.Dev(2, "swap responses")
	dStatus := c.Dev(9, "status")
	var names []string
	for n := range e.Response.Header {
		names = append(names, n)
	}
	sort.Strings(names)
	dHdr := make([]int, len(names))
	for i, n := range names {
		dHdr[i] = c.Dev(7, "header "+strings.ToLower(n))
	}
	dAdd := c.Dev(3, "add header")
	dBody := c.Dev(10, "body")
	dForge := c.Dev(5, "consistent re-encoding")
	dSub := c.Dev(12, "signed subset")
	dSig := c.Dev(8, "sig")
	nAuth := len(mb.Signatures.Authorities)
	var authVals []uint64
	for a := 0; a <= nAuth; a++ {
		if a != rec.authIdx {
			authVals = append(authVals, uint64(a))
		}
	}
	authVals = append(authVals, 1<<32, 1<<63)
	dAuth := c.Dev(len(authVals)+1, "authority")
	dAuths := c.Dev(6, "authorities")
	dVouched := c.Dev(6, "vouched subsets")
	dVer := c.Dev(2, "version")
	dTime := c.Dev(5, "time")
	rtAfter := c.Free(2, "write/read after the edit") == 1

	// ---- apply: content first, then the signatures ----
	if dSwap == 1 {
		e.Response, other.Response = other.Response, e.Response
		note("swap: responses exchanged with %s", other.Request.URL)
	}
	switch dStatus {
	case 1:
		e.Response.Status = 604 - e.Response.Status // 200 <-> 404
		note("status=%d", e.Response.Status)
	case 2:
		e.Response.Status = 201
		note("status=201")
	case 3, 4, 5, 6, 7, 8:
		// the zero value (a cleared field), values that agree with the signed one in their low 8 / 16 bits or their
		// first three digits, and a negative one: a serializer that defaults, masks or truncates would map them
		// onto the signed status (a write/read after the edit may refuse them, which is a detection)
		o := e.Response.Status
		e.Response.Status = []int{0, o + 256, o + 65536, -o, o * 10, o + 1000}[dStatus-3]
		note("status=%d", e.Response.Status)
	}
	for i, n := range names {
		vals, present := e.Response.Header[n]
		if !present || len(vals) == 0 {
			continue // removed by the swap
		}
		switch dHdr[i] {
		case 1:
			vals[len(vals)-1] += "x"
			note("header %s: value+x", n)
		case 2:
			delete(e.Response.Header, n)
			note("header %s: removed", n)
		case 3:
			delete(e.Response.Header, n)
			e.Response.Header[n+"x"] = vals
			note("header %s: renamed", n)
		case 4:
			delete(e.Response.Header, n)
			e.Response.Header[strings.ToLower(n)] = vals
			note("header %s: key lower-cased (same field)", n)
		case 5:
			e.Response.Header[n] = append(vals, "extra")
			note("header %s: value appended", n)
		case 6:
			e.Response.Header[n] = strings.Split(strings.Join(vals, ","), ",")
			note("header %s: split at commas (same field)", n)
		}
	}
	switch dAdd {
	case 1:
		e.Response.Header["X-New"] = []string{"1"}
		note("header X-New: added")
	case 2:
		e.Response.Header["Content-Location"] = []string{"https://z.test/"}
		note("header Content-Location: added")
	}
	body := e.Response.Body
	flip := func(i int, bit uint) {
		if i >= 0 && i < len(body) {
			body = append([]byte{}, body...)
			body[i] ^= 1 << bit
		}
	}
	switch dBody {
	case 1:
		flip(7, 0)
		note("body: record-size field bit")
	case 2:
		flip(8, 0)
		note("body: first payload byte")
	case 3:
		flip(len(body)-1, 7)
		note("body: last byte")
	case 4:
		if len(body) > 0 {
			body = body[:len(body)-1]
		}
		note("body: truncated")
	case 5:
		body = append(append([]byte{}, body...), 0)
		note("body: one byte appended")
	case 6:
		body = nil
		note("body: emptied")
	case 7:
		if len(body) > 8+rec.step.rs {
			flip(8+rec.step.rs, 3)
		} else {
			flip(len(body)/2, 3)
		}
		note("body: proof / middle byte")
	case 8:
		body, _ = refsig.MIEncode(m.payload, rec.step.rs+1)
		note("body: same payload re-encoded with record size %d, Digest untouched", rec.step.rs+1)
	case 9:
		body = append([]byte{}, other.Response.Body...)
		note("body: replaced by the body of %s", other.Request.URL)
	}
	e.Response.Body = body
	digestKey := ""
	for n := range e.Response.Header {
		if strings.EqualFold(n, "Digest") {
			digestKey = n
		}
	}
	if digestKey == "" {
		digestKey = "Digest"
	}
	forge := func(payload []byte) {
		nb, dg := refsig.MIEncode(payload, rec.step.rs)
		e.Response.Body = nb
		e.Response.Header[digestKey] = []string{dg}
	}
	switch dForge {
	case 1:
		pl := append([]byte{}, m.payload...)
		if len(pl) == 0 {
			pl = []byte{0x41}
		} else {
			pl[0] ^= 0x80
		}
		forge(pl)
		note("payload altered, re-encoded, Digest rewritten")
	case 2:
		forge(append(append([]byte{}, m.payload...), '!'))
		note("payload extended, re-encoded, Digest rewritten")
	case 3:
		if len(m.payload) > 0 {
			forge(m.payload[:len(m.payload)-1])
		} else {
			forge([]byte("x"))
		}
		note("payload shortened, re-encoded, Digest rewritten")
	case 4:
		e.Response.Body = append([]byte{}, other.Response.Body...)
		if d, ok := other.Response.Header["Digest"]; ok {
			e.Response.Header[digestKey] = append([]string{}, d...)
		}
		note("payload: body and Digest taken from %s", other.Request.URL)
	}
	sigs := mb.Signatures
	vs := sigs.VouchedSubsets[si]
	if dSub != 0 {
		sub, err := refsig.ParseSubset(vs.Signed)
		if err != nil {
			panic(err)
		}
		in := sub.Hashes[tgtURL]
		switch dSub {
		case 1:
			hh, err := refsig.HeaderSHA256(e.Response.Status, e.Response.Header)
			if err == nil {
				in.HeaderSHA256 = hh
				sub.Hashes[tgtURL] = in
			}
			note("subset: header-sha256 recomputed for the current headers")
		case 2:
			delete(sub.Hashes, tgtURL)
			sub.Hashes[tgtURL+"x"] = in
			note("subset: URL renamed")
		case 3:
			in.ID = "mi-draft2"
			sub.Hashes[tgtURL] = in
			note("subset: integrity id altered")
		case 4:
			sub.Date--
			note("subset: date-1")
		case 5:
			sub.Expires++
			note("subset: expires+1")
		case 6:
			sub.Expires += 7 * 24 * 3600
			note("subset: expires+7d")
		case 7:
			o := sha256.Sum256(fixtures.A.CA.Raw)
			sub.AuthSHA256 = o[:]
			note("subset: auth-sha256 of the CA")
		case 8:
			sub.ValidityURL += "x"
			note("subset: validity-url altered")
		case 9:
			delete(sub.Hashes, tgtURL)
			note("subset: entry removed")
		case 10:
			in.Variants = []byte("x")
			sub.Hashes[tgtURL] = in
			note("subset: variants-value set")
		case 11:
			z := c06FindEx(mb, "https://z.test/")
			hh, err := refsig.HeaderSHA256(z.Response.Status, z.Response.Header)
			if err == nil {
				sub.Hashes["https://z.test/"] = refsig.Integrity{HeaderSHA256: hh, ID: refsig.IntegrityID}
			}
			note("subset: entry for the uncovered exchange added")
		}
		vs.Signed = sub.Encode()
	}
	otherVS := sigs.VouchedSubsets[(si+1)%len(sigs.VouchedSubsets)]
	sig := append([]byte{}, vs.Sig...)
	switch dSig {
	case 1:
		sig[len(sig)-1] ^= 1
		note("sig: last byte")
	case 2:
		sig[0] ^= 1
		note("sig: first byte")
	case 3:
		sig[len(sig)/2] ^= 0x10
		note("sig: middle byte")
	case 4:
		sig = sig[:len(sig)-1]
		note("sig: truncated")
	case 5:
		sig = append(sig, 0)
		note("sig: one byte appended")
	case 6:
		sig = nil
		note("sig: emptied")
	case 7:
		if otherVS != vs {
			sig = append([]byte{}, otherVS.Sig...)
			note("sig: taken from the other subset")
		} else {
			sig[1] ^= 1
			note("sig: length byte")
		}
	}
	vs.Sig = sig
	if dAuth > 0 {
		vs.Authority = authVals[dAuth-1]
		note("authority=%d", vs.Authority)
	}
	switch dAuths {
	case 1:
		repl := map[string]*fixtures.ECIdentity{"A": fixtures.A2, "A2": fixtures.A, "B": fixtures.C, "C": fixtures.A}[rec.ident.name]
		old := sigs.Authorities[rec.authIdx]
		sigs.Authorities[rec.authIdx] = &certurl.AugmentedCertificate{Cert: repl.Leaf, OCSPResponse: old.OCSPResponse, SCTList: old.SCTList}
		note("authorities: signer's leaf replaced by %s", repl.Name)
	case 2:
		j := rec.authIdx + 1
		if j >= nAuth {
			j = rec.authIdx - 1
		}
		if j >= 0 {
			sigs.Authorities[rec.authIdx], sigs.Authorities[j] = sigs.Authorities[j], sigs.Authorities[rec.authIdx]
		}
		note("authorities: leaf swapped with its neighbour")
	case 3:
		j := rec.authIdx + 1
		if j >= nAuth {
			j = nAuth - 1
		}
		sigs.Authorities = append(append([]*certurl.AugmentedCertificate{}, sigs.Authorities[:j]...), sigs.Authorities[j+1:]...)
		note("authorities: entry %d removed", j)
	case 4:
		sigs.Authorities = append([]*certurl.AugmentedCertificate{sigs.Authorities[0]}, sigs.Authorities...)
		note("authorities: first entry duplicated at the front")
	case 5:
		old := sigs.Authorities[rec.authIdx]
		sigs.Authorities[rec.authIdx] = &certurl.AugmentedCertificate{Cert: old.Cert, OCSPResponse: []byte("other ocsp"), SCTList: old.SCTList}
		note("authorities: leaf's OCSP replaced (not authenticated)")
	}
	switch dVouched {
	case 1:
		for i, j := 0, len(sigs.VouchedSubsets)-1; i < j; i, j = i+1, j-1 {
			sigs.VouchedSubsets[i], sigs.VouchedSubsets[j] = sigs.VouchedSubsets[j], sigs.VouchedSubsets[i]
		}
		note("vouched: order reversed")
	case 2:
		vs.Signed, otherVS.Signed = otherVS.Signed, vs.Signed
		note("vouched: signed bytes exchanged between subsets")
	case 3:
		var keep []*bundle.VouchedSubset
		for _, x := range sigs.VouchedSubsets {
			if x != vs {
				keep = append(keep, x)
			}
		}
		sigs.VouchedSubsets = keep
		note("vouched: the signer's subset dropped")
	case 4:
		sigs.VouchedSubsets = append(sigs.VouchedSubsets, &bundle.VouchedSubset{Authority: vs.Authority, Sig: vs.Sig, Signed: vs.Signed})
		note("vouched: the signer's subset duplicated")
	case 5:
		sigs.VouchedSubsets = []*bundle.VouchedSubset{vs}
		note("vouched: the other subsets dropped")
	}
	if dVer == 1 {
		if mb.Version == bundleversion.VersionB1 {
			mb.Version = bundleversion.VersionB2
			mb.ManifestURL = nil
		} else {
			mb.Version = bundleversion.VersionB1
		}
		note("version: switched to %s", mb.Version)
	}
	t := []int64{(rec.date + rec.expires) / 2, rec.date, rec.expires, rec.date - 1, rec.expires + 1}[dTime]
	if dTime != 0 {
		note("time: date%+d", t-rec.date)
	}
	pristine := len(edits) == 0 || (len(edits) == 1 && (dTime == 1 || dTime == 2))
	ed := strings.Join(edits, "; ")
	if ed == "" {
		ed = "no edit"
	}
	key := fmt.Sprintf("C06/edit:%s:%s:%s", desc, tgtURL, ed)
	if rtAfter {
		key += ":reread"
		nb, _, err := c06RoundTrip(mb)
		c.Transitions(2)
		if err != nil {
			if pristine {
				c.Fail(key, "the unmodified signed bundle cannot be written and read back", desc, "bundle", err.Error())
			}
			c.Outcome("edited bundle not serializable / not readable")
			return
		}
		mb = nb
	}
	class := "edit"
	switch c.Devs() {
	case 0:
		class = "control"
	case 1:
		class = strings.SplitN(ed, ":", 2)[0]
		class = strings.SplitN(class, " ", 2)[0]
		class = strings.SplitN(class, "=", 2)[0]
	default:
		class = "two edits"
	}
	out := c06Judge(c, w, mb, t, pristine, key, desc+" target "+tgtURL+" edits: "+ed)
	c.Outcome(class + " -> " + out)
	c.State([]byte(key))
	if c.Devs() > 0 {
		c.Nontrivial([]byte(key))
	}
	c.Sample(key + " -> " + out)
}

var digitsRe06 = regexp.MustCompile(`\[[0-9]+\]`)

func init() {
	hist := &mc.Harness{
		Name:  "C06/histories",
		Mode:  "explicit-state search over signer histories (state = signed-subset stack + authority indices), one signer-side deviation",
		Bound: func(string) int { return 1 },
		Run:   c06HistoryRun,
	}
	bits := &mc.Harness{
		Name:  "C06/bitflips",
		Bound: func(string) int { return 1 },
		Run:   c06BitRun,
	}
	recsizes := &mc.Harness{
		Name: "C06/record-sizes",
		Run:  c06RecordSizeRun,
	}
	edits := &mc.Harness{
		Name: "C06/edits",
		Bound: func(tier string) int {
			if tier == "thorough" {
				return 2
			}
			return 1
		},
		Run: c06EditRun,
	}
	register(&mc.Property{
		ID:    "C06",
		Level: "model_checking",
		Rule:  "record-sizes: one signer (A, B quick; all four thorough) x b1/b2 x record size {2,3,255,256,16351,16352,16353,16383,16384} x all 10 layouts of status {200,404} x body length {0,1,rs,rs+1,2rs+1} over 9 exchanges (also without the exchanges of c.test / of b.test, so that a signer for those hosts vouches for an empty set), written and re-read after signing (thorough: also not), verified at the five boundary times of the window; histories: every sequence of 1..2 (quick) / 1..3 (thorough) signers from {A (2-cert chain), B (P-384), A2 (2-cert chain), C} x record sizes {1,16,4096} x write/read before the first signer and after each signer x b1/b2 x 8/10 layouts rotating status {200,404} x payload length {0,1,rs,rs+1[,2rs+1]} over 9 exchanges x 2/3 dates incl. 2^32, with at most one deviating signer (window 7d+1s / 1h / shifted, lying auth-sha256, foreign integrity id), verified at the five boundary times of every window; bitflips: every single bit of the signatures and responses sections of 2 (quick) / 28 (thorough) signed bundles; edits: every listed in-memory edit (quick) / every pair of edits at different sites (thorough) on every covered exchange of 4 / 16 signed bundles, with and without write/read before and after.  A history is non-trivial when it has two completed signers, a refused signer or a deviation; a bit flip when it lands in certificate, authority, sig, signed, header-map or payload bytes; an edit when at least one deviation was taken.",
		Assumptions: []string{
			"refsig/refcbor (independent signed-subset, header-map, MI and signatures-section serializers written from extensions/signatures-section.md and draft-thomson-http-mice-03) are correct; crypto/ecdsa, crypto/sha256, crypto/x509 are trusted",
			"ECDSA itself is not explored ((r, n-s) malleability, nonce quality); bitflips/edits use a constant entropy source so that artifacts are reproducible, histories use crypto/rand",
			"seven exchanges, four fixture identities, three record sizes in histories/bitflips/edits and twelve in record-sizes, and one seeded payload pattern stand for all (small-scope hypothesis); payloads up to 32769 bytes",
			"'unaltered headers' means the same field set up to name case and folding of repeated values with ','; the encoded body may differ where mi-sha256 does not authenticate it (record-size field of a single-record body) as long as the decoded payload is the original",
		},
		Harnesses: []*mc.Harness{hist, recsizes, bits, edits},
		Guard: func(s map[string]*mc.Stats) error {
			h := s["C06/histories"]
			if h == nil || s["C06/bitflips"] == nil || s["C06/edits"] == nil {
				return fmt.Errorf("a harness did not run")
			}
			if h.NViolations == 0 {
				if h.Outcomes["model: 2 signers complete"] == 0 || h.Outcomes["model: history ends with a refused signer"] == 0 || h.Outcomes["model: a later signer's authority index differs from its position"] == 0 {
					return fmt.Errorf("histories: no two-signer history / no refused signer / no shifted authority index generated")
				}
			}
			if s["C06/bitflips"].Executions < 20000 {
				return fmt.Errorf("bit sweep too small: %d", s["C06/bitflips"].Executions)
			}
			if s["C06/edits"].Executions < 2000 {
				return fmt.Errorf("edit sweep too small: %d", s["C06/edits"].Executions)
			}
			return nil
		},
	})
}
