package main

// C09/validity-ports: the port of the validity URL swept through a whole range (and a few hosts that differ from the
// request host by trailing digits): same-origin is an exact comparison of scheme, host and port, so every port other
// than the request URL's must be rejected.  The alphabets of c09.go have three ports.

import (
	"fmt"

	"github.com/WICG/webpackage/go/signedexchange/zverif/mc"
	"github.com/WICG/webpackage/go/signedexchange/zverif/refpolicy"
)

func c09ValidityPorts(c *mc.Ctx) {
	cs := &c09Case{method: "GET", status: 200, ctype: true}
	cs.ver = c.Free(3, "version")
	cs.reqURL = c09ReqURLs[c.Free(len(c09ReqURLs), "request-url")]
	verS := string(c09Versions[cs.ver])
	right, _ := refpolicy.IntegrityFor(verS)
	var ports []int
	if c.Quick() {
		for p := 1; p <= 1100; p++ {
			ports = append(ports, p)
		}
		ports = append(ports, 3443, 4433, 4434, 4443, 8080, 8443, 8444, 44300, 44333, 65535)
	} else {
		for p := 1; p <= 65535; p++ {
			ports = append(ports, p)
		}
	}
	hosts := []string{"a.test", "a.test4", "a.test3", "a.test43", "a.tes", "a.test.", "A.TEST"}
	var vurl, dev string
	k := c.Free(len(ports)+len(hosts)-1, "validity port or host")
	if k < len(ports) {
		p := ports[k]
		if p == 443 {
			c.Outcome("skipped: explicit default port (equivalence with the port-less form is not judged)")
			return
		}
		vurl = fmt.Sprintf("https://a.test:%d/resource.validity", p)
		dev = fmt.Sprintf("validity-port=%d", p)
	} else {
		h := hosts[1+k-len(ports)]
		if h == "A.TEST" || h == "a.test." {
			c.Outcome("skipped: host letter case / trailing dot (not judged)")
			return
		}
		vurl = "https://" + h + "/resource.validity"
		dev = "validity-host=" + h
	}
	cs.sigs = []c09Sig{{tm: c09Time{"default", 1000, 1000, 0}, validity: vurl, integrity: right}}
	if cs.reqURL != c09ReqURLs[0] {
		dev = "url=port8443;" + dev
	}
	c09Judge(c, cs, dev)
}

func init() {
	p := props["C09"]
	p.Harnesses = append(p.Harnesses, &mc.Harness{Name: "C09/validity-ports", Run: c09ValidityPorts})
	p.Rule += " C09/validity-ports: version x request URL with / without an explicit port x validity URL https://a.test:<p>/ for every p in 1..1100 plus 10 others (quick) / every p in 1..65535 (thorough), p = 443 excepted, and validity hosts a.test4, a.test3, a.test43, a.tes; each really signed and compared with the reference's same-origin verdict."
}
