package main

// C17 — cert-chain+cbor and SCT lists.
//
// Code under test: certurl.CertChain.Write / Validate / NewCertChain,
// certurl.ReadCertChain, certurl.SerializeSCTList (the real packages of the
// working tree).  Oracle: package refcert (canonical serializer, strict reader,
// RFC 6962 vector codec), built on refcbor and the standard library only.
//
// Four harnesses:
//
//	C17/roundtrip  chains of 1..3 certificates x every presence pattern of
//	               ocsp/sct per position x blob lengths on both sides of every
//	               CBOR head class {0,1,23,24,255,256,65535,65536} x three reader
//	               behaviours.  Presence and the first certificate are free
//	               choices; blob lengths and the reader are deviations from
//	               (256 bytes, bytes.Reader): quick = at most 2 deviations,
//	               thorough = the full product.
//	C17/certs      every selection (with repetition, in order) of 0..3 of the 5
//	               fixture certificates x every presence pattern, fixed small
//	               blobs, chain built as a literal or through NewCertChain.
//	C17/hostile    reference-built inputs for ReadCertChain: every presence
//	               pattern with absent/empty/non-empty values, missing cert,
//	               zero certificates, unknown keys, wrong magic, wrong shapes,
//	               truncations, key orders, duplicate keys, trailing bytes,
//	               non-shortest / indefinite heads, wrong value types.
//	C17/sct        every list of 0..3 SCTs with sizes from
//	               {0,1,2,65531..65536} through SerializeSCTList.
//
// What is claimed (and nothing more):
//   - a chain is refused by Write iff it breaks the presence rule (no ocsp on
//     the first certificate, ocsp on a later one, no certificate at all);
//   - for a legal chain Write's bytes equal the reference's canonical bytes, the
//     reference strict reader returns the same triples from them, and
//     ReadCertChain returns the same number of certificates with byte-equal DER,
//     OCSP and SCT.  "Byte-equal" is bytes.Equal: whether an *absent* sct comes
//     back as nil or as an empty slice is recorded in the outcome class
//     (presence-preserved=...) but not judged, because the property only speaks
//     of bytes.  (nil-ness of ocsp is judged indirectly: ReadCertChain validates
//     what it read, so a first ocsp that came back nil, or a later one that came
//     back non-nil, makes the read fail.)
//   - ReadCertChain refuses inputs that have an illegal presence pattern, lack a
//     "cert" text key in some map, or contain no certificate; it accepts the
//     canonical encoding of a legal chain; it never panics.
//   - everything else about hostile inputs (unknown keys, magic, non-canonical
//     encodings, duplicates, trailing bytes, value types) is only recorded as
//     "ref=<verdict> impl=<verdict>" outcome classes: the property text does
//     not settle it.
//   - SerializeSCTList returns an error iff an element or the sum of (2+len)
//     exceeds 65535; otherwise its output equals the reference encoding, parses
//     back to exactly the inputs in order and its first two bytes are the length
//     of the rest.  RFC 6962's lower bounds (<1..) are recorded, not judged.

import (
	"bytes"
	"crypto/x509"
	"fmt"
	"io"
	"strings"
	"sync"
	"testing/iotest"

	"github.com/WICG/webpackage/go/signedexchange/certurl"
	"github.com/WICG/webpackage/go/signedexchange/zverif/fixtures"
	"github.com/WICG/webpackage/go/signedexchange/zverif/mc"
	"github.com/WICG/webpackage/go/signedexchange/zverif/refcbor"
	"github.com/WICG/webpackage/go/signedexchange/zverif/refcert"
)

type c17Cert struct {
	name string
	cert *x509.Certificate
}

// Five distinct certificates: three P-256 leaves, one P-384 leaf, the CA.
var c17Pool = []c17Cert{
	{"A", fixtures.A.Leaf},
	{"B", fixtures.B.Leaf},
	{"CA", fixtures.A.CA},
	{"C", fixtures.C.Leaf},
	{"A2", fixtures.A2.Leaf},
}

// Blob lengths; index 0 is the default (costs no deviation).
var c17Lens = []int{256, 0, 1, 23, 24, 255, 65535, 65536}

// One read-only block of content bytes per run (content depends on VERIF_SEED
// only, never on verdicts); blobs are windows into it at slot-specific offsets
// so that different slots carry different bytes.
var (
	c17MasterOnce sync.Once
	c17Master     []byte
)

func c17Blob(seed int64, slot, n int) []byte {
	c17MasterOnce.Do(func() { c17Master = pattern(1<<16+1024, seed+17) })
	off := 1 + slot*101
	return c17Master[off : off+n : off+n] // non-nil even when n == 0
}

func c17Own(b []byte) []byte { return append([]byte{}, b...) } // fresh, non-nil

func c17Reader(b []byte, mode int) io.Reader {
	switch mode {
	case 1:
		return &c17ShortReader{b: b}
	case 2:
		return iotest.DataErrReader(bytes.NewReader(b)) // last data arrives together with io.EOF
	}
	return bytes.NewReader(b)
}

// c17ReadMode reads a chain through the reader of the given mode.  Mode 3: the bytes are handed over in a
// *bytes.Buffer whose storage the caller reuses right after the call (Reset + other content of the same
// length, as a server recycling one scratch buffer does): what ReadCertChain returned must not change.
func c17ReadMode(b []byte, mode int) (certurl.CertChain, error, interface{}) {
	if mode != 3 {
		return c17Read(c17Reader(b, mode))
	}
	store := append([]byte{}, b...)
	buf := bytes.NewBuffer(store)
	ch, err, pan := c17Read(buf)
	buf.Reset()
	buf.Write(bytes.Repeat([]byte{0xEE}, len(b)))
	for i := range store {
		store[i] = 0xEE
	}
	return ch, err, pan
}

// c17ShortReader never fills the caller's buffer when more than one byte is asked
// for: requests of up to 16 bytes (CBOR heads and their 1/2/4/8 follow bytes) get
// exactly one byte, larger ones (string bodies) get at most half of the request,
// capped at 1021.  Every multi-byte read of the decoder is therefore split.
type c17ShortReader struct {
	b []byte
}

func (r *c17ShortReader) Read(p []byte) (int, error) {
	if len(p) == 0 {
		return 0, nil
	}
	if len(r.b) == 0 {
		return 0, io.EOF
	}
	k := 1
	if len(p) > 16 {
		k = len(p) / 2
		if k > 1021 {
			k = 1021
		}
	}
	if k > len(r.b) {
		k = len(r.b)
	}
	copy(p, r.b[:k])
	r.b = r.b[k:]
	return k, nil
}

var c17ReaderNames = []string{"bytes.Reader", "short-reads", "data+EOF", "bytes.Buffer reused by the caller afterwards"}

func c17Write(ch certurl.CertChain, w io.Writer) (err error, pan interface{}) {
	defer func() {
		if p := recover(); p != nil {
			pan = p
		}
	}()
	err = ch.Write(w)
	return
}

func c17Read(r io.Reader) (ch certurl.CertChain, err error, pan interface{}) {
	defer func() {
		if p := recover(); p != nil {
			pan = p
		}
	}()
	ch, err = certurl.ReadCertChain(r)
	return
}

func c17SCT(scts [][]byte) (out []byte, err error, pan interface{}) {
	defer func() {
		if p := recover(); p != nil {
			pan = p
		}
	}()
	out, err = certurl.SerializeSCTList(scts)
	return
}

// c17Compare compares what ReadCertChain returned with the expected triples.
// diff is "" when the count and every DER/OCSP/SCT are byte-equal; presence says
// whether nil-ness of ocsp and sct agrees as well (recorded only).
func c17Compare(got certurl.CertChain, want []refcert.Entry) (diff string, presence bool) {
	if len(got) != len(want) {
		return fmt.Sprintf("%d certificates, want %d", len(got), len(want)), false
	}
	presence = true
	for i, w := range want {
		g := got[i]
		if g == nil || g.Cert == nil {
			return fmt.Sprintf("certificate %d: nil", i), false
		}
		if !bytes.Equal(g.Cert.Raw, w.Cert) {
			return fmt.Sprintf("certificate %d: DER differs (%d bytes, want %d)", i, len(g.Cert.Raw), len(w.Cert)), false
		}
		if !bytes.Equal(g.OCSPResponse, w.OCSP) {
			return fmt.Sprintf("certificate %d: OCSP differs (%d bytes, want %d)", i, len(g.OCSPResponse), len(w.OCSP)), false
		}
		if !bytes.Equal(g.SCTList, w.SCT) {
			return fmt.Sprintf("certificate %d: SCT differs (%d bytes, want %d)", i, len(g.SCTList), len(w.SCT)), false
		}
		if (g.OCSPResponse == nil) != (w.OCSP == nil) || (g.SCTList == nil) != (w.SCT == nil) {
			presence = false
		}
	}
	return "", presence
}

func c17EntriesEqual(a, b []refcert.Entry) bool {
	if len(a) != len(b) {
		return false
	}
	for i := range a {
		if !bytes.Equal(a[i].Cert, b[i].Cert) || !bytes.Equal(a[i].OCSP, b[i].OCSP) || !bytes.Equal(a[i].SCT, b[i].SCT) {
			return false
		}
		if (a[i].OCSP == nil) != (b[i].OCSP == nil) || (a[i].SCT == nil) != (b[i].SCT == nil) || (a[i].Cert == nil) != (b[i].Cert == nil) {
			return false
		}
	}
	return true
}

// c17ImplStage names the stage at which ReadCertChain refused (histogram only).
func c17ImplStage(err error) string {
	s := err.Error()
	for _, k := range []struct{ sub, name string }{
		{"top-level array header", "array-header"},
		{"length of top-level array", "array-length"},
		{"failed to decode magic", "magic-decode"},
		{"wrong magic", "magic-value"},
		{"certificate map header", "map-header"},
		{"failed to decode map key", "map-key"},
		{"failed to decode map value", "map-value"},
		{"cannot parse X.509", "x509"},
		{"must have \"cert\" key", "missing-cert"},
		{"first certificate must have an OCSP", "ocsp-missing-on-first"},
		{"must not have an OCSP", "ocsp-on-later"},
		{"must not be empty", "empty-chain"},
	} {
		if strings.Contains(s, k.sub) {
			return k.name
		}
	}
	return "other"
}

func c17HeadClass(n int) string {
	switch {
	case n < 0:
		return "none"
	case n <= 23:
		return "1"
	case n <= 255:
		return "2"
	case n <= 65535:
		return "3"
	}
	return "5"
}

func c17DescribeEntries(names []string, es []refcert.Entry) string {
	f := func(b []byte) string {
		if b == nil {
			return "-"
		}
		return fmt.Sprint(len(b))
	}
	var o, s []string
	for _, e := range es {
		o = append(o, f(e.OCSP))
		s = append(s, f(e.SCT))
	}
	return fmt.Sprintf("certs=[%s] ocsp=[%s] sct=[%s]", strings.Join(names, ","), strings.Join(o, ","), strings.Join(s, ","))
}

// c17CheckChain is the oracle shared by C17/roundtrip and C17/certs: Write, then
// (for legal chains) reference bytes, reference reader, ReadCertChain.  rd is
// asked for the reader behaviour only when the chain is legal by the reference's
// rule (the reader is never reached otherwise).
func c17CheckChain(c *mc.Ctx, hname, desc string, entries []refcert.Entry, chain certurl.CertChain, rd func() int) {
	want, rerr := refcert.Serialize(entries)
	c.State([]byte(desc))
	key := hname + ":" + desc
	var out bytes.Buffer
	werr, pan := c17Write(chain, &out)
	c.Transitions(1)
	c.Traces(1)
	c.Eval()
	if pan != nil {
		c.Outcome("Write panicked")
		c.Fail(key+":write-panic", "CertChain.Write panicked", desc, "error or output", fmt.Sprint(pan))
		return
	}
	if rerr != nil {
		c.Outcome("ref:illegal " + refcert.ClassOf(rerr))
		c.Nontrivial([]byte(desc))
		if werr == nil {
			c.Outcome("illegal chain WRITTEN")
			c.Fail(key+":illegal-written", "a chain that breaks the ocsp presence rule ("+rerr.Error()+") was written", desc, "error from Write", fmt.Sprintf("nil error, %d bytes written: %s", out.Len(), hx(out.Bytes())))
			return
		}
		wrote := "nothing written"
		if out.Len() > 0 {
			wrote = "partial output"
		}
		c.Outcome(fmt.Sprintf("illegal (%s) refused by Write at %s, %s", refcert.ClassOf(rerr), c17ImplStage(werr), wrote))
		return
	}
	c.Outcome("ref:legal")
	mode := rd()
	if werr != nil {
		c.Outcome("legal chain REFUSED")
		c.Fail(key+":legal-refused", "a legal chain was refused by Write", desc, "nil", werr.Error())
		return
	}
	if !bytes.Equal(out.Bytes(), want) {
		c.Outcome("output differs from canonical reference")
		c.Fail(key+":bytes", "Write output differs from the canonical cert-chain+cbor encoding", desc, hx(want), hx(out.Bytes()))
		return
	}
	back, perr := refcert.Parse(out.Bytes())
	if perr != nil || !c17EntriesEqual(back, entries) {
		c.Outcome("reference reader disagrees")
		c.Fail(key+":ref-read", "the reference strict reader does not return the written triples from Write's output", desc, "same triples", fmt.Sprintf("err=%v entries=%d", perr, len(back)))
		return
	}
	got, err, pan := c17ReadMode(out.Bytes(), mode)
	c.Transitions(1)
	if pan != nil {
		c.Outcome("ReadCertChain panicked")
		c.Fail(key+":read-panic", "ReadCertChain panicked on Write's own output", desc, "chain", fmt.Sprint(pan))
		return
	}
	if err != nil {
		c.Outcome("ReadCertChain refused Write's output at " + c17ImplStage(err))
		c.Fail(key+":read-refused", "ReadCertChain refused the output of Write", desc+" reader="+c17ReaderNames[mode], "nil", err.Error())
		return
	}
	diff, presence := c17Compare(got, entries)
	if diff != "" {
		c.Outcome("round trip differs")
		c.Fail(key+":roundtrip", "ReadCertChain(Write(c)) differs from c", desc+" reader="+c17ReaderNames[mode], "byte-equal DER, OCSP and SCT", diff)
		return
	}
	largest := -1
	for _, e := range entries {
		for _, b := range [][]byte{e.OCSP, e.SCT} {
			if b != nil && len(b) > largest {
				largest = len(b)
			}
		}
	}
	c.Outcome(fmt.Sprintf("round trip ok n=%d largest-blob-head=%s reader=%s presence-preserved=%v", len(entries), c17HeadClass(largest), c17ReaderNames[mode], presence))
	c.Nontrivial([]byte(desc), []byte{byte(mode)})
	c.Sample(fmt.Sprintf("%s reader=%s -> %d bytes, round trip ok", desc, c17ReaderNames[mode], out.Len()))
}

// ---- hostile inputs ----

type c17Base struct {
	n       int
	entries []refcert.Entry
	kvs     [][]refcbor.KV // per certificate, canonical key order (sct, cert, ocsp)
}

func c17CanonicalKVs(e refcert.Entry) []refcbor.KV {
	var kvs []refcbor.KV
	if e.SCT != nil {
		kvs = append(kvs, refcbor.KV{K: refcbor.EncText("sct"), V: refcbor.EncBytes(e.SCT)})
	}
	if e.Cert != nil {
		kvs = append(kvs, refcbor.KV{K: refcbor.EncText("cert"), V: refcbor.EncBytes(e.Cert)})
	}
	if e.OCSP != nil {
		kvs = append(kvs, refcbor.KV{K: refcbor.EncText("ocsp"), V: refcbor.EncBytes(e.OCSP)})
	}
	return kvs
}

// c17MakeBase: a legal chain of n distinct certificates; the first carries ocsp
// and sct, the later ones sct only.
func c17MakeBase(n int) *c17Base {
	b := &c17Base{n: n}
	for i := 0; i < n; i++ {
		e := refcert.Entry{Cert: c17Pool[i].cert.Raw, SCT: []byte(fmt.Sprintf("SCT%d", i))}
		if i == 0 {
			e.OCSP = []byte("OCS")
		}
		b.entries = append(b.entries, e)
		b.kvs = append(b.kvs, c17CanonicalKVs(e))
	}
	return b
}

// c17RawMap encodes the pairs in the order given, duplicates and all.
func c17RawMap(kvs []refcbor.KV) []byte {
	out := refcbor.AppendHead(nil, refcbor.Map, uint64(len(kvs)))
	for _, kv := range kvs {
		out = append(out, kv.K...)
		out = append(out, kv.V...)
	}
	return out
}

func (b *c17Base) maps() [][]byte {
	var m [][]byte
	for _, kvs := range b.kvs {
		m = append(m, c17RawMap(kvs))
	}
	return m
}

func c17Assemble(magic []byte, maps [][]byte) []byte {
	return refcbor.EncArray(append([][]byte{magic}, maps...)...)
}

func c17Concat(parts ...[]byte) []byte {
	var out []byte
	for _, p := range parts {
		out = append(out, p...)
	}
	return out
}

var c17MagicItem = refcbor.EncText(refcert.Magic)

func c17SortedMap(kvs []refcbor.KV) []byte {
	m, err := refcbor.EncMap(kvs)
	if err != nil {
		return c17RawMap(kvs)
	}
	return m
}

// c17WithoutKey returns kvs without the entry whose key is the text string name.
func c17WithoutKey(kvs []refcbor.KV, name string) []refcbor.KV {
	var out []refcbor.KV
	k := refcbor.EncText(name)
	for _, kv := range kvs {
		if !bytes.Equal(kv.K, k) {
			out = append(out, kv)
		}
	}
	return out
}

func c17Value(kvs []refcbor.KV, name string) []byte {
	k := refcbor.EncText(name)
	for _, kv := range kvs {
		if bytes.Equal(kv.K, k) {
			return kv.V
		}
	}
	return nil
}

// c17ReplaceMap assembles the base chain with certificate p's map replaced.
func (b *c17Base) withMap(p int, m []byte) []byte {
	maps := b.maps()
	maps[p] = m
	return c17Assemble(c17MagicItem, maps)
}

// A hostile kind.  claim: "refuse" (the property requires refusal), "accept"
// (canonical legal chain: must be accepted with equal triples; want = expected
// triples), "" (recorded only).
type c17Kind struct {
	name     string
	maxN     int
	perPos   bool
	variants func(n, p int) int
	build    func(b *c17Base, p, v int) (in []byte, label, claim string, want []refcert.Entry)
}

var c17UnknownKeys = []struct {
	name string
	enc  []byte
}{
	{"text 'a' (sorts first)", refcbor.EncText("a")},
	{"text 'zzzzz' (sorts last)", refcbor.EncText("zzzzz")},
	{"text 'certx'", refcbor.EncText("certx")},
	{"empty text", refcbor.EncText("")},
	{"uint 1 (not tstr)", refcbor.EncUint(1)},
}

var c17UnknownValues = []struct {
	name string
	enc  []byte
}{
	{"bytes", refcbor.EncBytes([]byte{1, 2})},
	{"uint", refcbor.EncUint(7)},
	{"text", refcbor.EncText("x")},
	{"array", refcbor.EncArray(refcbor.EncUint(1))},
	{"map", refcbor.MustMap()},
	{"nested array", refcbor.EncArray(refcbor.EncArray(refcbor.EncBytes([]byte{0})))},
}

func c17Kinds() []c17Kind {
	fixed := func(k int) func(n, p int) int { return func(n, p int) int { return k } }
	return []c17Kind{
		{
			// every map gets ocsp and sct independently absent / empty / 3 bytes
			name: "presence", maxN: 3,
			variants: func(n, p int) int {
				k := 1
				for i := 0; i < n; i++ {
					k *= 9
				}
				return k
			},
			build: func(b *c17Base, p, v int) ([]byte, string, string, []refcert.Entry) {
				val := func(d, pos int, tag byte) []byte {
					switch d {
					case 0:
						return nil
					case 1:
						return []byte{}
					}
					return []byte{tag, byte(pos), 0xEE}
				}
				var es []refcert.Entry
				for i := 0; i < b.n; i++ {
					d := v % 9
					v /= 9
					es = append(es, refcert.Entry{Cert: b.entries[i].Cert, OCSP: val(d%3, i, 'o'), SCT: val(d/3, i, 's')})
				}
				in := refcert.SerializeUnchecked(es)
				if err := refcert.CheckPresence(es); err != nil {
					return in, "illegal pattern", "refuse", nil
				}
				return in, "legal pattern", "accept", es
			},
		},
		{
			name: "missing-cert", maxN: 3, perPos: true, variants: fixed(5),
			build: func(b *c17Base, p, v int) ([]byte, string, string, []refcert.Entry) {
				rest := c17WithoutKey(b.kvs[p], "cert")
				der := c17Value(b.kvs[p], "cert")
				switch v {
				case 0:
					return b.withMap(p, c17RawMap(nil)), "empty map", "refuse", nil
				case 1:
					return b.withMap(p, c17SortedMap(rest)), "cert entry removed", "refuse", nil
				case 2:
					return b.withMap(p, c17SortedMap(append(rest, refcbor.KV{K: refcbor.EncText("Cert"), V: der}))), "key 'Cert'", "refuse", nil
				case 3:
					return b.withMap(p, c17SortedMap(append(rest, refcbor.KV{K: refcbor.EncBytes([]byte("cert")), V: der}))), "key h'63657274' (byte string)", "refuse", nil
				}
				return b.withMap(p, c17SortedMap(append(rest, refcbor.KV{K: refcbor.EncText("certificate"), V: der}))), "key 'certificate'", "refuse", nil
			},
		},
		{
			name: "zero-certs", maxN: 1, variants: fixed(3),
			build: func(b *c17Base, p, v int) ([]byte, string, string, []refcert.Entry) {
				switch v {
				case 0:
					return []byte{}, "empty input", "refuse", nil
				case 1:
					return refcbor.EncArray(), "[]", "refuse", nil
				}
				return refcbor.EncArray(c17MagicItem), "[magic]", "refuse", nil
			},
		},
		{
			name: "unknown-key", maxN: 3, perPos: true, variants: fixed(len(c17UnknownKeys) * len(c17UnknownValues)),
			build: func(b *c17Base, p, v int) ([]byte, string, string, []refcert.Entry) {
				k := c17UnknownKeys[v%len(c17UnknownKeys)]
				x := c17UnknownValues[v/len(c17UnknownKeys)]
				kvs := append(append([]refcbor.KV{}, b.kvs[p]...), refcbor.KV{K: k.enc, V: x.enc})
				return b.withMap(p, c17SortedMap(kvs)), "key " + k.name + " => " + x.name, "", b.entries
			},
		},
		{
			name: "wrong-magic", maxN: 2, variants: fixed(7),
			build: func(b *c17Base, p, v int) ([]byte, string, string, []refcert.Entry) {
				m := []byte(refcert.Magic)
				var item []byte
				var label string
				switch v {
				case 0:
					item, label = refcbor.EncText(string(m[:4])), "first rune only"
				case 1:
					item, label = refcbor.EncText(refcert.Magic+"x"), "magic + 'x'"
				case 2:
					item, label = refcbor.EncText(""), "empty text"
				case 3:
					item, label = refcbor.EncBytes(m), "magic as byte string"
				case 4:
					item, label = refcbor.EncUint(0), "uint 0"
				case 5:
					item, label = refcbor.EncText(string(m[4:])+string(m[:4])), "runes swapped"
				default:
					bad := append([]byte{}, m...)
					bad[len(bad)-1] = 0xff
					item, label = append(refcbor.AppendHead(nil, refcbor.Text, uint64(len(bad))), bad...), "last byte 0xff (invalid UTF-8)"
				}
				return c17Assemble(item, b.maps()), label, "", b.entries
			},
		},
		{
			name: "shape", maxN: 3, variants: fixed(7),
			build: func(b *c17Base, p, v int) ([]byte, string, string, []refcert.Entry) {
				good := c17Assemble(c17MagicItem, b.maps())
				body := good[1:] // the array head of 2..4 items is one byte
				switch v {
				case 0:
					return refcbor.MustMap(), "top-level empty map", "", nil
				case 1:
					return refcbor.EncBytes(good), "top-level byte string", "", nil
				case 2:
					return c17Concat(refcbor.AppendHead(nil, refcbor.Array, uint64(b.n+2)), body), "array head counts one item more than present", "", nil
				case 3:
					return c17Concat(refcbor.AppendHead(nil, refcbor.Array, uint64(b.n)), body), "array head counts one item fewer (last map trails)", "", b.entries[:b.n-1]
				case 4:
					return good[:len(good)-1], "last byte cut", "", nil
				case 5:
					return good[:len(good)/2], "cut in the middle", "", nil
				}
				maps := b.maps()
				maps[b.n-1] = refcbor.EncArray(refcbor.EncText("cert"), refcbor.EncBytes(b.entries[b.n-1].Cert))
				return c17Assemble(c17MagicItem, maps), "last certificate is an array [\"cert\", der]", "", nil
			},
		},
		{
			name: "key-order", maxN: 3, perPos: true,
			variants: func(n, p int) int {
				if p == 0 {
					return 6
				}
				return 2
			},
			build: func(b *c17Base, p, v int) ([]byte, string, string, []refcert.Entry) {
				kvs := b.kvs[p]
				pm := perms(len(kvs))[v]
				var re []refcbor.KV
				for _, i := range pm {
					re = append(re, kvs[i])
				}
				m := c17RawMap(re)
				if bytes.Equal(m, c17RawMap(kvs)) {
					return b.withMap(p, m), "canonical order", "accept", b.entries
				}
				return b.withMap(p, m), "non-canonical order", "", b.entries
			},
		},
		{
			name: "duplicate-key", maxN: 3, perPos: true,
			variants: func(n, p int) int {
				if p == 0 {
					return 5
				}
				return 4
			},
			build: func(b *c17Base, p, v int) ([]byte, string, string, []refcert.Entry) {
				var re []refcbor.KV
				label := ""
				other := refcbor.EncBytes(c17Pool[4].cert.Raw)
				for _, kv := range b.kvs[p] {
					re = append(re, kv)
					name := string(kv.K[1:])
					switch {
					case v == 0 && name == "cert":
						re, label = append(re, kv), "cert twice, same value"
					case v == 1 && name == "cert":
						re, label = append(re, refcbor.KV{K: kv.K, V: other}), "cert twice, different values"
					case v == 2 && name == "sct":
						re, label = append(re, refcbor.KV{K: kv.K, V: refcbor.EncBytes([]byte("other"))}), "sct twice, different values"
					case v == 3 && name == "sct":
						re, label = append(re, kv), "sct twice, same value"
					case v == 4 && name == "ocsp":
						re, label = append(re, refcbor.KV{K: kv.K, V: refcbor.EncBytes([]byte("other"))}), "ocsp twice, different values"
					}
				}
				return b.withMap(p, c17RawMap(re)), label, "", b.entries
			},
		},
		{
			name: "trailing", maxN: 2, variants: fixed(3),
			build: func(b *c17Base, p, v int) ([]byte, string, string, []refcert.Entry) {
				good := c17Assemble(c17MagicItem, b.maps())
				switch v {
				case 0:
					return c17Concat(good, []byte{0}), "one 0x00 byte after the chain", "", b.entries
				case 1:
					return c17Concat(good, []byte{0xff}), "one 0xff byte after the chain", "", b.entries
				}
				return c17Concat(good, good), "the chain twice", "", b.entries
			},
		},
		{
			name: "head-form", maxN: 2, variants: fixed(9),
			build: func(b *c17Base, p, v int) ([]byte, string, string, []refcert.Entry) {
				maps := b.maps()
				body := c17Concat(append([][]byte{c17MagicItem}, maps...)...)
				cnt := uint64(b.n + 1)
				first := func(kvs []refcbor.KV) []byte { // certificate 0 rebuilt from kvs, then the rest
					return c17Assemble(c17MagicItem, append([][]byte{c17RawMap(kvs)}, maps[1:]...))
				}
				kv0 := append([]refcbor.KV{}, b.kvs[0]...) // sct, cert, ocsp
				der := b.entries[0].Cert
				switch v {
				case 0:
					return c17Concat(refcbor.AppendHeadWidth(nil, refcbor.Array, cnt, 1), body), "array count in 1 extra byte", "", b.entries
				case 1:
					return c17Concat(refcbor.AppendHeadWidth(nil, refcbor.Array, cnt, 8), body), "array count in 8 extra bytes", "", b.entries
				case 2:
					m := append(refcbor.AppendHeadWidth(nil, refcbor.Text, uint64(len(refcert.Magic)), 1), refcert.Magic...)
					return c17Assemble(m, maps), "magic length in 1 extra byte", "", b.entries
				case 3:
					m0 := c17Concat(refcbor.AppendHeadWidth(nil, refcbor.Map, uint64(len(kv0)), 1), maps[0][1:])
					return c17Assemble(c17MagicItem, append([][]byte{m0}, maps[1:]...)), "map count in 1 extra byte", "", b.entries
				case 4:
					kv0[1].K = append(refcbor.AppendHeadWidth(nil, refcbor.Text, 4, 1), "cert"...)
					return first(kv0), "key 'cert' length in 1 extra byte", "", b.entries
				case 5:
					kv0[1].V = append(refcbor.AppendHeadWidth(nil, refcbor.Bytes, uint64(len(der)), 4), der...)
					return first(kv0), "cert length in 4 bytes instead of 2", "", b.entries
				case 6:
					return c17Concat([]byte{0x9f}, body, []byte{0xff}), "indefinite-length array", "", nil
				case 7:
					kv0[2].V = c17Concat([]byte{0x5f}, refcbor.EncBytes(b.entries[0].OCSP), []byte{0xff})
					return first(kv0), "ocsp as indefinite-length byte string", "", nil
				}
				return c17Concat([]byte{0x9c}, body), "array head with reserved additional information 28", "", nil
			},
		},
		{
			name: "value-type", maxN: 3, perPos: true,
			variants: func(n, p int) int {
				if p == 0 {
					return 7
				}
				return 6
			},
			build: func(b *c17Base, p, v int) ([]byte, string, string, []refcert.Entry) {
				der := b.entries[p].Cert
				set := func(name string, val []byte) []byte {
					kvs := append([]refcbor.KV{}, b.kvs[p]...)
					for i := range kvs {
						if string(kvs[i].K[1:]) == name {
							kvs[i].V = val
						}
					}
					return b.withMap(p, c17RawMap(kvs))
				}
				switch v {
				case 0:
					return set("cert", append(refcbor.AppendHead(nil, refcbor.Text, uint64(len(der))), der...)), "cert as text string", "", nil
				case 1:
					return set("cert", refcbor.EncBytes(nil)), "cert empty (reference does not interpret DER)", "", nil
				case 2:
					return set("cert", refcbor.EncBytes(append(append([]byte{}, der...), 0))), "cert DER + 1 byte (reference does not interpret DER)", "", nil
				case 3:
					return set("cert", refcbor.EncBytes(der[:len(der)-1])), "cert DER cut by 1 byte (reference does not interpret DER)", "", nil
				case 4:
					return set("sct", refcbor.EncText("SCT")), "sct as text string", "", nil
				case 5:
					return set("sct", refcbor.EncUint(5)), "sct as uint", "", nil
				}
				return set("ocsp", refcbor.EncText("OCS")), "ocsp as text string", "", nil
			},
		},
	}
}

func init() {
	// ---- C17/roundtrip ----
	roundtrip := &mc.Harness{
		Name: "C17/roundtrip",
		Bound: func(tier string) int {
			if tier == "quick" {
				return 2
			}
			return 7 // 6 blob lengths + reader: no vector is excluded, i.e. the full product
		},
		Run: func(c *mc.Ctx) {
			n := 1 + c.Free(3, "chainlen")
			first := c.Free(len(c17Pool), "cert0")
			type slot struct{ ocsp, sct int } // -1 absent, else length
			slots := make([]slot, n)
			for i := 0; i < n; i++ {
				slots[i] = slot{-1, -1}
				if c.Free(2, "ocsp?") == 1 {
					slots[i].ocsp = c17Lens[c.Dev(len(c17Lens), "ocsplen")]
				}
				if c.Free(2, "sct?") == 1 {
					slots[i].sct = c17Lens[c.Dev(len(c17Lens), "sctlen")]
				}
			}
			// generator-side legality decides whether blobs are private copies
			// (they will be serialized) or windows into the shared block
			legal := slots[0].ocsp >= 0
			for i := 1; i < n; i++ {
				if slots[i].ocsp >= 0 {
					legal = false
				}
			}
			blob := func(slot, size int) []byte {
				if size < 0 {
					return nil
				}
				b := c17Blob(c.Seed, slot, size)
				if legal {
					return c17Own(b)
				}
				return b
			}
			var entries []refcert.Entry
			var chain certurl.CertChain
			var names []string
			for i := 0; i < n; i++ {
				ct := c17Pool[(first+i)%len(c17Pool)]
				names = append(names, ct.name)
				e := refcert.Entry{Cert: ct.cert.Raw, OCSP: blob(2*i, slots[i].ocsp), SCT: blob(2*i+1, slots[i].sct)}
				entries = append(entries, e)
				chain = append(chain, &certurl.AugmentedCertificate{Cert: ct.cert, OCSPResponse: e.OCSP, SCTList: e.SCT})
			}
			desc := c17DescribeEntries(names, entries)
			c17CheckChain(c, "C17/roundtrip", desc, entries, chain, func() int { return c.Dev(4, "reader") })
		},
	}

	// ---- C17/histories ----
	// a write that fails at byte k (or another chain written or read first), then the round trip of
	// a legal chain: the property is claimed for every chain regardless of what the process did before
	histories := &mc.Harness{
		Name: "C17/histories",
		Mode: "operation histories: {failed Write at every byte position, Write of another chain, ReadCertChain of another chain} then the round trip",
		Run: func(c *mc.Ctx) {
			lens := []int{1, 24, 256}
			nfirst := len(c17Pool)
			if c.Quick() {
				lens = []int{1, 24}
				nfirst = 2
			}
			n := 1 + c.Free(2, "chainlen")
			first := c.Free(nfirst, "cert0")
			var entries []refcert.Entry
			var chain certurl.CertChain
			var names []string
			for i := 0; i < n; i++ {
				ct := c17Pool[(first+i)%len(c17Pool)]
				names = append(names, ct.name)
				e := refcert.Entry{Cert: ct.cert.Raw}
				if i == 0 {
					e.OCSP = c17Own(c17Blob(c.Seed, 0, lens[c.Free(len(lens), "ocsplen")]))
				}
				if c.Free(2, "sct?") == 1 {
					e.SCT = c17Own(c17Blob(c.Seed, 2*i+1, lens[c.Free(len(lens), "sctlen")]))
				}
				entries = append(entries, e)
				chain = append(chain, &certurl.AugmentedCertificate{Cert: ct.cert, OCSPResponse: e.OCSP, SCTList: e.SCT})
			}
			want, rerr := refcert.Serialize(entries)
			if rerr != nil {
				panic("c17 histories: reference refuses a legal chain: " + rerr.Error())
			}
			// the earlier operation works on a different chain (other certificate, other blobs)
			oct := c17Pool[(first+3)%len(c17Pool)]
			other := certurl.CertChain{&certurl.AugmentedCertificate{Cert: oct.cert, OCSPResponse: []byte("other-ocsp-response"), SCTList: []byte("other-sct-list")}}
			otherBytes, oerr := refcert.Serialize([]refcert.Entry{{Cert: oct.cert.Raw, OCSP: []byte("other-ocsp-response"), SCT: []byte("other-sct-list")}})
			if oerr != nil {
				panic("c17 histories: " + oerr.Error())
			}
			var hist string
			switch c.Free(6, "earlier operation") {
			case 5:
				// the same chain OBJECT written once, then its ocsp / sct bytes refreshed in place (same
				// backing arrays, same lengths): the second Write must show the new bytes
				var b bytes.Buffer
				err, _ := c17Write(chain, &b)
				for i := range entries {
					for _, blob := range [][]byte{entries[i].OCSP, entries[i].SCT} {
						for j := range blob {
							blob[j] ^= 0xa5
						}
					}
				}
				hist = fmt.Sprintf("after a successful Write of the same chain object (%d bytes) and an in-place refresh of its ocsp/sct bytes -> err=%v", b.Len(), err)
			case 4:
				// the same certificate objects under other OCSP / SCT bytes (an OCSP refresh)
				var twin certurl.CertChain
				for i, ac := range chain {
					t := &certurl.AugmentedCertificate{Cert: ac.Cert, SCTList: []byte("stale-sct-list")}
					if i == 0 {
						t.OCSPResponse = []byte("stale-ocsp-response")
					}
					twin = append(twin, t)
				}
				var b bytes.Buffer
				err, _ := c17Write(twin, &b)
				hist = fmt.Sprintf("after a successful Write of a chain over the same certificates with other ocsp/sct (%d bytes) -> err=%v", b.Len(), err)
			case 0:
				k := c.Free(len(want)+1, "k")
				short := c.Free(2, "refuse/short") == 1
				fw := mc.NewFaultWriter(k, short, false)
				err, pan := c17Write(chain, fw.Writer(false))
				hist = fmt.Sprintf("after Write of the same chain to a destination failing at byte %d (short=%v) -> err=%v", k, short, err)
				if pan != nil || (k < len(want) && err == nil) {
					c.Outcome("failed write reported success")
					c.Fail("C17/histories:"+c17DescribeEntries(names, entries)+":"+hist, "Write to a failing destination panicked or reported success", hist, "error", fmt.Sprintf("err=%v panic=%v", err, pan))
					return
				}
			case 1:
				k := c.Free(len(otherBytes)+1, "k")
				fw := mc.NewFaultWriter(k, false, false)
				err, _ := c17Write(other, fw.Writer(false))
				hist = fmt.Sprintf("after Write of another chain to a destination failing at byte %d -> err=%v", k, err)
			case 2:
				var b bytes.Buffer
				err, _ := c17Write(other, &b)
				hist = fmt.Sprintf("after a successful Write of another chain (%d bytes) -> err=%v", b.Len(), err)
			default:
				cut := c.Free(len(otherBytes)+1, "cut")
				_, err, _ := c17Read(bytes.NewReader(otherBytes[:cut]))
				hist = fmt.Sprintf("after ReadCertChain of another chain truncated to %d of %d bytes -> err=%v", cut, len(otherBytes), err)
			}
			c.Outcome("history: " + strings.SplitN(hist, " ->", 2)[0][:20])
			c17CheckChain(c, "C17/histories", c17DescribeEntries(names, entries)+" "+hist, entries, chain, func() int { return 0 })
		},
	}

	// ---- C17/certs ----
	certs := &mc.Harness{
		Name: "C17/certs",
		Run: func(c *mc.Ctx) {
			n := c.Free(4, "chainlen")
			var entries []refcert.Entry
			var chain certurl.CertChain
			var names []string
			var xs []*x509.Certificate
			ctorOK := true
			for i := 0; i < n; i++ {
				ct := c17Pool[c.Free(len(c17Pool), "cert")]
				names = append(names, ct.name)
				xs = append(xs, ct.cert)
				e := refcert.Entry{Cert: ct.cert.Raw}
				if c.Free(2, "ocsp?") == 1 {
					e.OCSP = c17Own(c17Blob(c.Seed, 2*i, 5+i))
				}
				if c.Free(2, "sct?") == 1 {
					e.SCT = c17Own(c17Blob(c.Seed, 2*i+1, 3+i))
				}
				if i > 0 && (e.OCSP != nil || e.SCT != nil) {
					ctorOK = false // NewCertChain can only decorate the first certificate
				}
				entries = append(entries, e)
				chain = append(chain, &certurl.AugmentedCertificate{Cert: ct.cert, OCSPResponse: e.OCSP, SCTList: e.SCT})
			}
			desc := c17DescribeEntries(names, entries)
			if ctorOK && c.Free(2, "ctor") == 1 {
				desc += " via NewCertChain"
				var o, s []byte
				if n > 0 {
					o, s = entries[0].OCSP, entries[0].SCT
				}
				var built certurl.CertChain
				var err error
				func() {
					defer func() {
						if p := recover(); p != nil {
							err = fmt.Errorf("panic: %v", p)
						}
					}()
					built, err = certurl.NewCertChain(xs, o, s)
				}()
				c.Transitions(1)
				if err != nil {
					// only "no certificate at all" may be refused here
					c.State([]byte(desc))
					c.Eval()
					if n == 0 && !strings.HasPrefix(err.Error(), "panic") {
						c.Outcome("ref:illegal empty-chain")
						c.Outcome("NewCertChain refused an empty certificate list")
						c.Nontrivial([]byte(desc))
						return
					}
					c.Outcome("NewCertChain failed")
					c.Fail("C17/certs:"+desc+":ctor", "NewCertChain failed on a non-empty certificate list", desc, "chain", err.Error())
					return
				}
				chain = built
			}
			c17CheckChain(c, "C17/certs", desc, entries, chain, func() int { return 0 })
		},
	}

	// ---- C17/hostile ----
	kinds := c17Kinds()
	hostile := &mc.Harness{
		Name: "C17/hostile",
		Run: func(c *mc.Ctx) {
			k := kinds[c.Free(len(kinds), "kind")]
			n := 1 + c.Free(k.maxN, "chainlen")
			p := 0
			if k.perPos {
				p = c.Free(n, "position")
			}
			v := c.Free(k.variants(n, p), "variant")
			base := c17MakeBase(n)
			in, label, claim, want := k.build(base, p, v)
			desc := fmt.Sprintf("%s n=%d pos=%d variant=%d (%s)", k.name, n, p, v, label)
			key := "C17/hostile:" + desc
			c.State(in)
			// reference verdict (recorded; for claimed cases it must agree with the claim,
			// which makes a reference/generator slip visible instead of silently vacuous)
			rentries, rerr := refcert.Parse(in)
			rv := "accept"
			if rerr != nil {
				rv = "refuse(" + refcert.ClassOf(rerr) + ")"
			}
			switch claim {
			case "refuse":
				c.Outcome("ref:must-refuse")
				if rerr == nil {
					c.Fail(key+":ref", "harness error: the reference reader accepts an input generated as must-refuse", desc, "refuse", "accept")
					return
				}
			case "accept":
				c.Outcome("ref:must-accept")
				if rerr != nil || !c17EntriesEqual(rentries, want) {
					c.Fail(key+":ref", "harness error: the reference reader does not return the generated triples", desc, "accept", fmt.Sprint(rerr))
					return
				}
			default:
				c.Outcome("ref:unsettled")
			}
			got, err, pan := c17Read(bytes.NewReader(in))
			c.Transitions(1)
			c.Traces(1)
			c.Eval()
			if pan != nil {
				c.Outcome(k.name + ": PANIC")
				c.Fail(key+":panic", "ReadCertChain panicked", desc+" input="+hx(in), "chain or error", fmt.Sprint(pan))
				return
			}
			iv := ""
			switch {
			case err != nil:
				iv = "refuse(" + c17ImplStage(err) + ")"
			case want == nil:
				iv = fmt.Sprintf("accept(%d certificates)", len(got))
			default:
				if diff, _ := c17Compare(got, want); diff == "" {
					iv = "accept(triples of the base chain)"
				} else {
					iv = "accept(other triples)"
				}
			}
			short := label
			if k.name == "unknown-key" {
				short = label[strings.Index(label, "=>"):]
				if strings.Contains(label, "not tstr") {
					short = "non-text key " + short
				}
			}
			c.Outcome(fmt.Sprintf("%s: %s: ref=%s impl=%s", k.name, short, rv, iv))
			c.Sample(fmt.Sprintf("%s -> ref=%s impl=%s", desc, rv, iv))
			switch claim {
			case "refuse":
				c.Nontrivial(in)
				if err == nil {
					c.Fail(key+":accepted", "ReadCertChain accepted an input the property says cannot be read (illegal ocsp pattern / no cert / no certificate)", desc+" input="+hx(in), "error", fmt.Sprintf("nil error, %d certificates", len(got)))
				}
			case "accept":
				c.Nontrivial(in)
				if err != nil {
					c.Fail(key+":refused", "ReadCertChain refused the canonical encoding of a legal chain", desc+" input="+hx(in), "chain", err.Error())
					return
				}
				if diff, _ := c17Compare(got, want); diff != "" {
					c.Fail(key+":differs", "ReadCertChain returned other triples than the canonical encoding holds", desc+" input="+hx(in), "byte-equal DER, OCSP and SCT", diff)
				}
			}
		},
	}

	// ---- C17/sct ----
	sizes := []int{0, 1, 2, 65531, 65532, 65533, 65534, 65535, 65536}
	sct := &mc.Harness{
		Name: "C17/sct",
		Run: func(c *mc.Ctx) {
			n := c.Free(4, "count")
			var scts [][]byte
			var lens []string
			sum := 0
			for i := 0; i < n; i++ {
				sz := sizes[c.Free(len(sizes), "size")]
				scts = append(scts, c17Own(c17Blob(c.Seed, i, sz)))
				lens = append(lens, fmt.Sprint(sz))
				sum += sz + 2
			}
			desc := "sizes=[" + strings.Join(lens, ",") + "]"
			if n == 0 {
				if c.Free(2, "nil-or-empty") == 1 {
					scts = [][]byte{}
					desc += " (empty non-nil list)"
				} else {
					desc += " (nil list)"
				}
			}
			key := "C17/sct:" + desc
			c.State([]byte(desc))
			want, rerr := refcert.SerializeSCTList(scts)
			got, err, pan := c17SCT(scts)
			c.Transitions(1)
			c.Traces(1)
			c.Eval()
			if pan != nil {
				c.Outcome("PANIC")
				c.Fail(key+":panic", "SerializeSCTList panicked", desc, "bytes or error", fmt.Sprint(pan))
				return
			}
			c.Nontrivial([]byte(desc))
			if rerr != nil {
				c.Outcome("ref:error " + refcert.ClassOf(rerr))
				if err == nil {
					c.Outcome("oversized list SERIALIZED")
					c.Fail(key+":no-error", "an SCT list with an element or a total above 65535 bytes was serialized ("+rerr.Error()+")", desc, "error", fmt.Sprintf("nil error, %d bytes, head %s", len(got), hx(got[:c17Min(len(got), 8)])))
					return
				}
				c.Outcome(fmt.Sprintf("error, as required (%s over 65535); impl says %q", refcert.ClassOf(rerr), err.Error()))
				return
			}
			c.Outcome("ref:ok")
			if sum == 65535 {
				c.Outcome("ref:ok total exactly 65535")
			}
			if err != nil {
				c.Outcome("valid list REFUSED")
				c.Fail(key+":refused", "an SCT list within both limits was refused", desc+fmt.Sprintf(" total=%d", sum), "bytes", err.Error())
				return
			}
			if !bytes.Equal(got, want) {
				c.Outcome("output differs from RFC 6962 reference encoding")
				c.Fail(key+":bytes", "SerializeSCTList output differs from the RFC 6962 encoding", desc, hx(want[:c17Min(len(want), 16)])+fmt.Sprintf(" (%d bytes)", len(want)), hx(got[:c17Min(len(got), 16)])+fmt.Sprintf(" (%d bytes)", len(got)))
				return
			}
			back, perr := refcert.ParseSCTList(got)
			ok := perr == nil && len(back) == len(scts)
			for i := 0; ok && i < len(scts); i++ {
				ok = bytes.Equal(back[i], scts[i])
			}
			if !ok || len(got) < 2 || int(got[0])<<8|int(got[1]) != len(got)-2 {
				c.Outcome("output does not parse back")
				c.Fail(key+":parse", "SerializeSCTList output does not parse (RFC 6962) to exactly the inputs in order", desc, desc, fmt.Sprintf("err=%v elements=%d", perr, len(back)))
				return
			}
			lb := refcert.LowerBoundIssue(scts)
			if lb == "" {
				lb = "none"
			}
			tot := "below 65535"
			if sum == 65535 {
				tot = "exactly 65535"
			}
			c.Outcome(fmt.Sprintf("ok n=%d total %s, RFC 6962 lower-bound issue: %s", n, tot, lb))
			c.Sample(fmt.Sprintf("%s -> %d bytes, length field %d", desc, len(got), len(got)-2))
		},
	}

	register(&mc.Property{
		ID:    "C17",
		Level: "model_checking",
		Rule:  "choice-tree enumeration. C17/roundtrip: chain length 1..3 x first certificate (5; later positions rotate through the pool so all are distinct) x ocsp and sct independently absent/present at every position (all 4^n patterns, legal and illegal) x length of every present blob from {256 (default),0,1,23,24,255,65535,65536} x reader {bytes.Reader (default), short reads (1 byte for requests <=16 bytes, at most half of larger requests), data together with EOF, a *bytes.Buffer whose storage the caller overwrites right after the call} (only drawn for legal chains); lengths and reader are deviations: quick explores every vector with <=2 deviations, thorough bound 7 = the full product. C17/histories: legal chains of 1..2 certificates (first certificate 2 quick / 5 thorough, ocsp and optional sct lengths from {1,24} quick / {1,24,256} thorough) written and read back after an earlier operation in the same process: a Write of the same chain to a destination failing at every byte position k in [0,len] (refusing or short write), a Write of another chain failing at every k, a successful Write of another chain, a ReadCertChain of another chain truncated at every length, a successful Write of a chain over the same certificate objects with other ocsp/sct bytes, or a successful Write of the same chain object followed by an in-place change of its ocsp/sct bytes. C17/certs: every ordered selection with repetition of 0..3 of 5 fixture certificates x all presence patterns, literal or NewCertChain. C17/hostile: 11 kinds of reference-built inputs (all 9^n absent/empty/non-empty presence patterns, missing cert x5, zero certificates x3, unknown keys 5x6, wrong magic x7, shapes/truncations x7, all key orders, duplicate keys x5, trailing bytes x3, head forms x9, value types x7) at every position of chains of 1..3. C17/sct: every list of 0..3 elements with sizes from {0,1,2,65531,65532,65533,65534,65535,65536}. A case is non-trivial when a verdict was demanded of the implementation: a legal chain whose output was compared byte-for-byte with the reference and read back (distinct by chain description and reader), an illegal chain or must-refuse input whose refusal was checked, a must-accept input, every SCT list; hostile inputs that are only recorded are not counted.",
		Assumptions: []string{
			"refcert/refcbor (independent cert-chain+cbor serializer and strict reader, RFC 6962 vector codec) are correct",
			"blob content is irrelevant to structure (one seeded pattern per run); blob lengths between the enumerated boundary values behave like their neighbours in the same CBOR head class",
			"the five fixture certificates (P-256 and P-384 leaves, one CA, 355..470 bytes of DER) stand for all certificates: the code treats DER as an opaque byte string on write and hands it to crypto/x509 on read",
			"byte-for-byte equality is bytes.Equal; whether an absent sct is read back as nil or empty is recorded, not judged",
		},
		Harnesses: []*mc.Harness{roundtrip, histories, certs, hostile, sct, c17LongChains(), c17BlobLengths()},
		Guard: func(s map[string]*mc.Stats) error {
			need := func(h, class string, min int64) error {
				if s[h] == nil {
					return fmt.Errorf("harness %s did not run", h)
				}
				if s[h].Outcomes[class] < min {
					return fmt.Errorf("%s: only %d cases of reference-side class %q (need %d)", h, s[h].Outcomes[class], class, min)
				}
				return nil
			}
			for _, e := range []error{
				need("C17/roundtrip", "ref:legal", 1000),
				need("C17/roundtrip", "ref:illegal presence", 1000),
				need("C17/histories", "ref:legal", 1000),
				need("C17/certs", "ref:legal", 100),
				need("C17/certs", "ref:illegal presence", 100),
				need("C17/certs", "ref:illegal empty-chain", 1),
				need("C17/hostile", "ref:must-refuse", 100),
				need("C17/hostile", "ref:must-accept", 50),
				need("C17/hostile", "ref:unsettled", 100),
				need("C17/sct", "ref:ok", 40),
				need("C17/sct", "ref:ok total exactly 65535", 3),
				need("C17/sct", "ref:error element", 100),
				need("C17/sct", "ref:error total", 100),
			} {
				if e != nil {
					return e
				}
			}
			return nil
		},
	})
}

func c17Min(a, b int) int {
	if a < b {
		return a
	}
	return b
}
