// Command harness is the single binary behind every check: it is built by vcheck
// through `go build -overlay` as a virtual package inside the repository's module,
// so it links against the working tree of /repo as it is now.
package main

import (
	"fmt"
	"os"
	"runtime/debug"
	"sort"
	"strconv"

	"github.com/WICG/webpackage/go/signedexchange/zverif/mc"
)

var props = map[string]*mc.Property{}

func register(p *mc.Property) {
	if props[p.ID] != nil {
		panic("duplicate property " + p.ID)
	}
	props[p.ID] = p
}

func findHarness(name string) *mc.Harness {
	for _, p := range props {
		for _, h := range p.Harnesses {
			if h.Name == name {
				return h
			}
		}
	}
	fmt.Fprintln(os.Stderr, "harness: unknown harness", name)
	os.Exit(3)
	return nil
}

func usage() {
	fmt.Fprintln(os.Stderr, "usage: harness run <ID> <quick|thorough> [only=<harness>] [workers=N] [-v] | replay <file> | list")
	os.Exit(3)
}

func main() {
	if len(os.Args) < 2 {
		usage()
	}
	self, _ := os.Executable()
	debug.SetGCPercent(400)
	switch os.Args[1] {
	case "list":
		var ids []string
		for id := range props {
			ids = append(ids, id)
		}
		sort.Strings(ids)
		for _, id := range ids {
			for _, h := range props[id].Harnesses {
				fmt.Println(id, h.Name)
			}
		}
	case "run":
		if len(os.Args) < 4 {
			usage()
		}
		p := props[os.Args[2]]
		if p == nil {
			fmt.Fprintln(os.Stderr, "harness: unknown property", os.Args[2])
			os.Exit(3)
		}
		o := mc.Options{Tier: os.Args[3], Self: self}
		if o.Tier != "quick" && o.Tier != "thorough" {
			usage()
		}
		if s := os.Getenv("VERIF_SEED"); s != "" {
			o.Seed, _ = strconv.ParseInt(s, 10, 64)
		}
		for _, a := range os.Args[4:] {
			switch {
			case len(a) > 5 && a[:5] == "only=":
				o.Only = a[5:]
			case len(a) > 8 && a[:8] == "workers=":
				o.Workers, _ = strconv.Atoi(a[8:])
			case a == "-v":
				o.Verbose = true
			}
		}
		os.Exit(mc.RunProperty(p, o))
	case "replay":
		if len(os.Args) < 3 {
			usage()
		}
		os.Exit(mc.Replay(props, self, os.Args[2]))
	case "race":
		i, _ := strconv.Atoi(os.Args[2])
		c18RaceMain(i)
	case "worker":
		mc.WorkerMain(findHarness(os.Args[2]), os.Args[3:])
	case "one":
		mc.OneMain(findHarness(os.Args[2]), os.Args[3:])
	default:
		usage()
	}
}
