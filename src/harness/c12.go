package main

import (
	"bytes"
	"errors"
	"fmt"
	"io"

	"github.com/WICG/webpackage/go/internal/cbor"
	"github.com/WICG/webpackage/go/signedexchange/zverif/mc"
	"github.com/WICG/webpackage/go/signedexchange/zverif/refcbor"
)

// chunkReader hands out the input according to a chunking mode and records how
// far the consumer has read.
//
//	mode 0: as much as asked     mode 1: one byte per Read
//	mode 2: data and io.EOF together on the last Read
type chunkReader struct {
	data []byte
	pos  int
	mode int
}

func (r *chunkReader) Read(p []byte) (int, error) {
	if len(p) == 0 {
		return 0, nil
	}
	if r.pos >= len(r.data) {
		return 0, io.EOF
	}
	n := len(p)
	if r.mode == 1 {
		n = 1
	}
	if n > len(r.data)-r.pos {
		n = len(r.data) - r.pos
	}
	copy(p, r.data[r.pos:r.pos+n])
	r.pos += n
	if r.mode == 2 && r.pos == len(r.data) {
		return n, io.EOF
	}
	return n, nil
}

var c12Methods = []string{"DecodeUint", "DecodeArrayHeader", "DecodeMapHeader", "DecodeByteString", "DecodeTextString"}

type c12Result struct {
	ok    bool
	u     uint64
	b     []byte
	err   string
	panic string
	pos   int
}

func c12Call(d *cbor.Decoder, method int) (res c12Result) {
	defer func() {
		if p := recover(); p != nil {
			res.panic = fmt.Sprint(p)
		}
	}()
	var err error
	switch method {
	case 0:
		res.u, err = d.DecodeUint()
	case 1:
		res.u, err = d.DecodeArrayHeader()
	case 2:
		res.u, err = d.DecodeMapHeader()
	case 3:
		res.b, err = d.DecodeByteString()
	case 4:
		var s string
		s, err = d.DecodeTextString()
		res.b = []byte(s)
	}
	if err != nil {
		res.err = err.Error()
	} else {
		res.ok = true
	}
	return
}

// c12Expect is the reference verdict for one decode call on input.
func c12Expect(input []byte, method int) (ok bool, u uint64, b []byte, consumed int, why string) {
	h, err := refcbor.ParseHead(input)
	if err != nil {
		return false, 0, nil, 0, err.Error()
	}
	want := []int{refcbor.Uint, refcbor.Array, refcbor.Map, refcbor.Bytes, refcbor.Text}[method]
	if h.Major != want {
		return false, 0, nil, 0, "wrong major type"
	}
	if method <= 2 {
		return true, h.Arg, nil, h.Len, ""
	}
	if h.Arg > uint64(len(input)-h.Len) {
		return false, 0, nil, 0, "declared length exceeds remaining input"
	}
	content := input[h.Len : h.Len+int(h.Arg)]
	if method == 4 && !refcbor.ValidUTF8(content) {
		return false, 0, nil, 0, "invalid UTF-8"
	}
	return true, 0, content, h.Len + int(h.Arg), ""
}

type c12Case struct {
	input  []byte
	method int
	chunk  int
	family string
}

func (cs *c12Case) CaseKey() string {
	return fmt.Sprintf("C12/%s:%s:%s:chunk%d", cs.family, hx(cs.input), c12Methods[cs.method], cs.chunk)
}

func c12Exec(c *mc.Ctx, v interface{}) {
	cs := v.(*c12Case)
	r := &chunkReader{data: cs.input, mode: cs.chunk}
	d := cbor.NewDecoder(r)
	res := c12Call(d, cs.method)
	res.pos = r.pos
	ok, u, b, consumed, why := c12Expect(cs.input, cs.method)
	c.Eval()
	c.State(cs.input, []byte{byte(cs.method)})
	desc := fmt.Sprintf("%s(%s) chunking=%d", c12Methods[cs.method], hx(cs.input), cs.chunk)
	c.Sample(desc)
	key := cs.CaseKey()
	if res.panic != "" {
		c.Outcome("PANIC")
		c.Fail(key, "decoder panicked", desc, "value or error", "panic: "+res.panic)
		return
	}
	if ok {
		c.Nontrivial(cs.input, []byte{byte(cs.method)})
		if !res.ok {
			c.Outcome("over-rejected")
			c.Fail(key, "complete well-formed item of the requested type was refused", desc, fmt.Sprintf("value %d / %s consumed %d", u, hx(b), consumed), "error: "+res.err)
			return
		}
		if res.u != u || !bytes.Equal(res.b, b) {
			c.Outcome("wrong value")
			c.Fail(key, "decoded value differs from the value RFC 8949 assigns", desc, fmt.Sprintf("%d / %s", u, hx(b)), fmt.Sprintf("%d / %s", res.u, hx(res.b)))
			return
		}
		if res.pos != consumed {
			c.Outcome("wrong consumption")
			c.Fail(key, "decoder did not consume exactly the item's bytes", desc, fmt.Sprintf("consumed %d", consumed), fmt.Sprintf("consumed %d", res.pos))
			return
		}
		c.Outcome("accepted: " + c12Methods[cs.method])
		return
	}
	if res.ok {
		c.Outcome("over-accepted")
		c.Fail(key, "decode call succeeded although the input is not a complete well-formed definite-length item of the requested type ("+why+")", desc, "error ("+why+")", fmt.Sprintf("value %d / %s", res.u, hx(res.b)))
		return
	}
	c.Outcome("rejected: " + why)
	c.Nontrivial(cs.input, []byte{byte(cs.method)})
}

var c12Args = map[int][]uint64{
	1: {0, 1, 4, 23, 24, 0x7f, 0x80, 0xff},
	2: {0, 4, 255, 256, 0x7fff, 0x8000, 0xffff},
	4: {0, 4, 65535, 65536, 0x7fffffff, 0x80000000, 0xffffffff},
	8: {0, 4, 1<<32 - 1, 1 << 32, 1<<63 - 1, 1 << 63, 1<<64 - 16, 1<<64 - 1},
}

func init() {
	// (a) 256 initial bytes x argument classes x truncation of the head x amount of
	// content after the head x method x chunking (deviation)
	heads := &mc.Harness{
		Name:     "C12/heads",
		Isolated: true,
		Bound:    func(string) int { return 1 },
		Gen: func(c *mc.Ctx) interface{} {
			ib := byte(c.Free(256, "initial"))
			ai := int(ib & 31)
			width := 0
			switch ai {
			case 24:
				width = 1
			case 25:
				width = 2
			case 26:
				width = 4
			case 27:
				width = 8
			}
			input := []byte{ib}
			if width > 0 {
				args := c12Args[width]
				arg := args[c.Free(len(args), "arg")]
				full := refcbor.AppendHeadWidth(nil, int(ib>>5), arg, width)
				present := width - c.Free(width+1, "headtrunc") // how many follow bytes are present
				input = full[:1+present]
				if present < width {
					return &c12Case{input: input, method: c.Free(5, "method"), chunk: c.Dev(3, "chunking"), family: "head"}
				}
			}
			tails := []int{0, 1, 3, 4, 5, 23, 24, 300}
			tail := tails[c.Free(len(tails), "tail")]
			content := pattern(tail, 7)
			kind := c.Free(4, "content") // 0 ascii, 1 arbitrary bytes, 2 starts with an invalid UTF-8 byte, 3 valid text with U+FFFD
			for i := range content {
				switch kind {
				case 0:
					content[i] = 'a' + content[i]%26
				case 2:
					if i == 0 {
						content[i] = 0xff
					}
				case 3:
					content[i] = []byte{0xEF, 0xBF, 0xBD}[i%3] // U+FFFD repeated (valid when the length is a multiple of 3)
				}
			}
			input = append(input, content...)
			return &c12Case{input: input, method: c.Free(5, "method"), chunk: c.Dev(3, "chunking"), family: "head"}
		},
		Exec:     c12Exec,
		Describe: func(v interface{}) string { cs := v.(*c12Case); return c12Methods[cs.method] + " " + hx(cs.input) },
	}

	// (b) all byte strings of length <= 2, and length 3..4 over a reduced alphabet
	alpha := []byte{0x00, 0x01, 0x17, 0x18, 0x19, 0x1a, 0x1b, 0x1c, 0x1f, 0x40, 0x41, 0x58, 0x5b, 0x5f, 0x61, 0x63, 0x78, 0x7f, 0x80, 0x81, 0x98, 0xa0, 0xa1, 0xb8, 0xbd, 0xbf, 0xc0, 0xe0, 0xef, 0xf5, 0xff}
	short := &mc.Harness{
		Name:     "C12/short-strings",
		Isolated: true,
		Gen: func(c *mc.Ctx) interface{} {
			n := c.Free(c.Pick(4, 5), "len")
			in := make([]byte, n)
			if n <= 2 {
				for i := range in {
					in[i] = byte(c.Free(256, "byte"))
				}
			} else {
				for i := range in {
					in[i] = alpha[c.Free(len(alpha), "byte")]
				}
			}
			return &c12Case{input: in, method: c.Free(5, "method"), chunk: 0, family: "short"}
		},
		Exec:     c12Exec,
		Describe: func(v interface{}) string { cs := v.(*c12Case); return c12Methods[cs.method] + " " + hx(cs.input) },
	}

	// (c) streams: sequences of decode calls on one decoder over concatenated items
	type item struct {
		name   string
		enc    []byte
		method int
	}
	items := []item{
		{"uint 5", refcbor.EncUint(5), 0},
		{"uint 2^32", refcbor.EncUint(1 << 32), 0},
		// one item per head width, the wide ones with every argument byte distinct and non-zero: a decoder
		// that keeps argument bytes from one head to the next shows them in the following narrower head
		{"uint 24 (1-byte argument)", refcbor.EncUint(24), 0},
		{"uint 0x0102 (2-byte argument)", refcbor.EncUint(0x0102), 0},
		{"uint 0x01020304 (4-byte argument)", refcbor.EncUint(0x01020304), 0},
		{"uint 0x1112131415161718 (8-byte argument)", refcbor.EncUint(0x1112131415161718), 0},
		{"array(70000) (4-byte count)", refcbor.AppendHead(nil, refcbor.Array, 70000), 1},
		{"array(2)", refcbor.AppendHead(nil, refcbor.Array, 2), 1},
		{"map(1)", refcbor.AppendHead(nil, refcbor.Map, 1), 2},
		{"bytes ab", refcbor.EncBytes([]byte("ab")), 3},
		{"bytes 24", refcbor.EncBytes(bytes.Repeat([]byte{7}, 24)), 3},
		{"text é\ufffd", refcbor.EncText("é\ufffd"), 4},
		{"text empty", refcbor.EncText(""), 4},
	}
	streams := &mc.Harness{
		Name:  "C12/streams",
		Mode:  "explicit-state search over decode-call histories on one decoder (state = read position + values so far)",
		Bound: func(string) int { return 1 },
		Run: func(c *mc.Ctx) {
			depth := c.Pick(3, 4)
			var seq []item
			var calls []int
			for d := 0; d < depth; d++ {
				k := c.Free(len(items)+1, "item")
				if k == 0 {
					break
				}
				it := items[k-1]
				seq = append(seq, it)
				// method: 0 = the matching one (default), else a mismatching one
				m := c.Dev(5, "method")
				meth := it.method
				if m != 0 {
					meth = (it.method + m) % 5
				}
				calls = append(calls, meth)
			}
			chunk := c.Dev(3, "chunking")
			var stream []byte
			for _, it := range seq {
				stream = append(stream, it.enc...)
			}
			r := &chunkReader{data: stream, mode: chunk}
			d := cbor.NewDecoder(r)
			pos := 0
			desc := ""
			for i, it := range seq {
				res := c12Call(d, calls[i])
				c.Transitions(1)
				desc += fmt.Sprintf("%s via %s; ", it.name, c12Methods[calls[i]])
				ok, u, b, consumed, why := c12Expect(stream[pos:], calls[i])
				key := "C12/stream:" + desc + fmt.Sprintf("chunk%d", chunk)
				if res.panic != "" {
					c.Fail(key, "decoder panicked", desc, "value or error", res.panic)
					return
				}
				if ok != res.ok {
					c.Fail(key, "stream decode verdict differs from reference ("+why+")", desc, fmt.Sprint(ok), fmt.Sprintf("%v err=%s", res.ok, res.err))
					return
				}
				if !ok {
					c.Outcome("stream stopped at mismatching call")
					c.State([]byte(desc))
					break
				}
				if res.u != u || !bytes.Equal(res.b, b) || r.pos != pos+consumed {
					c.Fail(key, "stream decode value/position differs from reference", desc, fmt.Sprintf("%d %s pos %d", u, hx(b), pos+consumed), fmt.Sprintf("%d %s pos %d", res.u, hx(res.b), r.pos))
					return
				}
				pos += consumed
				c.State([]byte(desc))
			}
			c.Eval()
			c.Sample(desc)
			if len(seq) > 0 {
				c.Nontrivial([]byte(desc), []byte{byte(chunk)})
			}
			c.Outcome(fmt.Sprintf("stream of %d ok", len(seq)))
		},
	}

	// (d) round trip of what the real encoder produces
	rt := &mc.Harness{
		Name: "C12/roundtrip",
		Run: func(c *mc.Ctx) {
			kind := c.Free(4, "kind")
			var buf bytes.Buffer
			enc := cbor.NewEncoder(&buf)
			var wantU uint64
			var wantB []byte
			method := 0
			switch kind {
			case 0:
				wantU = c11U64[c.Free(len(c11U64), "uint")]
				enc.EncodeUint(wantU)
			case 1:
				vals := []int{0, 1, 23, 24, 255, 256, 65535, 65536, 1<<32 - 1, 1 << 32}
				v := vals[c.Free(len(vals), "n")]
				wantU = uint64(v)
				enc.EncodeArrayHeader(v)
				method = 1
			case 2, 3:
				lens := []int{0, 1, 23, 24, 255, 256, 65535, 65536}
				n := lens[c.Free(len(lens), "len")]
				wantB = pattern(n, c.Seed)
				if kind == 2 {
					enc.EncodeByteString(wantB)
					method = 3
				} else {
					for i := range wantB {
						wantB[i] = 'a' + wantB[i]%26
					}
					if n >= 3 {
						copy(wantB[n-3:], "\ufffd") // a valid character that is easily mistaken for a decoding error
					}
					enc.EncodeTextString(string(wantB))
					method = 4
				}
			}
			chunk := c.Free(3, "chunking")
			r := &chunkReader{data: buf.Bytes(), mode: chunk}
			res := c12Call(cbor.NewDecoder(r), method)
			c.Eval()
			c.State(buf.Bytes())
			desc := fmt.Sprintf("roundtrip kind=%d head=%s", kind, hx(buf.Bytes()[:min(9, buf.Len())]))
			if !res.ok || res.u != wantU || !bytes.Equal(res.b, wantB) || r.pos != buf.Len() {
				c.Fail("C12/roundtrip:"+desc, "decode(encode(v)) != v", desc, fmt.Sprintf("%d / %d bytes", wantU, len(wantB)), fmt.Sprintf("ok=%v %d / %d bytes pos=%d err=%s", res.ok, res.u, len(res.b), r.pos, res.err))
				return
			}
			c.Outcome("roundtrip ok " + c12Methods[method])
			c.Nontrivial(buf.Bytes())
		},
	}

	register(&mc.Property{
		ID:          "C12",
		Level:       "model_checking",
		Rule:        "choice-tree enumeration of decoder inputs: 256 initial bytes x per-width argument boundary values (0,4,23/24,255/256,65535/65536,2^31,2^32,2^63-1,2^63,2^64-16,2^64-1) x every truncation of the head x 8 amounts of content (shorter/equal/longer than declared; ASCII, arbitrary, invalid UTF-8) x 5 Decode* methods x reader chunking (deviation<=1); all byte strings of length <=2 and <=3 (quick) / <=4 (thorough) over a 31-byte alphabet (incl. the bytes of U+FFFD) x 5 methods; all decode-call sequences of depth <=3/4 over an 8-item menu with one mismatching method / chunking deviation; round trip of encoder output. Non-trivial = the reference made a verdict that the implementation had to match (accept with exact value and consumption, or reject); distinct by (input, method).",
		Assumptions: []string{"refcbor head parser / UTF-8 validator are correct", "arguments between the enumerated boundary values behave like a neighbour of the same width class"},
		Harnesses:   []*mc.Harness{heads, short, streams, rt},
		Guard: func(s map[string]*mc.Stats) error {
			h := s["C12/heads"]
			if h.Executions < 100000 {
				return errors.New("head sweep too small")
			}
			return nil
		},
	})
}

func min(a, b int) int {
	if a < b {
		return a
	}
	return b
}
