package main

// C04 - bundle writer output is a well-formed, canonical, self-consistent bundle.
//
// This file also holds the bundle generator shared with C03 (c04Gen*, c04Case).
//
// SPACE (C04/grid): versions {b1,b2} x n in 0..3 exchanges
//   n <= 2: every ordered choice (with replacement, so "same URL twice" is in) of URLs
//           from a pool of 8 shapes x every body-length class per exchange
//           {0,1,23,24,255,256,65535,65536}                               (free: full product)
//   n == 3: every ordered triple of distinct pool URLs; body class is a deviation
//   deviations (bound 1 quick / 2 thorough): per exchange header set (6 shapes: none,
//   mixed-case names, multi-valued, 23/24-byte names, 256-byte value, empty values,
//   name shorter than ":status"), per exchange status {200,100,404,999}, primary URL
//   (b1: 3 choices; b2: 3 + absent), manifest URL (absent, short, 256 bytes; b2: must be
//   refused), signatures section (absent + 4 hand-built shapes incl. empty lists, a
//   two-certificate authority list with ocsp/sct, authority index 24, 65536-byte
//   `signed`).
// SPACE (C04/variants): b1 variant sets, see c04GenVariants.
// Every case is written to three destinations: *bytes.Buffer (io.ReaderFrom), a plain
// io.Writer, and an io.ReaderFrom that drains its source one byte at a time
// (mc.FaultWriter views with the fault position out of reach).
//
// ORACLE: refbundle.Validate(output) succeeds (strict, independent parser: magic,
// version, table tiles the file, responses last, every index entry delimits exactly one
// response, canonical CBOR throughout incl. the header maps, trailing length); what it
// extracts equals the logical input (refbundle.Content); the bytes equal
// refbundle.Serialize (the format fixes them once section and response order are
// given); returned count == bytes the destination received == len(output); the three
// destinations received the same bytes.  When the reference says the logical bundle
// cannot be represented (same URL twice without Variants, manifest in b2) a refusal is
// the expected outcome and nothing else is demanded here (C03 owns "nothing dropped").
//
// C04/countingwriter drives CountingWriter directly: every sequence of up to 3 (4)
// operations from a menu of Write / ReadFrom / io.Copy over sources that are / are not
// io.WriterTo, on destinations that are / are not io.ReaderFrom.

import (
	"bytes"
	"encoding/binary"
	"fmt"
	"io"
	"net/http"
	"net/url"
	"sort"
	"strings"

	"github.com/WICG/webpackage/go/bundle"
	bundleversion "github.com/WICG/webpackage/go/bundle/version"
	"github.com/WICG/webpackage/go/signedexchange/certurl"
	"github.com/WICG/webpackage/go/signedexchange/zverif/fixtures"
	"github.com/WICG/webpackage/go/signedexchange/zverif/mc"
	"github.com/WICG/webpackage/go/signedexchange/zverif/refbundle"
	"github.com/WICG/webpackage/go/signedexchange/zverif/refcbor"
)

// ---- pools -------------------------------------------------------------------

func c04Pad(prefix string, n int, ch byte) string {
	return prefix + strings.Repeat(string(ch), n-len(prefix))
}

// URL pool: raw-string order and encoded-key order (length class first) differ;
// three entries share the path "/q" (a writer keyed by URL.Path would merge them).
var c04URLs = []string{
	c04Pad("https://a.test/q?x=", 23, 'z'), // 0: 23 bytes, one-byte head
	c04Pad("https://a.test/", 24, 'a'),     // 1: 24 bytes, two-byte head
	c04Pad("https://b.test/", 255, 'm'),    // 2: 255 bytes
	c04Pad("https://b.test/", 256, 'b'),    // 3: 256 bytes, three-byte head (raw order: before #2)
	"https://a.test:8443/q",                // 4: port
	"https://a.test/%E3%81%82%20x/%2F",     // 5: escapes
	"https://a.test/q?x=1&y=%26",           // 6: query
	"rel/page.html?k=v",                    // 7: relative reference
}

var c04BodyLens = []int{0, 1, 23, 24, 255, 256, 65535, 65536}

var c04Statuses = []int{200, 100, 404, 999}

// default body class per exchange position: 23, 256, 0 bytes
var c04DefaultBody = []int{2, 5, 0}

var c04PrimaryPool = []string{"https://a.test/", c04Pad("https://b.test/", 256, 'b'), "https://a.test/%E3%81%82%20x/%2F"}
var c04ManifestPool = []string{"https://a.test/manifest.webmanifest", c04Pad("https://a.test/manifest/", 256, 'w')}

// header sets; k marks the exchange so that re-attribution is visible even for empty bodies
func c04HeaderSet(set, k int) []refbundle.LHeader {
	ct := refbundle.LHeader{Name: "Content-Type", Values: []string{fmt.Sprintf("text/plain;i=%d", k)}}
	switch set {
	case 0:
		return []refbundle.LHeader{ct}
	case 1:
		return nil
	case 2: // mixed-case names (not in Go's canonical form), a name shorter than ":status"
		return []refbundle.LHeader{ct, {Name: "X-MiXeD-cAsE", Values: []string{"V"}}, {Name: "AGE", Values: []string{"0"}}}
	case 3: // multi-valued, incl. an empty member
		return []refbundle.LHeader{{Name: "Cache-Control", Values: []string{"max-age=60", "public"}}, {Name: "content-length", Values: []string{fmt.Sprint(k)}}, {Name: "Vary", Values: []string{"Accept", "", "Accept-Encoding"}}}
	case 4: // names of 23 and 24 bytes (head classes of the map keys), a 256-byte value
		return []refbundle.LHeader{{Name: c04Pad("X-Name23-", 23, 'N'), Values: []string{"a"}}, {Name: c04Pad("X-Name24-", 24, 'M'), Values: []string{strings.Repeat("v", 256)}}, ct}
	case 5: // empty value, empty value list
		return []refbundle.LHeader{{Name: "X-Empty", Values: []string{""}}, {Name: "X-None", Values: []string{}}, {Name: "X-Lead-Empty", Values: []string{"", "b"}}, {Name: "X-All-Empty", Values: []string{"", ""}}, {Name: "X-Trail-Empty", Values: []string{"a", ""}}}
	case 7: // one field name under two letter cases with other fields between them (only possible by direct map
		// assignment): not representable - whatever order the map is walked in, the writer must refuse
		return []refbundle.LHeader{ct, {Name: "X-Dup", Values: []string{"a"}}, {Name: "X-Mid", Values: []string{"m"}}, {Name: "Age", Values: []string{"1"}}, {Name: "x-dup", Values: []string{"b"}}, {Name: "Z-Last", Values: []string{"z"}}}
	case 6: // values with outer white space (stored and signed verbatim: a reader must not trim them)
		return []refbundle.LHeader{ct, {Name: "X-Pad", Values: []string{"trailing space "}}, {Name: "X-Pad2", Values: []string{" leading", "\ttab both\t"}}}
	}
	panic("c04HeaderSet")
}

const c04NumHeaderSets = 8

func c04Signatures(shape int) *refbundle.LSignatures {
	switch shape {
	case 0:
		return nil
	case 1:
		return &refbundle.LSignatures{Authorities: []refbundle.LAuthority{{Cert: fixtures.A.Leaf.Raw}},
			Vouched: []refbundle.LVouched{{Authority: 0, Sig: []byte("sig"), Signed: []byte("sgn")}}}
	case 2:
		return &refbundle.LSignatures{Authorities: []refbundle.LAuthority{{Cert: fixtures.A.Leaf.Raw, OCSP: pattern(24, 5), SCT: pattern(5, 6)}, {Cert: fixtures.A.CA.Raw}},
			Vouched: []refbundle.LVouched{{Authority: 1, Sig: pattern(64, 7), Signed: pattern(256, 8)}, {Authority: 0, Sig: nil, Signed: pattern(23, 9)}}}
	case 3:
		return &refbundle.LSignatures{}
	case 4:
		return &refbundle.LSignatures{Authorities: []refbundle.LAuthority{{Cert: fixtures.B.Leaf.Raw}},
			Vouched: []refbundle.LVouched{{Authority: 24, Sig: pattern(256, 10), Signed: pattern(65536, 11)}}}
	case 5: // optional members that are PRESENT BUT EMPTY (h''): a reader that keeps "absent" and "empty" apart by nil-ness must
		// hand back empty, and a re-serialization must keep the keys
		return &refbundle.LSignatures{Authorities: []refbundle.LAuthority{{Cert: fixtures.A.Leaf.Raw, OCSP: []byte{}, SCT: []byte{}}, {Cert: fixtures.A.CA.Raw, SCT: []byte{}}, {Cert: fixtures.B.Leaf.Raw, OCSP: []byte{}}},
			Vouched: []refbundle.LVouched{{Authority: 0, Sig: []byte{}, Signed: []byte{}}, {Authority: 2, Sig: pattern(3, 12), Signed: []byte{}}}}
	}
	panic("c04Signatures")
}

const c04NumSigShapes = 6

// ---- case --------------------------------------------------------------------

type c04Ex struct {
	URL    string
	Status int
	Hdr    []refbundle.LHeader
	Body   []byte
}

type c04Case struct {
	Ver      string
	Primary  *string
	Manifest *string
	Sig      *refbundle.LSignatures
	Exs      []c04Ex
	Desc     string
	MultiKey bool // some representation serves several variant keys
	Big      bool // total body size >= 64 KiB
}

func (cs *c04Case) logical() *refbundle.Logical {
	l := &refbundle.Logical{Version: cs.Ver, PrimaryURL: cs.Primary, ManifestURL: cs.Manifest, Signatures: cs.Sig}
	for _, e := range cs.Exs {
		l.Exchanges = append(l.Exchanges, refbundle.LExchange{URL: e.URL, Status: e.Status, Headers: e.Hdr, Body: e.Body})
	}
	return l
}

func c04MustURL(s string) *url.URL {
	u, err := url.Parse(s)
	if err != nil {
		panic(err)
	}
	return u
}

func c04Header(hs []refbundle.LHeader) http.Header {
	if hs == nil {
		return nil
	}
	h := http.Header{}
	for _, f := range hs {
		h[f.Name] = append([]string(nil), f.Values...) // key exactly as given, not canonicalised
	}
	return h
}

func c04BuildSignatures(s *refbundle.LSignatures) *bundle.Signatures {
	if s == nil {
		return nil
	}
	out := &bundle.Signatures{}
	for _, a := range s.Authorities {
		var ac *certurl.AugmentedCertificate
		for _, id := range []*fixtures.ECIdentity{fixtures.A, fixtures.A2, fixtures.B, fixtures.C} {
			if bytes.Equal(id.Leaf.Raw, a.Cert) {
				ac = &certurl.AugmentedCertificate{Cert: id.Leaf}
			} else if bytes.Equal(id.CA.Raw, a.Cert) {
				ac = &certurl.AugmentedCertificate{Cert: id.CA}
			}
		}
		if ac == nil {
			panic("c04: authority is not a fixture certificate")
		}
		ac.OCSPResponse, ac.SCTList = a.OCSP, a.SCT
		out.Authorities = append(out.Authorities, ac)
	}
	for _, v := range s.Vouched {
		out.VouchedSubsets = append(out.VouchedSubsets, &bundle.VouchedSubset{Authority: v.Authority, Sig: v.Sig, Signed: v.Signed})
	}
	return out
}

// build makes a fresh repository-side bundle (nothing is shared between calls
// except the immutable body/fixture bytes).
func (cs *c04Case) build() *bundle.Bundle {
	b := &bundle.Bundle{Version: bundleversion.Version(cs.Ver)}
	if cs.Primary != nil {
		b.PrimaryURL = c04MustURL(*cs.Primary)
	}
	if cs.Manifest != nil {
		b.ManifestURL = c04MustURL(*cs.Manifest)
	}
	b.Signatures = c04BuildSignatures(cs.Sig)
	b.Exchanges = []*bundle.Exchange{}
	for _, e := range cs.Exs {
		b.Exchanges = append(b.Exchanges, &bundle.Exchange{
			Request:  bundle.Request{URL: c04MustURL(e.URL)},
			Response: bundle.Response{Status: e.Status, Header: c04Header(e.Hdr), Body: e.Body},
		})
	}
	return b
}

// c04Body: seeded pattern whose first byte marks the exchange it belongs to.
func c04Body(n, k int, seed int64) []byte {
	b := pattern(n, seed+int64(31*k+n))
	if n > 0 {
		b[0] = 0xA0 + byte(k)
	}
	return b
}

// ---- generator: core grid ------------------------------------------------------

func c04GenGrid(c *mc.Ctx) *c04Case {
	cs := &c04Case{}
	cs.Ver = []string{"b1", "b2"}[c.Free(2, "version")]
	n := c.Free(4, "n")
	urlIdx := make([]int, n)
	bodyIdx := make([]int, n)
	if n <= 2 {
		for i := 0; i < n; i++ {
			urlIdx[i] = c.Free(len(c04URLs), "url")
			bodyIdx[i] = c.Free(len(c04BodyLens), "bodylen")
		}
	} else {
		left := []int{0, 1, 2, 3, 4, 5, 6, 7}
		for i := 0; i < n; i++ {
			k := c.Free(len(left), "url")
			urlIdx[i] = left[k]
			left = append(append([]int{}, left[:k]...), left[k+1:]...)
		}
		for i := 0; i < n; i++ {
			bodyIdx[i] = (c04DefaultBody[i] + c.Dev(len(c04BodyLens), "bodylen")) % len(c04BodyLens)
		}
	}
	// The rarer dimensions are deviations.  Budget for the n<=2 body product (default
	// body classes are 23, 256, 0 by position): quick - deviations (bound 1) are offered
	// where at most one body has a non-default class; thorough - bound 2 where every body
	// has its default class, at most one deviation elsewhere.  A choice point that is not
	// offered takes its default; whether it is offered depends only on earlier choices,
	// so executions stay deterministic.
	nonDefault := 0
	for i := 0; i < n && n <= 2; i++ {
		if bodyIdx[i] != c04DefaultBody[i] {
			nonDefault++
		}
	}
	dev := func(k int, label string) int {
		if c.Quick() && nonDefault >= 2 {
			return 0
		}
		if !c.Quick() && nonDefault >= 1 && c.Devs() >= 1 {
			return 0
		}
		return c.Dev(k, label)
	}
	hs := make([]int, n)
	st := make([]int, n)
	for i := 0; i < n; i++ {
		hs[i] = dev(c04NumHeaderSets, "headers")
		st[i] = dev(len(c04Statuses), "status")
	}
	var p int
	if cs.Ver == "b1" {
		p = dev(len(c04PrimaryPool), "primary")
		cs.Primary = &c04PrimaryPool[p]
	} else {
		p = dev(len(c04PrimaryPool)+1, "primary") // last = absent
		if p < len(c04PrimaryPool) {
			cs.Primary = &c04PrimaryPool[p]
		}
	}
	m := dev(len(c04ManifestPool)+1, "manifest") // 0 = absent
	if m > 0 {
		cs.Manifest = &c04ManifestPool[m-1]
	}
	sg := dev(c04NumSigShapes, "signatures")
	cs.Sig = c04Signatures(sg)
	total := 0
	for i := 0; i < n; i++ {
		bl := c04BodyLens[bodyIdx[i]]
		total += bl
		cs.Exs = append(cs.Exs, c04Ex{URL: c04URLs[urlIdx[i]], Status: c04Statuses[st[i]], Hdr: c04HeaderSet(hs[i], i), Body: c04Body(bl, i, c.Seed)})
	}
	cs.Big = total >= 65536
	// Identical responses under different URLs (two URLs serving the same 404 page or redirect
	// stub): exchange tw gets exactly the status, headers and body of exchange 0.  A writer
	// that shares or de-duplicates encoded responses must still emit a responses array with
	// one item per exchange.
	tw := 0
	if n >= 2 {
		tw = dev(n, "identical-response twin of exchange 0")
		if tw > 0 {
			cs.Exs[tw].Status, cs.Exs[tw].Hdr, cs.Exs[tw].Body = cs.Exs[0].Status, cs.Exs[0].Hdr, cs.Exs[0].Body
		}
	}
	cs.Desc = fmt.Sprintf("%s n=%d url=%v body=%v hdr=%v st=%v primary=%d manifest=%d sig=%d twin=%d", cs.Ver, n, urlIdx, bodyIdx, hs, st, p, m, sg, tw)
	return cs
}

// ---- generator: b1 variant sets --------------------------------------------------
//
// shapes: 1 axis x {2,3} values, 2 axes 2x2, 2x3, 3x2 (the unequal ones tell row-major
// from column-major).  modes: complete (one representation per possible key);
// incomplete (one key left without representation); overlap (one key served by two
// representations); multi-key (one representation serves two keys, complete);
// multi-key overlap (the same plus a single-key representation of one of them).
// Every insertion permutation of the representations is enumerated when there are at
// most 4 of them (quick) / 6 (thorough); above that identity, reversal, all rotations
// and one transposition.  An unrelated exchange is optionally placed before / inside
// the group so that offsets are not trivial.

type c04VShape struct {
	axes [][]string // [name, values...]
}

var c04VShapes = []c04VShape{
	{[][]string{{"Accept-Language", "en", "fr"}}},
	{[][]string{{"Accept-Language", "en", "fr", "ja"}}},
	{[][]string{{"Accept-Encoding", "gzip", "br"}, {"Accept-Language", "en", "fr"}}},
	{[][]string{{"Accept-Encoding", "gzip", "br"}, {"Accept-Language", "en", "fr", "ja"}}},
	{[][]string{{"Accept-Language", "en", "fr", "ja"}, {"Accept-Encoding", "gzip", "br"}}},
}

func (s c04VShape) value() string {
	var ax []string
	for _, a := range s.axes {
		ax = append(ax, strings.Join(a, ";"))
	}
	return strings.Join(ax, ", ")
}

// keys in generator order (NOT used as the oracle: the reference computes its own)
func (s c04VShape) keys() []string {
	out := []string{""}
	for _, a := range s.axes {
		var next []string
		for _, p := range out {
			for _, v := range a[1:] {
				if p == "" {
					next = append(next, v)
				} else {
					next = append(next, p+";"+v)
				}
			}
		}
		out = next
	}
	return out
}

func c04LimitedPerms(n int) [][]int {
	id := make([]int, n)
	for i := range id {
		id[i] = i
	}
	out := [][]int{id}
	rev := make([]int, n)
	for i := range rev {
		rev[i] = n - 1 - i
	}
	out = append(out, rev)
	for r := 1; r < n; r++ {
		p := make([]int, n)
		for i := range p {
			p[i] = (i + r) % n
		}
		out = append(out, p)
	}
	if n >= 3 {
		sw := append([]int{}, id...)
		sw[0], sw[n-1] = sw[n-1], sw[0]
		out = append(out, sw)
	}
	return out
}

var c04VModes = []string{"complete", "incomplete", "overlap", "multikey", "multikey-overlap"}

func c04GenVariants(c *mc.Ctx) *c04Case {
	cs := &c04Case{Ver: "b1", Primary: &c04PrimaryPool[0]}
	si := c.Free(len(c04VShapes), "shape")
	sh := c04VShapes[si]
	keys := sh.keys()
	K := len(keys)
	mode := c.Free(len(c04VModes), "mode")
	type rep struct {
		vk string
		id int
	}
	var reps []rep
	for i, k := range keys {
		reps = append(reps, rep{k, i})
	}
	sub := 0
	switch c04VModes[mode] {
	case "incomplete":
		sub = c.Free(K, "dropped key")
		reps = append(reps[:sub:sub], reps[sub+1:]...)
	case "overlap":
		sub = c.Free(K, "doubled key")
		reps = append(reps, rep{keys[sub], K})
	case "multikey", "multikey-overlap":
		// the pair (i<j) whose keys one representation serves
		var pairs [][2]int
		for i := 0; i < K; i++ {
			for j := i + 1; j < K; j++ {
				pairs = append(pairs, [2]int{i, j})
			}
		}
		sub = c.Free(len(pairs), "merged keys")
		pi, pj := pairs[sub][0], pairs[sub][1]
		var nr []rep
		for i, r := range reps {
			switch {
			case i == pi:
				nr = append(nr, rep{keys[pj] + ", " + keys[pi], r.id}) // listed in non-row-major order on purpose
			case i == pj:
				if c04VModes[mode] == "multikey-overlap" {
					nr = append(nr, r)
				}
			default:
				nr = append(nr, r)
			}
		}
		reps = nr
		cs.MultiKey = true
	}
	var ps [][]int
	maxFull := c.Pick(4, 6)
	if len(reps) <= maxFull {
		ps = perms(len(reps))
	} else {
		ps = c04LimitedPerms(len(reps))
	}
	pi := c.Free(len(ps), "insertion order")
	perm := ps[pi]
	extra := c.Free(3, "unrelated exchange: none/before/inside")
	vurl := []string{"https://a.test/v", c04Pad("https://b.test/v/", 256, 'v')}[c.Dev(2, "variants url")]
	big := c.Dev(4, "first representation body") // 0 small, then 0 / 24 / 65536 bytes
	vv := sh.value()
	for pos, ri := range perm {
		r := reps[ri]
		body := append([]byte{0xB0 + byte(r.id), 'r'}, pattern(r.id, c.Seed+int64(r.id))...)
		if ri == 0 && big > 0 {
			body = c04Body([]int{0, 24, 65536}[big-1], 16+r.id, c.Seed)
			cs.Big = cs.Big || len(body) >= 65536
		}
		hdr := []refbundle.LHeader{
			{Name: "Content-Type", Values: []string{fmt.Sprintf("text/plain;rep=%d", r.id)}},
			{Name: "Variants", Values: []string{vv}},
			{Name: "Variant-Key", Values: []string{r.vk}},
		}
		if extra == 2 && pos == 1 {
			cs.Exs = append(cs.Exs, c04Ex{URL: c04URLs[0], Status: 404, Hdr: c04HeaderSet(0, 9), Body: c04Body(24, 9, c.Seed)})
		}
		cs.Exs = append(cs.Exs, c04Ex{URL: vurl, Status: 200, Hdr: hdr, Body: body})
	}
	if extra == 1 {
		cs.Exs = append([]c04Ex{{URL: c04URLs[6], Status: 200, Hdr: c04HeaderSet(0, 9), Body: c04Body(23, 9, c.Seed)}}, cs.Exs...)
	}
	cs.Desc = fmt.Sprintf("b1 variants=%q mode=%s sub=%d order=%v extra=%d urllen=%d body0=%d", vv, c04VModes[mode], sub, perm, extra, len(vurl), big)
	return cs
}

// ---- running the writer ----------------------------------------------------------

// c04Write runs WriteTo on w, turning a panic into a string.
func c04Write(b *bundle.Bundle, w io.Writer) (n int64, err error, pan string) {
	defer func() {
		if r := recover(); r != nil {
			pan = fmt.Sprint(r)
		}
	}()
	n, err = b.WriteTo(w)
	return
}

const c04NoFault = 1 << 40

type c04Dest struct {
	name string
	w    io.Writer
	got  func() []byte
}

func c04Dests() []c04Dest {
	buf := &bytes.Buffer{}
	plain := mc.NewFaultWriter(c04NoFault, false, false)
	rf := mc.NewFaultWriter(c04NoFault, false, false)
	rf.RFChunk = 1
	// a destination that is itself a bundle.CountingWriter which the caller has already used (a prefix written
	// through it before the bundle): count and trailing length are the bundle's own, not the counter's total
	used := &bytes.Buffer{}
	ucw := bundle.NewCountingWriter(used)
	prefix := []byte("37 bytes written through the counter.")
	ucw.Write(prefix)
	return []c04Dest{
		{"bytes.Buffer", buf, buf.Bytes},
		{"plain", plain.Writer(false), plain.Accepted},
		{"readerfrom-1byte", rf.Writer(true), rf.Accepted},
		{"caller's CountingWriter, 37 bytes already counted", ucw, func() []byte { return used.Bytes()[len(prefix):] }},
	}
}

// c04FirstDiff describes where two byte strings differ.
func c04FirstDiff(want, got []byte) string {
	n := min(len(want), len(got))
	i := 0
	for i < n && want[i] == got[i] {
		i++
	}
	lo := i - 8
	if lo < 0 {
		lo = 0
	}
	return fmt.Sprintf("first difference at byte %d of %d/%d: expected ...%s, observed ...%s", i, len(want), len(got), hx(want[lo:min(len(want), i+24)]), hx(got[lo:min(len(got), i+24)]))
}

func c04SectionNames(b *refbundle.Bundle) string {
	var s []string
	for _, x := range b.Sections {
		s = append(s, x.Name)
	}
	return strings.Join(s, ",")
}

// c04Check is the C04 oracle for one generated case.
func c04Check(c *mc.Ctx, hname string, cs *c04Case) {
	l := cs.logical()
	want, refErr := refbundle.Serialize(l)
	c.State([]byte(cs.Desc))
	c.Sample(cs.Desc)
	c.Eval()
	key := hname + ":" + cs.Desc
	if refErr == nil && len(cs.Exs) > 0 {
		c.Nontrivial([]byte(cs.Desc))
	}
	var first []byte
	refused, accepted := 0, 0
	for di, d := range c04Dests() {
		n, err, pan := c04Write(cs.build(), d.w)
		c.Transitions(1)
		got := d.got()
		in := cs.Desc + " -> " + d.name
		if pan != "" && refErr != nil {
			// the reference cannot represent this input either (e.g. a URL that is not valid UTF-8): a panic emits no
			// bytes "without error", so C04 has nothing to judge - it counts as a refusal
			refused++
			continue
		}
		if pan != "" {
			c.Outcome("VIOLATION panic")
			c.Fail(key+":panic", "WriteTo panicked", in, "bytes or an error", pan)
			return
		}
		if n != int64(len(got)) {
			c.Outcome("VIOLATION count")
			c.Fail(key+":count:"+d.name, "returned byte count differs from the bytes handed to the destination", in, fmt.Sprintf("%d bytes received", len(got)), fmt.Sprintf("returned %d (err=%v)", n, err))
			return
		}
		if refErr != nil {
			kind := refbundle.KindOf(refErr)
			if err != nil {
				refused++
				continue
			}
			// the writer emitted bytes for something the reference cannot represent:
			// only well-formedness is C04's business
			if _, verr := refbundle.Validate(got); verr != nil {
				c.Outcome("VIOLATION malformed (unrepresentable input)")
				c.Fail(key+":validate", "output is not a well-formed bundle", in, "refusal ("+refErr.Error()+") or a well-formed bundle", verr.Error()+" | "+hx(got))
				return
			}
			_ = kind
			accepted++
			continue
		}
		if err != nil {
			c.Outcome("VIOLATION refused")
			c.Fail(key+":refused", "writer refused a representable bundle", in, fmt.Sprintf("%d bytes", len(want)), err.Error())
			return
		}
		if di == 0 {
			first = got
		} else if !bytes.Equal(first, got) {
			c.Outcome("VIOLATION destination-dependent bytes")
			c.Fail(key+":dest:"+d.name, "bytes depend on the kind of destination", in, hx(first), c04FirstDiff(first, got))
			return
		}
	}
	if refErr != nil {
		kind := refbundle.KindOf(refErr)
		if accepted > 0 {
			c.Outcome("accepted where the reference refuses (" + kind + "), output well-formed [C03's business]")
		} else {
			c.Outcome("refused as the reference expects: " + kind)
		}
		return
	}
	out := first
	v, err := refbundle.Validate(out)
	if err != nil {
		c.Outcome("VIOLATION malformed")
		c.Fail(key+":validate", "output is not a well-formed canonical bundle", cs.Desc, "accepted by the strict reference parser", err.Error()+" | "+c04FirstDiff(want, out))
		return
	}
	if d := refbundle.DiffMeta(l, v); d != "" {
		c.Outcome("VIOLATION meta")
		c.Fail(key+":meta", "version / primary URL / manifest URL / signatures in the output differ from the input", cs.Desc, "as given", d)
		return
	}
	content, _ := refbundle.Content(l)
	if d := refbundle.DiffIndex(content, v.Index); d != "" {
		c.Outcome("VIOLATION content")
		c.Fail(key+":content", "index or responses in the output differ from the input", cs.Desc, "every exchange under its URL, canonical order", d)
		return
	}
	if v.Unreferenced != 0 || v.NumResponses != len(cs.Exs) {
		c.Outcome("VIOLATION orphan")
		c.Fail(key+":orphan", "responses section holds responses no index entry points at", cs.Desc, fmt.Sprintf("%d responses, all indexed", len(cs.Exs)), fmt.Sprintf("%d responses, %d not indexed", v.NumResponses, v.Unreferenced))
		return
	}
	if !bytes.Equal(out, want) {
		c.Outcome("VIOLATION bytes")
		c.Fail(key+":bytes", "output differs from the reference serialization", cs.Desc, hx(want), c04FirstDiff(want, out))
		return
	}
	size := "<64KiB"
	if len(out) >= 65536 {
		size = ">=64KiB"
	}
	c.Outcome(fmt.Sprintf("ok %s n=%d sections=%s size%s", cs.Ver, len(cs.Exs), c04SectionNames(v), size))
}

// ---- CountingWriter op sequences -----------------------------------------------------

type c04Src struct {
	name string
	n    int
	mk   func(data []byte) io.Reader
}

// onlyReader hides every optional interface of the reader it wraps.
type c04OnlyReader struct{ r io.Reader }

func (o c04OnlyReader) Read(p []byte) (int, error) { return o.r.Read(p) }

var c04Srcs = []c04Src{
	{"bytes.Reader(WriterTo) 40", 40, func(d []byte) io.Reader { return bytes.NewReader(d) }},
	{"bytes.Reader(WriterTo) 0", 0, func(d []byte) io.Reader { return bytes.NewReader(d) }},
	{"plain-reader 40", 40, func(d []byte) io.Reader { return c04OnlyReader{bytes.NewReader(d)} }},
	{"plain-reader 1-byte reads 9", 9, func(d []byte) io.Reader { return mc.NewChunkReader(d, mc.ReadOneByte) }},
	{"plain-reader EOF-with-data 40", 40, func(d []byte) io.Reader { return mc.NewChunkReader(d, mc.ReadEOFWithData) }},
	{"plain-reader 70000 (several 32 KiB rounds)", 70000, func(d []byte) io.Reader { return mc.NewChunkReader(d, mc.ReadFull) }},
	{"plain-reader 0", 0, func(d []byte) io.Reader { return mc.NewChunkReader(d, mc.ReadFull) }},
}

func c04CountingWriter(c *mc.Ctx) {
	type op struct {
		name string
		kind int // 0 Write, 1 ReadFrom, 2 io.Copy
		n    int
		src  *c04Src
	}
	ops := []op{{"Write(0)", 0, 0, nil}, {"Write(5)", 0, 5, nil}, {"Write(300)", 0, 300, nil}}
	for i := range c04Srcs {
		s := &c04Srcs[i]
		ops = append(ops, op{"ReadFrom(" + s.name + ")", 1, s.n, s})
	}
	for _, i := range []int{0, 2, 4} {
		s := &c04Srcs[i]
		ops = append(ops, op{"io.Copy(" + s.name + ")", 2, s.n, s})
	}
	dests := c04Dests()
	d := dests[c.Free(len(dests), "destination")]
	cw := bundle.NewCountingWriter(d.w)
	depth := c.Pick(3, 4)
	var all []byte
	desc := "dst=" + d.name + ":"
	for step := 0; step < depth; step++ {
		k := c.Free(len(ops)+1, "op")
		if k == 0 {
			break
		}
		o := ops[k-1]
		data := pattern(o.n, c.Seed+int64(step*17+k))
		desc += " " + o.name
		var n int64
		var err error
		pan := ""
		func() {
			defer func() {
				if r := recover(); r != nil {
					pan = fmt.Sprint(r)
				}
			}()
			switch o.kind {
			case 0:
				var m int
				m, err = cw.Write(data)
				n = int64(m)
			case 1:
				n, err = cw.ReadFrom(o.src.mk(data))
			case 2:
				n, err = io.Copy(cw, o.src.mk(data))
			}
		}()
		c.Transitions(1)
		all = append(all, data...)
		got := d.got()
		c.State([]byte(desc))
		obs := fmt.Sprintf("n=%d err=%v Written=%d destination holds %d bytes panic=%q", n, err, cw.Written, len(got), pan)
		exp := fmt.Sprintf("n=%d err=<nil> Written=%d destination holds the %d bytes handed over so far", len(data), len(all), len(all))
		if pan != "" || err != nil || n != int64(len(data)) || cw.Written != int64(len(all)) || !bytes.Equal(got, all) {
			c.Outcome("VIOLATION " + o.name)
			c.Fail("C04/countingwriter:"+desc, "CountingWriter: returned count / Written / error do not match the bytes handed on", desc, exp, obs)
			return
		}
	}
	c.Eval()
	c.Sample(desc)
	if len(all) > 0 {
		c.Nontrivial([]byte(desc))
	}
	c.Outcome(fmt.Sprintf("ok dst=%s moved>0=%v", d.name, len(all) > 0))
}

// ---- reference self-check: the strict validator really is strict -------------------
//
// Reference-side only (no code under test): a two-exchange b2 bundle is assembled by
// hand with one deliberate defect per case; refbundle.Validate must refuse each and
// accept the defect-free assembly.  The vacuity guard turns an accepted defect into
// "check broken" (exit 2), never into a violation.

var c04Corruptions = []string{
	"none", "magic", "version", "footer+1", "footer-1", "trailing byte", "index order reversed", "index key twice",
	"offset+1", "length-1", "entry spans two responses", "entry points into a body", "header map unsorted", "header map non-shortest head",
	"body non-shortest head", "responses not last", "section listed twice", "table split between items", "sections count", "response of 3 elements",
	"no :status", "upper-case header name", "unknown section", "status of 2 digits", "non-shortest section length", "index value of 3 elements", "top-level array of 6",
}

func c04Assemble(kind string) []byte {
	E := refcbor.EncBytes
	T := refcbor.EncText
	U := refcbor.EncUint
	hdr := func(status string, name, value string) []byte {
		kvs := []refcbor.KV{{K: E([]byte(":status")), V: E([]byte(status))}, {K: E([]byte(name)), V: E([]byte(value))}}
		m := refcbor.MustMap(kvs...)
		switch kind {
		case "header map unsorted":
			m = append(refcbor.AppendHead(nil, refcbor.Map, 2), append(append(append([]byte{}, kvs[0].K...), kvs[0].V...), append(append([]byte{}, kvs[1].K...), kvs[1].V...)...)...)
		case "header map non-shortest head":
			m = refcbor.AppendHead(nil, refcbor.Map, 2)
			m = append(m, kvs[1].K...)
			m = append(append(refcbor.AppendHeadWidth(m, refcbor.Bytes, uint64(len(value)), 1), value...), kvs[0].K...)
			m = append(m, kvs[0].V...)
		case "no :status":
			m = refcbor.MustMap(kvs[1])
		}
		return m
	}
	name := "age"
	if kind == "upper-case header name" {
		name = "Age"
	}
	st := "200"
	if kind == "status of 2 digits" {
		st = "20"
	}
	body0 := E([]byte("abc"))
	if kind == "body non-shortest head" {
		body0 = append(refcbor.AppendHeadWidth(nil, refcbor.Bytes, 3, 1), "abc"...)
	}
	r0 := refcbor.EncArray(E(hdr(st, name, "0")), body0)
	if kind == "response of 3 elements" {
		r0 = refcbor.EncArray(E(hdr(st, name, "0")), body0, U(0))
	}
	r1 := refcbor.EncArray(E(hdr("404", "age", "1")), E(pattern(30, 3)))
	resp := append(append(refcbor.AppendHead(nil, refcbor.Array, 2), r0...), r1...)
	o0, l0 := uint64(1), uint64(len(r0))
	o1, l1 := o0+l0, uint64(len(r1))
	switch kind {
	case "offset+1":
		o1++
	case "length-1":
		l0--
	case "entry spans two responses":
		l0 += l1
	case "entry points into a body":
		o1, l1 = o1+uint64(len(r1))-5, 4 // four bytes of r1's body that happen to be anything
	}
	k0, k1 := T("https://a.test/"), T("https://a.test/longer")
	v0, v1 := refcbor.EncArray(U(o0), U(l0)), refcbor.EncArray(U(o1), U(l1))
	if kind == "index value of 3 elements" {
		v0 = refcbor.EncArray(U(o0), U(l0), U(0))
	}
	index := append(append(append(append(refcbor.AppendHead(nil, refcbor.Map, 2), k0...), v0...), k1...), v1...)
	switch kind {
	case "index order reversed":
		index = append(append(append(append(refcbor.AppendHead(nil, refcbor.Map, 2), k1...), v1...), k0...), v0...)
	case "index key twice":
		index = append(append(append(append(refcbor.AppendHead(nil, refcbor.Map, 2), k0...), v0...), k0...), v1...)
	}
	type sec struct {
		name string
		body []byte
		l    uint64
	}
	secs := []sec{{"index", index, uint64(len(index))}, {"responses", resp, uint64(len(resp))}}
	switch kind {
	case "responses not last":
		secs[0], secs[1] = secs[1], secs[0]
	case "section listed twice":
		secs = []sec{secs[0], {"index", index, uint64(len(index))}, secs[1]}
	case "table split between items":
		secs[0].l++
		secs[1].l--
	case "unknown section":
		secs = []sec{secs[0], {"extra", U(7), 1}, secs[1]}
	}
	var table []byte
	table = refcbor.AppendHead(table, refcbor.Array, uint64(2*len(secs)))
	for i, s := range secs {
		table = append(table, T(s.name)...)
		if kind == "non-shortest section length" && i == 0 {
			table = refcbor.AppendHeadWidth(table, refcbor.Uint, s.l, 2)
		} else {
			table = append(table, U(s.l)...)
		}
	}
	top := uint64(5)
	if kind == "top-level array of 6" {
		top = 6
	}
	out := refcbor.AppendHead(nil, refcbor.Array, top)
	magic := append([]byte{}, refbundle.Magic...)
	if kind == "magic" {
		magic[7] ^= 1
	}
	out = append(out, E(magic)...)
	ver := []byte("b2\x00\x00")
	if kind == "version" {
		ver = []byte("b3\x00\x00")
	}
	out = append(out, E(ver)...)
	out = append(out, E(table)...)
	n := uint64(len(secs))
	if kind == "sections count" {
		n++
	}
	out = refcbor.AppendHead(out, refcbor.Array, n)
	for _, s := range secs {
		out = append(out, s.body...)
	}
	total := uint64(len(out)) + 9
	switch kind {
	case "footer+1":
		total++
	case "footer-1":
		total--
	case "trailing byte":
		total++
	}
	var f [8]byte
	binary.BigEndian.PutUint64(f[:], total)
	out = append(out, E(f[:])...)
	if kind == "trailing byte" {
		out = append(out, 0)
	}
	return out
}

func c04RefSelfCheck(c *mc.Ctx) {
	kind := c04Corruptions[c.Free(len(c04Corruptions), "defect")]
	b := c04Assemble(kind)
	_, err := refbundle.Validate(b)
	c.Eval()
	c.State(b)
	c.Sample(fmt.Sprintf("%s -> %v", kind, err))
	if c.Verbose {
		fmt.Printf("      selfcheck %-34s %v\n", kind, err)
	}
	switch {
	case kind == "none" && err == nil:
		c.Outcome("reference accepts the defect-free assembly")
	case kind != "none" && err != nil:
		c.Outcome("reference refuses a defect")
		c.Nontrivial([]byte(kind))
	default:
		c.Outcome("REFERENCE WRONG: " + kind + fmt.Sprintf(" (err=%v)", err))
	}
}

func init() {
	// generator sanity (harness-side): every pool URL survives url.Parse().String()
	// unchanged, otherwise the logical URL and what the writer is given would differ.
	for _, s := range append(append(append([]string{}, c04URLs...), c04PrimaryPool...), c04ManifestPool...) {
		if c04MustURL(s).String() != s {
			panic("c04: pool URL does not round-trip through net/url: " + s)
		}
	}
	sorted := append([]string{}, c04URLs...)
	sort.Strings(sorted)
	content, _ := refbundle.Content(&refbundle.Logical{Version: "b2", Exchanges: func() (e []refbundle.LExchange) {
		for _, u := range c04URLs {
			e = append(e, refbundle.LExchange{URL: u, Status: 200})
		}
		return
	}()})
	same := len(content) == len(sorted)
	for i := range content {
		same = same && content[i].URL == sorted[i]
	}
	if same {
		panic("c04: URL pool does not separate raw-string order from encoded-key order")
	}

	bound := func(tier string) int {
		if tier == "quick" {
			return 1
		}
		return 2
	}
	grid := &mc.Harness{Name: "C04/grid", Bound: bound, Run: func(c *mc.Ctx) { c04Check(c, "C04/grid", c04GenGrid(c)) }}
	vars := &mc.Harness{Name: "C04/variants", Bound: bound, Run: func(c *mc.Ctx) { c04Check(c, "C04/variants", c04GenVariants(c)) }}
	cwh := &mc.Harness{Name: "C04/countingwriter", Mode: "explicit-state search over CountingWriter operation histories (state = operations so far; observable = counts + destination bytes)", Run: c04CountingWriter}
	selfh := &mc.Harness{Name: "C04/reference-selfcheck", Mode: "reference-side control: hand-assembled bundles with one defect each must be refused by the strict validator", Run: c04RefSelfCheck}
	register(&mc.Property{
		ID:    "C04",
		Level: "model_checking",
		Rule:  "choice-tree enumeration of logical bundles: versions b1/b2 x 0..3 exchanges; for n<=2 the full product of URL choices from an 8-shape pool (with replacement) x 8 body-length classes per exchange, for n=3 every ordered triple of distinct URLs; deviation-bounded (1 quick / 2 thorough) header set (8), status (4), primary URL, manifest URL, signatures shape (5), n=3 body class; b1 variant sets: 5 axis shapes x 5 coverage modes x every affected key x insertion permutations x unrelated exchange placement x 2 URLs; each case written to 3 destinations (bytes.Buffer, plain writer, 1-byte ReaderFrom). A case is non-trivial when the reference can represent it and it has at least one exchange (its output is then validated by the strict reference parser, compared field by field with the input and byte for byte with the reference serializer); distinct by logical description. CountingWriter: every operation sequence up to depth 3 (quick) / 4 (thorough) over a 13-operation menu x 3 destinations; non-trivial when at least one byte moved. Reference self-check (no code under test): 26 hand-assembled bundles with one defect each must be refused by the strict validator, the defect-free one accepted (enforced by the vacuity guard).",
		Assumptions: []string{
			"refbundle (strict validator + reference serializer written from the CDDL of draft-yasskin-wpack-bundled-exchanges (b1) / draft-ietf-wpack-bundled-responses (b2) and the extensions/ documents) and refcbor are correct",
			"byte equality with the reference serializer is demanded for the section order index,[primary|manifest],[signatures],responses and responses in exchange order (the drafts fix everything else)",
			"header names are looked up / folded as ASCII; Variants and Variant-Key are supplied under their canonical Go header keys",
			"lengths between the enumerated class boundaries behave like their neighbours (small-scope hypothesis); at most 3 exchanges, 6 representations",
		},
		Harnesses: []*mc.Harness{grid, vars, cwh, selfh},
		Guard: func(s map[string]*mc.Stats) error {
			if s["C04/grid"].Executions < 5000 || s["C04/grid"].Nontrivial < 5000 {
				return fmt.Errorf("grid too small: %d executions, %d non-trivial", s["C04/grid"].Executions, s["C04/grid"].Nontrivial)
			}
			if s["C04/variants"].Nontrivial < 200 {
				return fmt.Errorf("variant sets too few: %d", s["C04/variants"].Nontrivial)
			}
			sc := s["C04/reference-selfcheck"]
			if sc.Outcomes["reference refuses a defect"] != int64(len(c04Corruptions)-1) || sc.Outcomes["reference accepts the defect-free assembly"] != 1 {
				return fmt.Errorf("the strict reference validator is not strict: %v", sc.Outcomes)
			}
			if s["C04/countingwriter"].Nontrivial < 1000 {
				return fmt.Errorf("CountingWriter histories too few: %d", s["C04/countingwriter"].Nontrivial)
			}
			return nil
		},
	})
}
