package main

import (
	"bytes"
	"errors"
	"fmt"
	"net/url"
	"sort"
	"strconv"
	"strings"

	"github.com/WICG/webpackage/go/bundle"
	"github.com/WICG/webpackage/go/signedexchange/zverif/fixtures"
	"github.com/WICG/webpackage/go/signedexchange/zverif/mc"
	"github.com/WICG/webpackage/go/signedexchange/zverif/refbx"
	"github.com/WICG/webpackage/go/signedexchange/zverif/refcbor"
)

// ---- base bundles, built with the reference encoder only (the writer is judged by C04) ----

type c05Ex struct {
	url     string
	status  int
	headers [][2]string
	body    []byte
	// rawStatus, when set, is the ':status' value as written (any string), instead of the decimal form of status
	rawStatus *string
}

type c05Base struct {
	name    string
	version string
	file    []byte
	ref     *refbx.Result
}

func c05Response(e c05Ex) []byte {
	st := strconv.Itoa(e.status)
	if e.rawStatus != nil {
		st = *e.rawStatus
	}
	kvs := []refcbor.KV{{K: refcbor.EncBytes([]byte(":status")), V: refcbor.EncBytes([]byte(st))}}
	for _, h := range e.headers {
		kvs = append(kvs, refcbor.KV{K: refcbor.EncBytes([]byte(h[0])), V: refcbor.EncBytes([]byte(h[1]))})
	}
	return refcbor.EncArray(refcbor.EncBytes(refcbor.MustMap(kvs...)), refcbor.EncBytes(e.body))
}

func c05Build(name, version string, exs []c05Ex, primary, manifest string, sigs bool, variants bool) *c05Base {
	respHead := refcbor.AppendHead(nil, refcbor.Array, uint64(len(exs)))
	resp := append([]byte{}, respHead...)
	type loc struct{ off, l int }
	locs := map[string][]loc{}
	var order []string
	for _, e := range exs {
		r := c05Response(e)
		if _, ok := locs[e.url]; !ok {
			order = append(order, e.url)
		}
		locs[e.url] = append(locs[e.url], loc{len(resp), len(r)})
		resp = append(resp, r...)
	}
	var ikv []refcbor.KV
	for _, u := range order {
		var items [][]byte
		if version == "b1" {
			vv := []byte{}
			if variants && len(locs[u]) > 1 {
				vv = []byte("Accept-Language;en;fr")
			}
			items = append(items, refcbor.EncBytes(vv))
		}
		for _, l := range locs[u] {
			items = append(items, refcbor.EncUint(uint64(l.off)), refcbor.EncUint(uint64(l.l)))
		}
		ikv = append(ikv, refcbor.KV{K: refcbor.EncText(u), V: refcbor.EncArray(items...)})
	}
	index := refcbor.MustMap(ikv...)
	names := []string{"index"}
	data := [][]byte{index}
	prefix := append(refcbor.EncBytes([]byte{0xf0, 0x9f, 0x8c, 0x90, 0xf0, 0x9f, 0x93, 0xa6}), refcbor.EncBytes([]byte(version+"\x00\x00"))...)
	if version == "b1" {
		prefix = append(prefix, refcbor.EncText(primary)...)
		if manifest != "" {
			names = append(names, "manifest")
			data = append(data, refcbor.EncText(manifest))
		}
	} else if primary != "" {
		names = append(names, "primary")
		data = append(data, refcbor.EncText(primary))
	}
	if sigs {
		cert := refcbor.MustMap(refcbor.KV{K: refcbor.EncText("cert"), V: refcbor.EncBytes(fixtures.A.Leaf.Raw)}, refcbor.KV{K: refcbor.EncText("ocsp"), V: refcbor.EncBytes([]byte("ocsp"))})
		vs := refcbor.MustMap(refcbor.KV{K: refcbor.EncText("authority"), V: refcbor.EncUint(0)}, refcbor.KV{K: refcbor.EncText("sig"), V: refcbor.EncBytes([]byte("sig"))}, refcbor.KV{K: refcbor.EncText("signed"), V: refcbor.EncBytes([]byte("signed"))})
		names = append(names, "signatures")
		data = append(data, refcbor.EncArray(refcbor.EncArray(cert), refcbor.EncArray(vs)))
	}
	names = append(names, "responses")
	data = append(data, resp)
	file := refbx.Rebuild(version, prefix, names, data)
	ref, err := refbx.Extract(file)
	if err != nil {
		panic("c05: base bundle " + name + " does not extract: " + err.Error())
	}
	return &c05Base{name: name, version: version, file: file, ref: ref}
}

func c05Bases() []*c05Base {
	ex := func(u string, st int, body string, hs ...[2]string) c05Ex {
		return c05Ex{url: u, status: st, headers: hs, body: []byte(body)}
	}
	ct := [2]string{"content-type", "text/plain"}
	long := strings.Repeat("x", 300)
	return []*c05Base{
		c05Build("b2-1", "b2", []c05Ex{ex("https://ex.test/", 200, "hello world", ct)}, "https://ex.test/", "", false, false),
		c05Build("b2-2", "b2", []c05Ex{ex("https://ex.test/a", 200, "AAAA", ct), ex("https://ex.test/b?q=1", 404, "", ct, [2]string{"x-long", long})}, "", "", false, false),
		c05Build("b2-3sig", "b2", []c05Ex{ex("https://ex.test/1", 200, "one", ct), ex("https://ex.test/2", 200, "two"), ex("rel/3", 301, long)}, "https://ex.test/1", "", true, false),
		c05Build("b1-1", "b1", []c05Ex{ex("https://ex.test/", 200, "hello world", ct)}, "https://ex.test/", "", false, false),
		c05Build("b1-2man", "b1", []c05Ex{ex("https://ex.test/a", 200, "AAAA", ct), ex("https://ex.test/b", 200, "BBBBBBBBBBBBBBBBBBBBBBBBBBBBBB", ct)}, "https://ex.test/a", "https://ex.test/manifest.json", true, false),
		c05Build("b1-var", "b1", []c05Ex{ex("https://ex.test/v", 200, "english", ct, [2]string{"variants", "Accept-Language;en;fr"}, [2]string{"variant-key", "en"}), ex("https://ex.test/v", 200, "francais", ct, [2]string{"variants", "Accept-Language;en;fr"}, [2]string{"variant-key", "fr"}), ex("https://ex.test/w", 200, "w")}, "https://ex.test/w", "", false, true),
	}
}

// c05Reordered returns base with its sections re-ordered (responses stays last) and, optionally,
// an extra known section inserted in front: layouts the repository's writer never produces but
// the format allows (e.g. "manifest" ahead of "index", a manifest section in a b2 bundle).
func c05Reordered(name string, base *c05Base, extraName string, extraData []byte) *c05Base {
	r := base.ref
	var names []string
	var data [][]byte
	if extraName != "" {
		names, data = append(names, extraName), append(data, extraData)
	}
	// non-responses sections in reverse order
	for i := len(r.Sections) - 2; i >= 0; i-- {
		names, data = append(names, r.Sections[i].Name), append(data, r.SectionData[i])
	}
	names, data = append(names, "responses"), append(data, r.SectionData[len(r.Sections)-1])
	file := refbx.Rebuild(r.Version, r.Prefix, names, data)
	ref, err := refbx.Extract(file)
	if err != nil {
		panic("c05: reordered base " + name + " does not extract: " + err.Error())
	}
	return &c05Base{name: name, version: base.version, file: file, ref: ref}
}

// c05Polyglot: a b2 bundle whose responses section consists of ONE response item (no enclosing array head), the
// index entry pointing at (0, section length): the section reads as an array of two byte strings and as one
// response at offset 0.  The repository's reader takes it; offset 0 is otherwise never a response boundary, so a
// reader that invents offset 0 for a malformed location is only visible here.
func c05Polyglot() *c05Base {
	e := c05Ex{url: "https://ex.test/p", status: 200, headers: [][2]string{{"content-type", "text/plain"}}, body: []byte("polyglot")}
	r := c05Response(e)
	index := refcbor.MustMap(refcbor.KV{K: refcbor.EncText(e.url), V: refcbor.EncArray(refcbor.EncUint(0), refcbor.EncUint(uint64(len(r))))})
	prefix := append(refcbor.EncBytes([]byte{0xf0, 0x9f, 0x8c, 0x90, 0xf0, 0x9f, 0x93, 0xa6}), refcbor.EncBytes([]byte("b2\x00\x00"))...)
	file := refbx.Rebuild("b2", prefix, []string{"index", "responses"}, [][]byte{index, r})
	ref, err := refbx.Extract(file)
	if err != nil {
		panic("c05: polyglot base does not extract: " + err.Error())
	}
	return &c05Base{name: "b2-response-at-0", version: "b2", file: file, ref: ref}
}

func c05AllBases() []*c05Base {
	bs := c05Bases()
	man := refcbor.EncText("https://ex.test/manifest.webmanifest")
	// b2 with a manifest section ahead of index and primary; b1 with signatures/manifest ahead of index
	bs = append(bs, c05Reordered("b2-man-first", bs[2], "manifest", man), c05Reordered("b1-reordered", bs[4], "", nil), c05Polyglot())
	return bs
}

var c05BaseList = c05AllBases()

// ---- what the reader did ----

type c05Read struct {
	ok    bool
	err   string
	panic string
	b     *bundle.Bundle
}

func c05DoRead(in []byte) (r c05Read) {
	defer func() {
		if p := recover(); p != nil {
			r.panic = fmt.Sprint(p)
		}
	}()
	b, err := bundle.Read(bytes.NewReader(in))
	if err != nil {
		r.err = err.Error()
		return
	}
	r.ok, r.b = true, b
	return
}

// c05Scribble overwrites everything reachable from a bundle the reader returned.
func c05Scribble(b *bundle.Bundle) {
	inv := func(p []byte) {
		p = p[:cap(p)]
		for i := range p {
			p[i] ^= 0xff
		}
	}
	for _, e := range b.Exchanges {
		if e == nil {
			continue
		}
		inv(e.Response.Body)
		for k, vs := range e.Response.Header {
			for i := range vs {
				vs[i] = "scribbled"
			}
			e.Response.Header[k] = vs
		}
		if e.Response.Header != nil {
			e.Response.Header["X-Scribbled"] = []string{"1"}
		}
		e.Response.Status = 599
		if e.Request.URL != nil {
			e.Request.URL.Path, e.Request.URL.Host, e.Request.URL.RawQuery = "/scribbled", "scribbled.test", "s=1"
		}
		for k := range e.Request.Header {
			e.Request.Header[k] = []string{"scribbled"}
		}
	}
	for _, u := range []*url.URL{b.PrimaryURL, b.ManifestURL} {
		if u != nil {
			u.Path, u.Host = "/scribbled", "scribbled.test"
		}
	}
	if b.Signatures != nil {
		for _, a := range b.Signatures.Authorities {
			if a != nil {
				inv(a.OCSPResponse)
				inv(a.SCTList)
			}
		}
		for _, v := range b.Signatures.VouchedSubsets {
			if v != nil {
				inv(v.Sig)
				inv(v.Signed)
				v.Authority = 1 << 40
			}
		}
	}
}

// c05Compare checks that what the reader returned is what the reference finds in
// the input.  It returns "" when they agree, "skip: ..." when the reference marks
// the input ambiguous, or a description of the difference.
func c05Compare(ref *refbx.Result, b *bundle.Bundle) string {
	if string(b.Version) != ref.Version {
		return fmt.Sprintf("version %q, file says %q", b.Version, ref.Version)
	}
	canon := func(s string) string {
		u, err := url.Parse(s)
		if err != nil {
			return "unparsable:" + s
		}
		return u.String()
	}
	if ref.HasPrimary != (b.PrimaryURL != nil) {
		return fmt.Sprintf("primary URL presence: reader %v, file %v", b.PrimaryURL != nil, ref.HasPrimary)
	}
	if ref.HasPrimary && b.PrimaryURL.String() != canon(ref.PrimaryURL) {
		return fmt.Sprintf("primary URL %q, file has %q", b.PrimaryURL, ref.PrimaryURL)
	}
	if ref.HasManifest != (b.ManifestURL != nil) {
		return "manifest URL presence differs"
	}
	if ref.HasManifest && b.ManifestURL.String() != canon(ref.ManifestURL) {
		return fmt.Sprintf("manifest URL %q, file has %q", b.ManifestURL, ref.ManifestURL)
	}
	if (ref.Signatures != nil) != (b.Signatures != nil) {
		return "signatures section presence differs"
	}
	type flat struct {
		url string
		r   refbx.Response
	}
	var want []flat
	for i, e := range ref.Index {
		for _, r := range ref.Responses[i] {
			if r.Ambiguous {
				return "skip: duplicate header names"
			}
			want = append(want, flat{canon(e.URL), r})
		}
	}
	if len(want) != len(b.Exchanges) {
		return fmt.Sprintf("reader returned %d exchanges, the index delimits %d", len(b.Exchanges), len(want))
	}
	for i, w := range want {
		g := b.Exchanges[i]
		if g.Request.URL.String() != w.url {
			return fmt.Sprintf("exchange %d URL %q, file has %q", i, g.Request.URL, w.url)
		}
		// (the status pseudo header is three digits; "000" and "007" denote 0 and 7)
		// ':status' is exactly three ASCII digits (strconv.Atoi alone would let "+20" or "-20" through)
		threeDigits := len(w.r.Status) == 3
		for _, ch := range []byte(w.r.Status) {
			threeDigits = threeDigits && ch >= '0' && ch <= '9'
		}
		if ws, err := strconv.Atoi(w.r.Status); err != nil || !threeDigits || g.Response.Status != ws {
			return fmt.Sprintf("exchange %d status %d, file has %q", i, g.Response.Status, w.r.Status)
		}
		if !bytes.Equal(g.Response.Body, w.r.Body) {
			return fmt.Sprintf("exchange %d body %s, file has %s", i, hx(g.Response.Body), hx(w.r.Body))
		}
		var wantH, gotH []string
		for _, h := range w.r.Headers {
			wantH = append(wantH, strings.ToLower(h.Name)+": "+h.Value)
		}
		for k, vs := range g.Response.Header {
			gotH = append(gotH, strings.ToLower(k)+": "+strings.Join(vs, ","))
		}
		sort.Strings(wantH)
		sort.Strings(gotH)
		if strings.Join(wantH, "\n") != strings.Join(gotH, "\n") {
			return fmt.Sprintf("exchange %d headers %q, file has %q", i, gotH, wantH)
		}
	}
	return ""
}

type c05Case struct {
	input      []byte
	base       *c05Base
	op         string // mutation description (stable)
	mustAccept bool   // a valid bundle (plus unknown sections): the reader must accept it with the base's exchanges
}

func (cs *c05Case) CaseKey() string { return "C05/" + cs.base.name + ":" + cs.op }

func c05Exec(c *mc.Ctx, v interface{}) {
	cs := v.(*c05Case)
	ref, rerr := refbx.Extract(cs.input)
	got := c05DoRead(append([]byte{}, cs.input...)) // a private copy: the result is scribbled over below
	c.Eval()
	c.State(cs.input)
	c.Sample(cs.CaseKey())
	key := cs.CaseKey()
	in := fmt.Sprintf("%s (%d bytes) %s", cs.op, len(cs.input), hx(cs.input))
	// history: whatever this input made the reader do (refuse half-way, accept), the unmodified base
	// bundle read right afterwards must still yield exactly its content
	defer func() {
		if got.ok {
			// ... and the caller owns what a Read returned: overwriting every byte, header and URL
			// reachable from this result must not show in the next one
			c05Scribble(got.b)
		}
		after := c05DoRead(cs.base.file)
		c.Transitions(1)
		d := "refused: " + after.err + after.panic
		if after.ok {
			d = c05Compare(cs.base.ref, after.b)
		}
		if d != "" && !strings.HasPrefix(d, "skip:") {
			c.Outcome("BASE READ WRONG AFTER THIS INPUT")
			c.Fail(key+":then-base", "the unmodified base bundle, read right after this input, does not yield its content", "first "+in+"; then the base bundle "+cs.base.name, "base exchanges", d)
		}
	}()
	if got.panic != "" {
		c.Outcome("PANIC")
		c.Fail(key, "bundle reader panicked", in, "value or error", "panic: "+got.panic)
		return
	}
	var loc *refbx.ErrLocation
	switch {
	case rerr == nil && got.ok:
		c.Nontrivial(cs.input)
		d := c05Compare(ref, got.b)
		if strings.HasPrefix(d, "skip:") {
			c.Outcome("accepted; " + d)
			return
		}
		if d != "" {
			c.Outcome("WRONG CONTENT")
			c.Fail(key, "reader returned content that differs from what is at the in-bounds locations of the input", in, "as extracted by the reference", d)
			return
		}
		if cs.mustAccept {
			// identical exchanges as the base
			if d2 := c05Compare(cs.base.ref, got.b); d2 != "" {
				c.Outcome("WRONG CONTENT")
				c.Fail(key, "bundle with an extra unknown section did not yield the base bundle's exchanges", in, "base exchanges", d2)
				return
			}
			c.Outcome("valid (+unknown section): accepted, content equal")
			return
		}
		c.Outcome("accepted, content equal")
	case rerr == nil && !got.ok:
		if cs.mustAccept {
			c.Nontrivial(cs.input)
			c.Outcome("VALID REFUSED")
			c.Fail(key, "valid bundle (with an unknown section to be stepped over) was refused", in, "accepted", "error: "+got.err)
			return
		}
		c.Outcome("extractable but refused by the reader (nothing claimed)")
	case errors.As(rerr, &loc):
		c.Nontrivial(cs.input)
		if got.ok {
			c.Outcome("OUT-OF-BOUNDS ACCEPTED")
			c.Fail(key, "reader accepted an input whose section table / index points outside the file or is inconsistent", in, "error ("+rerr.Error()+")", fmt.Sprintf("accepted, %d exchanges", len(got.b.Exchanges)))
			return
		}
		c.Outcome("bad location refused")
	default: // the reference cannot make sense of the input
		if got.ok {
			// The extractor accepts every encoding the reader's CBOR decoder accepts, so an
			// input it cannot extract has no complete bundle structure at the places the
			// format puts it: whatever the reader returned was not "found in the input as an
			// independent parser extracts it" (e.g. a string cut short by its container).
			c.Nontrivial(cs.input)
			c.Outcome("MALFORMED ACCEPTED: " + mc.ClassOf(rerr.Error()))
			c.Fail(key, "reader accepted an input in which the independent parser finds no complete bundle structure", in, "error ("+rerr.Error()+")", fmt.Sprintf("accepted, %d exchanges", len(got.b.Exchanges)))
			return
		}
		c.Outcome("malformed, refused")
	}
}

// c05GenFn is the C05 case generator (also used by C10 for the bundle reader).
var c05GenFn func(c *mc.Ctx) interface{}

func c05Bounds(exact uint64, fileLen int) []uint64 {
	return []uint64{0, exact - 1, exact + 1, uint64(fileLen), 1 << 32, 1<<63 - 1, 1 << 63, 1<<64 - 1, exact + 1<<63}
}

func init() {
	gen := func(c *mc.Ctx) interface{} {
		nb := len(c05BaseList)
		if c.Quick() {
			nb = 7
		}
		base := c05BaseList[[]int{1, 2, 3, 5, 6, 7, 8, 0, 4}[c.Free(nb, "base")]]
		file := base.file
		kind := c.Dev(14, "mutation-kind")
		switch kind {
		case 13: // a LARGE section (8000 bytes: bigger than the slack any read buffer leaves behind the file) that the reader
			// has no use for stands ahead of 'responses', the table overstates the length of 'responses' by d and the
			// index entry reaches d bytes past the end of the file.  A reader whose running section cursor goes stale
			// while it steps over a section it ignores checks later sections against the wrong bound; with d larger
			// than the buffer's spare capacity the out-of-file read is a slice-bounds panic instead of fabricated zeros.
			ver := []string{"b2", "b1"}[c.Free(2, "version")]
			sec := []string{"manifest", "zz-unknown", "critical", "primary"}[c.Free(4, "big section")]
			const big = 8000
			d := []uint64{1, 9, 600, 4096, big}[c.Free(5, "overstated by")]
			at := c.Free(2, "big section first") // ahead of the index or between index and responses
			r1 := c05Response(c05Ex{status: 200, headers: [][2]string{{"content-type", "text/plain"}}, body: []byte("only response")})
			resp := append(refcbor.AppendHead(nil, refcbor.Array, 1), r1...)
			val := [][]byte{refcbor.EncUint(1), refcbor.EncUint(uint64(len(r1)) + d)}
			if ver == "b1" {
				val = append([][]byte{refcbor.EncBytes(nil)}, val...)
			}
			index := refcbor.MustMap(refcbor.KV{K: refcbor.EncText("https://ex.test/"), V: refcbor.EncArray(val...)})
			bigData := refcbor.EncText("https://ex.test/" + strings.Repeat("m", big-19))
			if sec == "critical" {
				bigData = refcbor.EncArray(refcbor.EncText(strings.Repeat("c", big-4)))
			}
			prefix := append(refcbor.EncBytes([]byte{0xf0, 0x9f, 0x8c, 0x90, 0xf0, 0x9f, 0x93, 0xa6}), refcbor.EncBytes([]byte(ver+"\x00\x00"))...)
			if ver == "b1" {
				prefix = append(prefix, refcbor.EncText("https://ex.test/")...)
			}
			names, data := []string{"index", sec, "responses"}, [][]byte{index, bigData, resp}
			if at == 1 {
				names, data = []string{sec, "index", "responses"}, [][]byte{bigData, index, resp}
			}
			lens := []uint64{uint64(len(data[0])), uint64(len(data[1])), uint64(len(resp)) + d}
			out := refbx.RebuildLens(ver, prefix, names, lens, data)
			return &c05Case{input: out, base: base, op: fmt.Sprintf("%s: 8000-byte section %q (position %d), 'responses' length and the index entry overstated by %d", ver, sec, 1-at, d)}
		case 12: // a b1 index entry whose variants-value names so many axes that the number of possible variant keys (the
			// product of the axis sizes) does not fit in 64 bits, with the value-array count a wrapped product would
			// predict: 2^64 = 0 keys -> 1 item, 2^63 keys -> 2*2^63+1 = 1 item, 3*2^62 keys -> 2^63+1 items, 0 keys + one
			// real location.  Every one of them is an index entry whose count field disagrees with the file.
			type shape struct {
				note    string
				axes    []int // values per axis
				count   uint64
				realLoc bool
			}
			rep := func(n, v int) []int {
				out := make([]int, n)
				for i := range out {
					out[i] = v
				}
				return out
			}
			shapes := []shape{
				{"64 two-valued axes (2^64 keys), array of 1", rep(64, 2), 1, false},
				{"63 two-valued axes (2^63 keys), array of 1", rep(63, 2), 1, false},
				{"62 two-valued axes and a three-valued one (3*2^62 keys), array of 2^63+1", append(rep(62, 2), 3), 1<<63 + 1, false},
				{"64 two-valued axes, array of 3 with one real location", rep(64, 2), 3, true},
				{"32 four-valued axes (2^64 keys), array of 1", rep(32, 4), 1, false},
				{"16 sixteen-valued axes (2^64 keys), array of 1", rep(16, 16), 1, false},
				{"65 two-valued axes (2^65 keys), array of 1", rep(65, 2), 1, false},
				{"32 two-valued axes (2^32 keys), array of 1", rep(32, 2), 1, false},
				{"31 two-valued axes (2^31 keys), array of 2^32+1", rep(31, 2), 1<<32 + 1, false},
			}
			sh := shapes[c.Free(len(shapes), "shape")]
			var axes []string
			for i, nv := range sh.axes {
				a := fmt.Sprintf("a%d", i)
				for v := 0; v < nv; v++ {
					a += fmt.Sprintf(";v%d", v)
				}
				axes = append(axes, a)
			}
			vv := []byte(strings.Join(axes, ", "))
			r1 := c05Response(c05Ex{status: 200, headers: [][2]string{{"content-type", "text/plain"}, {"variants", string(vv)}, {"variant-key", "v0"}}, body: []byte("variant")})
			r2 := c05Response(c05Ex{status: 200, headers: [][2]string{{"content-type", "text/plain"}}, body: []byte("plain")})
			resp := append(append(refcbor.AppendHead(nil, refcbor.Array, 2), r1...), r2...)
			val := append(refcbor.AppendHead(nil, refcbor.Array, sh.count), refcbor.EncBytes(vv)...)
			if sh.realLoc {
				val = append(append(val, refcbor.EncUint(1)...), refcbor.EncUint(uint64(len(r1)))...)
			}
			index := refcbor.MustMap(
				refcbor.KV{K: refcbor.EncText("https://ex.test/v"), V: val},
				refcbor.KV{K: refcbor.EncText("https://ex.test/w"), V: refcbor.EncArray(refcbor.EncBytes(nil), refcbor.EncUint(uint64(1+len(r1))), refcbor.EncUint(uint64(len(r2))))})
			prefix := append(refcbor.EncBytes([]byte{0xf0, 0x9f, 0x8c, 0x90, 0xf0, 0x9f, 0x93, 0xa6}), refcbor.EncBytes([]byte("b1\x00\x00"))...)
			prefix = append(prefix, refcbor.EncText("https://ex.test/w")...)
			out := refbx.Rebuild("b1", prefix, []string{"index", "responses"}, [][]byte{index, resp})
			return &c05Case{input: out, base: base, op: "b1 index entry with variants-value of " + sh.note}
		case 11: // the ':status' value of one response replaced by another string, the whole bundle re-encoded consistently
			// (lengths, offsets and the section table all fit): only a three-digit value is a status
			sts := []string{"200 ", " 200", "200x", "2000", "404;", "301\n", "20", "2", "", "+20", "-20", "2 0", "0x1", "\u0662\u0660\u0660", "1e2", "200\x00", "999", "099", "000"}
			st := sts[c.Free(len(sts), "status string")]
			ver := []string{"b2", "b1"}[c.Free(2, "version")]
			ex := []c05Ex{{url: "https://ex.test/s", status: 200, headers: [][2]string{{"content-type", "text/plain"}}, body: []byte("status"), rawStatus: &st},
				{url: "https://ex.test/t", status: 200, headers: [][2]string{{"content-type", "text/plain"}}, body: []byte("other")}}
			nb := c05Build("status-string", ver, ex, "https://ex.test/t", "", false, false)
			return &c05Case{input: nb.file, base: base, op: fmt.Sprintf("%s: ':status' = %q, bundle re-encoded consistently", ver, st)}
		case 10: // a length / offset / count head re-encoded with the SAME value in a wider form, or with the value moved
			// into the high half of an 8-byte argument: a reader that folds argument bytes wrongly sees another number
			fi := c.Free(len(base.ref.Fields), "field")
			f := base.ref.Fields[fi]
			type alt struct {
				width int
				v     uint64
				note  string
			}
			alts := []alt{{1, f.Value, "same value, 1 follow byte"}, {2, f.Value, "same value, 2 follow bytes"}, {4, f.Value, "same value, 4 follow bytes"}, {8, f.Value, "same value, 8 follow bytes"},
				{8, f.Value << 32, "value<<32"}, {8, f.Value<<32 | 7, "value<<32|7"}, {8, 1<<32 | f.Value, "2^32+value"}, {4, f.Value << 16, "value<<16"}}
			a := alts[c.Free(len(alts), "form")]
			if a.width == 1 && f.Value > 0xff || a.width == 2 && f.Value > 0xffff || a.width == 4 && a.v > 0xffffffff {
				return &c05Case{input: file, base: base, op: "unmutated"}
			}
			nh := refcbor.AppendHeadWidth(nil, f.Major, a.v, a.width)
			out := append(append(append([]byte{}, file[:f.Off]...), nh...), file[f.Off+f.Len:]...)
			return &c05Case{input: out, base: base, op: fmt.Sprintf("field[%d %s] re-encoded: %s", fi, f.What, a.note)}
		case 9: // a length / offset / count head replaced by a well-delimited item of ANOTHER type
			fi := c.Free(len(base.ref.Fields), "field")
			f := base.ref.Fields[fi]
			items := [][]byte{{0xf6}, {0xf4}, {0x20}, {0x3a, 0, 0, 0, 1}, {0x40}, {0x60}, {0x80}, {0xa0}, {0xc0, 0x00}, {0x1f}, {0xf9, 0x00, 0x00}}
			it := items[c.Free(len(items), "item")]
			out := append(append(append([]byte{}, file[:f.Off]...), it...), file[f.Off+f.Len:]...)
			return &c05Case{input: out, base: base, op: fmt.Sprintf("field[%d %s] replaced by the item %s", fi, f.What, hx(it))}
		case 0:
			return &c05Case{input: file, base: base, op: "unmutated", mustAccept: true}
		case 1: // one length / offset / count field replaced by a boundary value
			fi := c.Free(len(base.ref.Fields), "field")
			f := base.ref.Fields[fi]
			bs := c05Bounds(f.Value, len(file))
			v := bs[c.Free(len(bs), "value")]
			out := refbx.ReplaceHead(file, f, v)
			op := fmt.Sprintf("field[%d %s]=%d", fi, f.What, v)
			if !c.Quick() {
				// thorough: optionally a second field mutation (bound 2)
				if c.Dev(2, "second-field") == 1 {
					// re-extracting the mutated file would lose the map; use the base's
					// field positions when the first edit kept the width
					if len(out) == len(file) {
						fj := c.Free(len(base.ref.Fields), "field2")
						f2 := base.ref.Fields[fj]
						v2 := bs[c.Free(len(bs), "value2")]
						if fj != fi {
							out = refbx.ReplaceHead(out, f2, v2)
							op += fmt.Sprintf("+field[%d]=%d", fj, v2)
						}
					}
				}
			}
			return &c05Case{input: out, base: base, op: op}
		case 2: // truncation at every offset
			off := c.Free(len(file), "truncate")
			return &c05Case{input: file[:off], base: base, op: fmt.Sprintf("truncate@%d", off)}
		case 3: // every byte set to a chosen value
			off := c.Free(len(file), "offset")
			vals := []byte{0x00, 0xff, file[off] ^ 0x01, file[off] ^ 0x80, file[off] + 1, '+', '-', ' '}
			var nv byte
			if c.Quick() {
				nv = vals[c.Free(len(vals), "value")]
			} else {
				nv = byte(c.Free(256, "value"))
			}
			out := append([]byte{}, file...)
			out[off] = nv
			return &c05Case{input: out, base: base, op: fmt.Sprintf("byte@%d=%02x", off, nv)}
		case 4: // index locations replaced with the index re-encoded and the section table kept consistent
			r := base.ref
			type at struct{ e, l int }
			var ats []at
			for ei, e := range r.Index {
				for li := range e.Locations {
					ats = append(ats, at{ei, li})
				}
			}
			a := ats[c.Free(len(ats), "location")]
			orig := r.Index[a.e].Locations[a.l]
			respLen := r.Sections[len(r.Sections)-1].Length
			type ol2 struct{ o, l uint64 }
			alts := []ol2{
				{orig.Offset + 1<<63, orig.Length + 1<<63}, // sum wraps to the original sum
				{1<<64 - 1, orig.Length + 1},               // sum wraps to orig.Length
				{-orig.Length, orig.Length},                // sum wraps to 0
				{orig.Offset, -orig.Offset},                // sum wraps to 0
				{orig.Offset + 1, orig.Length - 1},         // in range, not a response boundary
				{orig.Offset, orig.Length + 1<<32},
				{orig.Offset, respLen - orig.Offset + 1}, // one byte past the section
				{respLen, 0},
				{respLen + 1, 0},
				{0, respLen},
				{orig.Offset, 1<<63 - 1},
				{1 << 63, orig.Length},
				{orig.Offset, orig.Length - 1},
				// the true value in the HIGH half of an 8-byte argument (a reader that folds only four of the
				// eight argument bytes sees the true value again)
				{orig.Offset << 32, orig.Length << 32},
				{orig.Offset<<32 | 1, orig.Length},
				{orig.Offset, orig.Length<<32 | 3},
				{1<<32 | orig.Offset, 1<<32 | orig.Length},
			}
			// an entry that reuses ANOTHER entry's offset with a different length (a reader that
			// caches decoded responses by offset would hand out the other entry's content)
			for oi, oe := range r.Index {
				for ol, other := range oe.Locations {
					if oi == a.e && ol == a.l {
						continue
					}
					alts = append(alts, ol2{other.Offset, other.Length - 1}, ol2{other.Offset, 1}, ol2{other.Offset, 0}, ol2{other.Offset, other.Length + orig.Length}, ol2{other.Offset, other.Length})
				}
			}
			alt := alts[c.Free(len(alts), "value")]
			entries := make([]refbx.IndexEntry, len(r.Index))
			for i, e := range r.Index {
				entries[i] = e
				entries[i].Locations = append([]refbx.Location{}, e.Locations...)
			}
			entries[a.e].Locations[a.l] = refbx.Location{Offset: alt.o, Length: alt.l}
			var names []string
			var data [][]byte
			for i, s := range r.Sections {
				names = append(names, s.Name)
				if s.Name == "index" {
					data = append(data, refbx.EncodeIndex(r.Version, entries))
				} else {
					data = append(data, r.SectionData[i])
				}
			}
			out := refbx.Rebuild(r.Version, r.Prefix, names, data)
			return &c05Case{input: out, base: base, op: fmt.Sprintf("location[%d.%d]=(%d,%d) index re-encoded", a.e, a.l, alt.o, alt.l)}
		case 5: // an unknown section inserted consistently at each position: must be stepped over
			r := base.ref
			pos := c.Free(len(r.Sections), "position") // before section pos (never after responses)
			lens := []int{1, 24, 300}
			l := lens[c.Free(len(lens), "unknown-len")]
			var item []byte
			switch l {
			case 1:
				item = []byte{0x00}
			default:
				item = refcbor.EncBytes(make([]byte, l-2))
			}
			var names []string
			var data [][]byte
			for i, s := range r.Sections {
				if i == pos {
					names = append(names, "zz-unknown")
					data = append(data, item)
				}
				names = append(names, s.Name)
				data = append(data, r.SectionData[i])
			}
			out := refbx.Rebuild(r.Version, r.Prefix, names, data)
			return &c05Case{input: out, base: base, op: fmt.Sprintf("unknown-section(len %d)@%d", len(item), pos), mustAccept: true}
		case 6: // section table permuted / entry duplicated / dropped, contents left in place
			r := base.ref
			n := len(r.Sections)
			var names []string
			var data [][]byte
			sub := c.Free(4, "table-op")
			op := ""
			switch sub {
			case 3:
				// a section name listed twice with DIFFERENT lengths (a duplicate test that compares whole table
				// entries lets these through), the second entry at any position, its content made to fit the
				// length it claims so that every other section stays where the table says
				d := c.Free(n, "dup")
				at := c.Free(n+1, "position of the second entry")
				L := len(r.SectionData[d])
				variants := []int{0, 1, L + 1, L + 7, 2 * L}
				if L > 1 {
					variants = append(variants, L-1)
				}
				v := variants[c.Free(len(variants), "claimed length")]
				filler := append(append([]byte{}, r.SectionData[d]...), make([]byte, v+1)...)[:v]
				for i := 0; i <= n; i++ {
					if i == at {
						names = append(names, r.Sections[d].Name)
						data = append(data, filler)
					}
					if i < n {
						names = append(names, r.Sections[i].Name)
						data = append(data, r.SectionData[i])
					}
				}
				op = fmt.Sprintf("section[%d]-listed-again@%d-with-length-%d", d, at, v)
			case 0:
				ps := perms(n)
				p := ps[c.Free(len(ps), "perm")]
				for _, i := range p {
					names = append(names, r.Sections[i].Name)
					data = append(data, r.SectionData[i])
				}
				op = fmt.Sprintf("table-permuted%v", p)
				// permuting entries together with their contents yields another valid
				// layout only when responses stays last; judged by the reference
			case 1:
				d := c.Free(n, "dup")
				for i, s := range r.Sections {
					names = append(names, s.Name)
					data = append(data, r.SectionData[i])
					if i == d {
						names = append(names, s.Name)
						data = append(data, r.SectionData[i])
					}
				}
				op = fmt.Sprintf("section-duplicated[%d]", d)
			case 2:
				d := c.Free(n, "drop")
				for i, s := range r.Sections {
					if i != d {
						names = append(names, s.Name)
						data = append(data, r.SectionData[i])
					}
				}
				op = fmt.Sprintf("section-dropped[%d]", d)
			}
			out := refbx.Rebuild(r.Version, r.Prefix, names, data)
			return &c05Case{input: out, base: base, op: op}
		case 7: // one section-table length replaced, the table itself re-encoded consistently
			r := base.ref
			si := c.Free(len(r.Sections), "section")
			exact := r.Sections[si].Length
			rest := uint64(len(file)) - r.Sections[si].Start
			vals := []uint64{0, exact - 1, exact + 1, rest, rest + 1, uint64(len(file)), 1 << 32, 1<<63 - 1, 1 << 63, 1<<64 - 1, -r.Sections[si].Start, -r.Sections[si].Start + exact, exact << 32, exact<<32 | 7, 1<<32 | exact}
			v := vals[c.Free(len(vals), "value")]
			var names []string
			var lens []uint64
			for i, s := range r.Sections {
				names = append(names, s.Name)
				if i == si {
					lens = append(lens, v)
				} else {
					lens = append(lens, s.Length)
				}
			}
			out := refbx.RebuildLens(r.Version, r.Prefix, names, lens, r.SectionData)
			return &c05Case{input: out, base: base, op: fmt.Sprintf("table-length[%s]=%d", r.Sections[si].Name, v)}
		default: // an unknown section listed in the table only (no content inserted)
			r := base.ref
			pos := c.Free(len(r.Sections), "position")
			l := []uint64{0, 1, 24, 1 << 40, 1<<64 - 1}[c.Free(5, "len")]
			// build by hand: same data, table with an extra entry
			var names []string
			var lens []uint64
			for i, s := range r.Sections {
				if i == pos {
					names = append(names, "zz-unknown")
					lens = append(lens, l)
				}
				names = append(names, s.Name)
				lens = append(lens, s.Length)
			}
			top := uint64(5)
			if r.Version == "b1" {
				top = 6
			}
			out := refcbor.AppendHead(nil, refcbor.Array, top)
			out = append(out, r.Prefix...)
			tbl := refcbor.AppendHead(nil, refcbor.Array, uint64(2*len(names)))
			for i := range names {
				tbl = append(tbl, refcbor.EncText(names[i])...)
				tbl = append(tbl, refcbor.EncUint(lens[i])...)
			}
			out = append(out, refcbor.EncBytes(tbl)...)
			out = refcbor.AppendHead(out, refcbor.Array, uint64(len(names)))
			for _, d := range r.SectionData {
				out = append(out, d...)
			}
			out = append(out, file[len(file)-9:]...)
			return &c05Case{input: out, base: base, op: fmt.Sprintf("unknown-in-table-only(len %d)@%d", l, pos), mustAccept: false}
		}
	}
	c05GenFn = gen
	h := &mc.Harness{
		Name:     "C05/mutated-bundles",
		Isolated: true,
		Bound: func(tier string) int {
			if tier == "quick" {
				return 1
			}
			return 2
		},
		Gen:      gen,
		Exec:     c05Exec,
		Describe: func(v interface{}) string { cs := v.(*c05Case); return cs.op + " " + hx(cs.input) },
	}
	register(&mc.Property{
		ID:          "C05",
		Level:       "model_checking",
		Rule:        "choice-tree enumeration of inputs to bundle.Read in watchdog-supervised workers: 7 (quick) / 9 (thorough) base bundles built by the reference encoder (b1/b2, 1-3 exchanges, primary/manifest/signatures sections, a b1 variants entry, two with the sections in an order the repository's writer never produces: manifest ahead of index in a b2 bundle, signatures/manifest ahead of index in b1; one whose responses section is a single response item at offset 0) x one structure-aware mutation: every length/offset/count head replaced by a well-delimited item of another type (null, false, negative integers, empty strings / array / map, a tag, a reserved head, a float), or re-encoded with the same value in a wider head / with the value moved into the high half of an 8-byte argument; every length/offset/count head of the reference's field map replaced by each of 9 boundary values (0, exact+-1, file size, 2^32, 2^63-1, 2^63, 2^64-1, exact+2^63; thorough: pairs of fields), truncation at every offset, every byte set to 8 values (quick: 00, ff, two bit flips, +1, '+', '-', space) / all 256 (thorough), offset/length pairs whose sum wraps around 2^64, an unknown section inserted consistently at every position (must be stepped over), the section table permuted / an entry duplicated (verbatim, or at any position with another length and content that fits it) / dropped, an unknown section listed without content, the ':status' value of a response replaced by 19 other strings ('200 ', '2000', '+20', the empty string, non-ASCII digits ...) with the bundle re-encoded consistently, and a b1 index entry whose variants-value announces 2^31 .. 2^65 possible keys (31..65 axes, or 32 four-valued / 16 sixteen-valued axes) with the value-array count a product wrapped to 32 or 64 bits would predict., and small bundles that carry an 8000-byte manifest / unknown / critical / primary section ahead of 'responses' while the section table and the index entry overstate the responses section by 1, 9, 600, 4096 or 8000 bytes. Oracle: refbx.Extract (location-strict, encoding-lenient). Non-trivial = the reference produced a verdict the reader had to match (content equality, must-refuse location, must-accept unknown section); distinct by input hash.",
		Assumptions: []string{"refbx extracts at least what bundle.Read accepts (any well-formed CBOR head, any key order) and is exact about locations", "inputs the reference can extract but the reader refuses for its own stricter rules (URL syntax, header-name case, ASCII) are not judged", "header maps with duplicate names are not judged (the property does not say which value a reader returns)"},
		Harnesses:   []*mc.Harness{h},
		Guard: func(s map[string]*mc.Stats) error {
			if s["C05/mutated-bundles"].Executions < 3000 {
				return errors.New("mutation sweep too small")
			}
			return nil
		},
	})
}
