package main

// C11/key-pairs: the *comparison* of encoded map keys swept over the quantities a comparator can distinguish:
// the encoded lengths of the two keys (every pair 1..41 bytes, i.e. content 0..40), the position of their first
// difference (every position, including "one key is a prefix of the other" and "equal"), which side is smaller at that
// position, the major type (text / byte string) and the arrangement (both insertion orders; a third, unrelated key put
// between the two, so that equal keys are not adjacent on entry).  The pool of C11/maps holds ten fixed keys, which
// fixes the lengths and difference positions a comparator meets; a comparator that is wrong only for keys whose
// length is a multiple of a word size, or only when the difference lies in the last word, is invisible there.
//
// Oracle: refcbor.EncMap (stable sort by bytes.Compare over the encoded keys, duplicates refused).  Equal keys must be
// refused with cbor.ErrDuplicatedKey whatever stands between them.

import (
	"bytes"
	"fmt"

	"github.com/WICG/webpackage/go/internal/cbor"
	"github.com/WICG/webpackage/go/signedexchange/zverif/mc"
	"github.com/WICG/webpackage/go/signedexchange/zverif/refcbor"
)

func c11KeyPairs(c *mc.Ctx) {
	var la, lb int
	if c.Free(2, "length class: every short length / long keys") == 0 {
		maxLen := c.Pick(34, 41)
		la = c.Free(maxLen, "content length of key a")
		lb = c.Free(maxLen, "content length of key b")
	} else {
		// long keys (deep sibling URLs): around 64, 128 and the 255/256 head boundary, every first-difference position
		long := []int{61, 62, 63, 64, 65, 66, 126, 127, 128, 129, 254, 255, 256, 257}
		if c.Quick() {
			long = []int{62, 63, 64, 65, 127, 128, 255, 256}
		}
		la = long[c.Free(len(long), "content length of key a")]
		lb = long[c.Free(len(long), "content length of key b")]
	}
	m := la
	if lb < m {
		m = lb
	}
	// p = position of the first difference in the content; p == m: the shorter is a prefix of the longer (equal when la == lb)
	p := c.Free(m+1, "first difference")
	dir := 0
	if p < m {
		dir = c.Free(2, "a smaller / a larger at the difference")
	}
	kind := c.Free(2, "text / byte string keys")
	arr := c.Free(4, "arrangement: ab / ba / a third b / b third a")
	a := bytes.Repeat([]byte{'m'}, la)
	b := bytes.Repeat([]byte{'m'}, lb)
	if p < m {
		if dir == 0 {
			a[p], b[p] = 'c', 'x'
		} else {
			a[p], b[p] = 'x', 'c'
		}
		// bytes after the difference point the other way, so that a comparator that skips the deciding byte errs
		for i := p + 1; i < m; i++ {
			a[i], b[i] = b[p], a[p]
		}
	}
	third := []byte("~third~key~") // differs from a and b at content byte 0 and in length class
	encRef := func(k []byte) []byte {
		if kind == 0 {
			return refcbor.EncText(string(k))
		}
		return refcbor.EncBytes(k)
	}
	entry := func(k []byte, v uint64) (*cbor.MapEntryEncoder, refcbor.KV) {
		kk := append([]byte{}, k...)
		me := cbor.GenerateMapEntry(func(ke, ve *cbor.Encoder) {
			if kind == 0 {
				ke.EncodeTextString(string(kk))
			} else {
				ke.EncodeByteString(kk)
			}
			ve.EncodeUint(v)
		})
		return me, refcbor.KV{K: encRef(kk), V: refcbor.EncUint(v)}
	}
	var order [][]byte
	switch arr {
	case 0:
		order = [][]byte{a, b}
	case 1:
		order = [][]byte{b, a}
	case 2:
		order = [][]byte{a, third, b}
	default:
		order = [][]byte{b, third, a}
	}
	var mes []*cbor.MapEntryEncoder
	var kvs []refcbor.KV
	for i, k := range order {
		v := uint64(i + 1)
		if bytes.Equal(k, a) {
			v = 100
		} else if bytes.Equal(k, b) {
			v = 200
		}
		me, kv := entry(k, v)
		mes = append(mes, me)
		kvs = append(kvs, kv)
	}
	want, rerr := refcbor.EncMap(kvs)
	var got bytes.Buffer
	err := cbor.NewEncoder(&got).EncodeMap(mes)
	desc := fmt.Sprintf("EncodeMap keys kind=%d la=%d lb=%d firstdiff=%d dir=%d arrangement=%d", kind, la, lb, p, dir, arr)
	c.Eval()
	c.Transitions(1)
	c.State([]byte(desc))
	c.Nontrivial([]byte(desc))
	if rerr != nil {
		if err != cbor.ErrDuplicatedKey {
			c.Outcome("VIOLATION equal keys accepted")
			c.Fail("C11/key-pairs:dup:"+desc, "map with two equal keys must be refused with ErrDuplicatedKey", desc, "ErrDuplicatedKey", fmt.Sprintf("err=%v out=%s", err, hx(got.Bytes())))
			return
		}
		c.Outcome("equal keys refused")
		return
	}
	if err != nil || !bytes.Equal(got.Bytes(), want) {
		c.Outcome("VIOLATION key order")
		c.Fail("C11/key-pairs:"+desc, "map output differs from the canonical reference encoding", desc, hx(want), fmt.Sprintf("%s err=%v", hx(got.Bytes()), err))
		return
	}
	if p == m {
		c.Outcome("prefix pair encoded canonically")
	} else {
		c.Outcome("differing pair encoded canonically")
	}
}

func init() {
	p := props["C11"]
	p.Harnesses = append(p.Harnesses, &mc.Harness{Name: "C11/key-pairs", Run: c11KeyPairs})
	p.Rule += " C11/key-pairs: two text / byte-string keys of every content length 0..33 (thorough 0..40), and of lengths around 64, 128 and 256, x every position of their first difference (or prefix / equal) x either side smaller x 4 arrangements (both orders, with and without a third key between them)."
}
